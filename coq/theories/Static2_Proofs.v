(* Static2_Proofs.v — facts about the static phase (Static2.v): every failing check fires before set_header (and the
   engine's loop is never entered: no pull, no write, no finish), a passing static phase ends with exactly one set_header,
   the class of every check, agreement of the two ports on bound input, and agreement with Engine.static_check. *)
From RBQL Require Import Base Value Expr Writers Join Agg Engine Static2.

(* ---- generic facts about run_steps ---- *)

Lemma in_repeat_eq : forall (T : Type) (x y : T) n, In x (repeat y n) -> x = y.
Proof. intros T x y n H. apply repeat_spec in H. exact H. Qed.

Lemma run_steps_no_header : forall l tr x,
  forallb step_ok l = true -> run_steps l = (tr, x) -> ~ In ESetHeader tr.
Proof.
  induction l as [|s l IH]; intros tr x Hok Hr.
  - cbn in Hr. inversion Hr; subst. intros [].
  - cbn [forallb] in Hok. apply andb_true_iff in Hok. destruct Hok as [Hs Hl].
    destruct s as [e|n e|bad c tag nr]; cbn [run_steps] in Hr.
    + destruct (run_steps l) as [tr' x'] eqn:E. inversion Hr; subst.
      intros [H|H].
      * subst e. cbn in Hs. discriminate.
      * exact (IH tr' x Hl eq_refl H).
    + destruct (run_steps l) as [tr' x'] eqn:E. inversion Hr; subst.
      intros H. apply in_app_or in H. destruct H as [H|H].
      * apply in_repeat_eq in H. subst e. cbn in Hs. discriminate.
      * exact (IH tr' x Hl eq_refl H).
    + destruct bad.
      * inversion Hr; subst. intros [].
      * exact (IH tr x Hl Hr).
Qed.

(* a failure is the failure of one of the checks of the list *)
Lemma run_steps_error_from_check : forall l tr c tag nr,
  run_steps l = (tr, Some (c, tag, nr)) -> In (Check true c tag nr) l.
Proof.
  induction l as [|s l IH]; intros tr c tag nr Hr.
  - cbn in Hr. inversion Hr.
  - destruct s as [e|n e|bad c' tag' nr']; cbn [run_steps] in Hr.
    + destruct (run_steps l) as [tr' x'] eqn:E. inversion Hr; subst. right. exact (IH tr' c tag nr eq_refl).
    + destruct (run_steps l) as [tr' x'] eqn:E. inversion Hr; subst. right. exact (IH tr' c tag nr eq_refl).
    + destruct bad.
      * inversion Hr; subst. left. reflexivity.
      * right. exact (IH tr c tag nr Hr).
Qed.

Lemma run_steps_app_fail : forall l1 l2 tr e,
  run_steps l1 = (tr, Some e) -> run_steps (l1 ++ l2) = (tr, Some e).
Proof.
  induction l1 as [|s l IH]; intros l2 tr e Hr.
  - cbn in Hr. inversion Hr.
  - destruct s as [ev|n ev|bad c tag nr]; cbn [run_steps app] in *.
    + destruct (run_steps l) as [tr' x'] eqn:E. inversion Hr; subst. rewrite (IH l2 tr' e eq_refl). reflexivity.
    + destruct (run_steps l) as [tr' x'] eqn:E. inversion Hr; subst. rewrite (IH l2 tr' e eq_refl). reflexivity.
    + destruct bad; [exact Hr | exact (IH l2 tr e Hr)].
Qed.

Lemma run_steps_app_pass : forall l1 l2 tr,
  run_steps l1 = (tr, None) -> run_steps (l1 ++ l2) = (tr ++ fst (run_steps l2), snd (run_steps l2)).
Proof.
  induction l1 as [|s l IH]; intros l2 tr Hr.
  - cbn in Hr. inversion Hr; subst. cbn. destruct (run_steps l2); reflexivity.
  - destruct s as [ev|n ev|bad c tag nr]; cbn [run_steps app] in *.
    + destruct (run_steps l) as [tr' x'] eqn:E. inversion Hr; subst. rewrite (IH l2 tr' eq_refl). reflexivity.
    + destruct (run_steps l) as [tr' x'] eqn:E. inversion Hr; subst. rewrite (IH l2 tr' eq_refl).
      rewrite app_assoc. reflexivity.
    + destruct bad; [inversion Hr | exact (IH l2 tr Hr)].
Qed.

(* ---- the steps of shallow_parse_input_query ---- *)

Lemma pre_steps_ok : forall r, forallb step_ok (pre_steps r) = true.
Proof.
  intros r. unfold pre_steps, input_steps, join_steps, tail_steps.
  destruct (r_port r); destruct (r_bound r); destruct (r_from r) as [[|]|];
    destruct (r_join r) as [j|]; try destruct (j_short j);
    destruct (stmt_is_update (r_stmt r)); reflexivity.
Qed.

(* every failing check fires before set_header *)
Lemma static2_before_header : forall r tr e, static2 r = (tr, Some e) -> ~ In ESetHeader tr.
Proof.
  intros r tr e H. unfold static2, steps in H.
  destruct (run_steps (pre_steps r)) as [tr0 x0] eqn:E.
  destruct x0 as [e0|].
  - rewrite (run_steps_app_fail _ [Emit ESetHeader] _ _ E) in H. inversion H; subst.
    exact (run_steps_no_header _ _ _ (pre_steps_ok r) E).
  - rewrite (run_steps_app_pass _ [Emit ESetHeader] _ E) in H. cbn in H. inversion H.
Qed.

(* a static phase that passes calls set_header exactly once, as its last act *)
Lemma static2_pass_header_last : forall r tr, static2 r = (tr, None) ->
  exists tr0, tr = tr0 ++ [ESetHeader] /\ ~ In ESetHeader tr0.
Proof.
  intros r tr H. unfold static2, steps in H.
  destruct (run_steps (pre_steps r)) as [tr0 x0] eqn:E.
  destruct x0 as [e0|].
  - rewrite (run_steps_app_fail _ [Emit ESetHeader] _ _ E) in H. inversion H.
  - rewrite (run_steps_app_pass _ [Emit ESetHeader] _ E) in H. cbn in H. inversion H; subst.
    exists tr0. split; [reflexivity | exact (run_steps_no_header _ _ _ (pre_steps_ok r) E)].
Qed.

Lemma eclass_eqb_eq : forall a b, eclass_eqb a b = true -> a = b.
Proof. intros a b H. destruct a; destruct b; try reflexivity; discriminate. Qed.

(* the class of the failing check is the class of its tag; only the join-build failure carries a record number *)
Lemma static2_class : forall r tr c tag nr, static2 r = (tr, Some (c, tag, nr)) ->
  c = class_of_tag tag /\ (nr <> 0%nat -> tag = 28%N).
Proof.
  intros r tr c tag nr H. unfold static2, steps in H.
  apply run_steps_error_from_check in H.
  assert (Hok : forallb step_ok (pre_steps r ++ [Emit ESetHeader]) = true
                \/ In (Check true c tag nr) (pre_steps r)).
  { apply in_app_or in H. destruct H as [H|H]; [right; exact H|].
    cbn in H. destruct H as [H|[]]. discriminate. }
  destruct Hok as [Hok|Hin].
  - rewrite forallb_app in Hok. cbn in Hok. rewrite andb_false_r in Hok. discriminate.
  - pose proof (pre_steps_ok r) as Hall. rewrite forallb_forall in Hall.
    specialize (Hall _ Hin). cbn [step_ok] in Hall. apply andb_true_iff in Hall. destruct Hall as [Hc Hn].
    split; [exact (eclass_eqb_eq _ _ Hc)|].
    intros Hnr. apply orb_true_iff in Hn. destruct Hn as [Hn|Hn].
    + apply N.eqb_eq in Hn. exact Hn.
    + apply Nat.eqb_eq in Hn. contradiction.
Qed.

(* the two ports run the same checks in the same order whenever the caller hands over the input iterator *)
Definition with_port (p : port) (r : sreq) : sreq :=
  {| r_port := p; r_bound := r_bound r; r_from := r_from r; r_stmt := r_stmt r; r_vars_ok := r_vars_ok r;
     r_names_ok := r_names_ok r; r_hdr := r_hdr r; r_order := r_order r; r_group := r_group r; r_join := r_join r;
     r_where_assign := r_where_assign r; r_upd_unknown := r_upd_unknown r; r_limit_bad := r_limit_bad r;
     r_except := r_except r |}.

Lemma static2_ports_agree : forall r, r_bound r = true -> static2 (with_port PPy r) = static2 (with_port PJs r).
Proof.
  intros r Hb. unfold static2, steps, pre_steps, input_steps. cbn. rewrite Hb. reflexivity.
Qed.

(* ---- agreement with the engine model's static_check on requests that have no mistake of the new kinds ---- *)
Section Refine.
Variable expr : Type.

Lemma join_steps_pass : forall (r : sreq),
  (match r_join r with
   | Some j => j_registry j = true /\ j_found j = true /\ j_vars_ok j = true /\ j_hdr j = r_hdr r /\ j_keys_ok j = true /\ j_short j = None
   | None => True end) ->
  exists tr, run_steps (join_steps r) = (tr, None).
Proof.
  intros r H. unfold join_steps. destruct (r_join r) as [j|].
  - destruct H as (H1 & H2 & H3 & H4 & H5 & H6). rewrite H1, H2, H3, H4, H5, H6. rewrite xorb_nilpotent.
    cbn. eexists. reflexivity.
  - eexists. reflexivity.
Qed.

Lemma pre_steps_refine : forall (r : sreq) (q : query expr),
  coherent r q -> clean r ->
  snd (run_steps (pre_steps r)) = option_map (fun t => (CParsing, t, 0%nat)) (static_check q).
Proof.
  intros r q Hco Hcl.
  destruct Hco as (Ho & Hg & Hu & Hsb & Hj & He).
  destruct Hcl as (Hin & Hv & Hn & Hjn & Hw & Huu & Hl & Hex).
  assert (Hinput : exists tri, run_steps (input_steps r) = (tri, None)).
  { unfold input_steps. destruct (r_port r) eqn:Ep; [|eexists; reflexivity].
    destruct (r_bound r) eqn:Eb; [eexists; reflexivity|].
    destruct Hin as [Hin|[Hin|Hin]]; try discriminate. rewrite Hin. eexists; reflexivity. }
  destruct Hinput as [tri Hinput].
  destruct (join_steps_pass r Hjn) as [trj Hjoin].
  unfold pre_steps, static_check.
  rewrite Hsb. cbn [app run_steps].
  rewrite (run_steps_app_pass _ _ _ Hinput). cbn [snd].
  rewrite Hn, Hv, Ho, Hg, Hu. cbn [negb app run_steps].
  destruct (run_steps _) as [tr0 x0] eqn:E0. cbn [snd].
  revert E0.
  destruct (q_order q) as [ord|]; destruct (is_update q) eqn:Eu; destruct (q_group q) as [grp|];
    cbn [andb orb]; try (intros E0; inversion E0; reflexivity).
  all: rewrite (run_steps_app_pass _ _ _ Hjoin); cbn [app run_steps]; rewrite Hw; unfold tail_steps; rewrite Hu.
  all: try (assert (Hk : exists asg, q_kind q = QUpdate asg)
              by (unfold is_update in Eu; destruct (q_kind q); try discriminate; eexists; reflexivity);
            destruct Hk as [asg Hk]; rewrite Hk, Huu; cbn; intros E0; inversion E0; reflexivity).
  all: rewrite Hl; cbn [run_steps];
       destruct (r_join r) as [j|]; destruct (q_join q) as [js|]; try contradiction;
       destruct (r_except r) as [[|]|]; destruct (q_kind q) eqn:Ek; try contradiction; try congruence;
       try (unfold is_update in Eu; rewrite Ek in Eu; discriminate);
       cbn; intros E0; inversion E0; reflexivity.
Qed.

Lemma static2_refines_static_check : forall (r : sreq) (q : query expr),
  coherent r q -> clean r ->
  snd (static2 r) = option_map (fun t => (CParsing, t, 0%nat)) (static_check q).
Proof.
  intros r q Hco Hcl. pose proof (pre_steps_refine r q Hco Hcl) as H.
  unfold static2, steps.
  destruct (run_steps (pre_steps r)) as [tr x] eqn:E. cbn [snd] in H.
  destruct x as [e|].
  - rewrite (run_steps_app_fail _ _ _ _ E). exact H.
  - rewrite (run_steps_app_pass _ _ _ E). cbn. exact H.
Qed.
End Refine.

(* ---- the whole query ---- *)
Section Whole.
Variable expr : Type.
Variable eval : env -> expr -> res val.

Lemma query2_static_failure : forall w r (q : query expr) hdr A B tr c tag nr,
  static2 r = (tr, Some (c, tag, nr)) ->
  query2 eval w r q hdr A B
    = (tr, {| o_chain := chain_init; o_pulls := 0;
              o_error := Some (c, nr, match c with CRuntime => XRuntime tag | _ => XParsing tag end) |})
  /\ ~ In ESetHeader tr /\ c = class_of_tag tag /\ (nr <> 0%nat -> tag = 28%N).
Proof.
  intros w r q hdr A B tr c tag nr H. unfold query2. rewrite H.
  split; [reflexivity|]. split; [exact (static2_before_header _ _ _ H)|exact (static2_class _ _ _ _ _ H)].
Qed.
End Whole.
