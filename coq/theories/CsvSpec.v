(* CsvSpec.v — the declarative CSV line dialect (the specification side of C10 / C11).
   Nothing here refers to the scanner or the loops of Csv.v, except the Base string primitives. *)
From RBQL Require Import Base Csv.

(* ---------------------------------------------------------------- delimiters *)

(* Delimiters for which the quoted dialect is well defined: non-empty, no double quote, and - because
   a quoted field may be followed by spaces when the delimiter is not exactly one space - not starting
   with a space unless it IS one space. *)
Definition good_quoted_dlm (dlm : str) : bool :=
  match dlm with
  | [] => false
  | c :: _ => negb (has QT dlm) && (negb (N.eqb c SP) || dlm_is_space dlm)
  end.

Definition good_dlm (pol : policy) (dlm : str) : bool :=
  match pol with
  | Simple => match dlm with [] => false | _ => true end
  | Quoted | QuotedRfc => good_quoted_dlm dlm
  | Whitespace => dlm_is_space dlm
  | Monocolumn => true
  end.

(* ---------------------------------------------------------------- the quoted-field grammar *)

(* QBody raw u : raw is a sequence of non-quote characters and doubled quotes; u is its unescaping.
   QF ::= QT raw QT *)
Inductive QBody : str -> str -> Prop :=
| QB_nil : QBody [] []
| QB_ch c raw u : c <> QT -> QBody raw u -> QBody (c :: raw) (c :: u)
| QB_qq raw u : QBody raw u -> QBody (QT :: QT :: raw) (QT :: u).

Definition spaces (s : str) : Prop := Forall (fun c => c = SP) s.

(* sp* QF sp* (sp* empty when the delimiter is one space); q is the whole text, u the field value *)
Inductive QField (dlm : str) : str -> str -> Prop :=
| QField_intro sp1 raw u sp2 :
    spaces sp1 -> spaces sp2 -> (dlm = [SP] -> sp1 = [] /\ sp2 = []) -> QBody raw u ->
    QField dlm (sp1 ++ QT :: raw ++ QT :: sp2) u.

(* "at this field start some prefix sp* QF sp* is followed by the delimiter or the end" *)
Definition quoted_start (dlm line : str) : Prop :=
  exists q u rest, QField dlm q u /\ (line = q \/ line = q ++ dlm ++ rest).

(* occurs dlm s: the delimiter occurs somewhere in s *)
Definition occurs (dlm s : str) : Prop := exists a b, s = a ++ dlm ++ b.

(* Split dlm line fields warn — the dialect of the `quoted` policies.
   The empty remainder after a delimiter is one empty field (so is the empty line). *)
Inductive Split (dlm : str) : str -> list str -> bool -> Prop :=
| Split_empty : Split dlm [] [[]] false
| Split_q_last q u :
    QField dlm q u -> Split dlm q [u] false
| Split_q_more q u rest fs w :
    QField dlm q u -> Split dlm rest fs w -> Split dlm (q ++ dlm ++ rest) (u :: fs) w
| Split_u_last line :
    line <> [] -> ~ quoted_start dlm line -> ~ occurs dlm line ->
    Split dlm line [line] (has QT line)
| Split_u_more f rest fs w :
    ~ quoted_start dlm (f ++ dlm ++ rest) ->
    find dlm (f ++ dlm) = Some (length f) ->               (* f runs to the NEXT delimiter *)
    Split dlm rest fs w -> Split dlm (f ++ dlm ++ rest) (f :: fs) (has QT f || w).

(* whitespace policy: fields are the maximal space-free runs *)
Inductive WsSplit : str -> list str -> Prop :=
| Ws_nil sp : spaces sp -> WsSplit sp []
| Ws_cons sp f rest fs :
    spaces sp -> f <> [] -> has SP f = false ->
    (rest = [] \/ exists rest', rest = SP :: rest') ->
    WsSplit rest fs -> WsSplit (sp ++ f ++ rest) (f :: fs).

(* ---------------------------------------------------------------- representability (C10) *)

Definition has_newline (f : str) : bool := has LF f || has CR f.

(* a field written bare must run exactly to the delimiter that follows it: no delimiter inside and no
   partial overlap of its tail with the delimiter (for one character: simply "no delimiter") *)
Definition no_overlap (dlm f : str) : bool :=
  match find dlm (f ++ dlm) with Some i => Nat.eqb i (length f) | None => false end.

(* quoted q fs: q f tells whether field f gets quoted; every bare field must be followed cleanly *)
Fixpoint bare_ok (dlm : str) (q : str -> bool) (fs : list str) : bool :=
  match fs with
  | [] => true
  | [f] => q f || negb (contains dlm f)
  | f :: r => (q f || no_overlap dlm f) && bare_ok dlm q r
  end.

Definition gets_quoted (pol : policy) (dlm f : str) : bool :=
  match pol with
  | Quoted => has QT f || contains dlm f
  | QuotedRfc => has QT f || contains dlm f || has_newline f
  | _ => false
  end.

Definition nonnil {T} (l : list T) : bool := match l with [] => false | _ => true end.

(* what the line dialect needs (line breaks are irrelevant to line splitting) *)
Definition line_ok (pol : policy) (dlm : str) (fs : list str) : bool :=
  match pol with
  | Simple | Quoted | QuotedRfc => nonnil fs && bare_ok dlm (gets_quoted pol dlm) fs
  | Whitespace => forallb (fun f => nonnil f && negb (has SP f)) fs
  | Monocolumn => match fs with [_] => true | _ => false end
  end.

(* line breaks: only quoted_rfc can carry them (inside fields that then get quoted) *)
Definition newline_ok (pol : policy) (fs : list str) : bool :=
  match pol with
  | QuotedRfc => true
  | _ => forallb (fun f => negb (has_newline f)) fs
  end.

Definition representable (pol : policy) (dlm : str) (fs : list str) : bool :=
  line_ok pol dlm fs && newline_ok pol fs.

(* whole tables: every record representable, quoted_rfc keeps LF but a CR comes back as LF, and the
   first output line must not start with what the reader strips as a byte order mark
   (enc: 0 = None (no stripping), 1 = utf-8 (U+FEFF), 2 = latin-1 (EF BB BF)) *)
Definition bom_prefix (enc : N) (line : str) : bool :=
  if N.eqb enc 1 then starts_with [BOMC] line
  else if N.eqb enc 2 then starts_with [239%N; 187%N; 191%N] line
  else false.

(* every record representable and no byte order mark confusion: the table reads back identically up to
   CR / CRLF inside quoted_rfc fields, which come back as LF *)
Definition table_ok (pol : policy) (dlm : str) (enc : N) (rows : list (list str)) : bool :=
  forallb (representable pol dlm) rows
  && match rows with r :: _ => negb (bom_prefix enc (join_line pol dlm r)) | [] => true end.

(* whole tables also need a delimiter without LF / CR (monocolumn never writes the delimiter): otherwise the written
   line is cut by the line splitter of the readers - NOT implied by good_dlm, which is about single lines
   (Table_Proofs.table_roundtrip_nl_dlm_refuted) *)
Definition dlm_nl_free (pol : policy) (dlm : str) : bool :=
  match pol with Monocolumn => true | _ => negb (has_newline dlm) end.

Definition table_representable (pol : policy) (dlm : str) (enc : N) (rows : list (list str)) : bool :=
  table_ok pol dlm enc rows && forallb (fun fs => forallb (fun f => negb (has CR f)) fs) rows.

(* line-break normalisation of the readers: CRLF and CR become LF *)
Fixpoint nl_norm (s : str) : str :=
  match s with
  | [] => []
  | c :: t =>
      if N.eqb c CR then
        match t with
        | d :: t' => if N.eqb d LF then LF :: nl_norm t' else LF :: nl_norm t
        | [] => [LF]
        end
      else c :: nl_norm t
  end.
