(* Pipe.v — CSVWriter's handling of a consumer that goes away (rbql_csv.py CSVWriter.write / finish):
   every record is two stream writes (the joined line, then the line separator); a BrokenPipeError from either
   makes write() return False and sets broken_pipe; finish() then performs no further stream operation.
   The stream is an oracle s : nat -> bool answering its k-th write (true = accepted, false = EPIPE). *)
From RBQL Require Import Base.

Inductive sop := SWrite (text : str) (ok : bool) | SFlush | SClose.

Record pw := { p_ops : list sop (* reversed *); p_n : nat; p_broken : bool }.
Definition pw_init : pw := {| p_ops := []; p_n := 0; p_broken := false |}.

Section P.
Variable s : nat -> bool.
Variable sep : str.

Definition stream_write (st : pw) (t : str) : pw * bool :=
  let ok := s (p_n st) in
  ({| p_ops := SWrite t ok :: p_ops st; p_n := S (p_n st); p_broken := p_broken st |}, ok).

(* CSVWriter.write (after normalisation / quoting produced out_line) *)
Definition csv_write (st : pw) (line : str) : pw * bool :=
  let '(st1, ok1) := stream_write st line in
  if ok1 then
    let '(st2, ok2) := stream_write st1 sep in
    if ok2 then (st2, true)
    else ({| p_ops := p_ops st2; p_n := p_n st2; p_broken := true |}, false)
  else ({| p_ops := p_ops st1; p_n := p_n st1; p_broken := true |}, false).

(* CSVWriter.finish *)
Definition csv_finish (close_on_finish : bool) (st : pw) : pw :=
  if p_broken st then st
  else {| p_ops := (if close_on_finish then SClose else SFlush) :: p_ops st; p_n := p_n st; p_broken := false |}.

(* the engine's protocol on top of it: write lines until one is refused, then finish *)
Fixpoint csv_feed (st : pw) (lines : list str) : pw :=
  match lines with
  | [] => st
  | l :: t => let '(st', ok) := csv_write st l in if ok then csv_feed st' t else st'
  end.

(* CSVWriter.set_header: the header goes through write(), whose result is ignored: a refused header does not stop
   the query; the next write() is attempted (and refused, the pipe staying broken), and that stops it *)
Definition csv_set_header (st : pw) (hdr : option str) : pw :=
  match hdr with None => st | Some h => fst (csv_write st h) end.

Definition csv_run (close_on_finish : bool) (hdr : option str) (lines : list str) : pw :=
  let st := csv_feed (csv_set_header pw_init hdr) lines in
  (* finish() looks at broken_pipe, which a refused header write has set as well *)
  csv_finish close_on_finish st.

End P.

(* text accepted by the stream, in order *)
Definition accepted (st : pw) : list str :=
  flat_map (fun o => match o with SWrite t true => [t] | _ => [] end) (rev (p_ops st)).

(* the stream breaks at its k-th write *)
Definition breaks_at (k : nat) : nat -> bool := fun i => Nat.ltb i k.
