(* Shared_Proofs.v - soundness of the analyser `isolated` of Shared.v: non-interference for every schedule and every history,
   for every expression semantics; a refutation example for a program with one shared write. *)
From RBQL Require Import Base Isolation Shared.

Lemma mem_In : forall x l, mem x l = true -> In x l.
Proof.
  intros x l H. unfold mem in H. apply existsb_exists in H. destruct H as [y [Hin Heq]].
  apply N.eqb_eq in Heq. subst y. exact Hin.
Qed.

Section Sound.
Variables P V Y : Type.
Variable rd : N -> V -> P -> option P.
Variable loc : N -> P -> option P.
Variable tst : N -> P -> bool.
Variable wr : N -> P -> V.
Variable mu : N -> V -> P -> V.
Variable out : N -> P -> Y.
Variable truthy : V -> bool.
Variable pr : prog.
Variable off : list cell.

Notation step := (step P V Y rd loc tst wr mu out truthy pr).
Notation solo := (solo P V Y rd loc tst wr mu out truthy pr).
Notation run2 := (run2 P V Y rd loc tst wr mu out truthy pr).
Notation run_hist := (run_hist P V Y rd loc tst wr mu out truthy pr).
Notation solo_result := (solo_result P V Y rd loc tst wr mu out truthy pr).
Notation cfg := (cfg P Y).
Notation start := (start P Y).

Definition kont_ok (R : list fid) (c : cfg) : Prop := forallb (stmt_ok off R) (c_kont P Y c) = true.
(* the flags in `off` are false in the store *)
Definition flags_off (g : cell -> V) : Prop := forall c, mem c off = true -> truthy (g c) = false.

Lemma closed_body : forall R f, closed off pr R = true -> mem f R = true -> forallb (stmt_ok off R) (body_of pr f) = true.
Proof.
  intros R f Hc Hm. unfold closed in Hc. rewrite forallb_forall in Hc.
  specialize (Hc f (mem_In f R Hm)). apply andb_true_iff in Hc. exact (proj2 Hc).
Qed.

(* the frame lemma: a step of a query whose continuation is write-free leaves the store alone and stays write-free *)
Lemma step_frame : forall R g c, closed off pr R = true -> flags_off g -> kont_ok R c ->
  fst (step g c) = g /\ kont_ok R (snd (step g c)).
Proof.
  intros R g c Hc Hoff Hk. unfold kont_ok in *. unfold Shared.step.
  destruct (c_kont P Y c) as [|s k] eqn:Ek.
  - cbn [fst snd]. rewrite Ek. split; reflexivity.
  - cbn [forallb] in Hk. apply andb_true_iff in Hk. destruct Hk as [Hs Hk].
    destruct s as [x t|t|t|x t|x t|f|t a b|t b|x b].
    + destruct (rd t (g x) (c_priv P Y c)); cbn [fst snd c_kont failed]; split; try reflexivity; exact Hk.
    + destruct (loc t (c_priv P Y c)); cbn [fst snd c_kont failed]; split; try reflexivity; exact Hk.
    + cbn [fst snd c_kont]. split; [reflexivity | exact Hk].
    + cbn [stmt_ok] in Hs. discriminate Hs.
    + cbn [stmt_ok] in Hs. discriminate Hs.
    + cbn [stmt_ok] in Hs. cbn [fst snd c_kont]. split; [reflexivity|].
      rewrite forallb_app. rewrite (closed_body R f Hc Hs). exact Hk.
    + cbn [stmt_ok] in Hs. apply andb_true_iff in Hs. destruct Hs as [Ha Hb].
      cbn [fst snd c_kont]. split; [reflexivity|].
      rewrite forallb_app. destruct (tst t (c_priv P Y c)); [rewrite Ha | rewrite Hb]; exact Hk.
    + cbn [stmt_ok] in Hs. cbn [fst snd c_kont]. split; [reflexivity|].
      destruct (tst t (c_priv P Y c)); [|exact Hk].
      rewrite forallb_app. rewrite Hs. cbn [forallb stmt_ok andb]. rewrite Hs. exact Hk.
    + cbn [stmt_ok] in Hs. cbn [fst snd c_kont]. split; [reflexivity|].
      destruct (mem x off) eqn:Em.
      * rewrite (Hoff x Em). exact Hk.
      * cbn [orb] in Hs. destruct (truthy (g x)); [|exact Hk]. rewrite forallb_app. rewrite Hs. exact Hk.
Qed.

Lemma solo_frame : forall R n g c, closed off pr R = true -> flags_off g -> kont_ok R c ->
  fst (solo n g c) = g /\ kont_ok R (snd (solo n g c)).
Proof.
  intros R n. induction n as [|n IH]; intros g c Hc Hoff Hk.
  - cbn [Shared.solo fst snd]. split; [reflexivity | exact Hk].
  - cbn [Shared.solo]. destruct (step_frame R g c Hc Hoff Hk) as [Hg Hk'].
    destruct (step g c) as [g' c'] eqn:Es. cbn [fst snd] in Hg, Hk'. subst g'.
    exact (IH g c' Hc Hoff Hk').
Qed.

Lemma solo_S : forall R n g c, closed off pr R = true -> flags_off g -> kont_ok R c ->
  snd (solo (S n) g c) = snd (solo n g (snd (step g c))).
Proof.
  intros R n g c Hc Hoff Hk. cbn [Shared.solo]. destruct (step_frame R g c Hc Hoff Hk) as [Hg _].
  destruct (step g c) as [g' c'] eqn:Es. cbn [fst snd] in *. subst g'. reflexivity.
Qed.

(* every schedule: the store is unchanged, each query is where its solo run (as many steps as the schedule gave it) is *)
Theorem interleaving_frame : forall R1 R2 sched g c1 c2,
  closed off pr R1 = true -> closed off pr R2 = true -> flags_off g -> kont_ok R1 c1 -> kont_ok R2 c2 ->
  run2 sched g c1 c2 = (g, snd (solo (count_true sched) g c1), snd (solo (count_false sched) g c2)).
Proof.
  intros R1 R2 sched. induction sched as [|b sched IH]; intros g c1 c2 H1 H2 Hoff K1 K2.
  - reflexivity.
  - destruct b; cbn [Shared.run2].
    + destruct (step_frame R1 g c1 H1 Hoff K1) as [Hg Hk].
      assert (Hs := solo_S R1 (count_true sched) g c1 H1 Hoff K1).
      destruct (step g c1) as [g' c1'] eqn:Es. cbn [fst snd] in Hg, Hk, Hs. subst g'.
      rewrite (IH g c1' c2 H1 H2 Hoff Hk K2).
      replace (count_true (true :: sched)) with (S (count_true sched)) by reflexivity.
      replace (count_false (true :: sched)) with (count_false sched) by reflexivity.
      rewrite Hs. reflexivity.
    + destruct (step_frame R2 g c2 H2 Hoff K2) as [Hg Hk].
      assert (Hs := solo_S R2 (count_false sched) g c2 H2 Hoff K2).
      destruct (step g c2) as [g' c2'] eqn:Es. cbn [fst snd] in Hg, Hk, Hs. subst g'.
      rewrite (IH g c1 c2' H1 H2 Hoff K1 Hk).
      replace (count_true (false :: sched)) with (count_true sched) by reflexivity.
      replace (count_false (false :: sched)) with (S (count_false sched)) by reflexivity.
      rewrite Hs. reflexivity.
Qed.

Lemma isolated_start : forall e p, isolated off pr e = true ->
  closed off pr (reach_of off pr e) = true /\ kont_ok (reach_of off pr e) (start e p).
Proof.
  intros e p H. unfold isolated in H. apply andb_true_iff in H. destruct H as [Hm Hc].
  split; [exact Hc|]. unfold kont_ok, Shared.start. cbn [c_kont forallb stmt_ok]. rewrite Hm. reflexivity.
Qed.

Theorem ir_interleaving : forall e1 e2, isolated off pr e1 = true -> isolated off pr e2 = true ->
  forall sched g p1 p2, flags_off g ->
  run2 sched g (start e1 p1) (start e2 p2) =
  (g, snd (solo (count_true sched) g (start e1 p1)), snd (solo (count_false sched) g (start e2 p2))).
Proof.
  intros e1 e2 H1 H2 sched g p1 p2 Hoff.
  destruct (isolated_start e1 p1 H1) as [C1 K1]. destruct (isolated_start e2 p2 H2) as [C2 K2].
  exact (interleaving_frame _ _ sched g _ _ C1 C2 Hoff K1 K2).
Qed.

(* a solo run of an isolated entry point leaves the store as it found it (so "solo from the same initial store" is the run in a
   fresh interpreter) *)
Theorem ir_solo_store : forall e, isolated off pr e = true -> forall n g p, flags_off g -> fst (solo n g (start e p)) = g.
Proof.
  intros e H n g p Hoff. destruct (isolated_start e p H) as [C K]. exact (proj1 (solo_frame _ n g _ C Hoff K)).
Qed.

Theorem ir_history : forall qs, (forall q, In q qs -> isolated off pr (fst (fst q)) = true) ->
  forall g, flags_off g -> run_hist g qs = (g, map (solo_result g) qs).
Proof.
  induction qs as [|q qs IH]; intros Hall g Hoff.
  - reflexivity.
  - destruct q as [[e p] n]. cbn [Shared.run_hist map Shared.solo_result].
    assert (He : isolated off pr e = true) by (exact (Hall (e, p, n) (or_introl eq_refl))).
    assert (Hg := ir_solo_store e He n g p Hoff).
    destruct (solo n g (start e p)) as [g' c] eqn:Es. cbn [fst snd] in Hg. subst g'.
    rewrite (IH (fun q Hq => Hall q (or_intror Hq)) g Hoff). cbn [snd]. reflexivity.
Qed.

End Sound.

(* ---------------------------------------------------------------- examples: non-vacuity and refutation *)

Notation ex_run2 p := (run2 N N N ex_rd ex_loc ex_tst ex_wr ex_mu ex_out ex_truthy p).
Notation ex_solo p := (solo N N N ex_rd ex_loc ex_tst ex_wr ex_mu ex_out ex_truthy p).
Notation ex_hist p := (run_hist N N N ex_rd ex_loc ex_tst ex_wr ex_mu ex_out ex_truthy p).

Lemma ex_clean_isolated : isolated [] ex_clean 1%N = true /\ isolated [] ex_clean 2%N = true /\
  read_set [] ex_clean 1%N = [0%N; 1%N] /\ write_set [] ex_clean 1%N = [].
Proof. vm_compute. repeat split; reflexivity. Qed.

(* the verdict `false` is meaningful: the leaky program is rejected, and there is a schedule under which the reader's output
   differs from its solo output (and the store is changed) *)
Lemma ex_leaky_refuted :
  isolated [] ex_leaky 2%N = false /\ write_set [] ex_leaky 2%N = [0%N] /\
  exists sched,
    c_outs N N (snd (ex_run2 ex_leaky sched ex_store (start N N 1%N 0%N) (start N N 2%N 0%N)))
    <> c_outs N N (snd (ex_solo ex_leaky (count_true sched) ex_store (start N N 1%N 0%N)))
    /\ fst (fst (ex_run2 ex_leaky sched ex_store (start N N 1%N 0%N) (start N N 2%N 0%N))) 0%N <> ex_store 0%N.
Proof.
  split; [reflexivity|]. split; [reflexivity|].
  exists [false; false; true; true; true]. vm_compute. split; discriminate.
Qed.

(* a history in which the first query FAILS (at its SLocal 9: its private state is above 100) after it has read the shared cells
   and emitted: the store is unchanged and the second query yields its solo result *)
Lemma ex_history_with_error :
  let qs := [(1%N, 101%N, 40%nat); (1%N, 0%N, 200%nat)] in
  map (c_err N N) (snd (ex_hist ex_clean ex_store qs)) = [true; false] /\
  snd (ex_hist ex_clean ex_store qs) = map (solo_result N N N ex_rd ex_loc ex_tst ex_wr ex_mu ex_out ex_truthy ex_clean ex_store) qs /\
  map (fun c => length (c_outs N N c)) (snd (ex_hist ex_clean ex_store qs)) = [0%nat; 4%nat].
Proof. vm_compute. repeat split; reflexivity. Qed.

(* the guarded program: rejected without the assumption, accepted under "flag 7 is off"; ex_store has the flag off; and when the
   flag is ON the write happens (so the assumption is needed, not decoration) *)
Lemma ex_guarded_facts :
  isolated [] ex_guarded 1%N = false /\ isolated [7%N] ex_guarded 1%N = true /\ write_set [7%N] ex_guarded 1%N = [] /\
  (forall c, mem c [7%N] = true -> ex_truthy (ex_store c) = false) /\
  fst (ex_solo ex_guarded 10%nat (fun c => if N.eqb c 7%N then 1%N else ex_store c) (start N N 1%N 0%N)) 0%N <> ex_store 0%N.
Proof.
  split; [reflexivity|]. split; [reflexivity|]. split; [reflexivity|]. split.
  - intros c H. unfold mem in H. cbn [existsb orb] in H. rewrite orb_false_r in H. apply N.eqb_eq in H. subst c. reflexivity.
  - vm_compute. discriminate.
Qed.
