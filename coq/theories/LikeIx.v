(* LikeIx.v — the second tie of C17 (task gen2): what harness/translate_fn.py (job `like`) targets when it regenerates
   Gallina definitions from like_to_regex of rbql-py/rbql/rbql_engine.py and like_to_regex / regexp_escape of rbql-js/rbql.js.
   1. further source-level primitives beside PyStr.v / JsStr.v: s[i] on a string, s.charAt(i), range(a, b), re.escape,
      s.replace(/[class]/g, 'pre$&post');
   2. the INDEX-style hand models ix_like_to_regex / jsix_regexp_escape / jsix_like_to_regex: the translator's output on the
      reviewed sources (translate_fn.py --print ix_ like py, --print jsix_ like js), read against the sources and committed.
      They produce the pattern TEXT (Like.like_to_regex produces the token list);
   3. the reading of that text: [render] (token list -> text) and [parse_pattern] (text -> token list) for the fragment of
      the regular-expression syntax that like_to_regex emits: an anchor, escaped characters, plain non-special characters, a
      dot, a dot followed by a star, the end anchor.  Everything else is not read (None): the parser under-approximates the
      engines.  That Python's re and V8 (u flag) read such a text this way is modelled, not verified (DESIGN 3.2).
   NO proofs in this file (LikeIx_Proofs.v). *)
From RBQL Require Import Base Csv PyStr JsStr Like.

(* s[i] for a string (Python): a one-character string; the empty string where Python raises IndexError *)
Definition py_str_item (s : str) (i : Z) : str :=
  let j := py_pos (length s) i in
  if (j <? 0)%Z then [] else match nth_error s (Z.to_nat j) with Some c => [c] | None => [] end.

(* s.charAt(i): the empty string outside the string *)
Definition js_charat (s : str) (i : Z) : str :=
  if (i <? 0)%Z then [] else match nth_error s (Z.to_nat i) with Some c => [c] | None => [] end.

(* range(a, b); also the values of i in  `while i < b: ..; i += 1`  entered with i = a *)
Definition py_range_from (a b : Z) : list Z := map (fun k => (a + Z.of_nat k)%Z) (seq 0 (Z.to_nat (b - a))).

(* s.replace(/[cls]/g, pre + '$&' + post): every character of the class is wrapped, the others stand *)
Definition escape_class (cls : list ch) (pre post s : str) : str :=
  flat_map (fun c => if existsb (N.eqb c) cls then pre ++ c :: post else [c]) s.

(* re.escape of CPython 3.7 .. 3.13 (re._special_chars_map): a backslash before each of
   ( ) [ ] { } ? * + - | ^ $ backslash . & ~ # space TAB LF CR VT FF *)
Definition py_re_special : list ch := [40; 41; 91; 93; 123; 125; 63; 42; 43; 45; 124; 94; 36; 92; 46; 38; 126; 35; 32; 9; 10; 13; 11; 12]%N.
Definition py_re_escape (s : str) : str := escape_class py_re_special [92%N] [] s.

(* ---------------------------------------------------------------- index models (the translator's output, committed) *)

Definition ix_like_to_regex (pattern : str) :=
  let p := 0%Z in
  let i := 0%Z in
  let converted := (@nil ch) in
  let '(converted, p) := fold_left (fun '(converted, p) i =>
      let '(converted, p) :=
        if ((str_eqb (py_str_item pattern i) [95%N]) || (str_eqb (py_str_item pattern i) [37%N])) then
          let converted := (converted ++ (py_re_escape (py_slice pattern (Some p) (Some i)))) in
          let p := (i + 1%Z)%Z in
          let converted :=
            if (str_eqb (py_str_item pattern i) [95%N]) then
              (converted ++ [46%N])
            else
              (converted ++ [46%N; 42%N]) in
          (converted, p)
        else
          (converted, p) in
      (converted, p))
    (py_range_from i (zlen pattern)) (converted, p) in
  let i := (Z.max i (zlen pattern)) in
  let converted := (converted ++ (py_re_escape (py_slice pattern (Some p) (Some i)))) in
  (([94%N] ++ converted) ++ [36%N]).

Definition jsix_regexp_escape (text : str) :=
  (escape_class [46%N; 42%N; 43%N; 63%N; 94%N; 36%N; 123%N; 125%N; 40%N; 41%N; 124%N; 91%N; 93%N; 92%N] [92%N] (@nil ch) text).

Definition jsix_like_to_regex (pattern : str) :=
  let p := 0%Z in
  let i := 0%Z in
  let converted := (@nil ch) in
  let '(converted, p) := fold_left (fun '(converted, p) i =>
      let '(converted, p) :=
        if ((str_eqb (js_charat pattern i) [95%N]) || (str_eqb (js_charat pattern i) [37%N])) then
          let converted := (converted ++ (jsix_regexp_escape (js_substring pattern p (Some i)))) in
          let p := (i + 1%Z)%Z in
          let converted :=
            if (str_eqb (js_charat pattern i) [95%N]) then
              (converted ++ [46%N])
            else
              (converted ++ [46%N; 42%N]) in
          (converted, p)
        else
          (converted, p) in
      (converted, p))
    (py_range_from i (zlen pattern)) (converted, p) in
  let i := (Z.max i (zlen pattern)) in
  let converted := (converted ++ (jsix_regexp_escape (js_substring pattern p (Some i)))) in
  (([94%N] ++ converted) ++ [36%N]).

(* the common shape of the two (what the proofs are about): item = s[i] / s.charAt(i), slice = s[p:i] / s.substring(p, i) *)
Definition like_step (item : Z -> str) (slice : Z -> Z -> str) (esc : str -> str) : str * Z -> Z -> str * Z :=
  fun '(converted, p) i =>
      let '(converted, p) :=
        if ((str_eqb (item i) [95%N]) || (str_eqb (item i) [37%N])) then
          let converted := (converted ++ (esc (slice p i))) in
          let p := (i + 1%Z)%Z in
          let converted :=
            if (str_eqb (item i) [95%N]) then
              (converted ++ [46%N])
            else
              (converted ++ [46%N; 42%N]) in
          (converted, p)
        else
          (converted, p) in
      (converted, p).
Definition like_ix_generic (n : Z) (item : Z -> str) (slice : Z -> Z -> str) (esc : str -> str) : str :=
  let '(converted, p) := fold_left (like_step item slice esc) (py_range_from 0%Z n) (@nil ch, 0%Z) in
  (([94%N] ++ (converted ++ esc (slice p (Z.max 0%Z n)))) ++ [36%N]).

(* ---------------------------------------------------------------- the pattern text and its reading *)

Definition render_tok (esc : str -> str) (t : rtok) : str :=
  match t with RLit s => esc s | RDot => [46%N] | RStar => [46%N; 42%N] end.
Definition render (esc : str -> str) (r : list rtok) : str := ([94%N] ++ flat_map (render_tok esc) r) ++ [36%N].

(* the characters with a syntactic meaning outside a class:  . ^ $ * + ? { } [ ] backslash | ( ) *)
Definition rx_meta : list ch := [46; 94; 36; 42; 43; 63; 123; 125; 91; 93; 92; 124; 40; 41]%N.
Definition ascii_alnum (c : ch) : bool :=
  ((48 <=? c) && (c <=? 57) || (65 <=? c) && (c <=? 90) || (97 <=? c) && (c <=? 122))%N.
(* backslash c stands for c itself: Python - every character that is not an ASCII letter or digit (a letter is a class or an
   error, a digit a group reference); JavaScript with the u flag - only the syntax characters and the slash (IdentityEscape) *)
Definition escapable (fl : flavour) (c : ch) : bool :=
  match fl with
  | Py => negb (ascii_alnum c)
  | Js => existsb (N.eqb c) (47%N :: rx_meta)
  end.

Definition pend (ad : bool) (r : list rtok) : list rtok := if ad then RDot :: r else r.
(* the text after the opening anchor; run = the literal characters read since the last token (reversed); ad = a dot was read
   and it is not yet known whether a star follows it.  A literal run is emitted between any two tokens and at both ends
   (possibly empty), as Like.like_to_regex does. *)
Fixpoint parse_body (fl : flavour) (s run : str) (ad : bool) : option (list rtok) :=
  match s with
  | [] => None
  | c :: t =>
      if N.eqb c 92 then
        match t with
        | d :: t' => if escapable fl d then parse_body fl t' (d :: run) ad else None
        | [] => None
        end
      else if N.eqb c 46 then option_map (fun r => pend ad (RLit (rev run) :: r)) (parse_body fl t [] true)
      else if N.eqb c 42 then
        match ad, run with
        | true, [] => option_map (cons RStar) (parse_body fl t [] false)
        | _, _ => None
        end
      else if N.eqb c 36 then match t with [] => Some (pend ad [RLit (rev run)]) | _ :: _ => None end
      else if existsb (N.eqb c) rx_meta then None
      else parse_body fl t (c :: run) ad
  end.
Definition parse_pattern (fl : flavour) (s : str) : option (list rtok) :=
  match s with
  | c :: t => if N.eqb c 94 then parse_body fl t [] false else None
  | [] => None
  end.

(* re.compile(pattern_text).match(text) is not None  /  new RegExp(pattern_text, 'u').test(text), for a text of the fragment *)
Definition regex_like (fl : flavour) (pattern_text text : str) : bool :=
  match parse_pattern fl pattern_text with Some r => rmatch fl r text | None => false end.
