(* JoinWidth_Proofs.v — the join map the main loop works with (build, then the header adjustment of fix c71773a, D27),
   and what the adjustment buys for the header / record width of LEFT JOIN (C04, C07) *)
From RBQL Require Import Base Value Expr Writers Join Join_Proofs Agg Engine Spec Engine_Proofs Header Header_Proofs Width_Proofs.

Section JW.
Variable expr : Type.
Variable eval : env -> expr -> res val.

(* the map handed to the main loop is build's map, widened by the join header *)
Theorem join_map_of_widen (q : query expr) js B jm :
  q_join q = Some js -> join_map_of expr q B = Some jm ->
  exists m, build (j_rhs js) B = inl m /\ jm = Some (widen (j_bhdr js) m).
Proof.
  intros Hj H. unfold join_map_of in H. rewrite Hj in H.
  destruct (build (j_rhs js) B) as [m|bnr]; [|discriminate]. injection H as <-. exists m. split; reflexivity.
Qed.

(* LEFT JOIN, rectangular join table as wide as its header (possibly EMPTY): every A record gets at least one
   b-side, and every b-side has one field per name of the join header *)
Theorem left_join_matches_width (q : query expr) js B jm (jh : list str) nr a bs :
  q_join q = Some js -> j_kind js = JLeft -> j_bhdr js = Some (length jh) ->
  Forall (fun f => length f = length jh) B ->
  join_map_of expr q B = Some jm ->
  matches_of expr q jm nr a = Ok bs ->
  bs <> [] /\ Forall (fun b => b_width b = length jh) bs.
Proof.
  intros Hj Hk Hh HB Hjm Hm. destruct (join_map_of_widen q js B jm Hj Hjm) as [m [Hb ->]].
  unfold matches_of in Hm. rewrite Hj in Hm. apply bind_ok in Hm. destruct Hm as [k [_ Hg]].
  rewrite Hk, Hh in Hg. destruct (left_join_rect_width (j_rhs js) B m (length jh) k bs Hb HB Hg) as [Hne F].
  split; [exact Hne|]. eapply Forall_impl; [|exact F]. intros b Hbw. destruct b as [| |bnr bnf r]; try contradiction.
  cbn. exact (proj2 Hbw).
Qed.

Lemma offers_matches_width (q : query expr) items nr a : forall ms r,
  q_kind q = QSelect items ->
  offers_matches expr eval q nr a ms = Ok r ->
  forall n, (forall b rows, In b ms -> select_rows eval q (env_of nr a b 0) = Ok rows -> Forall (fun kr => length (snd kr) = n) rows) ->
  Forall (fun kr => length (snd kr) = n) r.
Proof.
  induction ms as [|b ms IH]; intros r Hk H n Hall.
  - cbn in H. injection H as <-. constructor.
  - cbn [offers_matches] in H. apply bind_ok in H. destruct H as [r1 [H1 H]]. apply bind_ok in H. destruct H as [r2 [H2 H]].
    injection H as <-. apply Forall_app. split.
    + apply (Hall b r1); [left; reflexivity | exact H1].
    + apply (IH r2 Hk H2). intros b' rows Hin. apply Hall. right. exact Hin.
Qed.

(* C07 for LEFT JOIN: with headers on both tables, a rectangular input table and a rectangular join table whose
   records are as wide as its header - INCLUDING the join table with a header and no records - every record a
   non-aggregate SELECT offers to its writer has exactly as many fields as the output header has names, for
   matched and for unmatched A records alike ([his] is the header shape of the select list, column for column) *)
Theorem left_join_header_matches_rows (q : query expr) js items his (ih jh : list str) h A B jm offs :
  q_kind q = QSelect items -> q_join q = Some js -> j_kind js = JLeft -> j_bhdr js = Some (length jh) ->
  Forall (fun a => length a = length ih) A -> Forall (fun f => length f = length jh) B ->
  map (hitem_width (length ih) (length jh)) his = map (item_width expr (length ih) (length jh)) items ->
  output_header (Some ih) (Some jh) (HQSelect his false) = HSome h ->
  join_map_of expr q B = Some jm ->
  all_offers expr eval q jm 0 A = Ok offs ->
  Forall (fun kr => length (snd kr) = length h) offs.
Proof.
  intros Hk Hj Hjk Hh HA HB Hsh Hhd Hjm. generalize 0 as nr. revert offs.
  induction A as [|a A IH]; intros offs nr H.
  - cbn in H. injection H as <-. constructor.
  - cbn [all_offers] in H. apply bind_ok in H. destruct H as [ms [Hm H]]. apply bind_ok in H. destruct H as [r [Hr H]].
    apply bind_ok in H. destruct H as [rs [Hrs H]]. injection H as <-.
    inversion HA as [|x l Hx Hl]; subst. apply Forall_app. split.
    + destruct (left_join_matches_width q js B jm jh (S nr) a ms Hj Hjk Hh HB Hjm Hm) as [_ Fw].
      apply (offers_matches_width q items (S nr) a ms r Hk Hr). intros b rows Hin Hsel.
      rewrite Forall_forall in Fw.
      exact (header_matches_rows expr eval q (env_of (S nr) a b 0) items his ih jh h rows Hk Hsel Hsh Hx (Fw b Hin) Hhd).
    + exact (IH Hl rs (S nr) Hrs).
Qed.

(* the instance the finding is about: SELECT b.* - each offered record has exactly len(join header) fields *)
Corollary left_join_star_b_width (q : query expr) js (ih jh : list str) A B jm offs :
  q_kind q = QSelect [IStarB] -> q_join q = Some js -> j_kind js = JLeft -> j_bhdr js = Some (length jh) ->
  Forall (fun a => length a = length ih) A -> Forall (fun f => length f = length jh) B ->
  join_map_of expr q B = Some jm ->
  all_offers expr eval q jm 0 A = Ok offs ->
  output_header (Some ih) (Some jh) (HQSelect [HStarB] false) = HSome jh
  /\ Forall (fun kr => length (snd kr) = length jh) offs.
Proof.
  intros Hk Hj Hjk Hh HA HB Hjm Hoff.
  assert (Hhd : output_header (Some ih) (Some jh) (HQSelect [HStarB] false) = HSome jh) by reflexivity.
  split; [exact Hhd|].
  exact (left_join_header_matches_rows q js [IStarB] [HStarB] ih jh jh A B jm offs Hk Hj Hjk Hh HA HB eq_refl Hhd Hjm Hoff).
Qed.

End JW.
