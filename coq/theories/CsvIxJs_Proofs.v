(* CsvIxJs_Proofs.v — the index-style model of rbql-js/csv_utils.js (CsvIxJs.v = what harness/translate_csv.py regenerates
   from the JavaScript source on every run) equals the model Csv.v, function by function; hence it equals the Python index
   model CsvIx.v wherever both are defined (the C18 statement about the two sources). *)
From RBQL Require Import Base Csv CsvSpec PyStr JsStr CsvIx CsvIxJs CsvStr_Proofs Csv_Proofs CsvLossy_Proofs PyStr_Proofs CsvIx_Proofs.
From RBQL Require Import Utf16 Utf16_Proofs.

(* ================================================================ the JavaScript primitives at positions inside the string *)

Lemma js_clamp_nat n k : (k <= n)%nat -> js_clamp n (Z.of_nat k) = k.
Proof. intros H. unfold js_clamp. lia. Qed.

Lemma js_substring_from s k : (k <= length s)%nat -> js_substring s (Z.of_nat k) None = skipn k s.
Proof.
  intros H. unfold js_substring. rewrite js_clamp_nat by assumption. rewrite Nat.max_r, Nat.min_l by lia.
  apply firstn_all2. rewrite skipn_length. lia.
Qed.

Lemma js_substring_nat s a b : (a <= b)%nat -> (b <= length s)%nat ->
  js_substring s (Z.of_nat a) (Some (Z.of_nat b)) = firstn (b - a) (skipn a s).
Proof.
  intros Ha Hb. unfold js_substring. rewrite !js_clamp_nat by lia. rewrite Nat.max_r, Nat.min_l by lia. reflexivity.
Qed.

Lemma js_indexof_nat s p k : (k <= length s)%nat ->
  js_indexof s p (Z.of_nat k) = match find p (skipn k s) with Some i => Z.of_nat (k + i) | None => (-1)%Z end.
Proof. intros H. unfold js_indexof. rewrite js_clamp_nat by assumption. reflexivity. Qed.

Lemma js_startswith_nat s p k : (k <= length s)%nat -> js_startswith s p (Z.of_nat k) = starts_with p (skipn k s).
Proof. intros H. unfold js_startswith. rewrite js_clamp_nat by assumption. reflexivity. Qed.

(* a pattern anchored at the start of src.substring(pos) finds what the same pattern finds anchored at pos in src (sticky
   exec with lastIndex = pos, or Python's match(src, pos)): same groups; every position, in range or not *)
Lemma re_match_substring r s i :
  re_match r (js_substring s i None) 0%Z =
  match re_match r s i with
  | Some m => Some (mk_match 0%Z (0 + zlen (m_group0 m))%Z (m_group0 m) (m_group1 m))
  | None => None
  end.
Proof.
  assert (js_substring s i None = skipn (Z.to_nat (Z.min (Z.max 0 i) (zlen s))) s) as ->.
  { unfold js_substring, js_clamp, zlen. set (p := Z.to_nat (Z.min (Z.max 0 i) (Z.of_nat (length s)))).
    assert (p <= length s)%nat by (unfold p; lia). rewrite Nat.max_r, Nat.min_l by lia. apply firstn_all2. rewrite skipn_length. lia. }
  unfold re_match. set (p := Z.to_nat (Z.min (Z.max 0 i) (zlen s))). set (t := skipn p s).
  assert (Z.to_nat (Z.min (Z.max 0 0) (zlen t)) = 0)%nat as -> by (unfold zlen; lia). cbn [skipn].
  destruct r.
  - destruct (qmatch false t) as [[[g0 raw] r0]|]; reflexivity.
  - destruct (qmatch true t) as [[[g0 raw] r0]|]; reflexivity.
  - destruct (take_nsp t) as [[|c w] r0]; reflexivity.
  - destruct (skip_sp t) as [sp1 r1]. destruct (take_nsp r1) as [[|c w] r2]; [reflexivity|]. destruct (skip_sp r2) as [sp2 r3]. reflexivity.
Qed.
#[export] Hint Rewrite re_match_substring : pynorm.
#[export] Hint Unfold jsix_extract_next_field : ixinline.

Lemma js_indexof_ge s p i : (-1 <= js_indexof s p i)%Z.
Proof. unfold js_indexof. destruct (find p (skipn (js_clamp (length s) i) s)); lia. Qed.

Ltac gen_ranges ::=
  repeat match goal with
         | H : context [js_indexof ?s ?p ?i] |- _ =>
             lazymatch goal with _ : (-1 <= js_indexof s p i)%Z |- _ => fail | _ => pose proof (js_indexof_ge s p i) end
         end.

(* ================================================================ extract_next_field *)

Definition jsix_fallback (src dlm : str) (cidx : Z) (result : list str) (w0 : bool) : list str * (Z * bool) :=
  let uidx := js_indexof src dlm cidx in
  let uidx := if (uidx =? (-1)%Z)%Z then zlen src else uidx in
  let field := js_substring src cidx (Some uidx) in
  (result ++ [field], ((uidx + zlen dlm)%Z, w0 || py_contains field [34%N])).

Lemma jsix_fallback_correct src dlm n result w0 : dlm <> [] -> (n <= length src)%nat ->
  let s := skipn n src in
  exists m : nat,
    jsix_fallback src dlm (Z.of_nat n) result w0 =
      (result ++ [match find dlm s with None => s | Some i => firstn i s end],
       (Z.of_nat m, w0 || has QT (match find dlm s with None => s | Some i => firstn i s end))) /\
    pos_agrees src m (match find dlm s with None => None | Some i => Some (skipn (i + length dlm) s) end).
Proof.
  intros Hd Hn s. pose proof (dlm_len_pos dlm Hd) as Hdl. unfold jsix_fallback. cbv zeta.
  rewrite (js_indexof_nat src dlm n Hn). fold s.
  assert (length s = length src - n)%nat as Hs by (unfold s; apply skipn_length).
  destruct (find dlm s) as [i|] eqn:F.
  - pose proof (find_some_len _ _ _ F) as Hi.
    destruct (Z.of_nat (n + i) =? -1)%Z eqn:E; [apply Z.eqb_eq in E; lia|].
    exists (n + i + length dlm)%nat.
    rewrite (js_substring_nat src n (n + i)) by lia. replace (n + i - n)%nat with i by lia. fold s.
    change [34%N] with [QT]. rewrite py_contains_qt. split.
    + unfold zlen. rewrite <- Nat2Z.inj_add. reflexivity.
    + cbn [pos_agrees]. split; [lia|]. unfold s. rewrite skipn_add. f_equal. lia.
  - rewrite Z.eqb_refl. exists (length src + length dlm)%nat.
    change (zlen src) with (Z.of_nat (length src)). rewrite (js_substring_nat src n (length src)) by lia. fold s.
    rewrite <- Hs. rewrite firstn_all. change [34%N] with [QT]. rewrite py_contains_qt. split.
    + unfold zlen. rewrite <- Nat2Z.inj_add. reflexivity.
    + cbn [pos_agrees]. lia.
Qed.

Theorem jsix_extract_next_field_correct src dlm pr ext n result : dlm <> [] -> (n < length src)%nat ->
  exists m : nat,
    jsix_extract_next_field src dlm pr ext (Z.of_nat n) result =
      (result ++ [snd (fst (fst (extract_next_field dlm pr ext (skipn n src))))],
       (Z.of_nat m, snd (fst (extract_next_field dlm pr ext (skipn n src))))) /\
    pos_agrees src m (snd (extract_next_field dlm pr ext (skipn n src))).
Proof.
  intros Hd Hn. pose proof (dlm_len_pos dlm Hd) as Hdl.
  set (s := skipn n src). assert (length s = length src - n)%nat as Hs by (unfold s; apply skipn_length).
  assert (forall w0, exists m : nat,
            jsix_fallback src dlm (Z.of_nat n) result w0 =
              (result ++ [snd (fst (fst (match find dlm s with
                                         | None => ((false, s), w0 || has QT s, None)
                                         | Some i => ((false, firstn i s), w0 || has QT (firstn i s), Some (skipn (i + length dlm) s))
                                         end)))],
               (Z.of_nat m, snd (fst (match find dlm s with
                                      | None => ((false, s), w0 || has QT s, None)
                                      | Some i => ((false, firstn i s), w0 || has QT (firstn i s), Some (skipn (i + length dlm) s))
                                      end)))) /\
            pos_agrees src m (snd (match find dlm s with
                                   | None => ((false, s), w0 || has QT s, @None str)
                                   | Some i => ((false, firstn i s), w0 || has QT (firstn i s), Some (skipn (i + length dlm) s))
                                   end))) as Hfb.
  { intros w0. destruct (jsix_fallback_correct src dlm n result w0 Hd ltac:(lia)) as [m [E P]]. fold s in E, P.
    exists m. destruct (find dlm s); cbn [fst snd]; split; assumption. }
  unfold jsix_extract_next_field, extract_next_field. cbv zeta.
  rewrite (js_substring_from src n) by lia. fold s.
  change 0%Z with (Z.of_nat 0). rewrite (re_match_field_nat ext s 0) by lia. cbn [skipn].
  destruct (qmatch ext s) as [[[g0 raw] r]|] eqn:M.
  2:{ destruct (Hfb false) as [m [E P]]. exists m. split; [|exact P]. etransitivity; [|exact E]. reflexivity. }
  destruct (qmatch_sound _ _ _ _ _ M) as [Es _].
  assert (length s = length g0 + length r)%nat as Hl by (rewrite Es at 1; apply app_length).
  assert (skipn (n + length g0) src = r) as Hr.
  { rewrite <- skipn_add. fold s. rewrite Es at 1. apply skipn_app_exact. }
  cbn [m_end m_group0 m_group1]. replace (Z.of_nat n + zlen g0)%Z with (Z.of_nat (n + length g0)) by (unfold zlen; lia).
  destruct r as [|c r1].
  - cbn [length] in Hl. replace (Z.of_nat (n + length g0) =? zlen src)%Z with true by (symmetry; apply Z.eqb_eq; unfold zlen; lia).
    cbn [orb]. exists (n + length g0 + length dlm)%nat. cbn [fst snd pos_agrees]. split; [|lia].
    unfold zlen. rewrite <- !Nat2Z.inj_add. destruct pr; [reflexivity|]. change [34%N; 34%N] with [QT; QT]. change [34%N] with [QT].
    rewrite py_replace_undouble. reflexivity.
  - cbn [length] in Hl.
    replace (Z.of_nat (n + length g0) =? zlen src)%Z with false by (symmetry; apply Z.eqb_neq; unfold zlen; lia).
    cbn [orb]. rewrite (js_startswith_nat src dlm (n + length g0)) by lia. rewrite Hr. rewrite strip_prefix_starts.
    destruct (strip_prefix dlm (c :: r1)) as [r2|] eqn:P.
    + apply strip_prefix_some in P. exists (n + length g0 + length dlm)%nat. cbn [fst snd pos_agrees].
      assert (length (c :: r1) = length dlm + length r2)%nat as Hl2 by (rewrite P; apply app_length). cbn [length] in Hl2.
      split; [|split; [lia|]].
      * unfold zlen. rewrite <- !Nat2Z.inj_add. destruct pr; [reflexivity|]. change [34%N; 34%N] with [QT; QT]. change [34%N] with [QT].
        rewrite py_replace_undouble. reflexivity.
      * rewrite <- skipn_add, Hr, P. symmetry. apply skipn_app_exact.
    + destruct (Hfb true) as [m [E Pm]]. exists m. split; [|exact Pm]. etransitivity; [|exact E]. reflexivity.
Qed.

(* ================================================================ the loop of split_quoted_str *)

Definition jsq_body (src dlm : str) (pr ext : bool) : sq_state -> sq_state :=
  fun '(cidx, result, warning) =>
    let '(result, extraction_report) := jsix_extract_next_field src dlm pr ext cidx result in
    let cidx := fst extraction_report in
    let warning := warning || snd extraction_report in
    (cidx, result, warning).

Lemma jsix_loop_correct src dlm pr ext : dlm <> [] -> forall fuel n result w,
  (n <= length src)%nat -> (length src - n < fuel)%nat ->
  option_map (sq_post src) (while_fuel fuel (sq_cond src) (jsq_body src dlm pr ext) (Z.of_nat n, result, w)) =
  Some (result ++ map snd (fst (sq_loop fuel dlm pr ext (skipn n src))), w || snd (sq_loop fuel dlm pr ext (skipn n src))).
Proof.
  intros Hd. induction fuel as [|f IH]; intros n result w Hn Hf; [lia|].
  cbn [while_fuel]. unfold sq_cond at 1.
  assert (length (skipn n src) = length src - n)%nat as Hs by apply skipn_length.
  destruct (Nat.eq_dec n (length src)) as [En|Nn].
  - replace (Z.of_nat n <? zlen src)%Z with false by (symmetry; apply Z.ltb_ge; unfold zlen; lia).
    cbn [option_map sq_post]. replace (Z.of_nat n =? zlen src)%Z with true by (symmetry; apply Z.eqb_eq; unfold zlen; lia).
    destruct (skipn n src) as [|c t] eqn:Ek; [|cbn [length] in Hs; lia]. rewrite sq_loop_nil. cbn [fst snd map]. rewrite orb_false_r. reflexivity.
  - replace (Z.of_nat n <? zlen src)%Z with true by (symmetry; apply Z.ltb_lt; unfold zlen; lia).
    destruct (jsix_extract_next_field_correct src dlm pr ext n result Hd ltac:(lia)) as [m [E P]].
    assert (skipn n src <> []) as Hne by (intros C; rewrite C in Hs; cbn [length] in Hs; lia).
    rewrite (sq_loop_S _ _ _ _ _ Hne).
    unfold jsq_body at 2. rewrite E. cbn [fst snd].
    destruct (extract_next_field dlm pr ext (skipn n src)) as [[[tag fld] w1] pos] eqn:X. cbn [fst snd] in *.
    destruct pos as [r|]; cbn [pos_agrees] in P.
    + destruct P as [Hm Er]. pose proof (extract_progress _ _ _ _ _ _ _ Hd X) as Hp. subst r. rewrite skipn_length in Hp.
      rewrite (IH m (result ++ [fld]) (w || w1)) by lia.
      destruct (sq_loop f dlm pr ext (skipn m src)) as [fs w2]. cbn [fst snd map].
      rewrite <- app_assoc. cbn [app]. rewrite orb_assoc. reflexivity.
    + destruct f as [|f']; [lia|]. cbn [while_fuel]. unfold sq_cond at 1.
      replace (Z.of_nat m <? zlen src)%Z with false by (symmetry; apply Z.ltb_ge; unfold zlen; lia).
      cbn [option_map sq_post]. replace (Z.of_nat m =? zlen src)%Z with false by (symmetry; apply Z.eqb_neq; unfold zlen; lia).
      cbn [fst snd map]. reflexivity.
Qed.

(* no assert in the JavaScript port: every non-empty delimiter *)
Theorem jsix_split_quoted_str_correct src dlm pr : dlm <> [] ->
  jsix_split_quoted_str src dlm pr = Some (split_quoted_str dlm pr src).
Proof.
  intros Hd. unfold jsix_split_quoted_str, split_quoted_str, split_quoted_tagged, dlm_is_space.
  change [34%N] with [QT]. change [32%N] with [SP].
  rewrite py_contains_qt. destruct (has QT src) eqn:Hh; cbn [negb].
  - pose proof (jsix_loop_correct src dlm pr (negb (str_eqb dlm [SP])) Hd (S (length src)) 0 [] false ltac:(lia) ltac:(lia)) as L.
    cbn [skipn] in L. change (Z.of_nat 0) with 0%Z in L.
    destruct (sq_loop (S (length src)) dlm pr (negb (str_eqb dlm [SP])) src) as [fs w2]. cbn [fst snd app orb] in L.
    cbv zeta.
    change (while_fuel (S (length src)) _ _ (0%Z, [], false))
      with (while_fuel (S (length src)) (sq_cond src) (jsq_body src dlm pr (negb (str_eqb dlm [SP]))) (0%Z, [], false)).
    destruct (while_fuel (S (length src)) (sq_cond src) (jsq_body src dlm pr (negb (str_eqb dlm [SP]))) (0%Z, [], false)) as [[[c r] w]|];
      [|cbn [option_map] in L; discriminate L].
    cbn [option_map sq_post] in L. injection L as L1 L2. subst w2. rewrite <- L1. reflexivity.
  - unfold py_split. rewrite map_snd_untagged. reflexivity.
Qed.

(* ================================================================ split_whitespace_separated_str: the counting loop *)

Definition ws_state := (Z * list str)%type.
Definition ws_cond : ws_state -> bool := fun '(i, result) => (i <? zlen result - 1)%Z.
Definition ws_body : ws_state -> ws_state :=
  fun '(i, result) =>
    let result := py_setitem result i (py_slice (py_getitem (@nil ch) result i) (Some 0%Z) (Some (-1)%Z)) in
    let i := (i + 1)%Z in
    (i, result).

Lemma py_slice_chop0 (x : str) : py_slice x (Some 0%Z) (Some (-1)%Z) = removelast x.
Proof.
  rewrite <- py_slice_chop. unfold py_slice.
  replace (py_bound (length x) 0) with 0%nat by (unfold py_bound, py_norm; cbn [Z.ltb Z.compare]; lia). reflexivity.
Qed.

Lemma js_chop_step (result : list str) (i : nat) :
  py_setitem result (Z.of_nat i) (py_slice (py_getitem (@nil ch) result (Z.of_nat i)) (Some 0%Z) (Some (-1)%Z)) = chop_at result i.
Proof. rewrite py_slice_chop0. rewrite <- py_slice_chop. apply py_chop_step. Qed.

Definition chopped (l : list str) (k : nat) : list str := map (@removelast ch) (firstn k l) ++ skipn k l.

Lemma chopped_length l k : length (chopped l k) = length l.
Proof. unfold chopped. rewrite app_length, map_length, firstn_length, skipn_length. lia. Qed.

Lemma chopped_step l k : (k < length l)%nat -> chop_at (chopped l k) k = chopped l (S k).
Proof.
  intros H. unfold chopped. rewrite <- (chop_fold_prefix l k) by lia. rewrite <- (chop_fold_prefix l (S k)) by lia.
  rewrite seq_S, fold_left_app. reflexivity.
Qed.

Lemma js_chop_loop l : forall fuel k, (k <= length l - 1)%nat -> (length l - 1 - k < fuel)%nat ->
  option_map snd (while_fuel fuel ws_cond ws_body (Z.of_nat k, chopped l k)) = Some (chopped l (length l - 1)).
Proof.
  induction fuel as [|f IH]; intros k Hk Hf; [lia|].
  cbn [while_fuel]. unfold ws_cond at 1. unfold zlen. rewrite chopped_length.
  destruct (Nat.eq_dec k (length l - 1)) as [E|N].
  - replace (Z.of_nat k <? Z.of_nat (length l) - 1)%Z with false by (symmetry; apply Z.ltb_ge; lia).
    cbn [option_map snd]. rewrite E. reflexivity.
  - replace (Z.of_nat k <? Z.of_nat (length l) - 1)%Z with true by (symmetry; apply Z.ltb_lt; lia).
    unfold ws_body at 2. cbv zeta. rewrite js_chop_step. rewrite chopped_step by lia.
    replace (Z.of_nat k + 1)%Z with (Z.of_nat (S k)) by lia. apply IH; lia.
Qed.

Theorem jsix_split_whitespace_separated_str_correct src pr :
  jsix_split_whitespace_separated_str src pr = Some (split_whitespace_separated_str pr src).
Proof.
  unfold jsix_split_whitespace_separated_str, split_whitespace_separated_str. cbv zeta.
  rewrite fold_left_append_id. cbn [app].
  destruct pr; cbn [re_finditer_g0]; [|reflexivity].
  set (l := ws_tokens (S (length src)) src).
  pose proof (js_chop_loop l (S (length l)) 0 ltac:(lia) ltac:(lia)) as L.
  change (Z.of_nat 0) with 0%Z in L. unfold chopped at 1 in L. cbn [firstn skipn map app] in L.
  change (while_fuel (S (length l)) _ _ (0%Z, l)) with (while_fuel (S (length l)) ws_cond ws_body (0%Z, l)).
  destruct (while_fuel (S (length l)) ws_cond ws_body (0%Z, l)) as [[i r]|]; [|cbn [option_map] in L; discriminate L].
  cbn [option_map snd] in L. injection L as L. subst r. f_equal.
  destruct l as [|x t] eqn:El; [reflexivity|]. rewrite <- El. unfold chopped. symmetry. apply chop_all_but_last_prefix. rewrite El. discriminate.
Qed.

(* ================================================================ smart_split, quote_field *)

Theorem jsix_smart_split_correct pol src dlm pr : (quoted_policy pol = true -> dlm <> []) ->
  jsix_smart_split src dlm (policy_name pol) pr = Some (smart_split pol dlm pr src).
Proof.
  intros H. unfold jsix_smart_split.
  destruct pol; cbn [policy_name str_eqb N.eqb Pos.eqb andb smart_split];
    try reflexivity;
    try (rewrite jsix_split_whitespace_separated_str_correct; reflexivity);
    rewrite (jsix_split_quoted_str_correct src dlm pr (H eq_refl)); reflexivity.
Qed.

Theorem jsix_quote_field_correct src delim : jsix_quote_field src delim = quote_field_js delim src.
Proof.
  unfold jsix_quote_field, quote_field_js, wrap. cbv zeta. change [34%N] with [QT]. change [34%N; 34%N] with [QT; QT].
  rewrite py_contains_qt, py_replace_double. unfold py_contains. reflexivity.
Qed.

Theorem jsix_rfc_quote_field_correct src delim : jsix_rfc_quote_field src delim = rfc_quote_field_js delim src.
Proof.
  unfold jsix_rfc_quote_field, rfc_quote_field_js, wrap. cbv zeta. change [34%N] with [QT]. change [34%N; 34%N] with [QT; QT].
  change [10%N] with [LF]. change [13%N] with [CR].
  rewrite py_contains_qt, py_replace_double, !py_contains_ch. unfold py_contains. reflexivity.
Qed.

(* ================================================================ the two index models agree (C18, about the two sources) *)

Theorem ix_py_js_smart_split_agree pol src dlm pr : (quoted_policy pol = true -> dlm <> [] /\ dlm <> [QT]) ->
  jsix_smart_split src dlm (policy_name pol) pr = ix_smart_split src dlm (policy_name pol) pr.
Proof.
  intros H. rewrite (ix_smart_split_correct pol src dlm pr H). apply jsix_smart_split_correct. intros Q. apply (H Q).
Qed.

Theorem ix_py_js_quote_agree src delim :
  jsix_quote_field src delim = ix_quote_field src delim /\ jsix_rfc_quote_field src delim = ix_rfc_quote_field src delim.
Proof.
  rewrite jsix_quote_field_correct, jsix_rfc_quote_field_correct, ix_quote_field_correct, ix_rfc_quote_field_correct.
  split; symmetry; [apply quote_field_agree|apply rfc_quote_field_agree].
Qed.

Theorem jsix_C11_split_is_dialect dlm line fs w : good_quoted_dlm dlm = true ->
  (jsix_split_quoted_str line dlm false = Some (fs, w) <-> Split dlm line fs w).
Proof.
  intros G. destruct (good_quoted_dlm_ix dlm G) as [Hd _]. rewrite (jsix_split_quoted_str_correct line dlm false Hd).
  split; intros H.
  - injection H as H. apply (split_is_dialect dlm line fs w G). exact H.
  - f_equal. apply (split_is_dialect dlm line fs w G). exact H.
Qed.

(* strings of the Basic Multilingual Plane are their own UTF-16 unit sequences: there the unit-level statement IS the
   code-point-level one.  (For astral characters the commutation of splitting with UTF-16 encoding is not proved.) *)
Theorem jsix_smart_split_bmp pol src dlm pr : forallb bmp src = true -> forallb bmp dlm = true ->
  (quoted_policy pol = true -> dlm <> []) ->
  jsix_smart_split (utf16_encode src) (utf16_encode dlm) (policy_name pol) pr = Some (smart_split pol dlm pr src).
Proof. intros Hs Hd H. rewrite !utf16_encode_bmp by assumption. apply jsix_smart_split_correct; assumption. Qed.
