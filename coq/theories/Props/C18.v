From RBQL Require Import Base.
Example C18_placeholder : True. Proof. exact I. Qed.
Print Assumptions C18_placeholder.
