(* Props/C18.v — Python and JavaScript implementations agree on the CSV dialect and headers.
   ONLY statements: each closed by [exact <lemma>] with Print Assumptions beneath.
   Where the two ports are written differently they have TWO models and the agreement is a theorem:
     quoting            Csv.v: quote_field_py / quote_field_js, rfc_quote_field_py / rfc_quote_field_js
     readers            Reader.v (pull reader of rbql_csv.py) / ReaderJs.v (push reader of rbql_csv.js)
     warning lists      py_warning_list / js_warning_list
   Where they are line-for-line ports of each other they share ONE model, to which each is tied by its own correspondence
   run (and the two are compared directly with each other, harness/props/c18.py):
     smart_split (Csv.v), normalize_fields / the writers (CsvWriter.v, parametric in the port where they differ: delimiter flag,
     js mono scalar), output header (Header.v; the derivation of column infos from the query text - Python ast, JS text spans -
     is tied by the correspondence run on rendered select lists only). *)
From RBQL Require Import Base Lines Csv CsvWriter CsvSpec CsvStr_Proofs Csv_Proofs CsvRoundtrip_Proofs.
From RBQL Require Import Utf8 Reader ReaderJs Reader_Proofs ReaderJs_Proofs Header Header_Proofs.
From RBQL Require Import PyStr JsStr CsvIx CsvIxJs CsvIx_Proofs CsvIxJs_Proofs.

(* the two quoting functions are the same function, for every delimiter and field: quote_field tests the double quote first in one port and
   the delimiter first in the other, rfc_quote_field tests the line breaks with a regular expression in one and two searches in
   the other *)
Theorem C18_quote_agree : forall dlm f : str,
  quote_field_py dlm f = quote_field_js dlm f /\ rfc_quote_field_py dlm f = rfc_quote_field_js dlm f.
Proof. exact (fun dlm f => conj (quote_field_agree dlm f) (rfc_quote_field_agree dlm f)). Qed.
Print Assumptions C18_quote_agree.

(* hence the written line is the same in both ports, for every policy *)
Theorem C18_line_agree : forall (pol : policy) (dlm : str) (fs : list str),
  join_line_fl LJs pol dlm fs = join_line_fl LPy pol dlm fs.
Proof. exact (join_line_lang LJs). Qed.
Print Assumptions C18_line_agree.

(* a line written by EITHER port is split back (by the splitter both ports implement) into exactly its fields, without warning *)
Theorem C18_cross_roundtrip : forall (writer : lang) (pol : policy) (dlm : str) (fs : list str),
  good_dlm pol dlm = true -> line_ok pol dlm fs = true ->
  smart_split pol dlm false (join_line_fl writer pol dlm fs) = (fs, false).
Proof. exact line_roundtrip. Qed.
Print Assumptions C18_cross_roundtrip.

(* the two readers: on the same text, however it is delivered to either (Python: any read size >= 1 and any short reads;
   JS: any chunks and any event-loop schedule), for any splitter, configuration (policy rfc or not, comment prefix, header,
   encoding, query modifier) they return the same records, header, counters, the same error, and the same warning data - the
   specification records_of_text.  comment_ok: the comment prefix contains no LF (see C18_comment_lf_refuted) *)
Theorem C18_readers_agree : forall (split : str -> list str * bool) (c : cfg) (cs : nat) (pieces : list str) (b0 : bool) (chunks : list (str * bool)),
  (1 <= cs)%nat -> Forall (fun p => p <> []) pieces -> comment_ok c -> js_chunks_ok false false (map fst chunks) ->
  concat pieces = concat (map fst chunks) ->
  run_js_decoded split c b0 chunks = jresult_of_result (run_py split c cs pieces) /\
  run_py split c cs pieces = records_of_text split c (concat pieces).
Proof. exact readers_agree. Qed.
Print Assumptions C18_readers_agree.

(* the same with the JS side reading the UTF-8 bytes of the text in any partition into non-empty chunks *)
Theorem C18_readers_agree_bytes : forall (split : str -> list str * bool) (c : cfg) (cs : nat) (pieces : list str) (b0 : bool)
    (chunks : list (bytes * bool)) (text : str),
  (1 <= cs)%nat -> Forall (fun p => p <> []) pieces -> comment_ok c -> c_enc c = EncUtf8 ->
  Forall (fun x => x <> []) (map fst chunks) -> decode_whole (concat (map fst chunks)) = Some text -> concat pieces = text ->
  run_js_stream split c b0 chunks = jresult_of_result (run_py split c cs pieces).
Proof. exact readers_agree_bytes. Qed.
Print Assumptions C18_readers_agree_bytes.

(* the ports list their warnings in different orders; the sets are equal *)
Theorem C18_warnings_same_set : forall (w : warnings) x, In x (py_warning_list w) <-> In x (js_warning_list w).
Proof. exact warnings_same_set. Qed.
Print Assumptions C18_warnings_same_set.

(* outside comment_ok the faithful models DISAGREE: quoted_rfc with a comment prefix that contains LF (rbql-py tests the prefix
   on the assembled record, rbql-js on physical lines); recorded as an observation, the property's comment prefixes have no LF *)
Theorem C18_comment_lf_refuted :
  exists c text,
    run_js_decoded (lite_split (Some [COMMA])) c true [(text, true)] <>
    jresult_of_result (run_py (lite_split (Some [COMMA])) c 1 [text]).
Proof. exact readers_disagree_lf_prefix. Qed.
Print Assumptions C18_comment_lf_refuted.

(* non-vacuity: a quoted_rfc text with a multi-line record, read by the Python model in 2-character reads over two pieces and
   by the JS model in three chunks with mixed schedules, gives the same two records *)
Example C18_nonvacuous :
  let c := {| c_rfc := true; c_comment := Some [35%N]; c_header := false; c_enc := EncNone; c_modifier := None |} in
  let sp := lite_split (Some [COMMA]) in
  run_js_decoded sp c true [([QT; 97; LF]%N, true); ([98; QT; COMMA; 99; CR]%N, false); ([LF; 35; 120; LF; 100]%N, true)]
  = jresult_of_result (run_py sp c 2 [[QT; 97; LF; 98; QT]%N; [COMMA; 99; CR; LF; 35; 120; LF; 100]%N])
  /\ exists recs h w nl nr, run_py sp c 2 [[QT; 97; LF; 98; QT]%N; [COMMA; 99; CR; LF; 35; 120; LF; 100]%N] = ROk recs h w nl nr
     /\ length recs = 2%nat.
Proof. vm_compute. split; [reflexivity|]. repeat eexists. Qed.
Print Assumptions C18_nonvacuous.

(* ------------------------------------------------------------------ whole tables, across the ports *)
From RBQL Require Import TableLines_Proofs Table_Proofs TableCross_Proofs.

(* "a table written by either is read back identically by the other": for every table the dialect can represent, written by
   EITHER port (the written lines are the same, last conjunct) with any line separator, BOTH stream readers - the Python
   reader on any read size / short reads, the JavaScript reader on any chunks and any schedule - return the same clean result:
   the table itself (CR / CRLF inside quoted_rfc fields as LF), no BOM / defective-line warning, no error *)
Theorem C18_table_cross_roundtrip : forall (writer : lang) (pol : policy) (dlm ls : str) (c : cfg) (rows : list (list str))
    (cs : nat) (pieces : list str) (b0 : bool) (chunks : list (str * bool)),
  c_rfc c = is_rfc pol -> line_sep ls -> good_dlm pol dlm = true -> dlm_nl_free pol dlm = true ->
  table_ok pol dlm (enc_code (c_enc c)) rows = true ->
  no_comment_rows c (written writer pol dlm rows) = true -> comment_ok c ->
  (1 <= cs)%nat -> Forall (fun p => p <> []) pieces -> concat pieces = emit ls (written writer pol dlm rows) ->
  js_chunks_ok false false (map fst chunks) -> concat (map fst chunks) = emit ls (written writer pol dlm rows) ->
  let expected := ok_result c (map (map nl_norm) rows) (physical_lines (written writer pol dlm rows)) in
  run_py (smart_split pol dlm false) c cs pieces = expected /\
  run_js_decoded (smart_split pol dlm false) c b0 chunks = jresult_of_result expected /\
  written LJs pol dlm rows = written LPy pol dlm rows.
Proof. exact table_cross_roundtrip. Qed.
Print Assumptions C18_table_cross_roundtrip.

(* the JavaScript side reading the UTF-8 BYTES of the written text, any partition into non-empty chunks *)
Theorem C18_table_cross_roundtrip_bytes : forall (writer : lang) (pol : policy) (dlm ls : str) (c : cfg) (rows : list (list str)),
  c_rfc c = is_rfc pol -> line_sep ls -> good_dlm pol dlm = true -> dlm_nl_free pol dlm = true ->
  table_ok pol dlm (enc_code (c_enc c)) rows = true ->
  no_comment_rows c (written writer pol dlm rows) = true ->
  forall (b0 : bool) (chunks : list (bytes * bool)),
  comment_ok c -> c_enc c = EncUtf8 -> Forall (fun x => x <> []) (map fst chunks) ->
  decode_whole (concat (map fst chunks)) = Some (emit ls (written writer pol dlm rows)) ->
  run_js_stream (smart_split pol dlm false) c b0 chunks =
  jresult_of_result (ok_result c (map (map nl_norm) rows) (physical_lines (written writer pol dlm rows))).
Proof. exact cross_js_bytes. Qed.
Print Assumptions C18_table_cross_roundtrip_bytes.

(* ------------------------------------------------------------------ the output header, derived twice *)
From RBQL Require Import Expr Parser HeaderJs HeaderJs_Proofs ParserVars HeaderJsUnquote_Proofs.
From Coq Require String.
Import String.StringSyntax.

(* "They also derive the same output header from a select list written in syntax common to both languages."
   The Python port parses the select list (ast) and classifies the SHAPE of each item (Header.info_of on hitem - the model of
   C07, tied to rbql-py by the C07 correspondence run); the JavaScript port has no parser and classifies the TEXT of each item with
   five anchored regexes, after marking the stars and splitting at root-level commas (HeaderJs.infos_js, a character-level model tied
   to rbql-js by entries 551-555).  A select list in the common syntax is a list of [ritem]: aN, a[N] (N any numeral >= 1, leading
   zeros allowed), a.name, a["name"] / a['name'] (as separate_string_literals hands it over: the placeholder, the literal being in the
   table), a bare identifier, the three stars, `e as alias` / `e AS alias`, and any other text; [render_item] is its text, [shape]
   the hitem the Python ast has for it, [src_text items] = ", ".join of the item texts.
   item_ok lits r = wf_item lits r && star_ok r && trimmed (..) && top_ok (..):
     wf_item   a.name: name is an identifier [_a-zA-Z][_a-zA-Z0-9]* other than the star marker;  a["name"]: the literal number ks exists
               in the table and unquote_string of it is name (unquote_quote: true for every name written with backslash and quote
               escaped);  identifier: [_a-zA-Z][_a-zA-Z0-9]*, not the star marker, not starting with ___RBQL_STRING_LITERAL, not of the
               form [ab][0-9]+;  e as alias: alias is [a-zA-Z][a-zA-Z0-9_]* (no leading underscore: both ports' AS regexes), e is not
               blank and has no line terminator after its leading blanks;  other: column_info_from_text_span returns null on the text
               (other_by_char: e.g. when it holds a character outside [a-zA-Z0-9_.\[\]] and does not end in ` as <word>`, as_alias_sound)
     star_ok   the item is a star, or neither its text nor what follows any of its commas begins with one of the star spellings
               (no expression of either language does)
     trimmed   the item text is not empty and has no blank at either end;  top_ok  brackets balanced, every comma inside brackets.
   For every item kind except `e as alias` and "other", wf_item alone suffices (C18_header_plain_items). *)
Theorem C18_header_agree : forall (lits : list str) (items : list ritem), items <> [] -> forallb (item_ok lits) items = true ->
  infos_js (src_text items) lits = Some (map (option_map jinfo_of_cinfo) (map info_of (map shape items))).
Proof. exact infos_js_agrees. Qed.
Print Assumptions C18_header_agree.

(* item by item, whatever blanks surround the item *)
Theorem C18_header_item_agree : forall (lits : list str) (r : ritem), wf_item lits r = true ->
  info_js lits (render_marked r) = option_map jinfo_of_cinfo (info_of (shape r)).
Proof. exact info_js_agrees. Qed.
Print Assumptions C18_header_item_agree.

Theorem C18_header_plain_items : forall (lits : list str) (r : ritem), is_plain r = true -> wf_item lits r = true -> item_ok lits r = true.
Proof. exact item_ok_plain. Qed.
Print Assumptions C18_header_plain_items.

(* hence the header: the JavaScript select_output_header over the infos read from the text (with DISTINCT COUNT's leading null)
   = the header of C07's model for the shapes (names as Some, no undefined among them) *)
Theorem C18_header_built_agree : forall (lits : list str) (items : list ritem) (ih jh : option (list str)) (dc : bool),
  items <> [] -> forallb (item_ok lits) items = true ->
  option_map (fun qs : list (option jinfo) => select_output_header_js ih jh (if dc then None :: qs else qs)) (infos_js (src_text items) lits)
  = Some (jhres_of_hres (output_header ih jh (HQSelect (map shape items) dc))).
Proof. exact header_js_agrees. Qed.
Print Assumptions C18_header_built_agree.

(* the literal of a["name"]: JavaScript's unquote_string reads back every name from its usual quoted spelling *)
Theorem C18_header_unquote : forall (q : ch) (name : str), q = APOS \/ q = QT -> unquote_string (quote q name) = Some name.
Proof. exact unquote_quote. Qed.
Print Assumptions C18_header_unquote.

(* ... and, since fix 80cd609 (finding D24), from the spelling the engines themselves use as the key of a["..."] / a['...']
   (escape_column_name = js_string_escape_column_name = python_string_escape_column_name: backslash, LF, CR, TAB and the quote
   character escaped): the header name of such an item is the source column's name for EVERY name - no hypothesis on its characters *)
Theorem C18_header_unquote_escaped : forall (q : ch) (name : str), q = QT \/ q = APOS ->
  unquote_string (q :: ParserVars.escape_column_name q name ++ [q]) = Some name.
Proof. exact unquote_escaped. Qed.
Print Assumptions C18_header_unquote_escaped.

(* non-vacuity: one select list with every kind of item *)
Definition c18_items : list ritem :=
  [RFieldVar TA $"1"; RFieldSub TB $"12"; RAttr TA $"name"; RDict TA $"0" $"x y"; RVar $"NR"; RStar; RStarB;
   RAs $"f(a1, [a2, 3]) + 1" false 1 $"total"; ROther $"a1 + b2"; RAs $"a2" true 0 $"Z9_"].
Example C18_header_nonvacuous :
  forallb (item_ok [quote QT $"x y"]) c18_items = true /\
  src_text c18_items = $"a1, b[12], a.name, a[___RBQL_STRING_LITERAL0___], NR, *, b.*, f(a1, [a2, 3]) + 1 as  total, a1 + b2, a2 AS Z9_" /\
  infos_js (src_text c18_items) [quote QT $"x y"] =
    Some [Some (JIdx TA 0); Some (JIdx TB 11); Some (JName $"name"); Some (JName $"x y"); Some (JName $"NR"); Some (JStar None);
          Some (JStar (Some TB)); Some (JAlias $"total"); None; Some (JAlias $"Z9_")].
Proof. vm_compute. repeat split; reflexivity. Qed.
Print Assumptions C18_header_nonvacuous.

(* REFUTED outside these hypotheses (each checked on both real implementations):
   1. a0 (N = 0; a variable the user's init code may define).  Both ports take it for column number 0, index -1.  rbql-js then reads
      input_header[-1] = undefined, rbql-py input_header[-1] = the LAST name; without an input header (alias present) rbql-js still
      answers [undefined, alias] while rbql-py raises a bare IndexError. *)
Theorem C18_header_a0_refuted :
  info_js [] $"a0" = Some (JIdx TA (-1)) /\
  (exists ih, build_header_js ih [] [Some (JIdx TA (-1))] [] = [None] /\ build_header_pyz ih [] [Some (JIdx TA (-1))] [] = Some [$"y"]) /\
  build_header_js [] [] [Some (JIdx TA (-1)); Some (JAlias $"z")] [] = [None; Some $"z"] /\
  build_header_pyz [] [] [Some (JIdx TA (-1)); Some (JAlias $"z")] [] = None.
Proof. split; [exact a0_info|]. split; [exists hdr_xy; exact a0_headers_differ|exact a0_headerless_differ]. Qed.
Print Assumptions C18_header_a0_refuted.

(*  2. rbql-js reads the text, rbql-py the syntax tree: `(a1)`, `a[ "x" ]` (blanks inside the brackets) and a non-ASCII identifier are
      "other" items (colN) for rbql-js; the Python ast gives them the shape HField / HDict / HVar of `a1`, `a["x"]`, the identifier,
      so rbql-py names the column after the source column / the identifier (fourth conjunct: without the blanks rbql-js does too) *)
Theorem C18_header_text_only_refuted :
  info_js [] $"(a1)" = None /\ info_js [quote QT $"x"] ($"a[ " ++ placeholder 0 ++ $" ]") = None /\ info_js [] [233%N] = None /\
  info_js [quote QT $"x"] ($"a[" ++ placeholder 0 ++ $"]") = Some (JName $"x").
Proof. exact js_text_only. Qed.
Print Assumptions C18_header_text_only_refuted.

(* ---------------------------------------------------------------- the two SOURCES of the line dialect

   CsvIx.v / CsvIxJs.v state csv_utils.py / csv_utils.js with the recursion structure and data representation of each source
   and are regenerated from the sources on every run of check C11 (harness/translate_csv.py; generated obligations
   gen_csv_<name>_eq, gen_csv_js_<name>_eq, and gen_C18_sources_agree_* about the translated texts themselves).
   As functions on sequences of characters the two are equal: *)
Theorem C18_index_models_agree_smart_split : forall (pol : policy) (src dlm : str) (preserve : bool),
  (quoted_policy pol = true -> dlm <> [] /\ dlm <> [QT]) ->
  jsix_smart_split src dlm (policy_name pol) preserve = ix_smart_split src dlm (policy_name pol) preserve.
Proof. exact ix_py_js_smart_split_agree. Qed.
Print Assumptions C18_index_models_agree_smart_split.

Theorem C18_index_models_agree_quote_field : forall (src delim : str),
  jsix_quote_field src delim = ix_quote_field src delim /\ jsix_rfc_quote_field src delim = ix_rfc_quote_field src delim.
Proof. exact ix_py_js_quote_agree. Qed.
Print Assumptions C18_index_models_agree_quote_field.
