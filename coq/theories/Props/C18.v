(* Props/C18.v — Python and JavaScript implementations agree on the CSV dialect and headers.
   ONLY statements: each closed by [exact <lemma>] with Print Assumptions beneath.
   Where the two ports are written differently they have TWO models and the agreement is a theorem:
     quoting            Csv.v: quote_field_py / quote_field_js, rfc_quote_field_py / rfc_quote_field_js
     readers            Reader.v (pull reader of rbql_csv.py) / ReaderJs.v (push reader of rbql_csv.js)
     warning lists      py_warning_list / js_warning_list
   Where they are line-for-line ports of each other they share ONE model, to which each is tied by its own correspondence
   run (and the two are compared directly with each other, harness/props/c18.py):
     smart_split (Csv.v), normalize_fields / the writers (CsvWriter.v, parametric in the port where they differ: delimiter flag,
     js mono scalar), output header (Header.v; the derivation of column infos from the query text - Python ast, JS text spans -
     is tied by the correspondence run on rendered select lists only). *)
From RBQL Require Import Base Lines Csv CsvWriter CsvSpec CsvStr_Proofs Csv_Proofs CsvRoundtrip_Proofs.
From RBQL Require Import Utf8 Reader ReaderJs Reader_Proofs ReaderJs_Proofs Header Header_Proofs.

(* the two quoting functions are the same function, for every delimiter and field: quote_field tests the double quote first in one port and
   the delimiter first in the other, rfc_quote_field tests the line breaks with a regular expression in one and two searches in
   the other *)
Theorem C18_quote_agree : forall dlm f : str,
  quote_field_py dlm f = quote_field_js dlm f /\ rfc_quote_field_py dlm f = rfc_quote_field_js dlm f.
Proof. exact (fun dlm f => conj (quote_field_agree dlm f) (rfc_quote_field_agree dlm f)). Qed.
Print Assumptions C18_quote_agree.

(* hence the written line is the same in both ports, for every policy *)
Theorem C18_line_agree : forall (pol : policy) (dlm : str) (fs : list str),
  join_line_fl LJs pol dlm fs = join_line_fl LPy pol dlm fs.
Proof. exact (join_line_lang LJs). Qed.
Print Assumptions C18_line_agree.

(* a line written by EITHER port is split back (by the splitter both ports implement) into exactly its fields, without warning *)
Theorem C18_cross_roundtrip : forall (writer : lang) (pol : policy) (dlm : str) (fs : list str),
  good_dlm pol dlm = true -> line_ok pol dlm fs = true ->
  smart_split pol dlm false (join_line_fl writer pol dlm fs) = (fs, false).
Proof. exact line_roundtrip. Qed.
Print Assumptions C18_cross_roundtrip.

(* the two readers: on the same text, however it is delivered to either (Python: any read size >= 1 and any short reads;
   JS: any chunks and any event-loop schedule), for any splitter, configuration (policy rfc or not, comment prefix, header,
   encoding, query modifier) they return the same records, header, counters, the same error, and the same warning data - the
   specification records_of_text.  comment_ok: the comment prefix contains no LF (see C18_comment_lf_refuted) *)
Theorem C18_readers_agree : forall (split : str -> list str * bool) (c : cfg) (cs : nat) (pieces : list str) (b0 : bool) (chunks : list (str * bool)),
  (1 <= cs)%nat -> Forall (fun p => p <> []) pieces -> comment_ok c -> js_chunks_ok false false (map fst chunks) ->
  concat pieces = concat (map fst chunks) ->
  run_js_decoded split c b0 chunks = jresult_of_result (run_py split c cs pieces) /\
  run_py split c cs pieces = records_of_text split c (concat pieces).
Proof. exact readers_agree. Qed.
Print Assumptions C18_readers_agree.

(* the same with the JS side reading the UTF-8 bytes of the text in any partition into non-empty chunks *)
Theorem C18_readers_agree_bytes : forall (split : str -> list str * bool) (c : cfg) (cs : nat) (pieces : list str) (b0 : bool)
    (chunks : list (bytes * bool)) (text : str),
  (1 <= cs)%nat -> Forall (fun p => p <> []) pieces -> comment_ok c -> c_enc c = EncUtf8 ->
  Forall (fun x => x <> []) (map fst chunks) -> decode_whole (concat (map fst chunks)) = Some text -> concat pieces = text ->
  run_js_stream split c b0 chunks = jresult_of_result (run_py split c cs pieces).
Proof. exact readers_agree_bytes. Qed.
Print Assumptions C18_readers_agree_bytes.

(* the ports list their warnings in different orders; the sets are equal *)
Theorem C18_warnings_same_set : forall (w : warnings) x, In x (py_warning_list w) <-> In x (js_warning_list w).
Proof. exact warnings_same_set. Qed.
Print Assumptions C18_warnings_same_set.

(* outside comment_ok the faithful models DISAGREE: quoted_rfc with a comment prefix that contains LF (rbql-py tests the prefix
   on the assembled record, rbql-js on physical lines); recorded as an observation, the property's comment prefixes have no LF *)
Theorem C18_comment_lf_refuted :
  exists c text,
    run_js_decoded (lite_split (Some [COMMA])) c true [(text, true)] <>
    jresult_of_result (run_py (lite_split (Some [COMMA])) c 1 [text]).
Proof. exact readers_disagree_lf_prefix. Qed.
Print Assumptions C18_comment_lf_refuted.

(* non-vacuity: a quoted_rfc text with a multi-line record, read by the Python model in 2-character reads over two pieces and
   by the JS model in three chunks with mixed schedules, gives the same two records *)
Example C18_nonvacuous :
  let c := {| c_rfc := true; c_comment := Some [35%N]; c_header := false; c_enc := EncNone; c_modifier := None |} in
  let sp := lite_split (Some [COMMA]) in
  run_js_decoded sp c true [([QT; 97; LF]%N, true); ([98; QT; COMMA; 99; CR]%N, false); ([LF; 35; 120; LF; 100]%N, true)]
  = jresult_of_result (run_py sp c 2 [[QT; 97; LF; 98; QT]%N; [COMMA; 99; CR; LF; 35; 120; LF; 100]%N])
  /\ exists recs h w nl nr, run_py sp c 2 [[QT; 97; LF; 98; QT]%N; [COMMA; 99; CR; LF; 35; 120; LF; 100]%N] = ROk recs h w nl nr
     /\ length recs = 2%nat.
Proof. vm_compute. split; [reflexivity|]. repeat eexists. Qed.
Print Assumptions C18_nonvacuous.

(* ------------------------------------------------------------------ whole tables, across the ports *)
From RBQL Require Import TableLines_Proofs Table_Proofs TableCross_Proofs.

(* "a table written by either is read back identically by the other": for every table the dialect can represent, written by
   EITHER port (the written lines are the same, last conjunct) with any line separator, BOTH stream readers - the Python
   reader on any read size / short reads, the JavaScript reader on any chunks and any schedule - return the same clean result:
   the table itself (CR / CRLF inside quoted_rfc fields as LF), no BOM / defective-line warning, no error *)
Theorem C18_table_cross_roundtrip : forall (writer : lang) (pol : policy) (dlm ls : str) (c : cfg) (rows : list (list str))
    (cs : nat) (pieces : list str) (b0 : bool) (chunks : list (str * bool)),
  c_rfc c = is_rfc pol -> line_sep ls -> good_dlm pol dlm = true -> dlm_nl_free pol dlm = true ->
  table_ok pol dlm (enc_code (c_enc c)) rows = true ->
  no_comment_rows c (written writer pol dlm rows) = true -> comment_ok c ->
  (1 <= cs)%nat -> Forall (fun p => p <> []) pieces -> concat pieces = emit ls (written writer pol dlm rows) ->
  js_chunks_ok false false (map fst chunks) -> concat (map fst chunks) = emit ls (written writer pol dlm rows) ->
  let expected := ok_result c (map (map nl_norm) rows) (physical_lines (written writer pol dlm rows)) in
  run_py (smart_split pol dlm false) c cs pieces = expected /\
  run_js_decoded (smart_split pol dlm false) c b0 chunks = jresult_of_result expected /\
  written LJs pol dlm rows = written LPy pol dlm rows.
Proof. exact table_cross_roundtrip. Qed.
Print Assumptions C18_table_cross_roundtrip.

(* the JavaScript side reading the UTF-8 BYTES of the written text, any partition into non-empty chunks *)
Theorem C18_table_cross_roundtrip_bytes : forall (writer : lang) (pol : policy) (dlm ls : str) (c : cfg) (rows : list (list str)),
  c_rfc c = is_rfc pol -> line_sep ls -> good_dlm pol dlm = true -> dlm_nl_free pol dlm = true ->
  table_ok pol dlm (enc_code (c_enc c)) rows = true ->
  no_comment_rows c (written writer pol dlm rows) = true ->
  forall (b0 : bool) (chunks : list (bytes * bool)),
  comment_ok c -> c_enc c = EncUtf8 -> Forall (fun x => x <> []) (map fst chunks) ->
  decode_whole (concat (map fst chunks)) = Some (emit ls (written writer pol dlm rows)) ->
  run_js_stream (smart_split pol dlm false) c b0 chunks =
  jresult_of_result (ok_result c (map (map nl_norm) rows) (physical_lines (written writer pol dlm rows))).
Proof. exact cross_js_bytes. Qed.
Print Assumptions C18_table_cross_roundtrip_bytes.
