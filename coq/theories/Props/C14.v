(* Props/C14.v — errors name the first offending record; warnings appear iff the anomaly occurred.
   First the engine and TableIterator part, then (end of file) the CSV reader / writer warnings. *)
From RBQL Require Import Base Value Expr Writers Join Agg Engine Spec Engine_Proofs Update_Proofs Warn Warn_Proofs.

(* classification of a failure raised while evaluating record nr: a bad field access names the record and the
   field, a parsing error raised from inside the loop stays a parsing error, anything else is a query-execution
   error naming the record *)
Theorem C14_classify : forall nr i t,
  classify nr (XBadField i) = (CRuntime, nr, XBadField i)
  /\ classify nr XType = (CRuntime, nr, XType)
  /\ classify nr XValue = (CRuntime, nr, XValue)
  /\ classify nr (XRuntime t) = (CRuntime, nr, XRuntime t)
  /\ classify nr (XParsing t) = (CParsing, 0%nat, XParsing t).
Proof. intros. repeat split. Qed.
Print Assumptions C14_classify.

(* SELECT (any non-aggregate shape, any writer chain that has not refused yet, any expression semantics): if
   every evaluation on the records before record k = |A1|+1 succeeds and the evaluation of record k fails with e
   (in WHERE, a select item, the ORDER BY key, or the join key), the query stops with the error classified at
   record k, having pulled exactly k records; the rows offered before the failing evaluation (all rows of the
   records before k and of the earlier join matches of record k) have reached the writer chain, and finish()
   is not called *)
Theorem C14_first_offender_select :
  forall (expr : Type) (eval : env -> expr -> res val) w (q : query expr) hdr A1 a A2 B jm offs1 part e,
    is_agg q = false -> is_update q = false -> static_check q = None ->
    join_map_of expr q B = Some jm ->
    all_offers expr eval q jm 0 A1 = Ok offs1 ->
    record_until_error expr eval q jm (S (length A1)) a = (part, Some e) ->
    snd (chain_feed w (cfg_of q) (set_header chain_init hdr) (offs1 ++ part)) = true ->
    let o := run eval w q hdr (A1 ++ a :: A2) B in
    o_error o = Some (classify (S (length A1)) e)
    /\ o_chain o = fst (chain_feed w (cfg_of q) (set_header chain_init hdr) (offs1 ++ part))
    /\ o_pulls o = S (length A1).
Proof. exact run_select_first_offender. Qed.
Print Assumptions C14_first_offender_select.

(* UPDATE: the records before the first failing one are written updated, then the query stops with that record's number *)
Theorem C14_first_offender_update :
  forall (expr : Type) (eval : env -> expr -> res val) (q : query expr) asg jm A1 a A2 ls nr rows nu' e,
    q_kind q = QUpdate asg -> q_order q = None -> q_distinct q = DNo -> q_top q = None ->
    update_all_nu expr eval q asg jm nr (l_nu ls) A1 = Ok (rows, nu') ->
    update_record_error expr eval q asg jm (S (nr + length A1)) nu' a = Some e ->
    exists ls', main_loop eval yes q jm ls nr (A1 ++ a :: A2)
                = (ls', S (nr + length A1), Some (classify (S (nr + length A1)) e))
                /\ written (l_chain ls') = written (l_chain ls) ++ rows.
Proof.
  intros expr eval q asg jm A1 a A2 ls nr rows nu' e Hk Ho Hd Ht.
  exact (main_loop_update_first_offender expr eval q asg Hk Ho Hd Ht jm A1 a A2 ls nr rows nu' e).
Qed.
Print Assumptions C14_first_offender_update.

(* mistakes detectable from the query are parsing errors raised before the output writer sees anything
   (no set_header, no write, no finish) and before any record is pulled; a join table record lacking a key field
   is a query-execution error naming the B record, equally before any output *)
Theorem C14_static_before_output :
  forall (expr : Type) (eval : env -> expr -> res val) w (q : query expr) hdr A B t,
    static_check q = Some t ->
    run eval w q hdr A B = {| o_chain := chain_init; o_pulls := 0; o_error := Some (CParsing, 0%nat, XParsing t) |}.
Proof. intros expr eval w q hdr A B t H. unfold run. rewrite H. reflexivity. Qed.
Print Assumptions C14_static_before_output.

Theorem C14_join_build_error :
  forall (expr : Type) (eval : env -> expr -> res val) w (q : query expr) hdr A B js bnr,
    static_check q = None -> q_join q = Some js -> build (j_rhs js) B = inr bnr ->
    run eval w q hdr A B = {| o_chain := chain_init; o_pulls := 0; o_error := Some (CRuntime, bnr, XRuntime 5) |}.
Proof. intros expr eval w q hdr A B js bnr H1 H2 H3. unfold run. rewrite H1, H2, H3. reflexivity. Qed.
Print Assumptions C14_join_build_error.

(* the inconsistent-field-count warning over the records pulled (lens = their field counts, in order):
   issued iff two of them differ; it cites record 1 and the first record whose count differs from record 1's *)
Theorem C14_field_count_warning_iff : forall lens,
  field_count_warning lens = None <-> (forall n0 t, lens = n0 :: t -> Forall (fun n => n = n0) t).
Proof. exact field_count_warning_iff. Qed.
Print Assumptions C14_field_count_warning_iff.

Theorem C14_field_count_warning_cites : forall lens n1 r1 n2 r2,
  field_count_warning lens = Some (n1, r1, n2, r2) ->
  r1 = 1 /\ r1 < r2 /\ n1 <> n2 /\
  exists pre post, lens = n1 :: pre ++ n2 :: post /\ Forall (fun n => n = n1) pre /\ r2 = 2 + length pre.
Proof. exact field_count_warning_cites. Qed.
Print Assumptions C14_field_count_warning_cites.

Example C14_nonvacuous :
  field_count_warning [2; 2; 3; 1; 2] = Some (2, 1, 3, 3) /\ field_count_warning [4; 4; 4] = None.
Proof. split; reflexivity. Qed.
Print Assumptions C14_nonvacuous.

(* ------------------------------------------------------------------ the CSV-level warnings are exact *)
From RBQL Require Import Lines Csv CsvSpec CsvWriter Reader CsvLossy_Proofs WarnCsv_Proofs.

(* The reader (records_of_lines = the Python stream reader on every partition, C12_records, = the JavaScript stream reader on
   every chunking and schedule, C20 / C18_readers_agree), for ANY splitter and configuration: the BOM warning is raised exactly
   when the first physical line starts with the byte order mark of the assumed encoding (U+FEFF for utf-8, EF BB BF for
   latin-1, never without an encoding); the defective-line warning cites the physical line of the FIRST non-comment row that
   the splitter flags, and is absent when there is none; under quoted_rfc the same condition is an error citing that record
   and line instead.   data_rows = the non-comment logical rows with the number of their last physical line *)
Theorem C14_reader_warnings_exact : forall (split : str -> list str * bool) (c : cfg) (lines : list str),
  match records_of_lines split c lines with
  | ROk _ _ w _ _ =>
      w_bom w = match lines with l :: _ => line_has_bom (c_enc c) l | [] => false end /\
      (if c_rfc c then w_defective w = None /\ first_warn split (data_rows c lines) = None
       else w_defective w = option_map snd (first_warn_nr split 0 (data_rows c lines)))
  | RErr nr nl => c_rfc c = true /\ first_warn_nr split 0 (data_rows c lines) = Some (nr, nl)
  end.
Proof. exact reader_warnings_exact. Qed.
Print Assumptions C14_reader_warnings_exact.

Theorem C14_bom_iff : forall (split : str -> list str * bool) (c : cfg) (lines : list str) recs h w nl nr,
  records_of_lines split c lines = ROk recs h w nl nr ->
  (w_bom w = true <-> exists l rest, lines = l :: rest /\ line_has_bom (c_enc c) l = true).
Proof. exact bom_warning_iff. Qed.
Print Assumptions C14_bom_iff.

Theorem C14_defective_iff : forall (split : str -> list str * bool) (c : cfg) (lines : list str) recs h w nl nr,
  c_rfc c = false -> records_of_lines split c lines = ROk recs h w nl nr ->
  (w_defective w <> None <-> exists r, In r (data_rows c lines) /\ snd (split (fst r)) = true).
Proof. exact defective_warning_iff. Qed.
Print Assumptions C14_defective_iff.

Theorem C14_rfc_error_iff : forall (split : str -> list str * bool) (c : cfg) (lines : list str),
  c_rfc c = true ->
  ((exists nr nl, records_of_lines split c lines = RErr nr nl) <->
   exists r, In r (data_rows c lines) /\ snd (split (fst r)) = true).
Proof. exact rfc_error_iff. Qed.
Print Assumptions C14_rfc_error_iff.

(* The writer, on a run that raised no error: the None warning is raised exactly when some cell of some record (header
   included, also inside a list cell) is None; the delimiter warning exactly when the policy is simple / whitespace and the
   port's detector fires on some record; for a one-character delimiter and non-empty records (Python port) that is exactly
   "some output field contains the delimiter" *)
Theorem C14_writer_flags_exact : forall (fl : lang) (pol : policy) (dlm : str) (header : option (list cell))
    (rows : list (list cell)) (lines : list str) (nf df : bool),
  write_table fl pol dlm header rows = (lines, None, nf, df) ->
  let all := match header with Some h => h :: rows | None => rows end in
  nf = existsb (existsb has_none) all /\ df = existsb (row_delim_flag fl pol dlm) all.
Proof. exact writer_flags_exact. Qed.
Print Assumptions C14_writer_flags_exact.

Theorem C14_none_iff : forall (fl : lang) (pol : policy) (dlm : str) (header : option (list cell))
    (rows : list (list cell)) (lines : list str) (nf df : bool),
  write_table fl pol dlm header rows = (lines, None, nf, df) ->
  (nf = true <-> exists row, In row (match header with Some h => h :: rows | None => rows end) /\ existsb has_none row = true).
Proof. exact none_warning_iff. Qed.
Print Assumptions C14_none_iff.

Theorem C14_delim_iff_single : forall (pol : policy) (c : ch) (header : option (list cell)) (rows : list (list cell))
    (lines : list str) (nf df : bool),
  write_table LPy pol [c] header rows = (lines, None, nf, df) -> lossy_policy pol = true ->
  let all := match header with Some h => h :: rows | None => rows end in
  Forall (fun row => row <> []) all ->
  (df = true <-> exists row f, In row all /\ In f (fst (normalize_fields [c] row)) /\ has c f = true).
Proof. exact delim_warning_iff_single. Qed.
Print Assumptions C14_delim_iff_single.

(* non-vacuity: a latin-1 BOM in front of a quoted line with a stray quote, then a comment line, then a clean line *)
Example C14_csv_warnings_nonvacuous :
  let c := {| c_rfc := false; c_comment := Some [35%N]; c_header := false; c_enc := EncLatin1; c_modifier := None |} in
  exists recs w, records_of_lines (smart_split Quoted [COMMA] false) c
                   [[239; 187; 191; 97; QT; 98]%N; [35; 120]%N; [99; COMMA; 100]%N] = ROk recs None w 3 2
    /\ w_bom w = true /\ w_defective w = Some 1%nat /\ w_fields w = Some (1, 1, 2, 2)%nat.
Proof. vm_compute. do 2 eexists. repeat split. Qed.
Print Assumptions C14_csv_warnings_nonvacuous.

(* ------------------------------------------------------------------ the static phase in full (Static2.v) *)
From RBQL Require Import Static2 Static2_Proofs.

(* Every check of shallow_parse_input_query that is decided before the first input record - the three of static_check and:
   SELECT together with UPDATE, FROM naming an unknown table / no FROM and no bound input (Python), unknown column name,
   column name unusable as a variable, JOIN without a registry / with an unknown table / with an unknown b-column, a header on
   one table only, unresolvable ON sides, a join record lacking a key field, `=` in WHERE, UPDATE of an unknown field, LIMIT
   without an integer, unknown field in EXCEPT - fires before the output writer sees anything (no set_header, hence no write
   and no finish: the engine's loop is not entered, o_chain = chain_init) and before any input record is pulled (o_pulls = 0);
   its class is IO handling for the two input / configuration checks (tags 24, 27), query execution naming the B record for
   the join record (tag 28), parsing for every mistake of the query text.  tr = the calls the caller's registry and iterators
   have seen up to the failure. *)
Theorem C14_static2_before_output :
  forall (expr : Type) (eval : env -> expr -> res val) w r (q : query expr) hdr A B tr c tag nr,
    static2 r = (tr, Some (c, tag, nr)) ->
    query2 eval w r q hdr A B
      = (tr, {| o_chain := chain_init; o_pulls := 0;
                o_error := Some (c, nr, match c with CRuntime => XRuntime tag | _ => XParsing tag end) |})
    /\ ~ In ESetHeader tr /\ c = class_of_tag tag /\ (nr <> 0%nat -> tag = 28%N).
Proof. exact query2_static_failure. Qed.
Print Assumptions C14_static2_before_output.

(* a static phase that passes calls set_header exactly once, as its last act (then the loop starts) *)
Theorem C14_static2_pass_header_last : forall r tr, static2 r = (tr, None) ->
  exists tr0, tr = tr0 ++ [ESetHeader] /\ ~ In ESetHeader tr0.
Proof. exact static2_pass_header_last. Qed.
Print Assumptions C14_static2_pass_header_last.

(* with the input iterator handed over by the caller the two ports run the same checks in the same order *)
Theorem C14_static2_ports_agree : forall r, r_bound r = true -> static2 (with_port PPy r) = static2 (with_port PJs r).
Proof. exact static2_ports_agree. Qed.
Print Assumptions C14_static2_ports_agree.

(* on a request without any of the new mistakes the static phase decides exactly as Engine.static_check does *)
Theorem C14_static2_refines_static_check : forall (expr : Type) (r : sreq) (q : query expr),
  coherent r q -> clean r ->
  snd (static2 r) = option_map (fun t => (CParsing, t, 0%nat)) (static_check q).
Proof. exact static2_refines_static_check. Qed.
Print Assumptions C14_static2_refines_static_check.

(* one example per check (the failing check's class, tag, record number), and a request that passes *)
Example C14_static2_examples :
  let j := {| j_registry := true; j_found := true; j_vars_ok := true; j_hdr := false; j_keys_ok := true; j_nb := 3%nat; j_short := None |} in
  let mk p bd fr st vo no hd od gp jn wa uu lb ex :=
    {| r_port := p; r_bound := bd; r_from := fr; r_stmt := st; r_vars_ok := vo; r_names_ok := no; r_hdr := hd; r_order := od;
       r_group := gp; r_join := jn; r_where_assign := wa; r_upd_unknown := uu; r_limit_bad := lb; r_except := ex |} in
  map static2
    [ mk PPy true None SBothSU true true false false false None false false false None;
      mk PPy false (Some false) SSelect true true false false false None false false false None;
      mk PPy false None SSelect true true false false false None false false false None;
      mk PJs true None SSelect false true true false false None false false false None;
      mk PJs true None SSelect true false true false false None false false false None;
      mk PPy true None SUpdate true true false true false None false false false None;
      mk PPy true None SSelect true true false true true None false false false None;
      mk PPy true None SSelect true true false false false (Some {| j_registry := false; j_found := true; j_vars_ok := true; j_hdr := false; j_keys_ok := true; j_nb := 3%nat; j_short := None |}) false false false None;
      mk PJs true None SSelect true true false false false (Some {| j_registry := true; j_found := false; j_vars_ok := true; j_hdr := false; j_keys_ok := true; j_nb := 3%nat; j_short := None |}) false false false None;
      mk PJs true None SSelect true true false false false (Some {| j_registry := true; j_found := true; j_vars_ok := false; j_hdr := false; j_keys_ok := true; j_nb := 3%nat; j_short := None |}) false false false None;
      mk PPy true None SSelect true true true false false (Some j) true false false None;
      mk PPy true None SSelect true true false false false (Some {| j_registry := true; j_found := true; j_vars_ok := true; j_hdr := false; j_keys_ok := false; j_nb := 3%nat; j_short := None |}) false false false None;
      mk PJs true None SSelect true true false false false (Some {| j_registry := true; j_found := true; j_vars_ok := true; j_hdr := false; j_keys_ok := true; j_nb := 3%nat; j_short := Some 2%nat |}) true false false None;
      mk PPy true None SSelect true true false false false (Some j) true false true (Some false);
      mk PPy true None SUpdate true true false false false None false true false None;
      mk PJs true None SSelect true true false false false None false false true (Some false);
      mk PJs true None SSelect true true false false false (Some j) false false false (Some true);
      mk PPy true None SSelect true true false false false None false false false (Some false);
      mk PPy false (Some true) SSelect true true false false false (Some j) false false false None ]
  = [ ([], Some (CParsing, 20%N, 0%nat)); ([ELookA], Some (CParsing, 21%N, 0%nat)); ([], Some (CParsing, 22%N, 0%nat));
      ([EVarsA], Some (CParsing, 23%N, 0%nat)); ([EVarsA], Some (CIO, 24%N, 0%nat)); ([EVarsA], Some (CParsing, 10%N, 0%nat));
      ([EVarsA], Some (CParsing, 11%N, 0%nat)); ([EVarsA], Some (CParsing, 25%N, 0%nat)); ([EVarsA; ELookB], Some (CParsing, 26%N, 0%nat));
      ([EVarsA; ELookB; EVarsB], Some (CParsing, 33%N, 0%nat)); ([EVarsA; ELookB; EVarsB], Some (CIO, 27%N, 0%nat));
      ([EVarsA; ELookB; EVarsB], Some (CParsing, 34%N, 0%nat));
      ([EVarsA; ELookB; EVarsB; EPullB; EPullB], Some (CRuntime, 28%N, 2%nat));
      ([EVarsA; ELookB; EVarsB; EPullB; EPullB; EPullB], Some (CParsing, 29%N, 0%nat));
      ([EVarsA], Some (CParsing, 30%N, 0%nat)); ([EVarsA], Some (CParsing, 31%N, 0%nat));
      ([EVarsA; ELookB; EVarsB; EPullB; EPullB; EPullB], Some (CParsing, 12%N, 0%nat));
      ([EVarsA], Some (CParsing, 32%N, 0%nat));
      ([ELookA; EVarsA; ELookB; EVarsB; EPullB; EPullB; EPullB; ESetHeader], None) ].
Proof. vm_compute. reflexivity. Qed.
Print Assumptions C14_static2_examples.
