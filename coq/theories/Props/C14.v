(* Props/C14.v — errors name the first offending record; warnings appear iff the anomaly occurred.
   (engine and TableIterator part; the CSV reader/writer warnings are stated in Props/C10.v, C12.v) *)
From RBQL Require Import Base Value Expr Writers Join Agg Engine Spec Engine_Proofs Update_Proofs Warn Warn_Proofs.

(* classification of a failure raised while evaluating record nr: a bad field access names the record and the
   field, a parsing error raised from inside the loop stays a parsing error, anything else is a query-execution
   error naming the record *)
Theorem C14_classify : forall nr i t,
  classify nr (XBadField i) = (CRuntime, nr, XBadField i)
  /\ classify nr XType = (CRuntime, nr, XType)
  /\ classify nr XValue = (CRuntime, nr, XValue)
  /\ classify nr (XRuntime t) = (CRuntime, nr, XRuntime t)
  /\ classify nr (XParsing t) = (CParsing, 0%nat, XParsing t).
Proof. intros. repeat split. Qed.
Print Assumptions C14_classify.

(* SELECT (any non-aggregate shape, any writer chain that has not refused yet, any expression semantics): if
   every evaluation on the records before record k = |A1|+1 succeeds and the evaluation of record k fails with e
   (in WHERE, a select item, the ORDER BY key, or the join key), the query stops with the error classified at
   record k, having pulled exactly k records; the rows offered before the failing evaluation (all rows of the
   records before k and of the earlier join matches of record k) have reached the writer chain, and finish()
   is not called *)
Theorem C14_first_offender_select :
  forall (expr : Type) (eval : env -> expr -> res val) w (q : query expr) hdr A1 a A2 B jm offs1 part e,
    is_agg q = false -> is_update q = false -> static_check q = None ->
    join_map_of expr q B = Some jm ->
    all_offers expr eval q jm 0 A1 = Ok offs1 ->
    record_until_error expr eval q jm (S (length A1)) a = (part, Some e) ->
    snd (chain_feed w (cfg_of q) (set_header chain_init hdr) (offs1 ++ part)) = true ->
    let o := run eval w q hdr (A1 ++ a :: A2) B in
    o_error o = Some (classify (S (length A1)) e)
    /\ o_chain o = fst (chain_feed w (cfg_of q) (set_header chain_init hdr) (offs1 ++ part))
    /\ o_pulls o = S (length A1).
Proof. exact run_select_first_offender. Qed.
Print Assumptions C14_first_offender_select.

(* UPDATE: the records before the first failing one are written updated, then the query stops with that record's number *)
Theorem C14_first_offender_update :
  forall (expr : Type) (eval : env -> expr -> res val) (q : query expr) asg jm A1 a A2 ls nr rows nu' e,
    q_kind q = QUpdate asg -> q_order q = None -> q_distinct q = DNo -> q_top q = None ->
    update_all_nu expr eval q asg jm nr (l_nu ls) A1 = Ok (rows, nu') ->
    update_record_error expr eval q asg jm (S (nr + length A1)) nu' a = Some e ->
    exists ls', main_loop eval yes q jm ls nr (A1 ++ a :: A2)
                = (ls', S (nr + length A1), Some (classify (S (nr + length A1)) e))
                /\ written (l_chain ls') = written (l_chain ls) ++ rows.
Proof.
  intros expr eval q asg jm A1 a A2 ls nr rows nu' e Hk Ho Hd Ht.
  exact (main_loop_update_first_offender expr eval q asg Hk Ho Hd Ht jm A1 a A2 ls nr rows nu' e).
Qed.
Print Assumptions C14_first_offender_update.

(* mistakes detectable from the query are parsing errors raised before the output writer sees anything
   (no set_header, no write, no finish) and before any record is pulled; a join table record lacking a key field
   is a query-execution error naming the B record, equally before any output *)
Theorem C14_static_before_output :
  forall (expr : Type) (eval : env -> expr -> res val) w (q : query expr) hdr A B t,
    static_check q = Some t ->
    run eval w q hdr A B = {| o_chain := chain_init; o_pulls := 0; o_error := Some (CParsing, 0%nat, XParsing t) |}.
Proof. intros expr eval w q hdr A B t H. unfold run. rewrite H. reflexivity. Qed.
Print Assumptions C14_static_before_output.

Theorem C14_join_build_error :
  forall (expr : Type) (eval : env -> expr -> res val) w (q : query expr) hdr A B js bnr,
    static_check q = None -> q_join q = Some js -> build (j_rhs js) B = inr bnr ->
    run eval w q hdr A B = {| o_chain := chain_init; o_pulls := 0; o_error := Some (CRuntime, bnr, XRuntime 5) |}.
Proof. intros expr eval w q hdr A B js bnr H1 H2 H3. unfold run. rewrite H1, H2, H3. reflexivity. Qed.
Print Assumptions C14_join_build_error.

(* the inconsistent-field-count warning over the records pulled (lens = their field counts, in order):
   issued iff two of them differ; it cites record 1 and the first record whose count differs from record 1's *)
Theorem C14_field_count_warning_iff : forall lens,
  field_count_warning lens = None <-> (forall n0 t, lens = n0 :: t -> Forall (fun n => n = n0) t).
Proof. exact field_count_warning_iff. Qed.
Print Assumptions C14_field_count_warning_iff.

Theorem C14_field_count_warning_cites : forall lens n1 r1 n2 r2,
  field_count_warning lens = Some (n1, r1, n2, r2) ->
  r1 = 1 /\ r1 < r2 /\ n1 <> n2 /\
  exists pre post, lens = n1 :: pre ++ n2 :: post /\ Forall (fun n => n = n1) pre /\ r2 = 2 + length pre.
Proof. exact field_count_warning_cites. Qed.
Print Assumptions C14_field_count_warning_cites.

Example C14_nonvacuous :
  field_count_warning [2; 2; 3; 1; 2] = Some (2, 1, 3, 3) /\ field_count_warning [4; 4; 4] = None.
Proof. split; reflexivity. Qed.
Print Assumptions C14_nonvacuous.
