(* Props/C14.v — errors name the first offending record; warnings appear iff the anomaly occurred.
   First the engine and TableIterator part, then (end of file) the CSV reader / writer warnings. *)
From RBQL Require Import Base Value Expr Writers Join Agg Engine Spec Engine_Proofs Update_Proofs Warn Warn_Proofs.

(* classification of a failure raised while evaluating record nr: a bad field access names the record and the
   field, a parsing error raised from inside the loop stays a parsing error, anything else is a query-execution
   error naming the record *)
Theorem C14_classify : forall nr i t,
  classify nr (XBadField i) = (CRuntime, nr, XBadField i)
  /\ classify nr XType = (CRuntime, nr, XType)
  /\ classify nr XValue = (CRuntime, nr, XValue)
  /\ classify nr (XRuntime t) = (CRuntime, nr, XRuntime t)
  /\ classify nr (XParsing t) = (CParsing, 0%nat, XParsing t).
Proof. intros. repeat split. Qed.
Print Assumptions C14_classify.

(* SELECT (any non-aggregate shape, any writer chain that has not refused yet, any expression semantics): if
   every evaluation on the records before record k = |A1|+1 succeeds and the evaluation of record k fails with e
   (in WHERE, a select item, the ORDER BY key, or the join key), the query stops with the error classified at
   record k, having pulled exactly k records; the rows offered before the failing evaluation (all rows of the
   records before k and of the earlier join matches of record k) have reached the writer chain, and finish()
   is not called *)
Theorem C14_first_offender_select :
  forall (expr : Type) (eval : env -> expr -> res val) w (q : query expr) hdr A1 a A2 B jm offs1 part e,
    is_agg q = false -> is_update q = false -> static_check q = None ->
    join_map_of expr q B = Some jm ->
    all_offers expr eval q jm 0 A1 = Ok offs1 ->
    record_until_error expr eval q jm (S (length A1)) a = (part, Some e) ->
    snd (chain_feed w (cfg_of q) (set_header chain_init hdr) (offs1 ++ part)) = true ->
    let o := run eval w q hdr (A1 ++ a :: A2) B in
    o_error o = Some (classify (S (length A1)) e)
    /\ o_chain o = fst (chain_feed w (cfg_of q) (set_header chain_init hdr) (offs1 ++ part))
    /\ o_pulls o = S (length A1).
Proof. exact run_select_first_offender. Qed.
Print Assumptions C14_first_offender_select.

(* UPDATE: the records before the first failing one are written updated, then the query stops with that record's number *)
Theorem C14_first_offender_update :
  forall (expr : Type) (eval : env -> expr -> res val) (q : query expr) asg jm A1 a A2 ls nr rows nu' e,
    q_kind q = QUpdate asg -> q_order q = None -> q_distinct q = DNo -> q_top q = None ->
    update_all_nu expr eval q asg jm nr (l_nu ls) A1 = Ok (rows, nu') ->
    update_record_error expr eval q asg jm (S (nr + length A1)) nu' a = Some e ->
    exists ls', main_loop eval yes q jm ls nr (A1 ++ a :: A2)
                = (ls', S (nr + length A1), Some (classify (S (nr + length A1)) e))
                /\ written (l_chain ls') = written (l_chain ls) ++ rows.
Proof.
  intros expr eval q asg jm A1 a A2 ls nr rows nu' e Hk Ho Hd Ht.
  exact (main_loop_update_first_offender expr eval q asg Hk Ho Hd Ht jm A1 a A2 ls nr rows nu' e).
Qed.
Print Assumptions C14_first_offender_update.

(* mistakes detectable from the query are parsing errors raised before the output writer sees anything
   (no set_header, no write, no finish) and before any record is pulled; a join table record lacking a key field
   is a query-execution error naming the B record, equally before any output *)
Theorem C14_static_before_output :
  forall (expr : Type) (eval : env -> expr -> res val) w (q : query expr) hdr A B t,
    static_check q = Some t ->
    run eval w q hdr A B = {| o_chain := chain_init; o_pulls := 0; o_error := Some (CParsing, 0%nat, XParsing t) |}.
Proof. intros expr eval w q hdr A B t H. unfold run. rewrite H. reflexivity. Qed.
Print Assumptions C14_static_before_output.

Theorem C14_join_build_error :
  forall (expr : Type) (eval : env -> expr -> res val) w (q : query expr) hdr A B js bnr,
    static_check q = None -> q_join q = Some js -> build (j_rhs js) B = inr bnr ->
    run eval w q hdr A B = {| o_chain := chain_init; o_pulls := 0; o_error := Some (CRuntime, bnr, XRuntime 5) |}.
Proof. intros expr eval w q hdr A B js bnr H1 H2 H3. unfold run. rewrite H1, H2, H3. reflexivity. Qed.
Print Assumptions C14_join_build_error.

(* the inconsistent-field-count warning over the records pulled (lens = their field counts, in order):
   issued iff two of them differ; it cites record 1 and the first record whose count differs from record 1's *)
Theorem C14_field_count_warning_iff : forall lens,
  field_count_warning lens = None <-> (forall n0 t, lens = n0 :: t -> Forall (fun n => n = n0) t).
Proof. exact field_count_warning_iff. Qed.
Print Assumptions C14_field_count_warning_iff.

Theorem C14_field_count_warning_cites : forall lens n1 r1 n2 r2,
  field_count_warning lens = Some (n1, r1, n2, r2) ->
  r1 = 1 /\ r1 < r2 /\ n1 <> n2 /\
  exists pre post, lens = n1 :: pre ++ n2 :: post /\ Forall (fun n => n = n1) pre /\ r2 = 2 + length pre.
Proof. exact field_count_warning_cites. Qed.
Print Assumptions C14_field_count_warning_cites.

Example C14_nonvacuous :
  field_count_warning [2; 2; 3; 1; 2] = Some (2, 1, 3, 3) /\ field_count_warning [4; 4; 4] = None.
Proof. split; reflexivity. Qed.
Print Assumptions C14_nonvacuous.

(* ------------------------------------------------------------------ the CSV-level warnings are exact *)
From RBQL Require Import Lines Csv CsvSpec CsvWriter Reader CsvLossy_Proofs WarnCsv_Proofs.

(* The reader (records_of_lines = the Python stream reader on every partition, C12_records, = the JavaScript stream reader on
   every chunking and schedule, C20 / C18_readers_agree), for ANY splitter and configuration: the BOM warning is raised exactly
   when the first physical line starts with the byte order mark of the assumed encoding (U+FEFF for utf-8, EF BB BF for
   latin-1, never without an encoding); the defective-line warning cites the physical line of the FIRST non-comment row that
   the splitter flags, and is absent when there is none; under quoted_rfc the same condition is an error citing that record
   and line instead.   data_rows = the non-comment logical rows with the number of their last physical line *)
Theorem C14_reader_warnings_exact : forall (split : str -> list str * bool) (c : cfg) (lines : list str),
  match records_of_lines split c lines with
  | ROk _ _ w _ _ =>
      w_bom w = match lines with l :: _ => line_has_bom (c_enc c) l | [] => false end /\
      (if c_rfc c then w_defective w = None /\ first_warn split (data_rows c lines) = None
       else w_defective w = option_map snd (first_warn_nr split 0 (data_rows c lines)))
  | RErr nr nl => c_rfc c = true /\ first_warn_nr split 0 (data_rows c lines) = Some (nr, nl)
  end.
Proof. exact reader_warnings_exact. Qed.
Print Assumptions C14_reader_warnings_exact.

Theorem C14_bom_iff : forall (split : str -> list str * bool) (c : cfg) (lines : list str) recs h w nl nr,
  records_of_lines split c lines = ROk recs h w nl nr ->
  (w_bom w = true <-> exists l rest, lines = l :: rest /\ line_has_bom (c_enc c) l = true).
Proof. exact bom_warning_iff. Qed.
Print Assumptions C14_bom_iff.

Theorem C14_defective_iff : forall (split : str -> list str * bool) (c : cfg) (lines : list str) recs h w nl nr,
  c_rfc c = false -> records_of_lines split c lines = ROk recs h w nl nr ->
  (w_defective w <> None <-> exists r, In r (data_rows c lines) /\ snd (split (fst r)) = true).
Proof. exact defective_warning_iff. Qed.
Print Assumptions C14_defective_iff.

Theorem C14_rfc_error_iff : forall (split : str -> list str * bool) (c : cfg) (lines : list str),
  c_rfc c = true ->
  ((exists nr nl, records_of_lines split c lines = RErr nr nl) <->
   exists r, In r (data_rows c lines) /\ snd (split (fst r)) = true).
Proof. exact rfc_error_iff. Qed.
Print Assumptions C14_rfc_error_iff.

(* The writer, on a run that raised no error: the None warning is raised exactly when some cell of some record (header
   included, also inside a list cell) is None; the delimiter warning exactly when the policy is simple / whitespace and the
   port's detector fires on some record; for a one-character delimiter and non-empty records (Python port) that is exactly
   "some output field contains the delimiter" *)
Theorem C14_writer_flags_exact : forall (fl : lang) (pol : policy) (dlm : str) (header : option (list cell))
    (rows : list (list cell)) (lines : list str) (nf df : bool),
  write_table fl pol dlm header rows = (lines, None, nf, df) ->
  let all := match header with Some h => h :: rows | None => rows end in
  nf = existsb (existsb has_none) all /\ df = existsb (row_delim_flag fl pol dlm) all.
Proof. exact writer_flags_exact. Qed.
Print Assumptions C14_writer_flags_exact.

Theorem C14_none_iff : forall (fl : lang) (pol : policy) (dlm : str) (header : option (list cell))
    (rows : list (list cell)) (lines : list str) (nf df : bool),
  write_table fl pol dlm header rows = (lines, None, nf, df) ->
  (nf = true <-> exists row, In row (match header with Some h => h :: rows | None => rows end) /\ existsb has_none row = true).
Proof. exact none_warning_iff. Qed.
Print Assumptions C14_none_iff.

Theorem C14_delim_iff_single : forall (pol : policy) (c : ch) (header : option (list cell)) (rows : list (list cell))
    (lines : list str) (nf df : bool),
  write_table LPy pol [c] header rows = (lines, None, nf, df) -> lossy_policy pol = true ->
  let all := match header with Some h => h :: rows | None => rows end in
  Forall (fun row => row <> []) all ->
  (df = true <-> exists row f, In row all /\ In f (fst (normalize_fields [c] row)) /\ has c f = true).
Proof. exact delim_warning_iff_single. Qed.
Print Assumptions C14_delim_iff_single.

(* non-vacuity: a latin-1 BOM in front of a quoted line with a stray quote, then a comment line, then a clean line *)
Example C14_csv_warnings_nonvacuous :
  let c := {| c_rfc := false; c_comment := Some [35%N]; c_header := false; c_enc := EncLatin1; c_modifier := None |} in
  exists recs w, records_of_lines (smart_split Quoted [COMMA] false) c
                   [[239; 187; 191; 97; QT; 98]%N; [35; 120]%N; [99; COMMA; 100]%N] = ROk recs None w 3 2
    /\ w_bom w = true /\ w_defective w = Some 1%nat /\ w_fields w = Some (1, 1, 2, 2)%nat.
Proof. vm_compute. do 2 eexists. repeat split. Qed.
Print Assumptions C14_csv_warnings_nonvacuous.
