(* Props/C08.v — Query meaning is invariant under spelling; string literals are opaque.
   ONLY statements: each closed by [exact <lemma>] with Print Assumptions beneath. *)
From RBQL Require Import Parser_Tokens_Proofs Parser_TokensLocate_Proofs Parser_TokensRender_Proofs Parser_TokensQuery_Proofs
  Parser_TokensMain_Proofs Parser_TokensSpell_Proofs Parser_TokensJoin_Proofs Parser_TokensFrom_Proofs Parser_TokensExamples_Proofs.
From RBQL Require Import Base Parser Parser_Proofs Parser_Combine_Proofs Parser_Spelling_Proofs.
From Coq Require Import Permutation.
(* [render] of the literal-separation theorems is Parser_Proofs.render; the token-spelling text is [trender] *)
Notation trender := Parser_TokensQuery_Proofs.render.
Local Open Scope N_scope.

(* C08_cleanup_invariant. A query text is a list of physical lines (each without LF) joined by LF.
   [spell_step fl] (Parser_Proofs.v) is one spelling step on the lines:
     ss_insert : insert a line l with strip_comments l = [] (a comment line or a blank line) anywhere;
     ss_pad    : add blanks w1 / w2 (any whitespace of the language's strip) before / after a line;
     ss_break  : replace the single space between two words of a line "... a SP b ..." by a line break followed
                 by any indentation, provided the line is a code line (its first non-blank character is not the
                 comment character) and the word after the break does not start with the comment character
                 (otherwise the second half WOULD become a comment line: a hypothesis the code forces);
     ss_semis  : append any number of semicolons to the last line, when that line ends in a non-blank.
   [spell_equiv] is the reflexive-symmetric-transitive closure. cleanup_query does not see any of it. *)
Theorem C08_cleanup_invariant : forall (fl : lang) (ls ls' : list str),
  Forall nolf ls -> Forall nolf ls' -> spell_equiv fl ls ls' ->
  cleanup_query fl (join [LF] ls) = cleanup_query fl (join [LF] ls').
Proof. exact cleanup_invariant. Qed.
Print Assumptions C08_cleanup_invariant.

(* each single step, on the cleaned text of the lines *)
Theorem C08_cleanup_step : forall (fl : lang) (ls ls' : list str),
  spell_step fl ls ls' -> cleanup_lines fl ls = cleanup_lines fl ls'.
Proof. exact spell_step_sound. Qed.
Print Assumptions C08_cleanup_step.

Theorem C08_cleanup_of_lines : forall (fl : lang) (ls : list str),
  Forall nolf ls -> cleanup_query fl (join [LF] ls) = cleanup_lines fl ls.
Proof. exact cleanup_of_lines. Qed.
Print Assumptions C08_cleanup_of_lines.

(* non-vacuity: "select a1 where a2" and its respelling over three lines with a comment line, indentation and
   two semicolons are related, LF-free line by line, different as texts, and clean up to the one-line query *)
Example C08_cleanup_nonvacuous :
  Forall nolf ex_lines0 /\ Forall nolf ex_lines3 /\ spell_equiv LPy ex_lines0 ex_lines3 /\
  cleanup_query LPy (join [LF] ex_lines3) = [115; 101; 108; 101; 99; 116; 32; 97; 49; 32; 119; 104; 101; 114; 101; 32; 97; 50] /\
  join [LF] ex_lines0 <> join [LF] ex_lines3.
Proof. exact spell_equiv_example. Qed.
Print Assumptions C08_cleanup_nonvacuous.

(* the cleaned query never contains LF (cleanup_query splits at LF): this is what licenses the model's reading of
   '$' as "end of text" in the regexes applied after cleanup *)
Theorem C08_cleanup_no_lf : forall (fl : lang) (q : str), nolf (cleanup_query fl q).
Proof. exact cleanup_no_lf. Qed.
Print Assumptions C08_cleanup_no_lf.

(* C08_literals_opaque (Python flavour). [segs] alternates code without quote characters with literals
   Q body Q, Q one of DQ, SQ, DQ DQ DQ, SQ SQ SQ (double / single quote), whose body is a sequence of plain characters (not the quote character, not a
   backslash, not LF) and backslash pairs (backslash + any character but LF; inside a triple-quoted literal not the
   quote character); an empty DQ DQ / SQ SQ is not directly followed by a third quote of its kind. Then the scanner
   returns exactly the placeholders and the literal texts: whatever a literal contains (keywords, *, =, #, commas,
   semicolons, variable-like text, the other quote, TABs) stays out of the format expression. *)
Theorem C08_literals_opaque : forall (segs : list seg), wf_segs segs ->
  separate_string_literals LPy (render segs) = (placeholders 0 segs, literals segs).
Proof. exact literals_opaque. Qed.
Print Assumptions C08_literals_opaque.

(* the same for the rbql-js scanner (after fix a149087 of finding D13; quote characters SQ, DQ, backtick; a backslash
   escapes ANY next character; LF allowed inside a literal) *)
Theorem C08_literals_opaque_js : forall (segs : list jseg), jwf_segs segs ->
  separate_string_literals LJs (jrender segs) = (jplaceholders 0 segs, jliterals segs).
Proof. exact literals_opaque_js. Qed.
Print Assumptions C08_literals_opaque_js.

(* non-vacuity, on the input of finding D13: select DQ a\\ DQ where a1 != DQ z DQ separates into two literals *)
Example C08_literals_js_nonvacuous :
  jwf_segs ex_jsegs /\ jliterals ex_jsegs = [[QT; 97; BSL; BSL; QT]; [QT; 122; QT]] /\
  snd (separate_string_literals LJs (jrender ex_jsegs)) = jliterals ex_jsegs.
Proof.
  split; [exact (proj1 literals_opaque_js_example)|]. split; [reflexivity|].
  rewrite (literals_opaque_js ex_jsegs (proj1 literals_opaque_js_example)). reflexivity.
Qed.
Print Assumptions C08_literals_js_nonvacuous.

(* non-vacuity: select DQ where \DQ TAB #,; a1 SQ = * DQ, a1 TAB SQSQSQ from a \x order by SQSQSQ + DQDQ x
   is well-formed and separates into three placeholders and the three literal texts, TAB inside the literal kept,
   TAB outside replaced by a space *)
Example C08_literals_nonvacuous :
  wf_segs ex_segs /\
  separate_string_literals LPy (render ex_segs) = (placeholders 0 ex_segs, literals ex_segs) /\
  length (literals ex_segs) = 3%nat /\ In TAB (nth 0 (literals ex_segs) []) /\ ~ In TAB (placeholders 0 ex_segs).
Proof.
  split; [exact (proj1 literals_opaque_example)|]. split; [exact (literals_opaque ex_segs (proj1 literals_opaque_example))|].
  split; [reflexivity|]. split; [vm_compute; tauto|]. vm_compute. intuition discriminate.
Qed.
Print Assumptions C08_literals_nonvacuous.

(* C08_combine_verbatim. [cv_segs segs] (Parser_Combine_Proofs.v): code and literals alternate (no two code segments
   in a row), every literal is delimited by quote characters, and neither a code segment nor a literal text contains
   the marker RBQL_STRING_LITERAL (the placeholder text without its underscores). Then the sequential str.replace of
   combine_string_literals finds exactly its own placeholder at every step and the result is the original text with
   the TABs of the code (never of a literal) turned into spaces. The marker hypothesis is forced by the sequential
   replace: it cannot be dropped (C08_combine_needs_hypothesis below; observation O1). *)
Theorem C08_combine_verbatim : forall (segs : list seg), cv_segs segs ->
  combine_string_literals (placeholders 0 segs) (literals segs) = render_fixed segs.
Proof. exact combine_verbatim. Qed.
Print Assumptions C08_combine_verbatim.

(* hence: separate, then combine, is the identity up to TAB -> space in the code *)
Theorem C08_separate_then_combine : forall (segs : list seg), wf_segs segs -> cv_segs segs ->
  combine_string_literals (fst (separate_string_literals LPy (render segs))) (snd (separate_string_literals LPy (render segs)))
  = render_fixed segs.
Proof. exact separate_then_combine. Qed.
Print Assumptions C08_separate_then_combine.

Example C08_combine_nonvacuous : wf_segs ex_segs /\ cv_segs ex_segs /\
  combine_string_literals (placeholders 0 ex_segs) (literals ex_segs) = render_fixed ex_segs /\
  render_fixed ex_segs <> render ex_segs.
Proof. exact combine_verbatim_example. Qed.
Print Assumptions C08_combine_nonvacuous.

(* the hypothesis "no literal contains the marker" cannot be dropped: *)
Example C08_combine_needs_hypothesis :
  wf_segs ex_segs_o1 /\
  combine_string_literals (placeholders 0 ex_segs_o1) (literals ex_segs_o1) <> render ex_segs_o1.
Proof.
  split; [exact (proj1 combine_needs_hypothesis)|].
  destruct combine_needs_hypothesis as [_ [E1 E2]]. rewrite E1, E2. vm_compute. discriminate.
Qed.
Print Assumptions C08_combine_needs_hypothesis.

(* C08_token_spelling - proved below (section "token spelling", end of this file) as
     forall q sigma, wf_aq q -> sigma_ok sigma q -> separate_actions fl with_from (render sigma q) = Ok (actions_of sigma q)
   for every spelling choice sigma = (case of every keyword letter, permutation of the clauses after SELECT / UPDATE,
   number of spaces, JOIN vs INNER JOIN, LEFT vs LEFT OUTER JOIN, explicit ASC, UPDATE SET vs UPDATE), with the corollaries
   TOP = LIMIT, FROM a, UPDATE a SET and the ON-condition spellings.
   The two theorems that follow are the older, character-level letter-case component (the ASCII case of ANY letter of the
   text, keyword or not, no hypothesis on the words):
     C08_locate_case_invariant      the statements found and their positions are the same;
     C08_case_spelling_partial      separate_actions gives the same error tag, or action records with the same
                                    statements, TOP value, DISTINCT [COUNT] flags, ASC/DESC flag and join spelling whose
                                    clause texts are equal up to the same letter case - hence identical when only
                                    keywords were respelled. (The WITH modifier is excluded: the code matches its name
                                    case-sensitively, [a-z].) *)
Theorem C08_locate_case_invariant : forall (fl : lang) (with_from : bool) (s s' : str), case_rel s s' ->
  locate_statements fl with_from s = locate_statements fl with_from s'.
Proof. exact locate_case_invariant. Qed.
Print Assumptions C08_locate_case_invariant.

Theorem C08_case_spelling_partial : forall (fl : lang) (with_from : bool) (s s' : str), case_rel s s' ->
  with_match fl (strip_sp s) = None -> with_match fl (strip_sp s') = None ->
  res_rel (separate_actions fl with_from s) (separate_actions fl with_from s').
Proof. exact separate_actions_case. Qed.
Print Assumptions C08_case_spelling_partial.

(* non-vacuity: SELECT a1 WHERE a2 == b1 ORDER BY a1 LEFT JOIN b ON a1 == b1  and a mixed-case respelling of it *)
Example C08_case_spelling_nonvacuous :
  case_rel ex_case1 ex_case2 /\ ex_case1 <> ex_case2 /\
  with_match LPy (strip_sp ex_case1) = None /\ with_match LPy (strip_sp ex_case2) = None /\
  locate_statements LPy false ex_case2 = Ok [(0, 6, SELECT); (9, 15, WHERE); (24, 33, ORDER_BY); (36, 46, LEFT_JOIN)]%nat /\
  exists a a', separate_actions LPy false ex_case1 = Ok a /\ separate_actions LPy false ex_case2 = Ok a'.
Proof.
  destruct locate_case_example as [H1 [H2 H3]]. destruct separate_actions_case_example as [_ [W1 [W2 [a [a' [E1 [E2 _]]]]]]].
  repeat split; try assumption. exists a, a'. split; assumption.
Qed.
Print Assumptions C08_case_spelling_nonvacuous.

(* ================================================================== token spelling *)
(* An abstract query [aq] (Parser_TokensQuery_Proofs.v): SELECT [TOP digits] [DISTINCT [COUNT]] list | UPDATE assignments;
   optional WHERE, ORDER BY (text, descending?), GROUP BY, LIMIT, EXCEPT, JOIN (inner | left | strict left, text), FROM.
   A spelling choice [sigma]: the order of the clauses, the spelled words of every keyword, the number of spaces at
   every place where the regexes allow several, INNER / OUTER, explicit ASC, UPDATE SET.  [render sigma q] is the text.
   [wf_aq fl with_from q] (boolean) asks of every clause text T:  non-empty and no leading / trailing character the
   strip removes (edge_ok);  no statement that locate_statements searches starts after a space of " T " and no
   proper prefix of a multi-word statement (LEFT, STRICT LEFT, INNER, ORDER, GROUP ...) ends T (quiet_all);  T does not
   end with "(" lower-case{4,20} ")" (wt_ok: the WITH-modifier regex; sufficient only);  a sort key does not end with
   the word ASC / DESC;  the select list does not start with TOP digits / DISTINCT when the query has none;  FROM only
   when the FROM group is searched.  [sigma_ok sigma q]: the order lists exactly the clauses of q once each, every
   keyword is spelled with its own letters in some case.  All conditions are computed by the model's own scanners. *)
Theorem C08_token_spelling : forall (fl : lang) (with_from : bool) (s : sigma) (q : aq),
  wf_aq fl with_from q = true -> sigma_ok s q ->
  separate_actions fl with_from (trender s q) = Ok (actions_of s q).
Proof. exact token_spelling. Qed.
Print Assumptions C08_token_spelling.

(* the same with the spelling-dependent parts of the record mapped to what the engine reads: the join KIND
   (joiner_type) and the record limit (find_top): the right-hand side does not mention sigma *)
Theorem C08_token_spelling_norm : forall (fl : lang) (with_from : bool) (s : sigma) (q : aq),
  wf_aq fl with_from q = true -> sigma_ok s q ->
  norm_res fl (separate_actions fl with_from (trender s q)) = Ok (nact fl q).
Proof. exact token_spelling_norm. Qed.
Print Assumptions C08_token_spelling_norm.

Theorem C08_spelling_invariant : forall (fl : lang) (with_from : bool) (s1 s2 : sigma) (q : aq),
  wf_aq fl with_from q = true -> sigma_ok s1 q -> sigma_ok s2 q ->
  norm_res fl (separate_actions fl with_from (trender s1 q)) = norm_res fl (separate_actions fl with_from (trender s2 q)).
Proof. exact spelling_invariant. Qed.
Print Assumptions C08_spelling_invariant.

(* locate_statements finds exactly the rendered statements, at the rendered positions *)
Theorem C08_locate_rendered : forall (fl : lang) (with_from : bool) (s : sigma) (q : aq),
  wf_aq fl with_from q = true -> sigma_ok s q ->
  locate_statements fl with_from (trender s q) = Ok (target_of s q).
Proof. exact locate_rendered. Qed.
Print Assumptions C08_locate_rendered.

Theorem C08_clause_order_invariant : forall (fl : lang) (with_from : bool) (s : sigma) (q : aq) (l : list ck),
  wf_aq fl with_from q = true -> sigma_ok s q -> Permutation (s_order s) l ->
  separate_actions fl with_from (trender (with_order s l) q) = separate_actions fl with_from (trender s q).
Proof. exact clause_order_invariant. Qed.
Print Assumptions C08_clause_order_invariant.

Theorem C08_extra_spaces_invariant : forall (fl : lang) (with_from : bool) (s : sigma) (q : aq)
  (lead : ck -> nat) (gaps : ck -> list nat) (sp : ck -> nat) (hk tg tsp dg dsp ssp og : nat),
  wf_aq fl with_from q = true -> sigma_ok s q ->
  separate_actions fl with_from (trender (respace s lead gaps sp hk tg tsp dg dsp ssp og) q)
  = separate_actions fl with_from (trender s q).
Proof. exact extra_spaces_invariant. Qed.
Print Assumptions C08_extra_spaces_invariant.

Theorem C08_keyword_case_invariant : forall (fl : lang) (with_from : bool) (s : sigma) (q : aq)
  (ws : ck -> list str) (hw top dist count setw dirw : str),
  wf_aq fl with_from q = true -> sigma_ok s q -> sigma_ok (respell s ws hw top dist count setw dirw) q ->
  separate_actions fl with_from (trender (respell s ws hw top dist count setw dirw) q) = separate_actions fl with_from (trender s q).
Proof. exact keyword_case_invariant. Qed.
Print Assumptions C08_keyword_case_invariant.

Theorem C08_join_spelling_equiv : forall (fl : lang) (with_from : bool) (s1 s2 : sigma) (q : aq),
  wf_aq fl with_from q = true -> sigma_ok s1 q -> sigma_ok s2 q ->
  norm_res fl (separate_actions fl with_from (trender s1 q)) = norm_res fl (separate_actions fl with_from (trender s2 q))
  /\ jk_of JOIN = jk_of INNER_JOIN /\ jk_of LEFT_JOIN = jk_of LEFT_OUTER_JOIN.
Proof. exact join_spelling_equiv. Qed.
Print Assumptions C08_join_spelling_equiv.

(* SELECT TOP n ...  =  SELECT ... LIMIT n  (both queries well formed: see C08_top_limit_needs_wf) *)
Theorem C08_top_limit_equiv : forall (fl : lang) (with_from : bool) (s1 s2 : sigma) (q : aq), q_limit q = None ->
  wf_aq fl with_from q = true -> wf_aq fl with_from (top_to_limit q) = true ->
  sigma_ok s1 q -> sigma_ok s2 (top_to_limit q) ->
  norm_res fl (separate_actions fl with_from (trender s1 q))
  = norm_res fl (separate_actions fl with_from (trender s2 (top_to_limit q))).
Proof. exact top_limit_equiv. Qed.
Print Assumptions C08_top_limit_equiv.

(* FROM a written between any two clauses (or at the end) of a SELECT query, when the text has no other FROM a:
   remove_redundant_input_table_name leaves the rendered query, with one space where FROM a was *)
Theorem C08_from_a_redundant : forall (fl : lang) (s : sigma) (q : aq) (l1 l2 : list ck) (a : nat) (fw : str) (g : nat) (c : ch),
  wf_aq fl false q = true -> sigma_ok s q -> s_order s = l1 ++ l2 ->
  (exists top d cn sel, q_kind q = QSelect top d cn sel) ->
  case_rel K_FROM fw -> ci_eq fl 65 c = true ->
  fa_quiet fl (trender (lead0 s l2) q ++ (match l2 with [] => [SP] | _ :: _ => [] end)) = true ->
  separate_actions fl false (remove_redundant_input_table_name fl (render_from s q l1 l2 a fw g c))
  = separate_actions fl false (trender s q).
Proof. exact from_a_redundant. Qed.
Print Assumptions C08_from_a_redundant.

Theorem C08_update_set_redundant : forall (fl : lang) (s : sigma) (q : aq) (asg : str) (a : nat) (c : ch) (b : nat),
  wf_aq fl false q = true -> sigma_ok s q -> q_kind q = QUpdate asg -> ci_eq fl 65 c = true ->
  fa_quiet fl (render_upd_a s q asg a c b) = true ->
  separate_actions fl false (remove_redundant_input_table_name fl (render_upd_a s q asg a c b))
  = separate_actions fl false (trender s q).
Proof. exact update_set_redundant. Qed.
Print Assumptions C08_update_set_redundant.

(* the ON condition: = or ==, any spaces around it, ON / AND in any case (JS: &&), any spaces around them *)
Theorem C08_join_on_equiv : forall (fl : lang) (tid : str) (a : nat) (onw : str) (b : nat) (ps : list jpair),
  forallb not_sp tid = true -> edge_ok fl (render_join tid a onw b ps) = true ->
  case_rel K_ON onw -> ps <> [] -> Forall (jpair_ok fl) ps ->
  parse_join_expression fl (render_join tid a onw b ps) = Ok (tid, map (fun p => (jp_l p, jp_r p)) ps).
Proof. exact join_on_equiv. Qed.
Print Assumptions C08_join_on_equiv.

(* non-vacuity: a query with every clause, two very different spellings (texts in Parser_TokensExamples_Proofs.v) *)
Example C08_token_spelling_nonvacuous :
  wf_aq LPy false ex_q = true /\ wf_aq LJs false ex_q = true /\
  sigma_ok ex_s1 ex_q /\ sigma_ok ex_s2 ex_q /\ trender ex_s1 ex_q <> trender ex_s2 ex_q /\
  separate_actions LPy false (trender ex_s1 ex_q) = Ok (actions_of ex_s1 ex_q) /\
  separate_actions LPy false (trender ex_s2 ex_q) = Ok (actions_of ex_s2 ex_q) /\
  norm LPy (actions_of ex_s1 ex_q) = norm LPy (actions_of ex_s2 ex_q).
Proof.
  destruct ex_wf as [W1 W2]. destruct ex_sigmas as [S1 [S2 D]]. destruct ex_same_by_computation as [C1 [C2 _]].
  split; [exact W1|]. split; [exact W2|]. split; [exact S1|]. split; [exact S2|]. split; [exact D|]. split; [exact C1|]. split; [exact C2|].
  rewrite (norm_actions_of LPy ex_s1 ex_q), (norm_actions_of LPy ex_s2 ex_q). reflexivity.
Qed.
Print Assumptions C08_token_spelling_nonvacuous.

(* the text conditions cannot be dropped: a clause text containing  where  as a word changes the parse *)
Example C08_clause_ok_needed :
  sigma_ok (std_sigma bad_q1 [CGroup]) bad_q1 /\ wf_aq LPy false bad_q1 = false /\
  separate_actions LPy false (trender (std_sigma bad_q1 [CGroup]) bad_q1) <> Ok (actions_of (std_sigma bad_q1 [CGroup]) bad_q1).
Proof. destruct clause_ok_needed as [A [B [_ [C _]]]]. split; [exact A|]. split; [exact B | exact C]. Qed.
Print Assumptions C08_clause_ok_needed.

(* REFUTED without the "straddle" part of quiet_all: the two clause orders of
     SELECT a1 JOIN b ON a1 == b1 WHERE a2 in left   /   SELECT a1 WHERE a2 in left JOIN b ON a1 == b1
   mean different queries (inner join vs LEFT join), although no clause text contains a statement keyword as a word *)
Example C08_clause_order_refuted :
  sigma_ok (std_sigma bad_q2 [CJoin; CWhere]) bad_q2 /\ sigma_ok (std_sigma bad_q2 [CWhere; CJoin]) bad_q2 /\
  wf_aq LPy false bad_q2 = false /\
  norm_res LPy (separate_actions LPy false (trender (std_sigma bad_q2 [CJoin; CWhere]) bad_q2))
  <> norm_res LPy (separate_actions LPy false (trender (std_sigma bad_q2 [CWhere; CJoin]) bad_q2)) /\
  (forall fl st', In st' (all_stmts false) -> find_all (kw_match fl (stmt_words st')) (SP :: nth 0 [oget (q_where bad_q2)] [] ++ [SP]) = []).
Proof.
  destruct clause_order_refuted as [A [B [C [_ [_ [D [[n [E [F _]]] G]]]]]]].
  split; [exact A|]. split; [exact B|]. split; [exact C|]. split; [|exact G].
  rewrite D, E. intro H. injection H as H. rewrite <- H in F. vm_compute in F. discriminate F.
Qed.
Print Assumptions C08_clause_order_refuted.

Example C08_top_limit_needs_wf :
  wf_aq LPy false bad_q4 = true /\ wf_aq LPy false (top_to_limit bad_q4) = false /\
  norm_res LPy (separate_actions LPy false (trender (std_sigma bad_q4 []) bad_q4))
  <> norm_res LPy (separate_actions LPy false (trender (std_sigma (top_to_limit bad_q4) [CLimit]) (top_to_limit bad_q4))).
Proof. destruct top_limit_needs_wf as [A [B [_ [_ C]]]]. split; [exact A|]. split; [exact B | exact C]. Qed.
Print Assumptions C08_top_limit_needs_wf.

(* ------------------------------------------------------------------ swapped sides in ON *)
From RBQL Require Import ParserVars JoinVars JoinVars_Proofs.
From Coq Require String.
Import String.StringSyntax.

(* resolve_join_variables (as after fix b7edec2 of finding D15): for every ON pair made of an input-side variable (a field
   variable of the input table, or NR / aNR / a.NR) and a join-side variable (a field variable of the join table, or bNR / b.NR),
   neither of them known to both tables, writing the pair in either order gives the same key component on each side - for any
   list of pairs and any choice of which pairs are written swapped *)
Theorem C08_join_sides_swap : forall (im jm : vmap) (pairs : list (str * str)) (swaps : list bool),
  length swaps = length pairs ->
  Forall (fun p : str * str => a_side im (fst p) = true /\ b_side jm (snd p) = true /\ in_map (fst p) jm = false /\ is_b_nr (fst p) = false
                   /\ in_map (snd p) im = false /\ is_a_nr (snd p) = false) pairs ->
  resolve_join_variables im jm (map (fun bp : bool * (str * str) => if fst bp then (snd (snd bp), fst (snd bp)) else snd bp) (combine swaps pairs))
  = resolve_join_variables im jm pairs.
Proof. exact resolve_join_swap. Qed.
Print Assumptions C08_join_sides_swap.

(* non-vacuity, on the inputs of finding D15: b1 == NR and bNR == aNR resolve like NR == b1 and aNR == bNR *)
Example C08_join_sides_nonvacuous :
  let im := [($"a1", (true, 0%N))] in let jm := [($"b1", (true, 0%N))] in
  resolve_join_variables im jm [($"b1", $"NR"); ($"bNR", $"aNR"); ($"b1", $"a1")]
  = JOk ([None; None; Some 0%N], [Some 0%N; None; Some 0%N])
  /\ resolve_join_variables im jm [($"NR", $"b1"); ($"aNR", $"bNR"); ($"a1", $"b1")]
  = JOk ([None; None; Some 0%N], [Some 0%N; None; Some 0%N]).
Proof. vm_compute. split; reflexivity. Qed.
Print Assumptions C08_join_sides_nonvacuous.

(* ================================================================== variable level: aN vs a[N] (VarSpelling.v) *)
From RBQL Require Import Value Like Expr VarSpelling VarSpelling_Proofs.

(* The two scanners of parse_basic_variables / parse_array_variables (ParserVars.v: basic_body, array_body under ctx_start and the
   left-to-right non-overlapping find_all; the same regexes in rbql_engine.py and rbql.js) build [numbered_vars q p], the variable
   map of the numbered variables of the table with prefix p (97 = a, 98 = b) for the query text q.  The init code
   "<key> = safe_get(record, <index>)" of generate_init_statements is read as a binding environment: a plain name binds a local
   variable, a[N] assigns the key N of the record object (Python: the int N; rbql-js: the property named N); a token of the
   expression text is read back through the same classification ([lookup fl p map token] = the 0-based field index it reads).
   [occurs_name q p N]: q = pre ++ "pN" ++ post with N written in decimal without leading zero (dec_of_N), nothing or a
   character outside [_a-zA-Z0-9] directly before, and the end of the text or such a character directly after.
   [occurs_index q p N]: q = pre ++ "p[N]" ++ post with nothing, or a character outside [_a-zA-Z0-9] other than "]", directly before.
   What the code guarantees about string literals: NOTHING - both scanners get the whole cleaned query text, literal
   contents included (Example C08_var_what_the_code_guarantees), so "occurs" is about the text, inside or outside literals; a
   token inside a literal only adds an unused variable.
   C08_var_index: for EVERY query text and every N >= 1, a token aN at a token boundary is bound to field N-1 and a token a[N] is
   bound to field N-1 (both prefixes, both flavours; N is an unbounded natural number). *)
Theorem C08_var_index : forall (fl : lang) (q : str) (p : ch) (n : N), p = 97 \/ p = 98 -> 1 <= n ->
  (occurs_name q p n -> lookup fl p (numbered_vars q p) (name_tok p n) = Some (n - 1)) /\
  (occurs_index q p n -> lookup fl p (numbered_vars q p) (index_tok p n) = Some (n - 1)).
Proof. exact var_index. Qed.
Print Assumptions C08_var_index.

(* rbql-js reads the digits with parseInt and prints them back with String(): the model of its map answers only while every
   number read is below 2^53 ([numbered_vars_fl LJs] = None otherwise; see C08_var_digits: a9007199254740993 is outside) *)
Theorem C08_var_index_flavour : forall (fl : lang) (q : str) (p : ch) (n : N) (m : vmap), p = 97 \/ p = 98 -> 1 <= n ->
  numbered_vars_fl fl q p = Some m ->
  (occurs_name q p n -> lookup fl p m (name_tok p n) = Some (n - 1)) /\
  (occurs_index q p n -> lookup fl p m (index_tok p n) = Some (n - 1)).
Proof. exact var_index_fl. Qed.
Print Assumptions C08_var_index_flavour.

(* the converse: the map holds ONLY what occurs.  A key aN is in the map only with index N-1 and only if the token aN stands at a
   token boundary of the text; a key a[N] only if a[N] stands after the start or a non-word character.  Hence aa1, a1b, _a1, a1_
   do not make a1 a variable, and a01 / a0 make nothing a variable (C08_var_digits). *)
Theorem C08_var_only_if_occurs : forall (q : str) (p : ch) (n : N) (v : vinfo), p = 97 \/ p = 98 ->
  (map_get (name_tok p n) (numbered_vars q p) = Some v -> v = (true, n - 1) /\ 1 <= n /\ occurs_name q p n) /\
  (map_get (index_tok p n) (numbered_vars q p) = Some v ->
     v = (true, n - 1) /\ 1 <= n /\ exists pre post, q = pre ++ index_tok p n ++ post /\ bound_before pre).
Proof. intros q p n v Hp. split; [exact (name_only_if_occurs q p n v Hp) | exact (index_only_if_occurs q p n v Hp)]. Qed.
Print Assumptions C08_var_only_if_occurs.

(* C08_aN_bracket_equiv.  [render_fld sp t i] is what the renderer writes for the node EFld t i (aN or a[N] with N = i+1; harness/qmodel.py
   Renderer.fld chooses at random); [field_expr fl t map token] is the node the token stands for on the model's parser side.
   Both spellings, each in a text where it occurs, come back as the SAME node EFld t i; so any expression K[.] around the
   designated occurrence evaluates alike under both spellings, for every record; the value is the field, None when the record
   is short (safe_get). *)
Theorem C08_aN_bracket_equiv : forall (fl : lang) (efl : flavour) (t : tbl) (i : nat) (q1 q2 : str),
  occurs_name q1 (tbl_ch t) (N.of_nat (S i)) -> occurs_index q2 (tbl_ch t) (N.of_nat (S i)) ->
  field_expr fl t (numbered_vars q1 (tbl_ch t)) (render_fld SpName t i) = Some (EFld t i) /\
  field_expr fl t (numbered_vars q2 (tbl_ch t)) (render_fld SpIndex t i) = Some (EFld t i) /\
  (forall (K : expr -> expr) (en : env) e1 e2,
     field_expr fl t (numbered_vars q1 (tbl_ch t)) (render_fld SpName t i) = Some e1 ->
     field_expr fl t (numbered_vars q2 (tbl_ch t)) (render_fld SpIndex t i) = Some e2 ->
     eval efl en (K e1) = eval efl en (K e2)) /\
  (forall en, eval efl en (EFld t i) = Expr.Ok (VA (field_value en t i))) /\
  (forall en, (length (e_a en) <= i)%nat -> eval efl en (EFld TA i) = Expr.Ok (VA ANone)).
Proof. exact aN_bracket_equiv. Qed.
Print Assumptions C08_aN_bracket_equiv.

(* respelling ONE occurrence in place, the text around it unchanged (before: start of text or a non-word character other than "]";
   after: end of text or a non-word character) *)
Theorem C08_respell_in_place : forall (fl : lang) (t : tbl) (i : nat) (pre post : str),
  bound_before_index pre -> bound_after post ->
  let q1 := pre ++ render_fld SpName t i ++ post in
  let q2 := pre ++ render_fld SpIndex t i ++ post in
  field_expr fl t (numbered_vars q1 (tbl_ch t)) (render_fld SpName t i) = Some (EFld t i) /\
  field_expr fl t (numbered_vars q2 (tbl_ch t)) (render_fld SpIndex t i) = Some (EFld t i).
Proof. exact respell_in_place. Qed.
Print Assumptions C08_respell_in_place.

Example C08_var_index_nonvacuous :
  let q := $"select a2, (a[3]), b1 where a[3] != 'x'" in
  occurs_name q 97 2 /\ occurs_index q 97 3 /\ occurs_name q 98 1 /\
  lookup LPy 97 (numbered_vars q 97) ($"a2") = Some 1 /\ lookup LJs 97 (numbered_vars q 97) ($"a[3]") = Some 2 /\
  field_expr LPy TB (numbered_vars q 98) ($"b1") = Some (EFld TB 0).
Proof. exact var_index_nonvacuous. Qed.
Print Assumptions C08_var_index_nonvacuous.

(* the extra condition of occurs_index (not directly after "]") cannot be dropped: the boundary character is consumed by the match *)
Example C08_var_index_boundary_needed :
  let q := $"a[1]a[2]" in
  (exists pre post, q = pre ++ index_tok 97 2 ++ post /\ bound_before pre) /\
  map_get (index_tok 97 2) (numbered_vars q 97) = None /\ lookup LPy 97 (numbered_vars q 97) (index_tok 97 2) = None.
Proof. exact index_boundary_needed. Qed.
Print Assumptions C08_var_index_boundary_needed.

(* C08_var_digits: a numeral that starts with 0 is never matched, at the start of the text or after any non-word character,
   whatever follows: a0, a01, a[0], a[01] are not field variables (cf. C18_header_a0_refuted) ... *)
Theorem C08_var_leading_zero : forall (p : ch) (prev : option ch) (r : str), p = 97 \/ p = 98 ->
  ctx_start (basic_body p) prev (p :: 48 :: r) = None /\
  ctx_start (array_body p) prev (p :: LBR :: 48 :: r) = None /\
  (forall c, is_word c = false ->
     ctx_start (basic_body p) prev (c :: p :: 48 :: r) = None /\ ctx_start (array_body p) prev (c :: p :: LBR :: 48 :: r) = None).
Proof. exact leading_zero_never. Qed.
Print Assumptions C08_var_leading_zero.

(* ... N is read as a decimal number, a 30-digit N is fine in Python, and rbql-js is exact below 2^53 only *)
Example C08_var_digits :
  numbered_vars ($"select a01, a0, a[0], a[01], a00012, a010") 97 = [] /\
  numbered_vars ($"select a10, a[12]") 97 = [($"a10", (true, 9)); ($"a[12]", (true, 11))] /\
  lookup LPy 97 (numbered_vars ($"select a123456789012345678901234567890") 97) ($"a123456789012345678901234567890")
    = Some 123456789012345678901234567889 /\
  numbered_vars_fl LJs ($"select a9007199254740993") 97 = None /\
  (exists m, numbered_vars_fl LJs ($"select a9007199254740991") 97 = Some m /\ lookup LJs 97 m ($"a9007199254740991") = Some 9007199254740990).
Proof. exact digit_examples. Qed.
Print Assumptions C08_var_digits.

(* C08_var_boundaries: aa1, a1b, _a1, a1_, xa[1], a1a2, 1a1 are not the variable a1;  -a1, (a1), "a1," and x[a[1]] are *)
Example C08_var_boundaries :
  numbered_vars ($"select aa1 + a1b + _a1 + a1_ + xa[1] + a1a2 + 1a1 + a_1") 97 = [] /\
  numbered_vars ($"-a1") 97 = [($"a1", (true, 0))] /\
  numbered_vars ($"(a1)") 97 = [($"a1", (true, 0))] /\
  numbered_vars ($"a1,") 97 = [($"a1", (true, 0))] /\
  numbered_vars ($"x[a[1]]") 97 = [($"a[1]", (true, 0))] /\
  numbered_vars ($"a1b2") 98 = [] /\ numbered_vars ($"a1.b2") 98 = [($"b2", (true, 1))].
Proof. exact boundary_examples. Qed.
Print Assumptions C08_var_boundaries.

Example C08_var_what_the_code_guarantees :
  numbered_vars ($"select a[ 1 ], a [2]") 97 = [] /\
  numbered_vars ($"select 'a5', ""x a[7]""") 97 = [($"a5", (true, 4)); ($"a[7]", (true, 6))].
Proof. exact what_the_code_guarantees. Qed.
Print Assumptions C08_var_what_the_code_guarantees.

(* C08_record_number_spellings.  [nr_lookup fl fmt jm name]: what the record-number name denotes given the format expression fmt
   (literals replaced by placeholders) and the join map jm (None: no JOIN).  NR is the loop variable; aNR / a.NR are assigned from it
   whenever the text contains them; bNR is the loop variable of a JOIN query; b.NR is assigned from it when the text contains it
   AND the join table's init code is emitted (always in rbql-js; in rbql-py only when the join map is not empty).  All spellings that
   are bound denote the same node (ENR / EBNR) and value.  Restriction: tables WITHOUT column names - with a header a.NR / b.NR are
   attribute variables (ParserVars.parse_attribute_variables: a column called NR, or "Unable to find column"). *)
Theorem C08_record_number_spellings : forall (fl : lang) (efl : flavour) (fmt : str) (jm : option vmap),
  nr_lookup fl fmt jm S_NR = Some NRA /\
  (occurs_text fmt S_aNR -> nr_lookup fl fmt jm S_aNR = Some NRA) /\
  (occurs_text fmt S_adotNR -> nr_lookup fl fmt jm S_adotNR = Some NRA) /\
  (jm <> None -> nr_lookup fl fmt jm S_bNR = Some NRB) /\
  (occurs_text fmt S_bdotNR -> join_init_emitted fl jm = true -> nr_lookup fl fmt jm S_bdotNR = Some NRB) /\
  (forall v, jm = Some v -> v <> [] \/ fl = LJs -> join_init_emitted fl jm = true) /\
  (forall x y a b, nr_lookup fl fmt jm x = Some a -> nr_lookup fl fmt jm y = Some b ->
     (In x [S_NR; S_aNR; S_adotNR] /\ In y [S_NR; S_aNR; S_adotNR]) \/ (In x [S_bNR; S_bdotNR] /\ In y [S_bNR; S_bdotNR]) ->
     a = b /\ forall en, eval efl en (nr_expr a) = eval efl en (nr_expr b)).
Proof. exact record_number_spellings. Qed.
Print Assumptions C08_record_number_spellings.

(* nr_lookup and the text of the init code (ParserVars.common_init / init_lines, compared with generate_init_statements by C09's run) agree *)
Theorem C08_record_number_lines : forall (fl : lang) (fmt : str) (m : vmap) (jm : option vmap),
  (nr_lookup fl fmt jm S_aNR = Some NRA <-> In S_aNR_eq_NR (common_init fmt 97)) /\
  (nr_lookup fl fmt jm S_adotNR = Some NRA <-> In (97 :: S_dotNR_eq ++ S_NR) (common_init fmt 97)) /\
  (nr_lookup LPy fmt jm S_bdotNR = Some NRB <-> In (98 :: S_dotNR_eq ++ S_bNR) (init_lines fmt m jm)).
Proof. exact nr_lookup_lines. Qed.
Print Assumptions C08_record_number_lines.

(* REFUTED in rbql-py (the faithful model; reproduced against the code, notes/vars08.md F3): in a JOIN query that names no FIELD of the join
   table the join map is empty, "if join_variables_map:" is false, no  b = RBQLRecord()  /  b.NR = bNR  line is emitted: b.NR fails where bNR works *)
Example C08_record_number_bdotNR_refuted :
  let fmt := $"select a1, b.NR join B on NR == b.NR" in
  nr_lookup LPy fmt (Some []) S_bNR = Some NRB /\ nr_lookup LPy fmt (Some []) S_bdotNR = None /\
  nr_lookup LJs fmt (Some []) S_bdotNR = Some NRB /\ nr_lookup LPy fmt (Some [($"b1", (true, 0))]) S_bdotNR = Some NRB.
Proof. exact py_bdotNR_refuted. Qed.
Print Assumptions C08_record_number_bdotNR_refuted.

(* REFUTED in rbql-js once the table has a header with a column NAMED like the number (notes/vars08.md F1): over the header c, d, 1 the map of
   select a[1]  is  a[1] -> 0, a["1"] -> 2; both init lines assign the same property, the later wins: a[1] reads field 2, a1 reads field 0.
   No clash in Python (int key 1 vs str key "1").  C08_var_index is about the numbered variables alone (tables without column names). *)
Example C08_var_index_js_numeric_column_refuted :
  let m := [($"a1", (true, 0)); ($"a[1]", (true, 0)); ($"a[""1""]", (true, 2)); ($"a['1']", (false, 2))] in
  lookup LJs 97 m ($"a1") = Some 0 /\ lookup LJs 97 m ($"a[1]") = Some 2 /\
  lookup LPy 97 m ($"a1") = Some 0 /\ lookup LPy 97 m ($"a[1]") = Some 0 /\ lookup LPy 97 m ($"a[""1""]") = Some 2 /\ lookup LPy 97 m ($"a['1']") = Some 2.
Proof. exact js_numeric_column_refuted. Qed.
Print Assumptions C08_var_index_js_numeric_column_refuted.
