(* Props/C08.v — Query meaning is invariant under spelling; string literals are opaque.
   ONLY statements: each closed by [exact <lemma>] with Print Assumptions beneath. *)
From RBQL Require Import Base Parser Parser_Proofs Parser_Combine_Proofs Parser_Spelling_Proofs.
Local Open Scope N_scope.

(* C08_cleanup_invariant. A query text is a list of physical lines (each without LF) joined by LF.
   [spell_step fl] (Parser_Proofs.v) is one spelling step on the lines:
     ss_insert : insert a line l with strip_comments l = [] (a comment line or a blank line) anywhere;
     ss_pad    : add blanks w1 / w2 (any whitespace of the language's strip) before / after a line;
     ss_break  : replace the single space between two words of a line "... a SP b ..." by a line break followed
                 by any indentation, provided the line is a code line (its first non-blank character is not the
                 comment character) and the word after the break does not start with the comment character
                 (otherwise the second half WOULD become a comment line: a hypothesis the code forces);
     ss_semis  : append any number of semicolons to the last line, when that line ends in a non-blank.
   [spell_equiv] is the reflexive-symmetric-transitive closure. cleanup_query does not see any of it. *)
Theorem C08_cleanup_invariant : forall (fl : lang) (ls ls' : list str),
  Forall nolf ls -> Forall nolf ls' -> spell_equiv fl ls ls' ->
  cleanup_query fl (join [LF] ls) = cleanup_query fl (join [LF] ls').
Proof. exact cleanup_invariant. Qed.
Print Assumptions C08_cleanup_invariant.

(* each single step, on the cleaned text of the lines *)
Theorem C08_cleanup_step : forall (fl : lang) (ls ls' : list str),
  spell_step fl ls ls' -> cleanup_lines fl ls = cleanup_lines fl ls'.
Proof. exact spell_step_sound. Qed.
Print Assumptions C08_cleanup_step.

Theorem C08_cleanup_of_lines : forall (fl : lang) (ls : list str),
  Forall nolf ls -> cleanup_query fl (join [LF] ls) = cleanup_lines fl ls.
Proof. exact cleanup_of_lines. Qed.
Print Assumptions C08_cleanup_of_lines.

(* non-vacuity: "select a1 where a2" and its respelling over three lines with a comment line, indentation and
   two semicolons are related, LF-free line by line, different as texts, and clean up to the one-line query *)
Example C08_cleanup_nonvacuous :
  Forall nolf ex_lines0 /\ Forall nolf ex_lines3 /\ spell_equiv LPy ex_lines0 ex_lines3 /\
  cleanup_query LPy (join [LF] ex_lines3) = [115; 101; 108; 101; 99; 116; 32; 97; 49; 32; 119; 104; 101; 114; 101; 32; 97; 50] /\
  join [LF] ex_lines0 <> join [LF] ex_lines3.
Proof. exact spell_equiv_example. Qed.
Print Assumptions C08_cleanup_nonvacuous.

(* the cleaned query never contains LF (cleanup_query splits at LF): this is what licenses the model's reading of
   '$' as "end of text" in the regexes applied after cleanup *)
Theorem C08_cleanup_no_lf : forall (fl : lang) (q : str), nolf (cleanup_query fl q).
Proof. exact cleanup_no_lf. Qed.
Print Assumptions C08_cleanup_no_lf.

(* C08_literals_opaque (Python flavour). [segs] alternates code without quote characters with literals
   Q body Q, Q one of DQ, SQ, DQ DQ DQ, SQ SQ SQ (double / single quote), whose body is a sequence of plain characters (not the quote character, not a
   backslash, not LF) and backslash pairs (backslash + any character but LF; inside a triple-quoted literal not the
   quote character); an empty DQ DQ / SQ SQ is not directly followed by a third quote of its kind. Then the scanner
   returns exactly the placeholders and the literal texts: whatever a literal contains (keywords, *, =, #, commas,
   semicolons, variable-like text, the other quote, TABs) stays out of the format expression. *)
Theorem C08_literals_opaque : forall (segs : list seg), wf_segs segs ->
  separate_string_literals LPy (render segs) = (placeholders 0 segs, literals segs).
Proof. exact literals_opaque. Qed.
Print Assumptions C08_literals_opaque.

(* the same for the rbql-js scanner (after fix a149087 of finding D13; quote characters SQ, DQ, backtick; a backslash
   escapes ANY next character; LF allowed inside a literal) *)
Theorem C08_literals_opaque_js : forall (segs : list jseg), jwf_segs segs ->
  separate_string_literals LJs (jrender segs) = (jplaceholders 0 segs, jliterals segs).
Proof. exact literals_opaque_js. Qed.
Print Assumptions C08_literals_opaque_js.

(* non-vacuity, on the input of finding D13: select DQ a\\ DQ where a1 != DQ z DQ separates into two literals *)
Example C08_literals_js_nonvacuous :
  jwf_segs ex_jsegs /\ jliterals ex_jsegs = [[QT; 97; BSL; BSL; QT]; [QT; 122; QT]] /\
  snd (separate_string_literals LJs (jrender ex_jsegs)) = jliterals ex_jsegs.
Proof.
  split; [exact (proj1 literals_opaque_js_example)|]. split; [reflexivity|].
  rewrite (literals_opaque_js ex_jsegs (proj1 literals_opaque_js_example)). reflexivity.
Qed.
Print Assumptions C08_literals_js_nonvacuous.

(* non-vacuity: select DQ where \DQ TAB #,; a1 SQ = * DQ, a1 TAB SQSQSQ from a \x order by SQSQSQ + DQDQ x
   is well-formed and separates into three placeholders and the three literal texts, TAB inside the literal kept,
   TAB outside replaced by a space *)
Example C08_literals_nonvacuous :
  wf_segs ex_segs /\
  separate_string_literals LPy (render ex_segs) = (placeholders 0 ex_segs, literals ex_segs) /\
  length (literals ex_segs) = 3%nat /\ In TAB (nth 0 (literals ex_segs) []) /\ ~ In TAB (placeholders 0 ex_segs).
Proof.
  split; [exact (proj1 literals_opaque_example)|]. split; [exact (literals_opaque ex_segs (proj1 literals_opaque_example))|].
  split; [reflexivity|]. split; [vm_compute; tauto|]. vm_compute. intuition discriminate.
Qed.
Print Assumptions C08_literals_nonvacuous.

(* C08_combine_verbatim. [cv_segs segs] (Parser_Combine_Proofs.v): code and literals alternate (no two code segments
   in a row), every literal is delimited by quote characters, and neither a code segment nor a literal text contains
   the marker RBQL_STRING_LITERAL (the placeholder text without its underscores). Then the sequential str.replace of
   combine_string_literals finds exactly its own placeholder at every step and the result is the original text with
   the TABs of the code (never of a literal) turned into spaces. The marker hypothesis is forced by the sequential
   replace: it cannot be dropped (C08_combine_needs_hypothesis below; observation O1). *)
Theorem C08_combine_verbatim : forall (segs : list seg), cv_segs segs ->
  combine_string_literals (placeholders 0 segs) (literals segs) = render_fixed segs.
Proof. exact combine_verbatim. Qed.
Print Assumptions C08_combine_verbatim.

(* hence: separate, then combine, is the identity up to TAB -> space in the code *)
Theorem C08_separate_then_combine : forall (segs : list seg), wf_segs segs -> cv_segs segs ->
  combine_string_literals (fst (separate_string_literals LPy (render segs))) (snd (separate_string_literals LPy (render segs)))
  = render_fixed segs.
Proof. exact separate_then_combine. Qed.
Print Assumptions C08_separate_then_combine.

Example C08_combine_nonvacuous : wf_segs ex_segs /\ cv_segs ex_segs /\
  combine_string_literals (placeholders 0 ex_segs) (literals ex_segs) = render_fixed ex_segs /\
  render_fixed ex_segs <> render ex_segs.
Proof. exact combine_verbatim_example. Qed.
Print Assumptions C08_combine_nonvacuous.

(* the hypothesis "no literal contains the marker" cannot be dropped: *)
Example C08_combine_needs_hypothesis :
  wf_segs ex_segs_o1 /\
  combine_string_literals (placeholders 0 ex_segs_o1) (literals ex_segs_o1) <> render ex_segs_o1.
Proof.
  split; [exact (proj1 combine_needs_hypothesis)|].
  destruct combine_needs_hypothesis as [_ [E1 E2]]. rewrite E1, E2. vm_compute. discriminate.
Qed.
Print Assumptions C08_combine_needs_hypothesis.

(* C08_token_spelling - full statement, NOT proved in full (kept visible as the goal):
     forall q sigma, (no expression word of q is a statement keyword) ->
       separate_actions fl false (render_tokens sigma q) = Ok (normalise q)
   for every spelling choice sigma = (case of every keyword letter, permutation of the clauses after SELECT / UPDATE,
   TOP vs LIMIT, JOIN vs INNER JOIN, LEFT vs LEFT OUTER JOIN, FROM a, UPDATE a SET).
   What IS proved (Parser_Spelling_Proofs.v) is its keyword-letter-case component, in a stronger form - the ASCII case of
   ANY letter of the text, keyword or not, at character level, no hypothesis on the words:
     C08_locate_case_invariant      the statements found and their positions are the same;
     C08_case_spelling_partial      separate_actions gives the same error tag, or action records with the same
                                    statements, TOP value, DISTINCT [COUNT] flags, ASC/DESC flag and join spelling whose
                                    clause texts are equal up to the same letter case - hence identical when only
                                    keywords were respelled. (The WITH modifier is excluded: the code matches its name
                                    case-sensitively, [a-z].)
   Missing: clause-order permutation and the interchangeable spellings; they are validated by the correspondence runs
   (metamorphic public-path check and model tie on every generated spelling) only. *)
Theorem C08_locate_case_invariant : forall (fl : lang) (with_from : bool) (s s' : str), case_rel s s' ->
  locate_statements fl with_from s = locate_statements fl with_from s'.
Proof. exact locate_case_invariant. Qed.
Print Assumptions C08_locate_case_invariant.

Theorem C08_case_spelling_partial : forall (fl : lang) (with_from : bool) (s s' : str), case_rel s s' ->
  with_match fl (strip_sp s) = None -> with_match fl (strip_sp s') = None ->
  res_rel (separate_actions fl with_from s) (separate_actions fl with_from s').
Proof. exact separate_actions_case. Qed.
Print Assumptions C08_case_spelling_partial.

(* non-vacuity: SELECT a1 WHERE a2 == b1 ORDER BY a1 LEFT JOIN b ON a1 == b1  and a mixed-case respelling of it *)
Example C08_case_spelling_nonvacuous :
  case_rel ex_case1 ex_case2 /\ ex_case1 <> ex_case2 /\
  with_match LPy (strip_sp ex_case1) = None /\ with_match LPy (strip_sp ex_case2) = None /\
  locate_statements LPy false ex_case2 = Ok [(0, 6, SELECT); (9, 15, WHERE); (24, 33, ORDER_BY); (36, 46, LEFT_JOIN)]%nat /\
  exists a a', separate_actions LPy false ex_case1 = Ok a /\ separate_actions LPy false ex_case2 = Ok a'.
Proof.
  destruct locate_case_example as [H1 [H2 H3]]. destruct separate_actions_case_example as [_ [W1 [W2 [a [a' [E1 [E2 _]]]]]]].
  repeat split; try assumption. exists a, a'. split; assumption.
Qed.
Print Assumptions C08_case_spelling_nonvacuous.
