(* Props/C08.v — placeholder while the proofs are being developed *)
From RBQL Require Import Base Parser.
Example C08_placeholder : cleanup_query LPy [] = [].
Proof. reflexivity. Qed.
Print Assumptions C08_placeholder.
