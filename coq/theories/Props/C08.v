(* Props/C08.v — Query meaning is invariant under spelling; string literals are opaque.
   ONLY statements: each closed by [exact <lemma>] with Print Assumptions beneath. *)
From RBQL Require Import Base Parser Parser_Proofs.
Local Open Scope N_scope.

(* C08_cleanup_invariant. A query text is a list of physical lines (each without LF) joined by LF.
   [spell_step fl] (Parser_Proofs.v) is one spelling step on the lines:
     ss_insert : insert a line l with strip_comments l = [] (a comment line or a blank line) anywhere;
     ss_pad    : add blanks w1 / w2 (any whitespace of the language's strip) before / after a line;
     ss_break  : replace the single space between two words of a line "... a SP b ..." by a line break followed
                 by any indentation, provided the line is a code line (its first non-blank character is not the
                 comment character) and the word after the break does not start with the comment character
                 (otherwise the second half WOULD become a comment line: a hypothesis the code forces);
     ss_semis  : append any number of semicolons to the last line, when that line ends in a non-blank.
   [spell_equiv] is the reflexive-symmetric-transitive closure. cleanup_query does not see any of it. *)
Theorem C08_cleanup_invariant : forall (fl : lang) (ls ls' : list str),
  Forall nolf ls -> Forall nolf ls' -> spell_equiv fl ls ls' ->
  cleanup_query fl (join [LF] ls) = cleanup_query fl (join [LF] ls').
Proof. exact cleanup_invariant. Qed.
Print Assumptions C08_cleanup_invariant.

(* each single step, on the cleaned text of the lines *)
Theorem C08_cleanup_step : forall (fl : lang) (ls ls' : list str),
  spell_step fl ls ls' -> cleanup_lines fl ls = cleanup_lines fl ls'.
Proof. exact spell_step_sound. Qed.
Print Assumptions C08_cleanup_step.

Theorem C08_cleanup_of_lines : forall (fl : lang) (ls : list str),
  Forall nolf ls -> cleanup_query fl (join [LF] ls) = cleanup_lines fl ls.
Proof. exact cleanup_of_lines. Qed.
Print Assumptions C08_cleanup_of_lines.

(* non-vacuity: "select a1 where a2" and its respelling over three lines with a comment line, indentation and
   two semicolons are related, LF-free line by line, different as texts, and clean up to the one-line query *)
Example C08_cleanup_nonvacuous :
  Forall nolf ex_lines0 /\ Forall nolf ex_lines3 /\ spell_equiv LPy ex_lines0 ex_lines3 /\
  cleanup_query LPy (join [LF] ex_lines3) = [115; 101; 108; 101; 99; 116; 32; 97; 49; 32; 119; 104; 101; 114; 101; 32; 97; 50] /\
  join [LF] ex_lines0 <> join [LF] ex_lines3.
Proof. exact spell_equiv_example. Qed.
Print Assumptions C08_cleanup_nonvacuous.
