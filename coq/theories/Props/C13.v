(* Props/C13.v — same query, same data => same result through every front-end; command-line outcome.
   Partial: process exit status, stdout/stderr separation, pandas dtype handling and sqlite type affinity are runtime
   behaviour, observed by the correspondence run for every entry point against the engine + header models. *)
From RBQL Require Import Base Frontends Front_Proofs.

(* success: exit status 0, stdout carries nothing but the table, warnings go to stderr *)
Theorem C13_cli_success : forall table warns,
  let o := cli_outcome (QOk table warns) in
  exit_code o = 0 /\ stdout_lines o = table /\ Forall (fun l => starts_with WARN_PFX l = true) (stderr_lines o).
Proof. exact cli_success. Qed.
Print Assumptions C13_cli_success.

(* failure: non-zero exit status, stdout carries only the table lines emitted before the failure, one
   `Error [type]: ...` line on stderr *)
Theorem C13_cli_failure : forall c msg emitted,
  let o := cli_outcome (QFail c msg emitted) in
  exit_code o <> 0 /\ stdout_lines o = emitted /\ exists l, stderr_lines o = [l] /\ starts_with ERROR_PFX l = true.
Proof. exact cli_failure. Qed.
Print Assumptions C13_cli_failure.

(* query_csv (the CSV front-end behind the library call and the command line): on every path - success, or a failure
   at any point of the try block - every stream that was opened is closed exactly once and nothing else is closed
   (this is also the resource clause of C15) *)
Theorem C13_query_csv_resources : forall has_join p r,
  count_res r (opened_of (query_csv_events has_join p)) = count_res r (closed_of (query_csv_events has_join p))
  /\ count_res r (opened_of (query_csv_events has_join p)) <= 1.
Proof. exact query_csv_resources. Qed.
Print Assumptions C13_query_csv_resources.

Example C13_nonvacuous :
  exit_code (cli_outcome (QFail ERuntime [120%N] [])) = 1
  /\ query_csv_events true FRun = [Open ROut; Open RIn; Open RJoin; Close RIn; Close ROut; Close RJoin].
Proof. split; reflexivity. Qed.
Print Assumptions C13_nonvacuous.
