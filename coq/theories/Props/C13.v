(* Props/C13.v — same query, same data => same result through every front-end; command-line outcome.
   Partial: process exit status, stdout/stderr separation, pandas dtype handling and sqlite type affinity are runtime
   behaviour, observed by the correspondence run for every entry point against the engine + header models. *)
From RBQL Require Import Base Frontends Front_Proofs.

(* success: exit status 0, stdout carries nothing but the table, warnings go to stderr *)
Theorem C13_cli_success : forall table warns,
  let o := cli_outcome (QOk table warns) in
  exit_code o = 0 /\ stdout_lines o = table /\ Forall (fun l => starts_with WARN_PFX l = true) (stderr_lines o).
Proof. exact cli_success. Qed.
Print Assumptions C13_cli_success.

(* failure: non-zero exit status, stdout carries only the table lines emitted before the failure, one
   `Error [type]: ...` line on stderr *)
Theorem C13_cli_failure : forall c msg emitted,
  let o := cli_outcome (QFail c msg emitted) in
  exit_code o <> 0 /\ stdout_lines o = emitted /\ exists l, stderr_lines o = [l] /\ starts_with ERROR_PFX l = true.
Proof. exact cli_failure. Qed.
Print Assumptions C13_cli_failure.

(* query_csv (the CSV front-end behind the library call and the command line): on every path - success, or a failure
   at any point of the try block - every stream that was opened is closed exactly once and nothing else is closed
   (this is also the resource clause of C15) *)
Theorem C13_query_csv_resources : forall has_join p r,
  count_res r (opened_of (query_csv_events has_join p)) = count_res r (closed_of (query_csv_events has_join p))
  /\ count_res r (opened_of (query_csv_events has_join p)) <= 1.
Proof. exact query_csv_resources. Qed.
Print Assumptions C13_query_csv_resources.

Example C13_nonvacuous :
  exit_code (cli_outcome (QFail ERuntime [120%N] [])) = 1
  /\ query_csv_events true FRun = [Open ROut; Open RIn; Open RJoin; Close RIn; Close ROut; Close RJoin].
Proof. split; reflexivity. Qed.
Print Assumptions C13_nonvacuous.

(* ------------------------------------------------------------------ the CSV front-end commutes with the list front-end *)
From RBQL Require Import Lines Csv CsvSpec Reader TableLines_Proofs Table_Proofs FrontCsv_Proofs.

(* For ANY table transformation q (the meaning of a query on string tables; the engine's is proved equal to the declarative
   semantics in C01-C05): render a representable table T as CSV (either port's writer, any line separator), let the CSV
   front-end read it (reader specification = both stream readers, C12 / C20), transform, and write: the output is the CSV
   rendering of q T, and reading it gives q T - the table the list front-end returns.
     render T = every written line followed by the separator;  parse = the records of records_of_text over smart_split;
     csv_query text = option_map (fun T => render (q T)) (parse text);
     csv_ok T = table_representable (every record representable, no CR in fields, no BOM look-alike) and no record that the
                reader would take for a comment line *)
Theorem C13_csv_front_commutes : forall (wl : lang) (pol : policy) (dlm ls : str) (c : cfg)
    (q : list (list str) -> list (list str)),
  c_rfc c = is_rfc pol -> effective_header c = false -> line_sep ls ->
  good_dlm pol dlm = true -> dlm_nl_free pol dlm = true ->
  forall T : list (list str),
  csv_ok wl pol dlm c T -> csv_ok wl pol dlm c (q T) ->
  csv_query wl pol dlm ls c q (render wl pol dlm ls T) = Some (render wl pol dlm ls (q T)) /\
  parse pol dlm c (render wl pol dlm ls (q T)) = Some (q T).
Proof. exact csv_front_commutes. Qed.
Print Assumptions C13_csv_front_commutes.

Example C13_csv_nonvacuous :
  let c := plain_cfg false false EncUtf8 in
  let T := [[[97%N]; [49%N]]; [[98%N]; [50%N]]] in
  csv_ok LPy Simple [COMMA] c T /\ csv_ok LPy Simple [COMMA] c (List.rev T) /\
  csv_query LPy Simple [COMMA] [LF] c (@List.rev _) (render LPy Simple [COMMA] [LF] T) = Some [98; 44; 50; 10; 97; 44; 49; 10]%N.
Proof. vm_compute. repeat split. Qed.
Print Assumptions C13_csv_nonvacuous.
