(* Props/C10.v — CSV written by RBQL reads back as the identical table, in every dialect.
   ONLY statements: each closed by [exact <lemma>] with Print Assumptions beneath. *)
From RBQL Require Import Base Csv CsvWriter CsvSpec Csv_Proofs.

Theorem C10_monocolumn_placeholder : forall dlm pr line, smart_split Monocolumn dlm pr line = ([line], false).
Proof. exact smart_split_monocolumn. Qed.
Print Assumptions C10_monocolumn_placeholder.
