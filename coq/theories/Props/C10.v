(* Props/C10.v — CSV written by RBQL reads back as the identical table, in every dialect (line level) and
   lossy output is never silent.
   ONLY statements: each closed by [exact <lemma>] with Print Assumptions beneath.
   Model: Csv.v (quote_field, join, smart_split), CsvWriter.v (normalize_fields, write_table, lossy flags);
   specification: CsvSpec.v (good_dlm, line_ok, representable).
   The table level (line separators, chunking, BOM, quoted_rfc record assembly: C10_table_roundtrip) belongs to
   the reader model (Reader.v / C12) and is tied here by the correspondence run only. *)
From RBQL Require Import Base Csv CsvWriter CsvSpec CsvStr_Proofs Csv_Proofs CsvRoundtrip_Proofs CsvLossy_Proofs CsvNecessity_Proofs.

(* For EVERY good delimiter (single- or multi-character) and both ports' quoting functions: a record the dialect
   can represent is split back into exactly its fields, without warning.
   good_dlm: simple: non-empty; quoted/quoted_rfc: non-empty, no double quote, not starting with a space unless it
   is exactly one space; whitespace: exactly one space; monocolumn: any.
   line_ok: at least one field (exactly one for monocolumn); fields written bare run exactly to the delimiter that
   follows them (no delimiter inside, no partial overlap of the tail with a multi-character delimiter); whitespace:
   non-empty space-free fields. Line breaks play no role in line splitting (hence line_ok, weaker than representable). *)
Theorem C10_line_roundtrip : forall (fl : lang) (pol : policy) (dlm : str) (fs : list str),
  good_dlm pol dlm = true -> line_ok pol dlm fs = true ->
  smart_split pol dlm false (join_line_fl fl pol dlm fs) = (fs, false).
Proof. exact line_roundtrip. Qed.
Print Assumptions C10_line_roundtrip.

Theorem C10_representable_roundtrip : forall (fl : lang) (pol : policy) (dlm : str) (fs : list str),
  good_dlm pol dlm = true -> representable pol dlm fs = true ->
  smart_split pol dlm false (join_line_fl fl pol dlm fs) = (fs, false).
Proof. exact representable_roundtrip. Qed.
Print Assumptions C10_representable_roundtrip.

(* and conversely: the boolean predicate is EXACTLY: the record round-trips through the dialect *)
Theorem C10_line_ok_iff_roundtrip : forall (fl : lang) (pol : policy) (dlm : str) (fs : list str),
  good_dlm pol dlm = true ->
  (line_ok pol dlm fs = true <-> smart_split pol dlm false (join_line_fl fl pol dlm fs) = (fs, false)).
Proof. exact line_ok_iff. Qed.
Print Assumptions C10_line_ok_iff_roundtrip.

(* lossy output is never silent, for a writer run that raised no error, header included:
   (a) a None anywhere in a record (also inside a list cell) sets none_in_output;
   (b) simple / whitespace: a normalised field containing the delimiter sets delim_in_simple_output, for EVERY
       non-empty delimiter, in the Python port (count after join) and in the JS port (indexOf before join) *)
Theorem C10_lossy_never_silent : forall (fl : lang) (pol : policy) (dlm : str) (header : option (list cell))
    (rows : list (list cell)) (lines : list str) (nf df : bool),
  write_table fl pol dlm header rows = (lines, None, nf, df) ->
  forall row, In row (match header with Some h => h :: rows | None => rows end) ->
    (existsb has_none row = true -> nf = true) /\
    (lossy_policy pol = true -> dlm <> [] ->
     (exists f, In f (fst (normalize_fields dlm row)) /\ contains dlm f = true) -> df = true).
Proof. exact lossy_never_silent. Qed.
Print Assumptions C10_lossy_never_silent.

(* the arithmetic core of (b): Python's leftmost non-overlapping count of the joined line is at least the number
   of fields as soon as one field contains the delimiter *)
Theorem C10_count_after_join : forall (dlm : str) (fs : list str),
  dlm <> [] -> (exists f, In f fs /\ contains dlm f = true) -> delim_flag_py dlm fs (join dlm fs) = true.
Proof. exact delim_flag_py_complete. Qed.
Print Assumptions C10_count_after_join.

Theorem C10_count_greedy_ge_disjoint : forall (d : str), d <> [] -> forall (s : str) (n : nat), Occs d s n -> (n <= count d s)%nat.
Proof. exact count_ge_occs. Qed.
Print Assumptions C10_count_greedy_ge_disjoint.

(* for one-character delimiters also the converse: the warning appears only if some field contains the delimiter
   (at least one field: an empty record sets the flag spuriously, see C10_note_empty_record) *)
Theorem C10_delim_flag_converse_single : forall (c : ch) (fs : list str),
  fs <> [] -> delim_flag_py [c] fs (join [c] fs) = true -> exists f, In f fs /\ contains [c] f = true.
Proof. exact delim_flag_py_sound_single. Qed.
Print Assumptions C10_delim_flag_converse_single.

(* ---------------------------------------------------------------- non-vacuity and the need for the hypotheses *)
Local Open Scope N_scope.

(* representable records exist for multi-character delimiters, with quotes, delimiters, spaces, empty fields *)
Example C10_nonvacuous :
  good_dlm Quoted [58; 58]%N = true /\
  representable Quoted [58; 58]%N [[97; 58; 58; 98]; [99; QT; 100]; []; [SP; 120; SP]; [58]]%N = true /\
  join_line Quoted [58; 58]%N [[97; 58; 58; 98]; [99; QT; 100]; []; [SP; 120; SP]; [58]]%N =
    [QT; 97; 58; 58; 98; QT; 58; 58; QT; 99; QT; QT; 100; QT; 58; 58; 58; 58; SP; 120; SP; 58; 58; 58]%N /\
  good_dlm QuotedRfc [COMMA] = true /\ representable QuotedRfc [COMMA] [[97; LF; 98]; [CR]]%N = true /\
  good_dlm Simple [97; 98]%N = true /\ representable Simple [97; 98]%N [[97]; [98]; [120]]%N = true /\
  good_dlm Whitespace [SP] = true /\ representable Whitespace [SP] [[97]; [98; 99]]%N = true /\
  representable Monocolumn [] [[97; SP; QT]]%N = true.
Proof. vm_compute. repeat split. Qed.
Print Assumptions C10_nonvacuous.

(* the hypothesis on leading spaces of the delimiter is needed: delimiter space-semicolon, fields xQy and z (Q the
   double quote): every other condition holds, but the regex eats the space after the closing quote *)
Example C10_space_led_delimiter_needed :
  good_dlm Quoted [SP; 59]%N = false /\ line_ok Quoted [SP; 59]%N [[120; QT; 121]; [122]]%N = true /\
  smart_split Quoted [SP; 59]%N false (join_line Quoted [SP; 59]%N [[120; QT; 121]; [122]]%N)
    = ([[QT; 120; QT; QT; 121; QT]; [122]]%N, true) /\
  good_dlm Quoted [SP; SP] = false /\ line_ok Quoted [SP; SP] [[]; [120; QT; 121]]%N = true /\
  smart_split Quoted [SP; SP] false (join_line Quoted [SP; SP] [[]; [120; QT; 121]]%N) = ([[120; QT; 121]]%N, false).
Proof. vm_compute. repeat split. Qed.
Print Assumptions C10_space_led_delimiter_needed.

(* the no-overlap condition is needed for multi-character delimiters: the field a: before the delimiter :: *)
Example C10_overlap_needed :
  line_ok Simple [58; 58]%N [[97; 58]; [98]]%N = false /\
  smart_split Simple [58; 58]%N false (join_line Simple [58; 58]%N [[97; 58]; [98]]%N) = ([[97]; [58; 98]]%N, false).
Proof. vm_compute. split; reflexivity. Qed.
Print Assumptions C10_overlap_needed.

(* Notes outside the stated clauses (the property names "a field contains the delimiter" and "a None is written"):
   1. partial overlap with a multi-character delimiter is lossy yet sets no flag: no field of [a:; b] contains ::,
      the Python count finds exactly one separator in a:::b, and the record reads back as [a; :b];
   2. an empty field under the whitespace policy disappears silently;
   3. an empty record under simple sets delim_in_simple_output although no field contains the delimiter. *)
Example C10_note_overlap_is_silent :
  write_table LPy Simple [58; 58]%N None [[CStr [97; 58]; CStr [98]]]%N = ([[97; 58; 58; 58; 98]]%N, None, false, false) /\
  write_table LJs Simple [58; 58]%N None [[CStr [97; 58]; CStr [98]]]%N = ([[97; 58; 58; 58; 98]]%N, None, false, false) /\
  smart_split Simple [58; 58]%N false [97; 58; 58; 58; 98]%N = ([[97]; [58; 98]]%N, false).
Proof. vm_compute. repeat split. Qed.
Print Assumptions C10_note_overlap_is_silent.

Example C10_note_whitespace_empty_field_is_silent :
  write_table LPy Whitespace [SP] None [[CStr [97]; CStr []; CStr [98]]]%N = ([[97; SP; SP; 98]]%N, None, false, false) /\
  smart_split Whitespace [SP] false [97; SP; SP; 98]%N = ([[97]; [98]]%N, false).
Proof. vm_compute. split; reflexivity. Qed.
Print Assumptions C10_note_whitespace_empty_field_is_silent.

Example C10_note_empty_record :
  write_table LPy Simple [COMMA] None [[]] = ([[]], None, false, true) /\
  write_table LJs Simple [COMMA] None [[]] = ([[]], None, false, false).
Proof. vm_compute. split; reflexivity. Qed.
Print Assumptions C10_note_empty_record.

(* None inside a list cell, an int cell, and a field that contains the delimiter under simple *)
Example C10_lossy_nonvacuous :
  write_table LPy Simple [COMMA] (Some [CStr [104]])
              [[CList [CStr [97]; CNone; CInt (-12)%Z]]; [CStr [98; COMMA; 99]]]%N
  = ([[104]; [97; 124; 124; 45; 49; 50]; [98; COMMA; 99]]%N, None, true, true).
Proof. vm_compute. reflexivity. Qed.
Print Assumptions C10_lossy_nonvacuous.

(* ------------------------------------------------------------------ the TABLE level (writer -> text -> reader) *)
From RBQL Require Import Lines Reader Reader_Proofs TableLines_Proofs Table_Proofs.

(* Every table the dialect can represent (table_ok: every record representable, first line not starting with what the reader
   strips as a byte order mark), written by either port with any line separator (LF, CRLF, CR) and a delimiter without line
   breaks, is read back by the reader specification - for ANY reader configuration of the same policy: encoding, header flag,
   modifier, comment prefix no written record starts with - as the same table, CR / CRLF inside quoted_rfc fields normalised
   to LF, with no BOM warning, no defective-line warning, no error; NL = number of physical lines, NR = number of records.
     emit ls lines = every line followed by ls;   written fl pol dlm rows = map (join_line_fl fl pol dlm) rows;
     ok_result c recs nl = ROk (records / header per the header flag) (no bom, no defective line, field-count info of the
     record lengths) nl (length recs) *)
Theorem C10_table_roundtrip : forall (fl : lang) (pol : policy) (dlm ls : str) (c : cfg) (rows : list (list str)),
  c_rfc c = is_rfc pol -> line_sep ls ->
  good_dlm pol dlm = true -> dlm_nl_free pol dlm = true ->
  table_ok pol dlm (enc_code (c_enc c)) rows = true ->
  no_comment_rows c (written fl pol dlm rows) = true ->
  records_of_text (smart_split pol dlm false) c (emit ls (written fl pol dlm rows)) =
  ok_result c (map (map nl_norm) rows) (physical_lines (written fl pol dlm rows)).
Proof. exact table_roundtrip_any. Qed.
Print Assumptions C10_table_roundtrip.

(* identical table (no normalisation) when no field contains CR - in particular for every policy but quoted_rfc *)
Theorem C10_table_exact : forall (fl : lang) (pol : policy) (dlm ls : str) (c : cfg) (rows : list (list str)),
  c_rfc c = is_rfc pol -> line_sep ls -> good_dlm pol dlm = true -> dlm_nl_free pol dlm = true ->
  table_representable pol dlm (enc_code (c_enc c)) rows = true ->
  no_comment_rows c (written fl pol dlm rows) = true ->
  records_of_text (smart_split pol dlm false) c (emit ls (written fl pol dlm rows)) =
  ok_result c rows (physical_lines (written fl pol dlm rows)).
Proof. exact table_representable_exact. Qed.
Print Assumptions C10_table_exact.

(* "with no warnings": the clean result carries no BOM and no defective-line warning, and the field-count warning is absent
   exactly when all records have the same number of fields *)
Theorem C10_clean_result_warnings : forall (c : cfg) (recs : list (list str)) (nl : nat),
  exists rs h w nr, ok_result c recs nl = ROk rs h w nl nr /\ w_bom w = false /\ w_defective w = None /\
    (w_fields w = None <-> same_length (map (@length str) recs) = true).
Proof. exact ok_result_warnings. Qed.
Print Assumptions C10_clean_result_warnings.

(* from the writer model itself: set_header + write calls that raise no error emit exactly the lines of the normalised
   rows, and the emitted text reads back as those rows *)
Theorem C10_writer_reader_roundtrip : forall (fl : lang) (pol : policy) (dlm ls : str) (c : cfg)
    (header : option (list cell)) (rows : list (list cell)) (lines : list str) (nf df : bool),
  write_table fl pol dlm header rows = (lines, None, nf, df) ->
  c_rfc c = is_rfc pol -> line_sep ls ->
  good_dlm pol dlm = true -> dlm_nl_free pol dlm = true ->
  table_ok pol dlm (enc_code (c_enc c)) (norm_rows dlm header rows) = true ->
  no_comment_rows c lines = true ->
  records_of_text (smart_split pol dlm false) c (emit ls lines) =
  ok_result c (map (map nl_norm) (norm_rows dlm header rows)) (physical_lines lines).
Proof. exact writer_reader_roundtrip. Qed.
Print Assumptions C10_writer_reader_roundtrip.

(* ... and through the Python STREAM reader, for every read size and every partition of the text into reads *)
Theorem C10_table_roundtrip_stream : forall (fl : lang) (pol : policy) (dlm ls : str) (c : cfg) (rows : list (list str))
    (cs : nat) (ps : list str),
  (1 <= cs)%nat -> Forall nonempty ps -> concat ps = emit ls (written fl pol dlm rows) ->
  c_rfc c = is_rfc pol -> line_sep ls ->
  good_dlm pol dlm = true -> dlm_nl_free pol dlm = true ->
  table_ok pol dlm (enc_code (c_enc c)) rows = true ->
  no_comment_rows c (written fl pol dlm rows) = true ->
  run_py (smart_split pol dlm false) c cs ps = ok_result c (map (map nl_norm) rows) (physical_lines (written fl pol dlm rows)).
Proof. exact py_table_roundtrip. Qed.
Print Assumptions C10_table_roundtrip_stream.

(* the line-level conditions alone are NOT enough for tables: a delimiter that contains LF or CR passes good_dlm and
   table_ok, yet the written line is cut by the readers' line splitter (the real ports behave the same; such a table is
   not representable in the sense of the property: no reader that breaks lines at LF / CR can round-trip it) *)
Theorem C10_newline_delimiter_refuted :
  let a := 97%N in let b := 98%N in
  let rows := [[[a]; [b]]] in
  let w0 := {| w_bom := false; w_defective := None; w_fields := None |} in
  (good_dlm Simple [LF] = true /\ table_ok Simple [LF] 0 rows = true /\
   records_of_text (smart_split Simple [LF] false) (plain_cfg false false EncNone) (emit [LF] (written LPy Simple [LF] rows))
   = ROk [[[a]]; [[b]]] None w0 2 2) /\
  (good_dlm Quoted [CR] = true /\ table_ok Quoted [CR] 0 rows = true /\
   records_of_text (smart_split Quoted [CR] false) (plain_cfg false false EncNone) (emit [LF] (written LJs Quoted [CR] rows))
   = ROk [[[a]]; [[b]]] None w0 2 2) /\
  (good_dlm QuotedRfc [a; LF; b] = true /\ table_ok QuotedRfc [a; LF; b] 0 rows = true /\
   records_of_text (smart_split QuotedRfc [a; LF; b] false) (plain_cfg true false EncNone)
                   (emit [CR; LF] (written LPy QuotedRfc [a; LF; b] rows))
   = ROk [[[a; a]]; [[b; b]]] None w0 2 2).
Proof. exact table_roundtrip_nl_dlm_refuted. Qed.
Print Assumptions C10_newline_delimiter_refuted.
