(* Props/C07.v — output header always matches output records and follows the naming rules. *)
From RBQL Require Import Base Value Expr Writers Join Agg Engine Spec Header Header_Proofs Width_Proofs.

(* width: the header of a select list (with or without DISTINCT COUNT's leading count column) has exactly as many
   names as the select list has output columns over records of |ih| (and |jh|) fields ... *)
Theorem C07_width_select : forall ih jh items dc h,
  output_header (Some ih) jh (HQSelect items dc) = HSome h ->
  length h = (if dc then 1 else 0) + hitems_width (length ih) (length (match jh with Some j => j | None => [] end)) items.
Proof. exact header_width_select. Qed.
Print Assumptions C07_width_select.

(* ... which is the number of fields of every record the engine offers for that select list (any expression
   semantics; [his] is the header shape of the engine items, column for column) *)
Theorem C07_header_matches_rows :
  forall (expr : Type) (eval : env -> expr -> res val) (q : query expr) en items his ih jh h rows,
    q_kind q = QSelect items -> select_rows eval q en = Ok rows ->
    map (hitem_width (length ih) (length jh)) his = map (item_width expr (length ih) (length jh)) items ->
    length (e_a en) = length ih -> b_width (e_b en) = length jh ->
    output_header (Some ih) (Some jh) (HQSelect his false) = HSome h ->
    Forall (fun kr => length (snd kr) = length h) rows.
Proof. exact header_matches_rows. Qed.
Print Assumptions C07_header_matches_rows.

Theorem C07_width_except : forall ih jh idxs dc h (a : list ch),
  output_header (Some ih) jh (HQExcept idxs dc) = HSome h -> length a = length ih ->
  length h = (if dc then 1 else 0) + length (except_list a idxs 0).
Proof. exact header_width_except. Qed.
Print Assumptions C07_width_except.

Theorem C07_update_header : forall ih jh h, output_header (Some ih) jh HQUpdate = HSome h -> h = ih.
Proof. exact header_width_update. Qed.
Print Assumptions C07_update_header.

(* names: alias for `expr AS name`; source column name for aN / a[N] / a.name / a["name"] and star expansions;
   the identifier for bare variables; colK with K = position in the output otherwise (names_from spells this out) *)
Theorem C07_names : forall ih jh items,
  output_header (Some ih) (Some jh) (HQSelect items false) = HSome (names_from ih jh 0 items).
Proof. exact header_names. Qed.
Print Assumptions C07_names.

(* a table without a header yields an output header only when aliases are used *)
Theorem C07_headerless : forall items dc,
  existsb (fun h => match h with HAs _ => true | _ => false end) items = false ->
  output_header None None (HQSelect items dc) = HNone.
Proof. exact headerless. Qed.
Print Assumptions C07_headerless.

(* the header is handed to the innermost writer before the TopWriter wraps it: it is not counted by TOP n *)
Theorem C07_header_not_counted : forall h, s_NW (set_header chain_init h) = 0 /\ s_nwrites (set_header chain_init h) = 0.
Proof. intros h. split; reflexivity. Qed.
Print Assumptions C07_header_not_counted.

(* non-vacuity: every naming rule at once *)
Example C07_nonvacuous :
  output_header (Some [[109%N]; [110%N]]) (Some [[112%N]])
     (HQSelect [HField TA 1; HOther; HStar; HAs [122%N]; HVar [78%N; 82%N]; HField TA 7; HDict TA [109%N]] true)
  = HSome [[99; 111; 108; 49]; [110]; [99; 111; 108; 51]; [109]; [110]; [112]; [122]; [78; 82]; [99; 111; 108; 57]; [109]]%N.
Proof. vm_compute. reflexivity. Qed.
Print Assumptions C07_nonvacuous.
