(* Props/C07.v — output header always matches output records and follows the naming rules. *)
From RBQL Require Import Base Value Like Expr Writers Join Agg Engine Spec Header Header_Proofs Width_Proofs JoinWidth_Proofs.

(* width: the header of a select list (with or without DISTINCT COUNT's leading count column) has exactly as many
   names as the select list has output columns over records of |ih| (and |jh|) fields ... *)
Theorem C07_width_select : forall ih jh items dc h,
  output_header (Some ih) jh (HQSelect items dc) = HSome h ->
  length h = (if dc then 1 else 0) + hitems_width (length ih) (length (match jh with Some j => j | None => [] end)) items.
Proof. exact header_width_select. Qed.
Print Assumptions C07_width_select.

(* ... which is the number of fields of every record the engine offers for that select list (any expression
   semantics; [his] is the header shape of the engine items, column for column) *)
Theorem C07_header_matches_rows :
  forall (expr : Type) (eval : env -> expr -> res val) (q : query expr) en items his ih jh h rows,
    q_kind q = QSelect items -> select_rows eval q en = Ok rows ->
    map (hitem_width (length ih) (length jh)) his = map (item_width expr (length ih) (length jh)) items ->
    length (e_a en) = length ih -> b_width (e_b en) = length jh ->
    output_header (Some ih) (Some jh) (HQSelect his false) = HSome h ->
    Forall (fun kr => length (snd kr) = length h) rows.
Proof. exact header_matches_rows. Qed.
Print Assumptions C07_header_matches_rows.

(* LEFT JOIN (after fix c71773a, D27): headers on both tables, a rectangular input table, a rectangular join table whose
   records are as wide as its header - INCLUDING the join table with a header and NO records: every record a non-aggregate
   SELECT offers to its writer has exactly as many fields as the output header has names, for matched and for unmatched
   A records alike.  [j_bhdr js = Some (length jh)] says that the query was resolved against that join header; [his] is
   the header shape of the select list, column for column; [all_offers] is what the run writes (C04_downstream).
   Before the fix the faithful model made this false for B = [] (null record of 0 fields, header of |jh| names). *)
Theorem C07_left_join_width :
  forall (expr : Type) (eval : env -> expr -> res val) (q : query expr) js items his (ih jh : list str) h A B jm offs,
    q_kind q = QSelect items -> q_join q = Some js -> j_kind js = JLeft -> j_bhdr js = Some (length jh) ->
    Forall (fun a => length a = length ih) A -> Forall (fun f => length f = length jh) B ->
    map (hitem_width (length ih) (length jh)) his = map (item_width expr (length ih) (length jh)) items ->
    output_header (Some ih) (Some jh) (HQSelect his false) = HSome h ->
    join_map_of expr q B = Some jm ->
    all_offers expr eval q jm 0 A = Ok offs ->
    Forall (fun kr => length (snd kr) = length h) offs.
Proof. exact left_join_header_matches_rows. Qed.
Print Assumptions C07_left_join_width.

(* ... in particular `select b.*`: the output header is the join header, and every record has one field per name of it *)
Theorem C07_left_join_star_width :
  forall (expr : Type) (eval : env -> expr -> res val) (q : query expr) js (ih jh : list str) A B jm offs,
    q_kind q = QSelect [IStarB] -> q_join q = Some js -> j_kind js = JLeft -> j_bhdr js = Some (length jh) ->
    Forall (fun a => length a = length ih) A -> Forall (fun f => length f = length jh) B ->
    join_map_of expr q B = Some jm ->
    all_offers expr eval q jm 0 A = Ok offs ->
    output_header (Some ih) (Some jh) (HQSelect [HStarB] false) = HSome jh
    /\ Forall (fun kr => length (snd kr) = length jh) offs.
Proof. exact left_join_star_b_width. Qed.
Print Assumptions C07_left_join_star_width.

(* every A record is paired with at least one b-side, each of the join header's width (so the offers above are not
   trivially few: an unmatched record contributes its null record) *)
Theorem C07_left_join_sides :
  forall (expr : Type) (q : query expr) js B jm (jh : list str) nr a bs,
    q_join q = Some js -> j_kind js = JLeft -> j_bhdr js = Some (length jh) ->
    Forall (fun f => length f = length jh) B ->
    join_map_of expr q B = Some jm ->
    matches_of expr q jm nr a = Ok bs ->
    bs <> [] /\ Forall (fun b => b_width b = length jh) bs.
Proof. exact left_join_matches_width. Qed.
Print Assumptions C07_left_join_sides.

(* non-vacuity: `select a1, b.* left join b on a1 == b1` over a join table with the header n, k, m and NO records (the input
   of finding D27) and over one with a matching record: the hypotheses hold, one row per A record, 1 + 3 fields each;
   with the join header left out of the join clause (the behaviour before the fix) the unmatched row has 1 field *)
Definition exq (jh : option nat) : query Expr.expr :=
  {| q_kind := QSelect [IExpr (EFld TA 0); IStarB]; q_where := None;
     q_join := Some {| j_kind := JLeft; j_lhs := [LFld 0]; j_rhs := [RFld 0]; j_bhdr := jh |};
     q_group := None; q_order := None; q_distinct := DNo; q_top := None |}.
Definition exA : list rec := [[AStr [120%N]]; [AStr [121%N]]].
Definition ex_ih : list str := [[120%N]].
Definition ex_jh : list str := [[110%N]; [107%N]; [109%N]].
Example C07_left_join_nonvacuous :
  output_header (Some ex_ih) (Some ex_jh) (HQSelect [HField TA 0; HStarB] false) = HSome ([120%N] :: ex_jh)
  /\ Forall (fun a => length a = length ex_ih) exA
  /\ join_map_of _ (exq (Some 3)) [] = Some (Some {| m_buckets := []; m_maxlen := 3 |})
  /\ all_offers _ (eval Py) (exq (Some 3)) (Some {| m_buckets := []; m_maxlen := 3 |}) 0 exA
     = Ok [([], [VA (AStr [120%N]); VA ANone; VA ANone; VA ANone]); ([], [VA (AStr [121%N]); VA ANone; VA ANone; VA ANone])]
  /\ (let B := [[AStr [121%N]; AStr [112%N]; AStr [113%N]]] in
      Forall (fun f => length f = length ex_jh) B
      /\ match join_map_of _ (exq (Some 3)) B with
         | Some jm => all_offers _ (eval Py) (exq (Some 3)) jm 0 exA
                      = Ok [([], [VA (AStr [120%N]); VA ANone; VA ANone; VA ANone]);
                            ([], [VA (AStr [121%N]); VA (AStr [121%N]); VA (AStr [112%N]); VA (AStr [113%N])])]
         | None => False
         end)
  /\ join_map_of _ (exq None) [] = Some (Some {| m_buckets := []; m_maxlen := 0 |})
  /\ all_offers _ (eval Py) (exq None) (Some {| m_buckets := []; m_maxlen := 0 |}) 0 exA
     = Ok [([], [VA (AStr [120%N])]); ([], [VA (AStr [121%N])])].
Proof.
  split; [vm_compute; reflexivity|]. split; [repeat constructor|]. split; [vm_compute; reflexivity|].
  split; [vm_compute; reflexivity|]. split; [split; [repeat constructor | vm_compute; reflexivity]|].
  split; vm_compute; reflexivity.
Qed.
Print Assumptions C07_left_join_nonvacuous.

Theorem C07_width_except : forall ih jh idxs dc h (a : list ch),
  output_header (Some ih) jh (HQExcept idxs dc) = HSome h -> length a = length ih ->
  length h = (if dc then 1 else 0) + length (except_list a idxs 0).
Proof. exact header_width_except. Qed.
Print Assumptions C07_width_except.

Theorem C07_update_header : forall ih jh h, output_header (Some ih) jh HQUpdate = HSome h -> h = ih.
Proof. exact header_width_update. Qed.
Print Assumptions C07_update_header.

(* names: alias for `expr AS name`; source column name for aN / a[N] / a.name / a["name"] and star expansions;
   the identifier for bare variables; colK with K = position in the output otherwise (names_from spells this out) *)
Theorem C07_names : forall ih jh items,
  output_header (Some ih) (Some jh) (HQSelect items false) = HSome (names_from ih jh 0 items).
Proof. exact header_names. Qed.
Print Assumptions C07_names.

(* a table without a header yields an output header only when aliases are used *)
Theorem C07_headerless : forall items dc,
  existsb (fun h => match h with HAs _ => true | _ => false end) items = false ->
  output_header None None (HQSelect items dc) = HNone.
Proof. exact headerless. Qed.
Print Assumptions C07_headerless.

(* the header is handed to the innermost writer before the TopWriter wraps it: it is not counted by TOP n *)
Theorem C07_header_not_counted : forall h, s_NW (set_header chain_init h) = 0 /\ s_nwrites (set_header chain_init h) = 0.
Proof. intros h. split; reflexivity. Qed.
Print Assumptions C07_header_not_counted.

(* non-vacuity: every naming rule at once *)
Example C07_nonvacuous :
  output_header (Some [[109%N]; [110%N]]) (Some [[112%N]])
     (HQSelect [HField TA 1; HOther; HStar; HAs [122%N]; HVar [78%N; 82%N]; HField TA 7; HDict TA [109%N]] true)
  = HSome [[99; 111; 108; 49]; [110]; [99; 111; 108; 51]; [109]; [110]; [112]; [122]; [78; 82]; [99; 111; 108; 57]; [109]]%N.
Proof. vm_compute. reflexivity. Qed.
Print Assumptions C07_nonvacuous.
