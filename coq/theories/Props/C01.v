(* Props/C01.v — SELECT/WHERE yields exactly the projected matching records, in input order.
   ONLY statements, each closed by a lemma of Engine_Proofs / a computation, with Print Assumptions. *)
From RBQL Require Import Base Value Like Expr Writers Join Agg Engine Spec Engine_Proofs.

(* The output of a non-aggregate SELECT without ORDER BY / DISTINCT / TOP, for EVERY expression semantics
   [eval] (the theorem is parametric in the expression language): if every evaluation succeeds, the rows
   accepted by the output writer are, in order,
       [ row | (nr, a) <- enumerate(A, 1), b <- matches(a), row <- rows(select list, WHERE, env nr a b) ]
   no error is reported and every input record is pulled exactly once. *)
Theorem C01_select_where :
  forall (expr : Type) (eval : env -> expr -> res val) (q : query expr) hdr A B jm offs,
    is_agg q = false -> is_update q = false -> static_check q = None ->
    q_order q = None -> q_distinct q = DNo -> q_top q = None ->
    join_map_of expr q B = Some jm ->
    all_offers expr eval q jm 0 A = Ok offs ->
    let o := run eval yes q hdr A B in
    o_error o = None
    /\ written (o_chain o) = map snd (offers_comprehension expr eval q jm A)
    /\ o_pulls o = length A.
Proof.
  intros expr eval q hdr A B jm offs Hagg Hupd Hst Ho Hd Ht Hjm Hoff o.
  destruct (run_select_rows expr eval q hdr A B jm offs Hagg Hupd Hst Hjm Hoff) as [H1 H2].
  destruct (run_select expr eval yes q hdr A B jm offs Hagg Hupd Hst Hjm Hoff) as [_ [_ [_ H4]]].
  split; [exact H1|]. split.
  - fold o in H2. rewrite H2. unfold chain_spec, cfg_of. rewrite Ho, Hd, Ht. cbn.
    rewrite (all_offers_flat expr eval q jm A 0 offs Hoff). reflexivity.
  - apply H4. unfold cfg_of. rewrite Ho, Hd, Ht.
    clear. generalize (set_header chain_init hdr). induction offs as [|[k r] offs IH]; intros st; [reflexivity|].
    cbn. apply IH.
Qed.
Print Assumptions C01_select_where.

(* bindings inside expressions (concrete fragment): aN / a[N] is the N-th field or None, NR the 1-based
   record number, NF the field count *)
Theorem C01_bindings : forall fl nr (a : rec) b nu i,
  eval fl (env_of nr a b nu) (EFld TA i) = Ok (VA (nth i a ANone))
  /\ eval fl (env_of nr a b nu) ENR = Ok (VInt (Z.of_nat nr))
  /\ eval fl (env_of nr a b nu) ENF = Ok (VInt (Z.of_nat (length a))).
Proof. intros. repeat split. Qed.
Print Assumptions C01_bindings.

(* star forms and EXCEPT expand in place *)
Theorem C01_star_except : forall (expr : Type) (eval : env -> expr -> res val) nr (a : rec) nu,
  let en := env_of nr a BNoJoin nu in
  eval_items eval en [IStar] None = Ok (map (fun x => SlVal (VA x)) a, None)
  /\ eval_items eval en [IStarA] None = Ok (map (fun x => SlVal (VA x)) a, None)
  /\ (forall idxs q, q_kind q = QExcept idxs -> q_where q = None -> q_order q = None ->
        select_rows eval q en = Ok [([], map VA (select_except a idxs 0))]).
Proof.
  intros expr eval nr a nu en. repeat split.
  - cbn. rewrite app_nil_r. reflexivity.
  - cbn. rewrite app_nil_r. reflexivity.
  - intros idxs q Hk Hw Ho. unfold select_rows, where_ok. rewrite Hw, Hk, Ho. reflexivity.
Qed.
Print Assumptions C01_star_except.

(* a single UNNEST(list) item emits one record per element, the element substituted in place; none for [] *)
Theorem C01_unnest :
  forall (expr : Type) (eval : env -> expr -> res val) (q : query expr) en items sl l,
    q_kind q = QSelect items -> q_where q = None -> q_order q = None ->
    eval_items eval en items None = Ok (sl, Some (VL l)) ->
    select_rows eval q en = Ok (map (fun x => ([], subst_unnest sl (VA x))) l).
Proof.
  intros expr eval q en items sl l Hk Hw Ho He. unfold select_rows, where_ok. rewrite Hw, Hk, Ho. cbn.
  rewrite He. cbn. rewrite map_map. reflexivity.
Qed.
Print Assumptions C01_unnest.

Theorem C01_unnest_position : forall pre post v,
  subst_unnest (map SlVal pre ++ SlUnnest :: map SlVal post) v = pre ++ v :: post.
Proof.
  intros pre post v. induction pre as [|x pre IH]; cbn.
  - f_equal. induction post as [|y post IH]; cbn; [reflexivity | f_equal; assumption].
  - f_equal. assumption.
Qed.
Print Assumptions C01_unnest_position.

(* non-vacuity: a ragged table, WHERE, star, UNNEST and a join with two matches for one record
   (the shape that failed before the unnest_list fix): hypotheses hold and the run equals the spec *)
Definition ex_q : query expr :=
  {| q_kind := QSelect [IExpr (EFld TA 0); IUnnest (EList [EFld TB 1; ELit (AStr [33%N])]); IStarA];
     q_where := Some (ENe (EFld TA 0) (ELit (AStr [122%N])));
     q_join := Some {| j_kind := JInner; j_lhs := [LFld 0]; j_rhs := [RFld 0]; j_bhdr := None |};
     q_group := None; q_order := None; q_distinct := DNo; q_top := None |}.
Definition ex_A : list rec := [[AStr [49%N]]; [AStr [122%N]; ANone]; [AStr [50%N]; AStr [120%N]; AStr [121%N]]].
Definition ex_B : list rec := [[AStr [49%N]; AStr [112%N]]; [AStr [49%N]; AStr [113%N]]; [AStr [50%N]; AStr [114%N]]].

Example C01_nonvacuous :
  exists jm offs,
    join_map_of expr ex_q ex_B = Some jm /\ all_offers expr (eval Py) ex_q jm 0 ex_A = Ok offs
    /\ length offs = 6
    /\ written (o_chain (run (eval Py) yes ex_q None ex_A ex_B)) = map snd offs.
Proof.
  eexists. eexists. split; [vm_compute; reflexivity|]. split; [vm_compute; reflexivity|].
  split; vm_compute; reflexivity.
Qed.
Print Assumptions C01_nonvacuous.
