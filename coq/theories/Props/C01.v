(* Props/C01.v — placeholder until Engine_Proofs lands; replaced below in this session *)
From RBQL Require Import Base.
Example C01_placeholder : True. Proof. exact I. Qed.
Print Assumptions C01_placeholder.
