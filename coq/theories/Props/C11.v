(* Props/C11.v — Field splitting implements the documented quoting dialect exactly.
   ONLY statements: each closed by [exact <lemma>] with Print Assumptions beneath.
   Model: Csv.v (split_quoted_str = csv_utils.split_quoted_str, Python and JS; the regex is the scanner qscan).
   Specification: CsvSpec.v (Split, QField, QBody, WsSplit).
   Delimiters: good_quoted_dlm dlm = non-empty, no double quote, and not starting with a space unless it is
   exactly one space (the regex eats the spaces that follow a quoted field, see C11_space_led_delimiter). *)
From RBQL Require Import Base Csv CsvSpec CsvStr_Proofs Csv_Proofs CsvRoundtrip_Proofs CsvNecessity_Proofs CsvRelabel_Proofs CsvWsPreserve_Proofs.
From RBQL Require Import PyStr JsStr CsvIx CsvIx_Proofs CsvIxJs CsvIxJs_Proofs.

(* the model computes exactly the dialect relation: a field is quoted iff some sp* QF sp* is followed by the
   delimiter or the end; otherwise it runs to the next delimiter; warning iff such a field contains a quote *)
Theorem C11_split_is_dialect : forall (dlm line : str) (fs : list str) (w : bool),
  good_quoted_dlm dlm = true ->
  (split_quoted_str dlm false line = (fs, w) <-> Split dlm line fs w).
Proof. exact split_is_dialect. Qed.
Print Assumptions C11_split_is_dialect.

(* hence the dialect relation is total and single-valued on every line *)
Theorem C11_dialect_functional : forall (dlm line : str) (fs : list str) (w : bool) (fs' : list str) (w' : bool),
  good_quoted_dlm dlm = true -> Split dlm line fs w -> Split dlm line fs' w' -> fs = fs' /\ w = w'.
Proof. exact Split_functional. Qed.
Print Assumptions C11_dialect_functional.

Theorem C11_dialect_total : forall (dlm line : str), good_quoted_dlm dlm = true -> exists fs w, Split dlm line fs w.
Proof. exact Split_total. Qed.
Print Assumptions C11_dialect_total.

(* a warning is raised iff some field taken as unquoted contains a double quote (both modes) *)
Theorem C11_warning_iff : forall (dlm : str) (preserve : bool) (line : str),
  good_quoted_dlm dlm = true ->
  (snd (split_quoted_tagged dlm preserve line) = true <->
   exists f, In (false, f) (fst (split_quoted_tagged dlm preserve line)) /\ has QT f = true).
Proof. exact warning_iff. Qed.
Print Assumptions C11_warning_iff.

(* the tags of C11_warning_iff annotate the very fields that split_quoted_str returns *)
Theorem C11_tagged_is_split : forall (dlm : str) (preserve : bool) (line : str),
  split_quoted_str dlm preserve line =
  (map snd (fst (split_quoted_tagged dlm preserve line)), snd (split_quoted_tagged dlm preserve line)).
Proof. exact split_quoted_str_tagged. Qed.
Print Assumptions C11_tagged_is_split.

(* the quote-and-whitespace preserving split re-joins to the original line: EVERY non-empty delimiter, every line *)
Theorem C11_preserving_rejoin : forall (dlm line : str),
  dlm <> [] -> join dlm (fst (split_quoted_str dlm true line)) = line.
Proof. exact preserving_rejoin. Qed.
Print Assumptions C11_preserving_rejoin.

(* whitespace policy, preserving mode: the pieces re-join with one space to the line, for every line with a
   non-space character; a line of spaces only yields no piece at all (C11_ws_preserve_spaces_only_refuted) *)
Theorem C11_ws_preserving_rejoin : forall (line : str),
  has_nonspace line = true -> join [SP] (split_whitespace_separated_str true line) = line.
Proof. exact ws_preserve_rejoin. Qed.
Print Assumptions C11_ws_preserving_rejoin.

Theorem C11_ws_preserve_spaces_only_refuted :
  exists line, split_whitespace_separated_str true line = [] /\ join [SP] (split_whitespace_separated_str true line) <> line.
Proof. exact ws_preserve_spaces_only_refuted. Qed.
Print Assumptions C11_ws_preserve_spaces_only_refuted.

(* the quote-free shortcut src.split(dlm) agrees with the general loop: every non-empty delimiter, both modes *)
Theorem C11_fast_path : forall (dlm : str) (preserve : bool) (line : str),
  dlm <> [] -> has QT line = false -> split_quoted_general dlm preserve line = (split dlm line, false).
Proof. exact fast_path. Qed.
Print Assumptions C11_fast_path.

Theorem C11_fast_path_agrees : forall (dlm : str) (preserve : bool) (line : str),
  dlm <> [] -> split_quoted_str dlm preserve line = split_quoted_general dlm preserve line.
Proof. exact split_quoted_str_general. Qed.
Print Assumptions C11_fast_path_agrees.

(* simple = plain split (fields free of the delimiter that re-join to the line, and the only such list under the
   no-overlap condition); whitespace = the maximal space-free runs (WsSplit, single-valued); monocolumn = [line] *)
Theorem C11_other_policies : forall (dlm : str) (preserve : bool) (line : str),
  (dlm <> [] ->
     smart_split Simple dlm preserve line = (split dlm line, false) /\
     join dlm (split dlm line) = line /\ Forall (fun f => contains dlm f = false) (split dlm line) /\
     (forall fs, fs <> [] -> bare_ok dlm (fun _ => false) fs = true -> split dlm (join dlm fs) = fs)) /\
  (exists fs, smart_split Whitespace dlm false line = (fs, false) /\ WsSplit line fs /\ (forall fs', WsSplit line fs' -> fs' = fs)) /\
  smart_split Monocolumn dlm preserve line = ([line], false).
Proof. exact other_policies. Qed.
Print Assumptions C11_other_policies.

(* the fuel passed by split_quoted_str (length + 1) suffices: any larger fuel gives the same result *)
Theorem C11_fuel_suffices : forall (dlm : str) (preserve ext : bool), dlm <> [] ->
  forall (f1 f2 : nat) (s : str), (length s < f1)%nat -> (length s < f2)%nat ->
  sq_loop f1 dlm preserve ext s = sq_loop f2 dlm preserve ext s.
Proof. exact sq_loop_fuel_enough. Qed.
Print Assumptions C11_fuel_suffices.

(* the longest-match scanner: sound and complete for the quoted-field grammar (DESIGN 3.2: qmatch_longest /
   qmatch_only_candidate): whatever it returns is a well-formed body followed by a quote, and a well-formed body
   whose closing quote is not followed by another quote is what it returns *)
Theorem C11_scanner_sound : forall (s raw r : str),
  qscan s = Some (raw, r) -> s = raw ++ QT :: r /\ exists u, QBody raw u.
Proof. exact qscan_sound. Qed.
Print Assumptions C11_scanner_sound.

Theorem C11_scanner_only_candidate : forall (raw u : str), QBody raw u ->
  forall rest, not_q_head rest -> qscan (raw ++ QT :: rest) = Some (raw, rest).
Proof. exact qscan_wf. Qed.
Print Assumptions C11_scanner_only_candidate.

(* split_relabel: the splitter distinguishes only the quote, the space and the delimiter's characters - any injective
   relabelling of characters that fixes the quote and the space (the delimiter relabelled along) commutes with
   smart_split, all policies, both modes. This licenses the class-alphabet enumeration of the correspondence run. *)
Theorem C11_split_relabel : forall (g : ch -> ch),
  (forall a b, g a = g b -> a = b) -> g QT = QT -> g SP = SP ->
  forall (pol : policy) (dlm : str) (preserve : bool) (line : str),
  smart_split pol (map g dlm) preserve (map g line) =
  (map (map g) (fst (smart_split pol dlm preserve line)), snd (smart_split pol dlm preserve line)).
Proof. exact split_relabel. Qed.
Print Assumptions C11_split_relabel.

(* ---------------------------------------------------------------- non-vacuity *)

(* good delimiters exist in every shape the property names: one character, TAB, one space, several characters *)
Example C11_good_delimiters :
  good_quoted_dlm [COMMA] = true /\ good_quoted_dlm [TAB] = true /\ good_quoted_dlm [SP] = true /\
  good_quoted_dlm [58; 58]%N = true /\ good_quoted_dlm [97; 32]%N = true /\ good_quoted_dlm [] = false /\
  good_quoted_dlm [SP; 59]%N = false /\ good_quoted_dlm [SP; SP] = false.
Proof. vm_compute. repeat split. Qed.
Print Assumptions C11_good_delimiters.

(* the line  _QaQQbQ_::xQy::_QcQ_z::  (Q the double quote, _ a space) with the delimiter ::  - a quoted field with outer spaces and an escaped
   quote, an unquoted field with a quote (warning), a quoted-looking field not followed by the delimiter, and a
   trailing empty field - is in the dialect with exactly the fields the model computes *)
Example C11_nonvacuous :
  Split [58; 58]%N
        ([SP; QT; 97; QT; QT; 98; QT; SP; 58; 58; 120; QT; 121; 58; 58; SP; QT; 99; QT; SP; 122; 58; 58])%N
        [[97; QT; 98]; [120; QT; 121]; [SP; QT; 99; QT; SP; 122]; []]%N true.
Proof. apply (split_is_dialect [58; 58]%N); vm_compute; reflexivity. Qed.
Print Assumptions C11_nonvacuous.

Example C11_warning_nonvacuous :
  snd (split_quoted_tagged [COMMA] false [97; QT; COMMA; QT; 98; QT]%N) = true /\
  fst (split_quoted_tagged [COMMA] false [97; QT; COMMA; QT; 98; QT]%N) = [(false, [97; QT]); (true, [98])]%N.
Proof. vm_compute. split; reflexivity. Qed.
Print Assumptions C11_warning_nonvacuous.

(* why the hypothesis on the delimiter: with the delimiter _; (space, semicolon) the line  QaQ_;b  (Q the double quote)
   has the quoted field QaQ followed by the delimiter, but the regex eats the space and the code falls back to an
   unquoted field with a warning *)
Example C11_space_led_delimiter :
  split_quoted_str [SP; 59]%N false [QT; 97; QT; SP; 59; 98]%N = ([[QT; 97; QT]; [98]]%N, true) /\
  split_quoted_str [COMMA] false [QT; 97; QT; COMMA; 98]%N = ([[97]; [98]]%N, false).
Proof. vm_compute. split; reflexivity. Qed.
Print Assumptions C11_space_led_delimiter.

(* ... and on that line the code is NOT the dialect: the hypothesis of C11_split_is_dialect cannot be dropped *)
Theorem C11_space_led_delimiter_refuted :
  exists dlm line fs w, good_quoted_dlm dlm = false /\ Split dlm line fs w /\ split_quoted_str dlm false line <> (fs, w).
Proof. exact space_led_delimiter_not_dialect. Qed.
Print Assumptions C11_space_led_delimiter_refuted.

(* ---------------------------------------------------------------- the index-style model (translation target)

   CsvIx.v states csv_utils.py with the data representation of the source (integer indices into src, str.find = -1,
   result.append, the while loop as while_fuel with fuel S (length src), assert / out of fuel = None, the policy by name);
   harness/translate_csv.py regenerates that text from the source on every run and the check compiles
   gen_py_<name> = ix_<name> (generated file).  These theorems say that the index model IS the model above. *)

(* for every non-empty delimiter other than the quote (the assert of the source) the loop ends within its fuel and
   returns what Csv.split_quoted_str returns - every line, both modes *)
Theorem C11_index_model_split_quoted_str : forall (src dlm : str) (preserve : bool), dlm <> [] -> dlm <> [QT] ->
  ix_split_quoted_str src dlm preserve = Some (split_quoted_str dlm preserve src).
Proof. exact ix_split_quoted_str_correct. Qed.
Print Assumptions C11_index_model_split_quoted_str.

(* one step of the loop: at an index n inside the line, extract_next_field appends the field the model takes from the
   suffix src[n:], reports the model's warning, and returns an index m that denotes the model's next position *)
Theorem C11_index_model_extract_next_field : forall (src dlm : str) (preserve ext : bool) (n : nat) (result : list str),
  dlm <> [] -> (n < length src)%nat ->
  exists m : nat,
    ix_extract_next_field src dlm preserve ext (Z.of_nat n) result =
      (result ++ [snd (fst (fst (extract_next_field dlm preserve ext (skipn n src))))],
       (Z.of_nat m, snd (fst (extract_next_field dlm preserve ext (skipn n src))))) /\
    pos_agrees src m (snd (extract_next_field dlm preserve ext (skipn n src))).
Proof. exact ix_extract_next_field_correct. Qed.
Print Assumptions C11_index_model_extract_next_field.

Theorem C11_index_model_whitespace : forall (src : str) (preserve : bool),
  ix_split_whitespace_separated_str src preserve = split_whitespace_separated_str preserve src.
Proof. exact ix_split_whitespace_separated_str_correct. Qed.
Print Assumptions C11_index_model_whitespace.

Theorem C11_index_model_smart_split : forall (pol : policy) (src dlm : str) (preserve : bool),
  (quoted_policy pol = true -> dlm <> [] /\ dlm <> [QT]) ->
  ix_smart_split src dlm (policy_name pol) preserve = Some (smart_split pol dlm preserve src).
Proof. exact ix_smart_split_correct. Qed.
Print Assumptions C11_index_model_smart_split.

Theorem C11_index_model_quote_field : forall (src delim : str),
  ix_quote_field src delim = quote_field_py delim src /\ ix_rfc_quote_field src delim = rfc_quote_field_py delim src.
Proof. exact (fun src delim => conj (ix_quote_field_correct src delim) (ix_rfc_quote_field_correct src delim)). Qed.
Print Assumptions C11_index_model_quote_field.

(* the dialect theorem, stated about the index model *)
Theorem C11_index_model_is_dialect : forall (dlm line : str) (fs : list str) (w : bool), good_quoted_dlm dlm = true ->
  (ix_split_quoted_str line dlm false = Some (fs, w) <-> Split dlm line fs w).
Proof. exact ix_C11_split_is_dialect. Qed.
Print Assumptions C11_index_model_is_dialect.

(* non-vacuity: the line of C11_nonvacuous through the index model, delimiter :: ; and the assert *)
Example C11_index_model_nonvacuous :
  ix_split_quoted_str ([SP; QT; 97; QT; QT; 98; QT; SP; 58; 58; 120; QT; 121; 58; 58; SP; QT; 99; QT; SP; 122; 58; 58])%N [58; 58]%N false
    = Some ([[97; QT; 98]; [120; QT; 121]; [SP; QT; 99; QT; SP; 122]; []]%N, true) /\
  ix_split_quoted_str [97; QT]%N [QT] false = None /\
  ix_smart_split [SP; 97; SP; SP; 98; SP]%N [SP] (policy_name Whitespace) true = Some ([[SP; 97; SP]; [98; SP]]%N, false).
Proof. vm_compute. repeat split. Qed.
Print Assumptions C11_index_model_nonvacuous.

(* ---------------------------------------------------------------- the index-style model of rbql-js/csv_utils.js

   CsvIxJs.v: the same functions with the representation of the JavaScript source (substring(cidx) handed to an anchored
   pattern, match_obj[0].length, indexOf / startsWith with a position, the exec loop of a global pattern, the counting
   for-loop with fuel S (length result), [fields, warning] arrays as pairs; strings = sequences of UTF-16 code units);
   regenerated from the source on every run like CsvIx.v.  No assert in this port: every non-empty delimiter. *)
Theorem C11_js_index_model_split_quoted_str : forall (src dlm : str) (preserve : bool), dlm <> [] ->
  jsix_split_quoted_str src dlm preserve = Some (split_quoted_str dlm preserve src).
Proof. exact jsix_split_quoted_str_correct. Qed.
Print Assumptions C11_js_index_model_split_quoted_str.

Theorem C11_js_index_model_extract_next_field : forall (src dlm : str) (preserve ext : bool) (n : nat) (result : list str),
  dlm <> [] -> (n < length src)%nat ->
  exists m : nat,
    jsix_extract_next_field src dlm preserve ext (Z.of_nat n) result =
      (result ++ [snd (fst (fst (extract_next_field dlm preserve ext (skipn n src))))],
       (Z.of_nat m, snd (fst (extract_next_field dlm preserve ext (skipn n src))))) /\
    pos_agrees src m (snd (extract_next_field dlm preserve ext (skipn n src))).
Proof. exact jsix_extract_next_field_correct. Qed.
Print Assumptions C11_js_index_model_extract_next_field.

(* the counting loop ends within its fuel *)
Theorem C11_js_index_model_whitespace : forall (src : str) (preserve : bool),
  jsix_split_whitespace_separated_str src preserve = Some (split_whitespace_separated_str preserve src).
Proof. exact jsix_split_whitespace_separated_str_correct. Qed.
Print Assumptions C11_js_index_model_whitespace.

Theorem C11_js_index_model_smart_split : forall (pol : policy) (src dlm : str) (preserve : bool),
  (quoted_policy pol = true -> dlm <> []) ->
  jsix_smart_split src dlm (policy_name pol) preserve = Some (smart_split pol dlm preserve src).
Proof. exact jsix_smart_split_correct. Qed.
Print Assumptions C11_js_index_model_smart_split.

Theorem C11_js_index_model_quote_field : forall (src delim : str),
  jsix_quote_field src delim = quote_field_js delim src /\ jsix_rfc_quote_field src delim = rfc_quote_field_js delim src.
Proof. exact (fun src delim => conj (jsix_quote_field_correct src delim) (jsix_rfc_quote_field_correct src delim)). Qed.
Print Assumptions C11_js_index_model_quote_field.

Example C11_js_index_model_nonvacuous :
  jsix_split_quoted_str ([SP; QT; 97; QT; QT; 98; QT; SP; 58; 58; 120; QT; 121; 58; 58; SP; QT; 99; QT; SP; 122; 58; 58])%N [58; 58]%N false
    = Some ([[97; QT; 98]; [120; QT; 121]; [SP; QT; 99; QT; SP; 122]; []]%N, true) /\
  jsix_smart_split [SP; 97; SP; SP; 98; SP]%N [SP] (policy_name Whitespace) true = Some ([[SP; 97; SP]; [98; SP]]%N, false) /\
  jsix_quote_field [97; QT]%N [COMMA] = [QT; 97; QT; QT; QT]%N.
Proof. vm_compute. repeat split. Qed.
Print Assumptions C11_js_index_model_nonvacuous.
