(* Props/C11.v — Field splitting implements the documented quoting dialect exactly.
   ONLY statements: each closed by [exact <lemma>] with Print Assumptions beneath. *)
From RBQL Require Import Base Csv CsvSpec Csv_Proofs.

Theorem C11_monocolumn : forall dlm pr line, smart_split Monocolumn dlm pr line = ([line], false).
Proof. exact smart_split_monocolumn. Qed.
Print Assumptions C11_monocolumn.
