(* Props/C19.v — the JavaScript engine has the same relational semantics as the reference.
   The reference semantics (C01-C05, C07) is proved for EVERY expression semantics; here it is instantiated with the
   evaluator of the language-neutral fragment under the JS flavour (Expr.eval Js: JS RegExp '.' in like).  That
   rbql-js implements this model is established by the correspondence run (harness/props/c19.py), as for Python. *)
From RBQL Require Import Base Value Like Expr Writers Join Agg Engine Spec Engine_Proofs Update_Proofs AggEngine_Proofs.
From RBQL Require Import JsKey JsKey_Proofs Utf16 Utf16_Proofs.

Theorem C19_select_order_distinct_top :
  forall (q : query expr) hdr A B jm offs,
    is_agg q = false -> is_update q = false -> static_check q = None ->
    join_map_of expr q B = Some jm ->
    all_offers expr (eval Js) q jm 0 A = Ok offs ->
    let o := run (eval Js) yes q hdr A B in
    o_error o = None /\ written (o_chain o) = chain_spec (cfg_of q) offs.
Proof. exact (run_select_rows expr (eval Js)). Qed.
Print Assumptions C19_select_order_distinct_top.

Theorem C19_update :
  forall (q : query expr) asg hdr A B jm rows,
    q_kind q = QUpdate asg -> q_order q = None -> q_distinct q = DNo -> q_top q = None -> q_group q = None ->
    join_map_of expr q B = Some jm ->
    update_all expr (eval Js) q asg jm 0 0 A = Ok rows ->
    let o := run (eval Js) yes q hdr A B in
    o_error o = None /\ written (o_chain o) = rows /\ o_pulls o = length A.
Proof. exact (run_update expr (eval Js)). Qed.
Print Assumptions C19_update.

Theorem C19_aggregate :
  forall (q : query expr) hdr A B jm inputs rows,
    is_agg q = true -> (exists items, q_kind q = QSelect items) ->
    q_order q = None -> q_distinct q = DNo -> static_check q = None ->
    join_map_of expr q B = Some jm ->
    agg_inputs expr (eval Js) q jm 0 A = Ok inputs ->
    agg_rows expr q inputs = Ok rows ->
    let o := run (eval Js) yes q hdr A B in
    o_error o = None /\ written (o_chain o) = trunc (q_top q) rows /\ o_pulls o = length A.
Proof. exact (run_agg expr (eval Js)). Qed.
Print Assumptions C19_aggregate.

Theorem C19_first_offender :
  forall w (q : query expr) hdr A1 a A2 B jm offs1 part e,
    is_agg q = false -> is_update q = false -> static_check q = None ->
    join_map_of expr q B = Some jm ->
    all_offers expr (eval Js) q jm 0 A1 = Ok offs1 ->
    record_until_error expr (eval Js) q jm (S (length A1)) a = (part, Some e) ->
    snd (chain_feed w (cfg_of q) (set_header chain_init hdr) (offs1 ++ part)) = true ->
    let o := run (eval Js) w q hdr (A1 ++ a :: A2) B in
    o_error o = Some (classify (S (length A1)) e) /\ o_pulls o = S (length A1).
Proof.
  intros w q hdr A1 a A2 B jm offs1 part e H1 H2 H3 H4 H5 H6 H7.
  destruct (run_select_first_offender expr (eval Js) w q hdr A1 a A2 B jm offs1 part e H1 H2 H3 H4 H5 H6 H7) as [E1 [_ E3]].
  split; assumption.
Qed.
Print Assumptions C19_first_offender.

(* the two flavours differ only in like's '.', i.e. on texts containing CR, U+2028 or U+2029 *)
Example C19_flavour_difference : like Py [13%N] [95%N] = true /\ like Js [13%N] [95%N] = false.
Proof. split; reflexivity. Qed.
Print Assumptions C19_flavour_difference.

(* ------------------------------------------------------------------ keys and order as JavaScript has them
   rbql-js identifies a record under DISTINCT / DISTINCT COUNT, a GROUP BY key and a JOIN key of several columns by the JSON
   text of the array (JsKey.v: js_key r = js_stringify (JArr r)); the reference semantics identifies them by equality of the
   tuples.  On faithful components (null, booleans, integers, strings of UTF-16 code units - every string, lone surrogates
   included -, arrays of these) the text identifies exactly the equal tuples. *)
Theorem C19_js_key_faithful :
  forall r1 r2 : list jv, forallb faithful r1 = true -> forallb faithful r2 = true ->
    (js_key r1 = js_key r2 <-> r1 = r2).
Proof. exact js_key_faithful. Qed.
Print Assumptions C19_js_key_faithful.

(* the same for any two faithful values, arrays or not *)
Theorem C19_js_stringify_injective :
  forall v1 v2 : jv, faithful v1 = true -> faithful v2 = true -> js_stringify v1 = js_stringify v2 -> v1 = v2.
Proof. exact js_stringify_injective. Qed.
Print Assumptions C19_js_stringify_injective.

(* NaN (undefined, an infinity) as a component prints as null: two different records, one key *)
Theorem C19_js_key_nan_refuted :
  exists v1 v2 : jv, v1 <> v2 /\ js_stringify v1 = js_stringify v2.
Proof. exact js_key_nan_refuted. Qed.
Print Assumptions C19_js_key_nan_refuted.

(* JavaScript orders strings by UTF-16 code units, the reference (Python) by code points: the same order on strings whose
   code points all lie below the surrogates or beyond the BMP (none in U+E000..U+FFFF), and on strings within the BMP *)
Theorem C19_utf16_order_agree :
  forall s t : str, forallb low_or_astral s = true -> forallb low_or_astral t = true ->
    units_ltb (utf16_encode s) (utf16_encode t) = str_ltb s t.
Proof. exact utf16_order_agree. Qed.
Print Assumptions C19_utf16_order_agree.

Theorem C19_utf16_order_agree_bmp :
  forall s t : str, forallb bmp s = true -> forallb bmp t = true ->
    units_ltb (utf16_encode s) (utf16_encode t) = str_ltb s t.
Proof. exact utf16_order_agree_bmp. Qed.
Print Assumptions C19_utf16_order_agree_bmp.

(* ... and not the same order once a code point of U+E000..U+FFFF meets an astral one: U+FF01 against U+1F600 *)
Theorem C19_utf16_order_refuted :
  exists s t : str, forallb scalar s = true /\ forallb scalar t = true /\
    units_ltb (utf16_encode s) (utf16_encode t) = false /\ str_ltb s t = true.
Proof. exact utf16_order_refuted. Qed.
Print Assumptions C19_utf16_order_refuted.

(* equality of strings is not affected: the encoding is injective on scalar values *)
Theorem C19_utf16_encode_injective :
  forall s t : str, forallb scalar s = true -> forallb scalar t = true -> utf16_encode s = utf16_encode t -> s = t.
Proof. exact utf16_encode_injective. Qed.
Print Assumptions C19_utf16_encode_injective.
