(* Props/C19.v — the JavaScript engine has the same relational semantics as the reference.
   The reference semantics (C01-C05, C07) is proved for EVERY expression semantics; here it is instantiated with the
   evaluator of the language-neutral fragment under the JS flavour (Expr.eval Js: JS RegExp '.' in like).  That
   rbql-js implements this model is established by the correspondence run (harness/props/c19.py), as for Python. *)
From RBQL Require Import Base Value Like Expr Writers Join Agg Engine Spec Engine_Proofs Update_Proofs AggEngine_Proofs.

Theorem C19_select_order_distinct_top :
  forall (q : query expr) hdr A B jm offs,
    is_agg q = false -> is_update q = false -> static_check q = None ->
    join_map_of expr q B = Some jm ->
    all_offers expr (eval Js) q jm 0 A = Ok offs ->
    let o := run (eval Js) yes q hdr A B in
    o_error o = None /\ written (o_chain o) = chain_spec (cfg_of q) offs.
Proof. exact (run_select_rows expr (eval Js)). Qed.
Print Assumptions C19_select_order_distinct_top.

Theorem C19_update :
  forall (q : query expr) asg hdr A B jm rows,
    q_kind q = QUpdate asg -> q_order q = None -> q_distinct q = DNo -> q_top q = None -> q_group q = None ->
    join_map_of expr q B = Some jm ->
    update_all expr (eval Js) q asg jm 0 0 A = Ok rows ->
    let o := run (eval Js) yes q hdr A B in
    o_error o = None /\ written (o_chain o) = rows /\ o_pulls o = length A.
Proof. exact (run_update expr (eval Js)). Qed.
Print Assumptions C19_update.

Theorem C19_aggregate :
  forall (q : query expr) hdr A B jm inputs rows,
    is_agg q = true -> (exists items, q_kind q = QSelect items) ->
    q_order q = None -> q_distinct q = DNo -> static_check q = None ->
    join_map_of expr q B = Some jm ->
    agg_inputs expr (eval Js) q jm 0 A = Ok inputs ->
    agg_rows expr q inputs = Ok rows ->
    let o := run (eval Js) yes q hdr A B in
    o_error o = None /\ written (o_chain o) = trunc (q_top q) rows /\ o_pulls o = length A.
Proof. exact (run_agg expr (eval Js)). Qed.
Print Assumptions C19_aggregate.

Theorem C19_first_offender :
  forall w (q : query expr) hdr A1 a A2 B jm offs1 part e,
    is_agg q = false -> is_update q = false -> static_check q = None ->
    join_map_of expr q B = Some jm ->
    all_offers expr (eval Js) q jm 0 A1 = Ok offs1 ->
    record_until_error expr (eval Js) q jm (S (length A1)) a = (part, Some e) ->
    snd (chain_feed w (cfg_of q) (set_header chain_init hdr) (offs1 ++ part)) = true ->
    let o := run (eval Js) w q hdr (A1 ++ a :: A2) B in
    o_error o = Some (classify (S (length A1)) e) /\ o_pulls o = S (length A1).
Proof.
  intros w q hdr A1 a A2 B jm offs1 part e H1 H2 H3 H4 H5 H6 H7.
  destruct (run_select_first_offender expr (eval Js) w q hdr A1 a A2 B jm offs1 part e H1 H2 H3 H4 H5 H6 H7) as [E1 [_ E3]].
  split; assumption.
Qed.
Print Assumptions C19_first_offender.

(* the two flavours differ only in like's '.', i.e. on texts containing CR, U+2028 or U+2029 *)
Example C19_flavour_difference : like Py [13%N] [95%N] = true /\ like Js [13%N] [95%N] = false.
Proof. split; reflexivity. Qed.
Print Assumptions C19_flavour_difference.
