(* Props/C20.v — The JavaScript stream reader is independent of chunk boundaries.
   ONLY statements: each closed by [exact <lemma>] with Print Assumptions beneath.
   Model: ReaderJs.v (CSVRecordIterator of rbql-js/rbql_csv.js, as after commit 016360d) and Utf8.v (TextDecoder in stream mode).
   [split] is csv_utils.smart_split for the policy in use (any function). A run takes a list of chunks, each with a flag saying
   whether the pending promise continuations (the consumer: get_header / get_all_records) run after that 'data' event, and a flag
   [b0] saying whether the consumer installed its callbacks before the first event. *)
From RBQL Require Import Base Lines Utf8 Reader ReaderJs Utf8_Proofs Reader_Proofs ReaderJs_Proofs.

(* (d) the chunk layer (partially_decoded_line, ..._ends_with_cr, split_lines, first_line_index) hands process_line exactly the
   physical lines of the concatenation - provided no EMPTY chunk separates a chunk ending in CR from a chunk starting with LF
   (js_chunks_ok; see C20_empty_chunk_refuted) *)
Theorem C20_lines : forall chunks : list str,
  js_chunks_ok false false chunks -> lines_js chunks = split_lines (concat chunks).
Proof. exact js_lines. Qed.
Print Assumptions C20_lines.

(* every list of non-empty chunks satisfies the condition: any partition of a text, CR | LF boundaries included *)
Theorem C20_lines_partition : forall chunks : list str,
  Forall (fun d => d <> []) chunks -> lines_js chunks = split_lines (concat chunks).
Proof. exact js_lines_nonempty. Qed.
Print Assumptions C20_lines_partition.

(* the faithful model violates the statement without that condition: an empty chunk between "a\r" and "\nb" resets the CR flag
   and yields a spurious empty line (reachable with an object-mode stream; finding reported with the replay [97,13] [] [10,98]) *)
Theorem C20_empty_chunk_refuted : exists chunks : list str, lines_js chunks <> split_lines (concat chunks).
Proof. exact js_empty_chunk_refuted. Qed.
Print Assumptions C20_empty_chunk_refuted.

(* the bulk path's lines are the physical lines of the text *)
Theorem C20_bulk_lines : forall t : str, lines_js_bulk t = split_lines t.
Proof. exact js_bulk_lines. Qed.
Print Assumptions C20_bulk_lines.

(* (e) streaming UTF-8 decoding: for valid input, any partition into chunks (boundaries inside characters, empty chunks) decodes
   without error to chunks whose concatenation is the whole-input decoding *)
Theorem C20_utf8_streaming : forall bs : bytes,
  valid_utf8 bs -> forall parts : list bytes, concat parts = bs ->
  exists l, decode_streaming parts = Some l /\ decode_whole bs = Some (concat l) /\ length l = length parts.
Proof. exact utf8_streaming. Qed.
Print Assumptions C20_utf8_streaming.

(* ... and invalid or truncated input is rejected by whole and by streaming decoding alike, whatever the partition *)
Theorem C20_utf8_invalid_rejected : forall bs : bytes,
  decode_whole bs = None -> forall parts : list bytes, concat parts = bs -> decode_streaming parts = None.
Proof. exact utf8_invalid_rejected. Qed.
Print Assumptions C20_utf8_invalid_rejected.

(* (d) C20_stream_is_bulk at the byte level, utf-8: for valid UTF-8, every partition into non-empty chunks - boundaries inside a
   CRLF pair or inside a multi-byte character included - and every continuation schedule gives the result of the bulk path
   (records, header, warnings, NL, NR, or the same quoted_rfc error) *)
Theorem C20_stream_is_bulk : forall (split : str -> list str * bool) (c : cfg) (b0 : bool) (chunks : list (bytes * bool)),
  c_enc c = EncUtf8 -> valid_utf8 (concat (map fst chunks)) -> Forall (fun x => x <> []) (map fst chunks) ->
  run_js_stream split c b0 chunks = run_js_bulk split c (concat (map fst chunks)).
Proof. exact js_stream_is_bulk. Qed.
Print Assumptions C20_stream_is_bulk.

(* the same for 'binary' (latin-1) input *)
Theorem C20_stream_is_bulk_binary : forall (split : str -> list str * bool) (c : cfg) (b0 : bool) (chunks : list (bytes * bool)),
  c_enc c <> EncUtf8 -> Forall (fun x => x <> []) (map fst chunks) ->
  run_js_stream split c b0 chunks = run_js_bulk split c (concat (map fst chunks)).
Proof. exact js_stream_is_bulk_binary. Qed.
Print Assumptions C20_stream_is_bulk_binary.

(* the same over already decoded chunks, with the exact condition on empty chunks *)
Theorem C20_stream_is_bulk_decoded : forall (split : str -> list str * bool) (c : cfg) (b0 : bool) (chunks : list (str * bool)),
  js_chunks_ok false false (map fst chunks) ->
  run_js_decoded split c b0 chunks = js_lines_result split c (lines_js_bulk (concat (map fst chunks))).
Proof. exact js_decoded_is_bulk. Qed.
Print Assumptions C20_stream_is_bulk_decoded.

(* valid input is never rejected for its encoding, invalid input always is: the bulk path reports the decoding error and every
   stream run ends with an error *)
Theorem C20_invalid_rejected : forall (split : str -> list str * bool) (c : cfg) (b0 : bool) (chunks : list (bytes * bool)),
  c_enc c = EncUtf8 -> decode_whole (concat (map fst chunks)) = None ->
  run_js_bulk split c (concat (map fst chunks)) = JErr JUtf8 /\ exists e, run_js_stream split c b0 chunks = JErr e.
Proof. exact js_invalid_rejected. Qed.
Print Assumptions C20_invalid_rejected.

(* both paths compute the specification shared with the Python reader (comment prefix without LF) *)
Theorem C20_bulk_is_spec : forall (split : str -> list str * bool) (c : cfg) (blob : bytes) (text : str),
  comment_ok c ->
  (match c_enc c with EncUtf8 => decode_whole blob | _ => Some (decode_latin1 blob) end) = Some text ->
  run_js_bulk split c blob = jresult_of_result (records_of_lines split c (split_lines text)).
Proof. exact js_bulk_spec. Qed.
Print Assumptions C20_bulk_is_spec.

(* non-vacuity: a BOM, 2-, 3- and 4-byte characters and a CRLF, cut inside every multi-byte character and inside the CRLF *)
Example C20_nonvacuous_utf8 :
  let parts := [[239; 187]; [191; 195]; [169; 13]; [10; 226; 130]; [172; 240; 159]; [152; 128; 10]]%N in
  valid_utf8 (concat parts) /\ Forall (fun x => x <> []) parts /\
  decode_streaming parts = Some [[]; [BOMC]; [233; CR]; [LF]; [8364]; [128512; LF]]%N /\
  lines_js [[]; [BOMC]; [233; CR]; [LF]; [8364]; [128512; LF]]%N = [[BOMC; 233]; [8364; 128512]]%N.
Proof.
  cbv zeta. split; [eexists; vm_compute; reflexivity|]. split; [repeat constructor; discriminate|].
  split; vm_compute; reflexivity.
Qed.
Print Assumptions C20_nonvacuous_utf8.

(* non-vacuity of C20_stream_is_bulk: quoted_rfc, comment prefix, header; a record spanning two physical lines; the consumer's
   continuations run after some events only; the common value is concrete *)
Example C20_nonvacuous_stream :
  let c := {| c_rfc := true; c_comment := Some [HASH]; c_header := true; c_enc := EncUtf8; c_modifier := None |} in
  let chunks := [([239; 187], false); ([191; 104; 44; 195], true); ([169; 13], false); ([10; 35; 120; 10; 34; 97; 13], true);
                 ([10; 98; 34; 44; 99], false)]%N in
  valid_utf8 (concat (map fst chunks)) /\ Forall (fun x => x <> []) (map fst chunks) /\
  run_js_stream (lite_split (Some [COMMA])) c false chunks =
  JOk [[[QT; 97; LF; 98; QT]; [99]]]%N (Some [[104]; [233]]%N) {| w_bom := true; w_defective := None; w_fields := None |} 4 2.
Proof.
  cbv zeta. split; [eexists; vm_compute; reflexivity|]. split; [repeat constructor; discriminate|]. vm_compute. reflexivity.
Qed.
Print Assumptions C20_nonvacuous_stream.

(* why {stream: true} matters (the behaviour before commit 016360d): decoding every chunk on its own rejects valid input *)
Example C20_each_chunk_would_reject :
  valid_utf8 [195; 169]%N /\ decode_each_chunk [[195]; [169]]%N = None /\ decode_streaming [[195]; [169]]%N = Some [[]; [233]]%N.
Proof. split; [eexists; vm_compute; reflexivity|]. split; vm_compute; reflexivity. Qed.
Print Assumptions C20_each_chunk_would_reject.
