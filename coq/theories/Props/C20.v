(* Props/C20.v — placeholder while the proofs are written *)
From RBQL Require Import Base Lines Reader ReaderJs.
Example C20_smoke : lines_js [[97; CR]; [LF; 97]]%N = [[97]; [97]]%N.
Proof. vm_compute. reflexivity. Qed.
Print Assumptions C20_smoke.
