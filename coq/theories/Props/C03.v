(* Props/C03.v — Aggregates / GROUP BY: one exact result row per group, in key order. *)
From RBQL Require Import Base Value Expr Writers Join Agg Agg_Proofs Sort_Proofs Engine Spec AggEngine_Proofs JsKey NumLit NumLit_Proofs.
From Coq Require Import QArith Permutation Sorted.

(* an aggregate query whose evaluations succeed emits agg_rows - one row per distinct GROUP BY key among the
   records passing WHERE (none if nothing passes), in ascending key order, each column's final value for that key -
   truncated by TOP/LIMIT; every record is pulled once (any expression semantics) *)
Theorem C03_run :
  forall (expr : Type) (eval : env -> expr -> res val) (q : query expr) hdr A B jm inputs rows,
    is_agg q = true -> (exists items, q_kind q = QSelect items) ->
    q_order q = None -> q_distinct q = DNo -> static_check q = None ->
    join_map_of expr q B = Some jm ->
    agg_inputs expr eval q jm 0 A = Ok inputs ->
    agg_rows expr q inputs = Ok rows ->
    let o := run eval yes q hdr A B in
    o_error o = None /\ written (o_chain o) = trunc (q_top q) rows /\ o_pulls o = length A.
Proof. exact run_agg. Qed.
Print Assumptions C03_run.

(* streaming = batch: feeding all columns tuple by tuple is feeding each column with its own values ... *)
Theorem C03_columnwise : forall inputs cs cs', cols_feed cs inputs = Ok cs' ->
  length cs' = length cs /\
  forall i c, nth_error cs i = Some c -> exists c', nth_error cs' i = Some c' /\ col_feed c (column i inputs) = Ok c'.
Proof. exact cols_feed_columnwise. Qed.
Print Assumptions C03_columnwise.

(* ... and the per-key dictionary of an aggregate column holds, for every key, the fold of the aggregate's step over
   that group's values IN INPUT ORDER; the values are converted by one NumHandler shared by the whole column *)
Theorem C03_streaming_is_batch : forall ak kvs c c',
  c_kind c = CAgg ak -> col_feed c kvs = Ok c' ->
  exists avs, eff_vals ak (c_numh c) (map snd kvs) = Ok (avs, c_numh c') /\ c_kind c' = CAgg ak
    /\ forall k, steps ak (stats_get (c_stats c) k) (group_of k (map fst kvs) avs) = Ok (stats_get (c_stats c') k).
Proof. exact col_feed_agg. Qed.
Print Assumptions C03_streaming_is_batch.

(* the folds are the mathematical aggregates (integer arguments) *)
Theorem C03_count : forall v vs, steps KCount None (v :: vs) = Ok (Some (SCount (length (v :: vs)))).
Proof. exact count_is_length. Qed.
Print Assumptions C03_count.
Theorem C03_sum : forall z zs, steps KSum None (ints (z :: zs)) = Ok (Some (SVal (VA (AInt (fold_left Z.add (z :: zs) 0%Z))))).
Proof. exact sum_is_sum. Qed.
Print Assumptions C03_sum.
Theorem C03_min : forall z zs, steps KMin None (ints (z :: zs)) = Ok (Some (SVal (VA (AInt (fold_left Z.min zs z))))).
Proof. exact min_is_min. Qed.
Print Assumptions C03_min.
Theorem C03_max : forall z zs, steps KMax None (ints (z :: zs)) = Ok (Some (SVal (VA (AInt (fold_left Z.max zs z))))).
Proof. exact max_is_max. Qed.
Print Assumptions C03_max.
Theorem C03_array_agg : forall v vs, steps KArray None (v :: vs) = Ok (Some (SList (v :: vs))).
Proof. exact array_agg_is_the_list. Qed.
Print Assumptions C03_array_agg.
Theorem C03_any_value : forall v vs, steps KAny None (v :: vs) = Ok (Some (SVal (VA v))).
Proof. exact any_value_is_first. Qed.
Print Assumptions C03_any_value.
Theorem C03_avg : forall z zs,
  exists s, steps KAvg None (ints (z :: zs)) = Ok (Some s)
            /\ agg_final KAvg s = Ok (VA (AFlt (Qred (inject_Z (fold_left Z.add (z :: zs) 0%Z) / inject_Z (Z.of_nat (length (z :: zs))))))).
Proof. exact avg_is_mean. Qed.
Print Assumptions C03_avg.
(* VARIANCE's formula sumsq/n - (sum/n)^2 is the population variance (1/n) * sum (x - mean)^2 (over Q) *)
Theorem C03_variance_population : forall (l : list Q), l <> [] ->
  let n := inject_Z (Z.of_nat (length l)) in
  let mean := qsum l / n in
  qsum (map (fun x => x * x) l) / n - (qsum l / n) * (qsum l / n)
  == qsum (map (fun x => (x - mean) * (x - mean)) l) / n.
Proof. exact variance_population. Qed.
Print Assumptions C03_variance_population.

(* a non-aggregate column keeps the group's first value; a different later value fails the query at that record *)
Theorem C03_const_column : forall c k v old,
  c_kind c = CConst -> stats_get (c_stats c) k = Some (SVal old) -> val_eqb old v = false ->
  col_increment c k v = Err (XRuntime 1).
Proof. exact const_column_fails. Qed.
Print Assumptions C03_const_column.

(* exactly one row per distinct key, keys in ascending order (integer keys / string keys) *)
Theorem C03_one_row_per_group : forall cs ks rows,
  final_rows cs (sort_keys ks) = Ok rows -> length rows = length ks.
Proof. exact one_row_per_group. Qed.
Print Assumptions C03_one_row_per_group.
Theorem C03_keys_ascending_int : forall ks, Forall (fun k => int_key k = true) ks ->
  StronglySorted (fun a b => key_leb a b = true) (sort_keys ks) /\ Permutation (sort_keys ks) ks.
Proof. intros ks H. split; [exact (sort_keys_sorted IntKey int_key_total int_key_trans ks H) | apply sort_keys_perm]. Qed.
Print Assumptions C03_keys_ascending_int.
Theorem C03_keys_ascending_str : forall ks, Forall (fun k => str_key k = true) ks ->
  StronglySorted (fun a b => key_leb a b = true) (sort_keys ks) /\ Permutation (sort_keys ks) ks.
Proof. intros ks H. split; [exact (sort_keys_sorted StrKey str_key_total str_key_trans ks H) | apply sort_keys_perm]. Qed.
Print Assumptions C03_keys_ascending_str.

(* non-vacuity: two groups, numeric strings converted, AVG as an exact rational *)
Definition ex_inputs : list (key * list val) :=
  [([AStr [107%N]], [VA (AStr [107%N]); VA (AStr [50%N])]);
   ([AStr [97%N]],  [VA (AStr [97%N]);  VA (AStr [55%N])]);
   ([AStr [107%N]], [VA (AStr [107%N]); VA (AStr [51%N])])].
Example C03_nonvacuous :
  (do cs <- cols_feed [col_init CConst; col_init (CAgg KAvg)] ex_inputs;
   final_rows cs (sort_keys (all_keys ex_inputs)))
  = Ok [[VA (AStr [97%N]); VA (AFlt (7 # 1))]; [VA (AStr [107%N]); VA (AFlt (5 # 2))]].
Proof. vm_compute. reflexivity. Qed.
Print Assumptions C03_nonvacuous.

(* lower-case min / max / sum: with several arguments, or one iterable, the Python builtin; with a single string or
   number (or anything else the builtin rejects with TypeError) the aggregate *)
From RBQL Require Import Mad.
Theorem C03_mad_dispatch :
  (forall a b rest kw, mad_minmax (a :: b :: rest) kw = Builtin)
  /\ mad_minmax [KindList true] false = Builtin
  /\ mad_minmax [KindStr] false = Aggregate /\ mad_minmax [KindNum] false = Aggregate
  /\ (forall a b, mad_sum [a; b] = Builtin) /\ (forall ne, mad_sum [KindList ne] = Builtin)
  /\ mad_sum [KindStr] = Aggregate /\ mad_sum [KindNum] = Aggregate.
Proof.
  split; [intros a b rest kw; destruct a as [| |[|]|]; destruct kw; reflexivity|].
  repeat split; try reflexivity; intros a b; destruct a as [| |[|]|]; reflexivity.
Qed.
Print Assumptions C03_mad_dispatch.

(* the builtin forms of the fragment: first maximal / minimal element, arithmetic sum *)
Example C03_builtin_forms :
  builtin_minmax true [AStr [98%N]; AStr [97%N]; AStr [98%N]] = Ok (VA (AStr [98%N]))
  /\ builtin_minmax false [AInt 3; AInt 1; AInt 2] = Ok (VA (AInt 1))
  /\ builtin_sum (AInt 0) [AInt 3; AInt 4] = Ok (VA (AInt 7))
  /\ builtin_minmax true [] = Err XValue
  /\ builtin_minmax true [AStr [97%N]; AInt 1] = Err XType.
Proof. repeat split. Qed.
Print Assumptions C03_builtin_forms.

(* MEDIAN over integer values: the values of the group, arranged ascending (a sorted permutation of what was fed), and
   the middle one (odd count) / the two middle ones when equal, else their mean (even count) *)
Theorem C03_median (zs : list Z) :
  zs <> [] ->
  let s := sort_z zs in
  let m := Nat.div (length zs) 2 in
  Permutation s zs /\ StronglySorted Z.le s /\
  agg_final KMedian (SList (ints zs)) =
    (if Nat.odd (length zs) then Ok (VA (AInt (nth m s 0%Z)))
     else if Z.eqb (nth (m - 1)%nat s 0%Z) (nth m s 0%Z) then Ok (VA (AInt (nth (m - 1)%nat s 0%Z)))
          else Ok (VA (AFlt (Qred ((inject_Z (nth (m - 1)%nat s 0%Z) + inject_Z (nth m s 0%Z)) / 2))))).
Proof. exact (median_is_middle zs). Qed.
Print Assumptions C03_median.

(* ------------------------------------------------------------------ numeric strings are converted to numbers *)
From RBQL Require Import NumHandler_Proofs.

(* What a column accumulates (eff_vals, the values the per-group folds of C03_columnwise are taken over), by NumHandler:
   an all-integer string column of MIN / MAX / SUM / MEDIAN: exactly the integers the strings denote *)
Theorem C03_numeric_strings_int : forall (ak : agg_kind) (ss : list str) (zs : list Z),
  uses_numh ak = Some true -> ss <> [] -> ints_of ss = Some zs ->
  eff_vals ak (numh_init true) (map (fun s => VA (AStr s)) ss) = Ok (map AInt zs, started_str true).
Proof. exact column_of_int_strings. Qed.
Print Assumptions C03_numeric_strings_int.

(* a string column of AVG / VARIANCE: the rationals the strings denote *)
Theorem C03_numeric_strings_float : forall (ak : agg_kind) (ss : list str) (qs : list Q),
  uses_numh ak = Some false -> ss <> [] -> floats_of ss = Some qs ->
  eff_vals ak (numh_init false) (map (fun s => VA (AStr s)) ss) = Ok (map AFlt qs, started_str false).
Proof. exact column_of_float_strings. Qed.
Print Assumptions C03_numeric_strings_float.

(* native numbers are accumulated as they are; and the type rule of an int-start column over strings: integers until the first
   string that is not one, which switches the column to float conversion for good *)
Theorem C03_native_numbers : forall (ak : agg_kind) (b : bool) (zs : list Z),
  uses_numh ak = Some b -> zs <> [] ->
  eff_vals ak (numh_init b) (map (fun z => VA (AInt z)) zs) = Ok (map AInt zs, started_raw b).
Proof. exact column_of_native_ints. Qed.
Print Assumptions C03_native_numbers.

Theorem C03_int_column_switches_to_float : forall (s : str),
  parse_int s = None ->
  numh_parse (started_str true) (AStr s) = (to_float (AStr s), started_str false)
  /\ forall v, numh_parse (started_str false) v = (to_float v, started_str false).
Proof. exact (fun s H => conj (numh_int_mode_switch s H) numh_float_mode). Qed.
Print Assumptions C03_int_column_switches_to_float.

Example C03_numhandler_nonvacuous :
  eff_vals KSum (numh_init true) [VA (AStr [49; 50]%N); VA (AStr [45; 51]%N)] = Ok ([AInt 12; AInt (-3)], started_str true)
  /\ fst (numh_parse (started_str true) (AStr [50; 46; 53]%N)) = Ok (AFlt (5 # 2)).
Proof. vm_compute. split; reflexivity. Qed.
Print Assumptions C03_numhandler_nonvacuous.

(* ---- which strings are numbers (NumLit.v): Python int(s) / float(s), JavaScript Number(s) with rbql-js's rejection of NaN and blanks ----
   on the common core [+-]? digits (. digits)? the old model (Value.parse_float / Value.parse_int, used by NumHandler above) succeeds
   and is the restriction of the three literal functions (int: up to CPython's default limit of 4300 digits) *)
Theorem C03_numlit_core_agree : forall s, numeric_core s = true ->
  exists q, Value.parse_float s = Some q /\ py_float_lit s = NLOk q /\ js_number_lit s = NLOk q /\
    (has_dot s = false ->
       exists z, Value.parse_int s = Some z /\ q = inject_Z z /\ ((length s <= MAX_STR_DIGITS)%nat -> py_int_lit s = NLOk z)).
Proof. exact numlit_core_agree. Qed.
Print Assumptions C03_numlit_core_agree.

(* the two ports agree on which strings are numbers, and on the value, on every ASCII string without an underscore, without a
   0x / 0o / 0b prefix and without a spelling of an infinity or of NaN ... *)
Theorem C03_numlit_py_js_agree : forall s, common_notation s = true -> py_float_lit s = js_number_lit s.
Proof. exact py_js_agree. Qed.
Print Assumptions C03_numlit_py_js_agree.

(* ... and there only: 1_0 is a number (ten) for Python alone, 0x10 (sixteen) for JavaScript alone *)
Theorem C03_numlit_py_only_refuted :
  py_int_lit [49; 95; 48]%N = NLOk 10%Z /\ py_float_lit [49; 95; 48]%N = NLOk (10 # 1) /\ js_number_lit [49; 95; 48]%N = NLError
  /\ common_notation [49; 95; 48]%N = false.
Proof. exact py_only_refuted. Qed.
Print Assumptions C03_numlit_py_only_refuted.
Theorem C03_numlit_js_only_refuted :
  js_number_lit [48; 120; 49; 48]%N = NLOk (16 # 1) /\ py_float_lit [48; 120; 49; 48]%N = NLError /\ py_int_lit [48; 120; 49; 48]%N = NLError
  /\ common_notation [48; 120; 49; 48]%N = false.
Proof. exact js_only_refuted. Qed.
Print Assumptions C03_numlit_js_only_refuted.

(* an integer written by one query (int_text z = str(z) = String(z)) is read back as z by the next, in both ports *)
Theorem C03_numlit_int_roundtrip : forall z,
  js_number_lit (int_text z) = NLOk (inject_Z z) /\ py_float_lit (int_text z) = NLOk (inject_Z z)
  /\ ((Z.abs z < 10 ^ Z.of_nat MAX_STR_DIGITS)%Z -> py_int_lit (int_text z) = NLOk z).
Proof. exact int_roundtrip. Qed.
Print Assumptions C03_numlit_int_roundtrip.

(* surrounding white space (space, TAB, LF, VT, FF, CR) never matters *)
Theorem C03_numlit_ws_invariant : forall w1 w2 s, forallb is_ws w1 = true -> forallb is_ws w2 = true ->
  py_int_lit (w1 ++ s ++ w2) = py_int_lit s /\ py_float_lit (w1 ++ s ++ w2) = py_float_lit s
  /\ js_number_lit (w1 ++ s ++ w2) = js_number_lit s.
Proof. exact nl_ws_invariant. Qed.
Print Assumptions C03_numlit_ws_invariant.

(* ---- rbql-js: AggregateWriter.finish sorts the key texts with Array.prototype.sort(compare_aggregation_keys), which parses them
   back and compares the tuples.  On DISTINCT position-wise homogeneous tuples (integers / strings without a code point in
   U+E000..U+FFFF) any arrangement that ECMA-262 allows the sort to return is the ascending tuple order - numbers as integers,
   strings by code units - and that is the order of the reference sort_keys (JsSort.v, JsSort_Proofs.v) *)
From RBQL Require Import Utf16 JsSort JsSort_Proofs.
Theorem C03_js_group_order : forall (ks : list key) (out : list (list kc)),
  (forall k, In k ks -> key_ok (forallb low_or_astral) k = true) ->
  (forall a b, In a ks -> In b ks -> shape_eqb (enc_key a) (enc_key b) = true) ->
  NoDup (map enc_key ks) ->
  Permutation (map enc_key ks) out ->
  StronglySorted (fun a b => compare_aggregation_keys (Some b) (Some a) <> (-1)%Z) out ->
  out = map enc_key (sort_keys ks) /\ StronglySorted (fun a b => kcs_ltb a b = true) out.
Proof. exact js_group_order. Qed.
Print Assumptions C03_js_group_order.

Theorem C03_js_group_order_bmp : forall (ks : list key) (out : list (list kc)),
  (forall k, In k ks -> key_ok (forallb bmp) k = true) ->
  (forall a b, In a ks -> In b ks -> shape_eqb (enc_key a) (enc_key b) = true) ->
  NoDup (map enc_key ks) ->
  Permutation (map enc_key ks) out ->
  StronglySorted (fun a b => compare_aggregation_keys (Some b) (Some a) <> (-1)%Z) out ->
  out = map enc_key (sort_keys ks) /\ StronglySorted (fun a b => kcs_ltb a b = true) out.
Proof. exact js_group_order_bmp. Qed.
Print Assumptions C03_js_group_order_bmp.
