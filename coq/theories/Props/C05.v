(* Props/C05.v — UPDATE emits every record once, changing only assigned fields of matching rows. *)
From RBQL Require Import Base Value Like Expr Writers Join Agg Engine Spec Engine_Proofs Update_Proofs.

(* the run of an UPDATE whose evaluations succeed writes exactly update_all's rows, one per input record,
   pulls every record once and reports no error (any expression semantics) *)
Theorem C05_run :
  forall (expr : Type) (eval : env -> expr -> res val) (q : query expr) asg hdr A B jm rows,
    q_kind q = QUpdate asg -> q_order q = None -> q_distinct q = DNo -> q_top q = None -> q_group q = None ->
    join_map_of expr q B = Some jm ->
    update_all expr eval q asg jm 0 0 A = Ok rows ->
    let o := run eval yes q hdr A B in
    o_error o = None /\ written (o_chain o) = rows /\ o_pulls o = length A.
Proof. exact run_update. Qed.
Print Assumptions C05_run.

(* exactly one record per input record, in order, with the same number of fields *)
Theorem C05_shape :
  forall (expr : Type) (eval : env -> expr -> res val) (q : query expr) asg jm A rows,
    update_all expr eval q asg jm 0 0 A = Ok rows ->
    length rows = length A /\ Forall2 (fun r a => length r = length a) rows A.
Proof.
  intros expr eval q asg jm A rows H. pose proof (update_all_shape expr eval q asg jm A 0 0 rows H) as F.
  split; [clear H; induction F as [|r a rs As Hra F IH]; cbn; [reflexivity | rewrite IH; reflexivity] | exact F].
Qed.
Print Assumptions C05_shape.

(* a record failing WHERE, or without (exactly one) join partner, is emitted unchanged and NU stays *)
Theorem C05_unchanged :
  forall (expr : Type) (eval : env -> expr -> res val) (q : query expr) asg nr a b nu,
    update_row expr eval q asg nr a b false nu = Ok (map VA a, nu)
    /\ (where_ok eval q (env_of nr a b nu) = Ok false -> update_row expr eval q asg nr a b true nu = Ok (map VA a, nu)).
Proof.
  intros. split; [reflexivity|]. intros H. unfold update_row. rewrite H. reflexivity.
Qed.
Print Assumptions C05_unchanged.

(* in a matching record: NU is incremented before the assignments; field j of the result is the value of the LAST
   assignment to j, every right-hand side evaluated on the ORIGINAL record (so a1 = a2, a2 = a1 swaps);
   fields that are not assigned keep their value *)
Theorem C05_simultaneous :
  forall (expr : Type) (eval : env -> expr -> res val) (q : query expr) asg nr a b nu r nu',
    where_ok eval q (env_of nr a b nu) = Ok true ->
    update_row expr eval q asg nr a b true nu = Ok (r, nu') ->
    nu' = S nu
    /\ (forall j, Ok (nth j r VNone) = last_assign expr eval (env_of nr a b (S nu)) asg j (Ok (nth j (map VA a) VNone)))
    /\ (forall j, ~ In j (map fst asg) -> nth j r VNone = nth j (map VA a) VNone).
Proof.
  intros expr eval q asg nr a b nu r nu' Hw H. unfold update_row in H. rewrite Hw in H. cbn [bind] in H.
  apply bind_ok in H. destruct H as [r' [Hr H]]. injection H as <- <-. split; [reflexivity|]. split.
  - intros j. exact (apply_assigns_nth expr eval _ asg (map VA a) r' j Hr).
  - intros j Hj. pose proof (apply_assigns_nth expr eval _ asg (map VA a) r' j Hr) as E.
    rewrite (last_assign_untouched expr eval _ asg j _ Hj) in E. injection E as E. exact E.
Qed.
Print Assumptions C05_simultaneous.

(* assigning to a field the record does not have fails with a bad-field error (which the loop reports as a
   query-execution error naming this record, C14) *)
Theorem C05_bad_field :
  forall (expr : Type) (eval : env -> expr -> res val) en (a : rec) asg,
    (forall i e, In (i, e) asg -> exists v, eval en e = Ok v) ->
    (exists i e, In (i, e) asg /\ length a <= i) ->
    exists i, apply_assigns eval en (map VA a) asg = Err (XBadField i) /\ length a <= i.
Proof.
  intros expr eval en a asg H1 [i [e [Hin Hl]]].
  destruct (apply_assigns_bad expr eval en asg (map VA a) H1) as [i1 [E1 E2]].
  - exists i, e. split; [assumption | rewrite map_length; assumption].
  - exists i1. split; [assumption | rewrite map_length in E2; assumption].
Qed.
Print Assumptions C05_bad_field.

(* non-vacuity: the swap, with a WHERE and NU *)
Definition swap_q : query expr :=
  {| q_kind := QUpdate [(0%nat, EFld TA 1); (1%nat, EFld TA 0); (2%nat, ENU)];
     q_where := Some (ENe (EFld TA 0) (ELit (AStr [122%N])));
     q_join := None; q_group := None; q_order := None; q_distinct := DNo; q_top := None |}.
Example C05_nonvacuous :
  update_all expr (eval Py) swap_q [(0%nat, EFld TA 1); (1%nat, EFld TA 0); (2%nat, ENU)] None 0 0
     [[AStr [97%N]; AStr [98%N]; ANone]; [AStr [122%N]; AStr [98%N]; ANone]; [AStr [99%N]; AStr [100%N]; ANone]]
  = Ok [[VA (AStr [98%N]); VA (AStr [97%N]); VA (AInt 1)];
        [VA (AStr [122%N]); VA (AStr [98%N]); VA ANone];
        [VA (AStr [100%N]); VA (AStr [99%N]); VA (AInt 2)]].
Proof. vm_compute. reflexivity. Qed.
Print Assumptions C05_nonvacuous.

(* ------------------------------------------------------------------ text level: splitting the assignment list *)
From RBQL Require Import Parser Parser_Update_Proofs.
From Coq Require String.
Import String.StringSyntax.

(* for an assignment list rendered from (target, right-hand side) pairs — any numbers of blanks before each target,
   before "=", after "=" and after each right-hand side — the splitter (update_assignments, the model of the
   assignment-looking regex of translate_update_expression) returns exactly the pairs.  asg_ok: the list is non-empty;
   every target is "a" followed by characters of [.#a-zA-Z0-9\[\]_]; every right-hand side is non-empty, is its own
   strip (of the flavour), does not start with "=", and no "," in it is followed by text that looks like an
   assignment when a "," is put after the right-hand side (rhs_ok_spec, quiet_in_spec spell the booleans out) *)
Theorem C05_assignment_split : forall fl sp ps,
  asg_ok fl ps = true -> update_assignments fl (render_asg sp ps) = Ok ps.
Proof. exact update_split. Qed.
Print Assumptions C05_assignment_split.

(* the same with the look-ahead condition made exact: the right-hand side may start with "=" when a blank follows
   the assignment's "=" *)
Theorem C05_assignment_split_sp : forall fl sp ps,
  asg_ok_sp fl sp ps = true -> update_assignments fl (render_asg sp ps) = Ok ps.
Proof. exact update_split_sp. Qed.
Print Assumptions C05_assignment_split_sp.

(* quietness is checked against one following comma; that covers both real continuations *)
Theorem C05_quiet_continuations : forall suf, assign_at (suf ++ [COMMA]) = None ->
  (forall k, assign_at (suf ++ COMMA :: k) = None) /\ assign_at suf = None.
Proof. exact assign_at_comma_ext. Qed.
Print Assumptions C05_quiet_continuations.

(* the swap (by the theorem), in three spacings *)
Example C05_split_swap : forall fl,
  update_assignments fl $"a1 = a2, a2 = a1" = Ok swap_pairs
  /\ update_assignments fl $"a1=a2,a2=a1" = Ok swap_pairs
  /\ update_assignments fl $"  a1  =  a2  ,  a2  =  a1  " = Ok swap_pairs.
Proof. exact update_split_swap. Qed.
Print Assumptions C05_split_swap.

(* each hypothesis is needed *)
Example C05_split_need_quiet : forall fl,
  let ps := [($"a1", $"f(a2, a3 = 1)")] in
  rhs_quiet $"f(a2, a3 = 1)" = false
  /\ update_assignments fl (render_asg sp_common ps) = Ok [($"a1", $"f(a2"); ($"a3", $"1)")].
Proof. exact need_quiet. Qed.
Print Assumptions C05_split_need_quiet.

Example C05_split_need_look : forall fl,
  let ps := [($"a1", $"= a2")] in
  look_ok (mkSp 0 1 0 0) $"= a2" = false
  /\ render_asg (fun _ => mkSp 0 1 0 0) ps = $"a1 == a2"
  /\ update_assignments fl $"a1 == a2" = Err E_update_first_assignment
  /\ asg_ok_sp fl sp_common ps = true
  /\ update_assignments fl $"a1 = = a2" = Ok ps.
Proof. exact need_look. Qed.
Print Assumptions C05_split_need_look.

Example C05_split_need_nonempty_rhs : forall fl,
  update_assignments fl (render_asg sp_tight [($"a1", [])]) = Err E_update_first_assignment.
Proof. exact need_nonempty_rhs. Qed.
Print Assumptions C05_split_need_nonempty_rhs.

Example C05_split_need_stripped : forall fl,
  update_assignments fl (render_asg sp_tight [($"a1", $" a2 ")]) = Ok [($"a1", $"a2")].
Proof. exact need_stripped. Qed.
Print Assumptions C05_split_need_stripped.

Example C05_split_need_target : forall fl,
  update_assignments fl (render_asg sp_common [($"b1", $"2")]) = Err E_update_first_assignment
  /\ update_assignments fl (render_asg sp_common [($"a1+", $"2")]) = Err E_update_first_assignment
  /\ update_assignments fl (render_asg sp_common [($"a1", $"2"); ($"b2", $"3")]) = Ok [($"a1", $"2, b2 = 3")]
  /\ update_assignments fl (render_asg sp_common []) = Err E_update_first_assignment.
Proof. exact need_target. Qed.
Print Assumptions C05_split_need_target.

(* the condition is sufficient, not necessary *)
Example C05_split_quiet_not_necessary : forall fl,
  rhs_quiet $"x,a2 =" = false
  /\ update_assignments fl (render_asg sp_common [($"a1", $"x,a2 =")]) = Ok [($"a1", $"x,a2 =")].
Proof. exact quiet_not_necessary. Qed.
Print Assumptions C05_split_quiet_not_necessary.
