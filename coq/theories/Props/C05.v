(* Props/C05.v — UPDATE emits every record once, changing only assigned fields of matching rows. *)
From RBQL Require Import Base Value Like Expr Writers Join Agg Engine Spec Engine_Proofs Update_Proofs.

(* the run of an UPDATE whose evaluations succeed writes exactly update_all's rows, one per input record,
   pulls every record once and reports no error (any expression semantics) *)
Theorem C05_run :
  forall (expr : Type) (eval : env -> expr -> res val) (q : query expr) asg hdr A B jm rows,
    q_kind q = QUpdate asg -> q_order q = None -> q_distinct q = DNo -> q_top q = None -> q_group q = None ->
    join_map_of expr q B = Some jm ->
    update_all expr eval q asg jm 0 0 A = Ok rows ->
    let o := run eval yes q hdr A B in
    o_error o = None /\ written (o_chain o) = rows /\ o_pulls o = length A.
Proof. exact run_update. Qed.
Print Assumptions C05_run.

(* exactly one record per input record, in order, with the same number of fields *)
Theorem C05_shape :
  forall (expr : Type) (eval : env -> expr -> res val) (q : query expr) asg jm A rows,
    update_all expr eval q asg jm 0 0 A = Ok rows ->
    length rows = length A /\ Forall2 (fun r a => length r = length a) rows A.
Proof.
  intros expr eval q asg jm A rows H. pose proof (update_all_shape expr eval q asg jm A 0 0 rows H) as F.
  split; [clear H; induction F as [|r a rs As Hra F IH]; cbn; [reflexivity | rewrite IH; reflexivity] | exact F].
Qed.
Print Assumptions C05_shape.

(* a record failing WHERE, or without (exactly one) join partner, is emitted unchanged and NU stays *)
Theorem C05_unchanged :
  forall (expr : Type) (eval : env -> expr -> res val) (q : query expr) asg nr a b nu,
    update_row expr eval q asg nr a b false nu = Ok (map VA a, nu)
    /\ (where_ok eval q (env_of nr a b nu) = Ok false -> update_row expr eval q asg nr a b true nu = Ok (map VA a, nu)).
Proof.
  intros. split; [reflexivity|]. intros H. unfold update_row. rewrite H. reflexivity.
Qed.
Print Assumptions C05_unchanged.

(* in a matching record: NU is incremented before the assignments; field j of the result is the value of the LAST
   assignment to j, every right-hand side evaluated on the ORIGINAL record (so a1 = a2, a2 = a1 swaps);
   fields that are not assigned keep their value *)
Theorem C05_simultaneous :
  forall (expr : Type) (eval : env -> expr -> res val) (q : query expr) asg nr a b nu r nu',
    where_ok eval q (env_of nr a b nu) = Ok true ->
    update_row expr eval q asg nr a b true nu = Ok (r, nu') ->
    nu' = S nu
    /\ (forall j, Ok (nth j r VNone) = last_assign expr eval (env_of nr a b (S nu)) asg j (Ok (nth j (map VA a) VNone)))
    /\ (forall j, ~ In j (map fst asg) -> nth j r VNone = nth j (map VA a) VNone).
Proof.
  intros expr eval q asg nr a b nu r nu' Hw H. unfold update_row in H. rewrite Hw in H. cbn [bind] in H.
  apply bind_ok in H. destruct H as [r' [Hr H]]. injection H as <- <-. split; [reflexivity|]. split.
  - intros j. exact (apply_assigns_nth expr eval _ asg (map VA a) r' j Hr).
  - intros j Hj. pose proof (apply_assigns_nth expr eval _ asg (map VA a) r' j Hr) as E.
    rewrite (last_assign_untouched expr eval _ asg j _ Hj) in E. injection E as E. exact E.
Qed.
Print Assumptions C05_simultaneous.

(* assigning to a field the record does not have fails with a bad-field error (which the loop reports as a
   query-execution error naming this record, C14) *)
Theorem C05_bad_field :
  forall (expr : Type) (eval : env -> expr -> res val) en (a : rec) asg,
    (forall i e, In (i, e) asg -> exists v, eval en e = Ok v) ->
    (exists i e, In (i, e) asg /\ length a <= i) ->
    exists i, apply_assigns eval en (map VA a) asg = Err (XBadField i) /\ length a <= i.
Proof.
  intros expr eval en a asg H1 [i [e [Hin Hl]]].
  destruct (apply_assigns_bad expr eval en asg (map VA a) H1) as [i1 [E1 E2]].
  - exists i, e. split; [assumption | rewrite map_length; assumption].
  - exists i1. split; [assumption | rewrite map_length in E2; assumption].
Qed.
Print Assumptions C05_bad_field.

(* non-vacuity: the swap, with a WHERE and NU *)
Definition swap_q : query expr :=
  {| q_kind := QUpdate [(0%nat, EFld TA 1); (1%nat, EFld TA 0); (2%nat, ENU)];
     q_where := Some (ENe (EFld TA 0) (ELit (AStr [122%N])));
     q_join := None; q_group := None; q_order := None; q_distinct := DNo; q_top := None |}.
Example C05_nonvacuous :
  update_all expr (eval Py) swap_q [(0%nat, EFld TA 1); (1%nat, EFld TA 0); (2%nat, ENU)] None 0 0
     [[AStr [97%N]; AStr [98%N]; ANone]; [AStr [122%N]; AStr [98%N]; ANone]; [AStr [99%N]; AStr [100%N]; ANone]]
  = Ok [[VA (AStr [98%N]); VA (AStr [97%N]); VA (AInt 1)];
        [VA (AStr [122%N]); VA (AStr [98%N]); VA ANone];
        [VA (AStr [100%N]); VA (AStr [99%N]); VA (AInt 2)]].
Proof. vm_compute. reflexivity. Qed.
Print Assumptions C05_nonvacuous.
