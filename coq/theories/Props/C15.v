(* Props/C15.v — broken pipes and errors are handled cleanly (logic part; decoder, buffering and file descriptors
   are runtime behaviour observed by the correspondence run only) *)
From RBQL Require Import Base Value Expr Writers Join Agg Engine Pipe Pipe_Proofs Protocol_Proofs Prefix_Proofs.

(* CSVWriter: a BrokenPipeError from either stream write of a record makes write() return False and sets
   broken_pipe; finish() then performs no stream operation at all (no write, no flush, no close) *)
Theorem C15_finish_noop : forall s sep close st line,
  snd (csv_write s sep st line) = false ->
  p_broken (fst (csv_write s sep st line)) = true
  /\ csv_finish close (fst (csv_write s sep st line)) = fst (csv_write s sep st line).
Proof. exact epipe_finish_noop. Qed.
Print Assumptions C15_finish_noop.

Theorem C15_write_false_iff : forall s sep st line,
  snd (csv_write s sep st line) = false <-> (s (p_n st) = false \/ s (S (p_n st)) = false).
Proof. exact csv_write_false_iff. Qed.
Print Assumptions C15_write_false_iff.

(* for EVERY index k at which the stream breaks: the consumer has received exactly the first k pieces of
   line1, sep, line2, sep, ... (a prefix of the full output), and if the pipe did break nothing at all
   follows the refused write *)
Theorem C15_epipe_prefix : forall sep lines k close,
  let st' := csv_finish close (csv_feed (breaks_at k) sep pw_init lines) in
  accepted st' = firstn k (pieces sep lines)
  /\ (k < length (pieces sep lines) ->
        p_ops st' = p_ops (csv_feed (breaks_at k) sep pw_init lines) /\ p_n st' = S k).
Proof. exact epipe_prefix. Qed.
Print Assumptions C15_epipe_prefix.

(* a refused write stops the loop without manufacturing an error: the loop's only error source is a failing
   evaluation *)
Theorem C15_stop_is_not_an_error :
  forall (expr : Type) (eval : env -> expr -> res val) w (q : query expr) jm ls nr a A ls',
    process_record eval w q jm ls (S nr) a = (ls', Stop) ->
    main_loop eval w q jm ls nr (a :: A) = (ls', S nr, None).
Proof. intros expr eval w q jm ls nr a A ls' H. cbn [main_loop]. rewrite H. reflexivity. Qed.
Print Assumptions C15_stop_is_not_an_error.

(* THE PROTOCOL seen by a user-supplied writer: for every query shape (streaming, sorted, aggregated, distinct, distinct
   count, unnest, update), every answer pattern w of the writer (in particular: refusing its k-th write, for every k) and
   every expression semantics, the calls it receives are, in order,
       [set_header]  write* (all answered True)  [one write answered False]  finish      after a run without error
       [set_header]  write* (all answered True)                                          after a failed run
   i.e. set_header at most once and before any write, no write after one returned False, finish exactly once - as the last
   call - after a successful run and never after a failure. *)
Theorem C15_protocol :
  forall (expr : Type) (eval : env -> expr -> res val) (w : nat -> bool) (q : query expr) hdr A B,
    static_check q = None ->
    let o := run eval w q hdr A B in
    match o_error o with
    | None => exists hs ws fl, rev (s_trace (o_chain o)) = hs ++ ws ++ fl ++ [EvFinish]
                /\ (hs = [] \/ exists h, hs = [EvHeader h])
                /\ Forall (fun e => exists r, e = EvWrite r true) ws
                /\ (fl = [] \/ exists r, fl = [EvWrite r false])
    | Some _ => exists hs ws, rev (s_trace (o_chain o)) = hs ++ ws
                   /\ (hs = [] \/ exists h, hs = [EvHeader h]) /\ Forall (fun e => exists r, e = EvWrite r true) ws
    end.
Proof. intros expr eval w q hdr A B Hst. exact (run_protocol expr eval w q Hst hdr A B). Qed.
Print Assumptions C15_protocol.

(* "returns without error": a run in which the consumer refused a write never ends in an error (the refusal stops the
   loop, and nothing is evaluated afterwards) *)
Theorem C15_refusal_is_not_an_error :
  forall (expr : Type) (eval : env -> expr -> res val) (w : nat -> bool) (q : query expr) hdr A B r,
    static_check q = None ->
    In (EvWrite r false) (s_trace (o_chain (run eval w q hdr A B))) -> o_error (run eval w q hdr A B) = None.
Proof. intros expr eval w q hdr A B r Hst. exact (refusal_is_not_an_error expr eval w q Hst hdr A B r). Qed.
Print Assumptions C15_refusal_is_not_an_error.

(* THE PREFIX CLAUSE at the engine level: a consumer (user writer) that refuses its k-th write has been handed, and has
   accepted, exactly the first k rows of the output it would have received had it never refused - for EVERY query
   (streaming, sorted, aggregated, distinct, distinct count, unnest, update, join; succeeding or failing), every k and
   every expression semantics.  Proved by strong locality of the whole run in the writer oracle (Prefix_Proofs.v). *)
Theorem C15_prefix :
  forall (expr : Type) (eval : env -> expr -> res val) (q : query expr) hdr A B k,
    written (o_chain (run eval (fail_at k) q hdr A B)) = firstn k (written (o_chain (run eval yes q hdr A B))).
Proof. intros expr eval. exact (@run_prefix expr eval). Qed.
Print Assumptions C15_prefix.

(* ... and a consumer whose first refusal would come after the last row sees exactly the unrefused run *)
Theorem C15_prefix_complete :
  forall (expr : Type) (eval : env -> expr -> res val) (q : query expr) hdr A B k,
    s_nwrites (o_chain (run eval yes q hdr A B)) <= k ->
    run eval (fail_at k) q hdr A B = run eval yes q hdr A B.
Proof. intros expr eval. exact (@run_prefix_complete expr eval). Qed.
Print Assumptions C15_prefix_complete.

(* a query rejected by the static checks never touches the writer *)
Theorem C15_static_error_silent :
  forall (expr : Type) (eval : env -> expr -> res val) w (q : query expr) hdr A B t,
    static_check q = Some t -> s_trace (o_chain (run eval w q hdr A B)) = [].
Proof. intros expr eval. exact (@static_error_no_output expr eval). Qed.
Print Assumptions C15_static_error_silent.

Example C15_nonvacuous :
  accepted (csv_finish false (csv_feed (breaks_at 3) [10%N] pw_init [[97%N]; [98%N]; [99%N]])) = [[97%N]; [10%N]; [98%N]]
  /\ p_broken (csv_feed (breaks_at 3) [10%N] pw_init [[97%N]; [98%N]; [99%N]]) = true.
Proof. split; reflexivity. Qed.
Print Assumptions C15_nonvacuous.
