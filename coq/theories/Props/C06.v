(* Props/C06.v — no query ever modifies its sources.
   What is a theorem here: the sqlite clause (only accepted identifiers are ever interpolated, and the only
   statement ever sent is SELECT * FROM <identifier>;).  The engine model is purely functional - its inputs are
   immutable values - so "the input lists are unchanged / not aliased" cannot be violated IN the model and is not
   claimed as a theorem: that clause rests on the correspondence run (deep snapshots and object identity of every
   row before/after, file hashes, SQL trace), see DESIGN.md section 4, C06 (level: partial). *)
From RBQL Require Import Base Sqlite Sqlite_Proofs.

Theorem C06_sqlite_identifier : forall name,
  sqlite_accepts name = true <-> Forall (fun c => is_word c = true) name.
Proof. exact sqlite_accepts_word. Qed.
Print Assumptions C06_sqlite_identifier.

(* letters, digits and underscore exclude every character that could terminate the identifier, start a second
   statement, a comment, a quoted name or a sub-expression *)
Theorem C06_word_not_special : forall c, is_word c = true ->
  c <> 59%N /\ c <> 32%N /\ c <> 34%N /\ c <> 39%N /\ c <> 45%N /\ c <> 10%N /\ c <> 40%N /\ c <> 96%N /\ c <> 0%N.
Proof. exact word_not_special. Qed.
Print Assumptions C06_word_not_special.

Theorem C06_only_select : forall input join s,
  In s (sql_of_query input join) ->
  exists name, s = SELECT_FROM ++ name ++ [SEMI] /\ Forall (fun c => is_word c = true) name
               /\ (name = input \/ join = Some name).
Proof. exact only_select. Qed.
Print Assumptions C06_only_select.

Theorem C06_rejected_sends_nothing : forall name, sqlite_accepts name = false -> sql_sent name = [].
Proof. exact rejected_sends_nothing. Qed.
Print Assumptions C06_rejected_sends_nothing.

(* non-vacuity: an ordinary name is accepted; hostile ones (and the trailing-LF name the old '$' let through) are not *)
Example C06_nonvacuous :
  sqlite_accepts [116; 49; 95]%N = true                         (* t1_ *)
  /\ sqlite_accepts [98; 59; 100]%N = false                     (* b;d *)
  /\ sqlite_accepts [116; 10]%N = false                         (* t\n *)
  /\ sqlite_accepts [34; 98; 34]%N = false.                     (* "b" *)
Proof. repeat split. Qed.
Print Assumptions C06_nonvacuous.
