(* Props/C06.v — no query ever modifies its sources.
   Theorems here:
   (1) the sqlite clause (only accepted identifiers are ever interpolated, and the only statement ever sent is
       SELECT * FROM <identifier>;);
   (2) the list clause, over the heap IR of Heap.v (objects with identity, aliasing, in-place mutation): a program
       accepted by the ownership analyser [safe], run against any chain of accepted writers, leaves every source
       object with its original content and hands no source object to any writer, on every execution path including
       every early exit (C06_ownership_sound, C06_writers_safe).  The IR terms for the real per-record programs and
       writer methods are NOT in this file: harness/translate_heap.py regenerates them from the implementation's
       source text on every check run (build/gen/heap_<pid>/HeapFacts.v), with one obligation
       gen_<program>_safe : safe [] <program> = true and the instantiated corollary gen_<program>_sources_unchanged
       per program; harness/props/c06.py compiles that file and reports a broken obligation as a violation.
   The Engine.v model stays purely functional; dataframes, files and the sqlite file are observed only. *)
From RBQL Require Import Base Sqlite Sqlite_Proofs Heap Heap_Proofs.

Theorem C06_sqlite_identifier : forall name,
  sqlite_accepts name = true <-> Forall (fun c => is_word c = true) name.
Proof. exact sqlite_accepts_word. Qed.
Print Assumptions C06_sqlite_identifier.

(* letters, digits and underscore exclude every character that could terminate the identifier, start a second
   statement, a comment, a quoted name or a sub-expression *)
Theorem C06_word_not_special : forall c, is_word c = true ->
  c <> 59%N /\ c <> 32%N /\ c <> 34%N /\ c <> 39%N /\ c <> 45%N /\ c <> 10%N /\ c <> 40%N /\ c <> 96%N /\ c <> 0%N.
Proof. exact word_not_special. Qed.
Print Assumptions C06_word_not_special.

Theorem C06_only_select : forall input join s,
  In s (sql_of_query input join) ->
  exists name, s = SELECT_FROM ++ name ++ [SEMI] /\ Forall (fun c => is_word c = true) name
               /\ (name = input \/ join = Some name).
Proof. exact only_select. Qed.
Print Assumptions C06_only_select.

Theorem C06_rejected_sends_nothing : forall name, sqlite_accepts name = false -> sql_sent name = [].
Proof. exact rejected_sends_nothing. Qed.
Print Assumptions C06_rejected_sends_nothing.

(* non-vacuity: an ordinary name is accepted; hostile ones (and the trailing-LF name the old '$' let through) are not *)
Example C06_nonvacuous :
  sqlite_accepts [116; 49; 95]%N = true                         (* t1_ *)
  /\ sqlite_accepts [98; 59; 100]%N = false                     (* b;d *)
  /\ sqlite_accepts [116; 10]%N = false                         (* t\n *)
  /\ sqlite_accepts [34; 98; 34]%N = false.                     (* "b" *)
Proof. repeat split. Qed.
Print Assumptions C06_nonvacuous.

(* ------------------------------------------------------------------ the list clause over the heap IR (Heap.v) *)

(* srcs: the source objects (rows of the input and join tables and the engine's containers of them).
   prog: the main-loop program (binds its records itself: RSrc); c0: variables known not to denote a source at start
   (the generated obligations use c0 = []: every variable that is not freshly bound may alias a source).
   ws: the writer chain, top first.  The conclusion holds for every run the relation contains: any branch, any number
   of iterations, an exception at any statement (of the program or of any writer), finish run or not. *)
Theorem C06_ownership_sound : forall srcs c0 prog ws e0 g g',
  safe c0 prog = true ->
  Forall (fun w => writer_ok w = true) ws ->
  (forall x i, In x c0 -> e0 x = Some i -> ~ In i srcs) ->
  wf srcs g ->
  run_query srcs prog ws e0 g g' ->
  (forall i, In i srcs -> g_heap g' i = g_heap g i) /\ (forall i, In i (g_log g') -> ~ In i srcs).
Proof. exact ownership_sound. Qed.
Print Assumptions C06_ownership_sound.

(* the writers alone: an accepted chain that is only ever handed non-source objects never touches a source, whatever
   it mutates, keeps and forwards *)
Theorem C06_writers_safe : forall srcs ws handed g g',
  Forall (fun w => writer_ok w = true) ws ->
  Forall (fun i => ~ In i srcs) handed ->
  wf srcs g ->
  feed_chain srcs ws handed g g' ->
  (forall i, In i srcs -> g_heap g' i = g_heap g i) /\ (forall i, In i (g_log g') -> ~ In i srcs).
Proof. exact writers_safe. Qed.
Print Assumptions C06_writers_safe.

(* non-vacuity 1: the aliasing defect is expressible - "x = source; y = x; y[0] = v" is rejected by the analyser and
   the semantics has a run of it that rewrites the source *)
Example C06_alias_rejected_and_harmful :
  safe [] ex_alias = false /\
  wf [0] ex_g0 /\
  exists g', run_query [0] ex_alias [w_any] env_empty ex_g0 g' /\ g_heap g' 0 <> g_heap ex_g0 0.
Proof. exact alias_rejected_and_harmful. Qed.
Print Assumptions C06_alias_rejected_and_harmful.

(* non-vacuity 2: with the copy the program is accepted, the most general user writer is accepted, and the
   hypotheses are satisfied by a run in which the copy is mutated, emitted and mutated again by the writer *)
Example C06_copy_accepted_and_runs :
  safe [] ex_copy = true /\ writer_ok w_any = true /\
  exists g', run_query [0] ex_copy [w_any] env_empty ex_g0 g' /\ g_log g' = [1] /\ g_heap g' 1 = Some [9]
             /\ g_heap g' 0 = Some [7].
Proof. exact copy_accepted_and_runs. Qed.
Print Assumptions C06_copy_accepted_and_runs.

(* the instance every generated corollary gen_<program>_sources_unchanged is obtained from: nothing is assumed about
   the variables of the program (c0 = []), the chain is any sequence of writer classes taken from an accepted list *)
Theorem C06_program_sources_unchanged : forall pool prog,
  safe [] prog = true ->
  forallb writer_ok pool = true ->
  forall srcs ws e0 g g',
    incl ws pool -> wf srcs g -> run_query srcs prog ws e0 g g' ->
    (forall i, In i srcs -> g_heap g' i = g_heap g i) /\ (forall i, In i (g_log g') -> ~ In i srcs).
Proof. exact program_sources_unchanged. Qed.
Print Assumptions C06_program_sources_unchanged.

(* non-vacuity 3 (cells): rows are copied shallowly, so mutating a cell reached through a fresh copy is rejected, and the
   semantics has a run in which that mutation rewrites a source object *)
Example C06_cell_mutation_rejected_and_harmful :
  safe [] ex_cell = false /\
  exists g', run_query [0] ex_cell [w_any] env_empty ex_g0 g' /\ g_heap g' 0 <> g_heap ex_g0 0.
Proof. exact cell_mutation_rejected_and_harmful. Qed.
Print Assumptions C06_cell_mutation_rejected_and_harmful.
