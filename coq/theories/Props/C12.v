(* Props/C12.v — CSV reading depends only on content, never on how the stream is chunked (Python reader).
   ONLY statements: each closed by [exact <lemma>] with Print Assumptions beneath.
   Model: Reader.v (CSVRecordIterator of rbql-py/rbql/rbql_csv.py); the stream is a list of non-empty pieces,
   read(n) returns at most n characters of the first piece. [split] is csv_utils.smart_split for the policy in use
   (any function: the statements hold for simple / quoted / whitespace / monocolumn and for quoted_rfc alike). *)
From RBQL Require Import Base Lines Reader Reader_Proofs.

(* (a) the raw line layer (buffer / exhausted / CR look-ahead / _read_until_found / final unterminated line):
   for every partition of the text into non-empty pieces and every chunk size it yields exactly the physical lines *)
Theorem C12_raw_lines : forall (pieces : list str) (cs : nat),
  (1 <= cs)%nat -> Forall (fun p => p <> []) pieces ->
  raw_rows_py (py_fuel pieces) cs (mk_pyraw pieces) = split_lines (concat pieces).
Proof. exact (fun ps cs => raw_lines cs ps). Qed.
Print Assumptions C12_raw_lines.

(* (a) with the full iterator state: _get_all_rows() of a line-mode reader = the physical lines, NL = their number *)
Theorem C12_lines : forall (pieces : list str) (cs : nat) (c : cfg),
  (1 <= cs)%nat -> Forall (fun p => p <> []) pieces -> c_rfc c = false -> c_enc c = EncNone ->
  rows_py c cs pieces = (split_lines (concat pieces), (length (split_lines (concat pieces)), false)).
Proof. exact (fun ps cs c => py_lines c cs ps). Qed.
Print Assumptions C12_lines.

(* (a) in general (BOM removal on line 1 for utf-8 / latin-1, quoted_rfc row assembly): rows, NL and the BOM flag are a
   function of the physical lines *)
Theorem C12_rows : forall (pieces : list str) (cs : nat) (c : cfg),
  (1 <= cs)%nat -> Forall (fun p => p <> []) pieces ->
  rows_py c cs pieces = rows_of_lines c (split_lines (concat pieces)).
Proof. exact (fun ps cs c => py_rows c cs ps). Qed.
Print Assumptions C12_rows.

(* (b) records, header, warnings (BOM flag, first defective line, inconsistent field counts), NL, NR and the quoted_rfc
   error of constructor + handle_query_modifier + get_all_records + get_header + get_warnings are the declarative
   function records_of_lines of the physical lines only *)
Theorem C12_records : forall (split : str -> list str * bool) (c : cfg) (cs : nat) (pieces : list str),
  (1 <= cs)%nat -> Forall (fun p => p <> []) pieces ->
  run_py split c cs pieces = records_of_lines split c (split_lines (concat pieces)).
Proof. exact py_records. Qed.
Print Assumptions C12_records.

(* ... hence independent of the partition and of the chunk size *)
Theorem C12_partition_invariant : forall (split : str -> list str * bool) (c : cfg) (cs1 cs2 : nat) (ps1 ps2 : list str),
  (1 <= cs1)%nat -> (1 <= cs2)%nat -> Forall (fun p => p <> []) ps1 -> Forall (fun p => p <> []) ps2 ->
  concat ps1 = concat ps2 -> run_py split c cs1 ps1 = run_py split c cs2 ps2.
Proof. exact py_partition_invariant. Qed.
Print Assumptions C12_partition_invariant.

(* (c) quoted_rfc: the first logical row of the remaining lines is the shortest run of physical lines whose total quote
   count is even (every shorter non-empty prefix has an odd count), or all remaining lines if no prefix balances, joined
   with LF; a comment line is recognised only at a record start and is a row of its own *)
Theorem C12_rfc_balance : forall (c : cfg) (L : list str) (n : nat) (row : str) (n' : nat) (rest_rows : list (str * nat)),
  group_rfc c [] n L = (row, n') :: rest_rows ->
  exists run rest, L = run ++ rest /\ run <> [] /\ row = join [LF] run /\ n' = (n + length run)%nat /\
    rest_rows = group_rfc c [] n' rest /\
    ((exists l, run = [l] /\ is_comment c l = true) \/
     (is_comment c (hd [] run) = false /\
      (Nat.even (total_quotes run) = true \/ rest = []) /\
      (forall k, (0 < k <= length run - 1)%nat -> Nat.odd (total_quotes (firstn k run)) = true))).
Proof. exact rfc_balance. Qed.
Print Assumptions C12_rfc_balance.

(* non-vacuity: a CRLF split across two reads, a lone CR at the end of a chunk followed by a non-LF, chunk size 2 *)
Example C12_nonvacuous_lines :
  let ps := [[97; CR]; [LF; 98; CR]; [99; 100; LF; CR]; [CR; 101]]%N in
  (1 <= 2)%nat /\ Forall (fun p => p <> []) ps /\
  split_lines (concat ps) = [[97]; [98]; [99; 100]; []; []; [101]]%N /\
  raw_rows_py (py_fuel ps) 2 (mk_pyraw ps) = [[97]; [98]; [99; 100]; []; []; [101]]%N.
Proof.
  cbv zeta. split; [lia|]. split; [repeat constructor; discriminate|]. split; vm_compute; reflexivity.
Qed.
Print Assumptions C12_nonvacuous_lines.

(* non-vacuity of (b), (c): quoted_rfc with a comment prefix and a header: a comment line, a header, a record spanning
   three physical lines (CRLF and CR inside the quotes, delivered byte by byte), a quote-bearing comment-looking line inside
   it; the spec value is concrete and has a multi-line field and NL <> NR *)
Example C12_nonvacuous_records :
  let c := {| c_rfc := true; c_comment := Some [HASH]; c_header := true; c_enc := EncUtf8; c_modifier := None |} in
  let text := [BOMC; HASH; 120; LF; 104; COMMA; 105; CR; LF; QT; 97; CR; LF; HASH; 98; CR; 99; QT; COMMA; 100; LF; 101]%N in
  let ps := map (fun ch => [ch]) text in
  Forall (fun p => p <> []) ps /\
  run_py (lite_split (Some [COMMA])) c 1 ps =
  ROk [[[QT; 97; LF; HASH; 98; LF; 99; QT]; [100]]; [[101]]]%N (Some [[104]; [105]]%N)
      {| w_bom := true; w_defective := None; w_fields := Some (1, 2, 3, 1)%nat |} 6 3.
Proof.
  cbv zeta. split; [repeat constructor; discriminate|]. vm_compute. reflexivity.
Qed.
Print Assumptions C12_nonvacuous_records.

(* ------------------------------------------------------------------ the byte-level clause *)
From RBQL Require Import CsvSpec Newline_Proofs.

(* With an encoding rbql-py reads through io.TextIOWrapper(stream, encoding=...), which decodes incrementally and, in its
   default newline mode, translates CRLF and CR to LF (nl_norm) before the reader sees the text.  The translation is invisible:
   the physical lines, hence the records, header, warnings, counters and error, are those of the untranslated text *)
Theorem C12_universal_newlines_invisible : forall (split : str -> list str * bool) (c : cfg) (t : str),
  split_lines (nl_norm t) = split_lines t /\ records_of_text split c (nl_norm t) = records_of_text split c t.
Proof. exact (fun split c t => conj (split_lines_nl_norm t) (records_of_text_nl_norm split c t)). Qed.
Print Assumptions C12_universal_newlines_invisible.

(* so the byte-level clause holds under the runtime's contract alone - "the text layer hands over, in pieces of any sizes, the
   decoded text of the bytes, newline-translated or not" - whatever the partition of the bytes was (the contract itself, a
   property of CPython's io module, is observed by the correspondence run on all byte partitions of the samples) *)
Theorem C12_records_bytes : forall (split : str -> list str * bool) (c : cfg) (cs : nat) (pieces : list str) (text : str),
  (1 <= cs)%nat -> Forall nonempty pieces -> (concat pieces = nl_norm text \/ concat pieces = text) ->
  run_py split c cs pieces = records_of_text split c text.
Proof. exact py_records_translated. Qed.
Print Assumptions C12_records_bytes.

(* ------------------------------------------------------------------ the byte-level clause, closed over a model of the text layer *)
From RBQL Require Import Utf8 TextLayer TextLayer_Proofs.

(* TextLayer.v models what io.TextIOWrapper(stream, encoding=...) is made of: the incremental byte decoder (utf-8 strict = the
   state machine of Utf8.v; latin-1 = byte values) followed by io.IncrementalNewlineDecoder(translate=True) with its held-back CR
   (pendingcr), run over the list of raw reads and flushed with decode(b'', final=True).

   The newline layer alone: for EVERY list of text pieces (a CR at the end of a piece, a CR LF pair cut in two, runs of CRs, empty
   pieces) the outputs concatenate to the translation nl_norm of the whole text - with a separate flush call (nl_stream) or with
   final=True on the last piece (nl_stream_last) *)
Theorem C12_newline_layer : forall pieces : list str,
  concat (nl_stream false pieces) = nl_norm (concat pieces) /\
  concat (nl_stream_last false pieces) = nl_norm (concat pieces).
Proof. exact nl_layer_partition_invariant. Qed.
Print Assumptions C12_newline_layer.

(* byte layer + newline layer, bytes valid in the encoding: every partition into raw reads (cuts inside a multi-byte character or
   inside a CR LF pair, empty reads) yields one text piece per read plus the flush piece, concatenating to nl_norm (decode b) *)
Theorem C12_text_layer_valid : forall (e : codec) (b : bytes) (t : str),
  decode_bytes e b = Some t -> forall raws : list bytes, concat raws = b ->
  exists tps, text_layer e raws = Some tps /\ concat tps = nl_norm t /\ length tps = S (length raws).
Proof. exact text_layer_valid. Qed.
Print Assumptions C12_text_layer_valid.

(* invalid or truncated bytes: every partition ends in the decoding error, never in text *)
Theorem C12_text_layer_invalid : forall (e : codec) (b : bytes),
  decode_bytes e b = None -> forall raws : list bytes, concat raws = b -> text_layer e raws = None.
Proof. exact text_layer_invalid. Qed.
Print Assumptions C12_text_layer_invalid.

(* latin-1: every byte string decodes, code point = byte value *)
Theorem C12_latin1_total : forall b : bytes, decode_bytes CLatin1 b = Some b.
Proof. exact decode_bytes_latin1. Qed.
Print Assumptions C12_latin1_total.

(* the call-by-call trace that the correspondence run compares with the real decoder objects is the same run *)
Theorem C12_text_layer_trace : forall (e : codec) (raws : list bytes),
  text_layer e raws =
  (let '(l, ok) := text_layer_trace e raws in if ok then Some (map (fun o : obs => fst (fst o)) l) else None).
Proof. exact text_layer_trace_spec. Qed.
Print Assumptions C12_text_layer_trace.

(* the byte-level clause: for every byte string b, every partition of b into raw reads, every chunk size of the reader, the reader
   over the text pieces the text layer produces returns the records (header, warnings, NL, NR, quoted_rfc error) of the decoded
   text when b is valid in the encoding, and ends in an IO-handling error when it is not.  In rbql-py the codec is the one named
   by the reader's encoding (codec_of_enc (c_enc c) = Some e); the statement holds for every pairing. *)
Theorem C12_records_bytes_closed : forall (split : str -> list str * bool) (c : cfg) (cs : nat) (e : codec) (b : bytes) (raws : list bytes),
  (1 <= cs)%nat -> concat raws = b ->
  match decode_bytes e b with
  | Some t => run_py_bytes split c cs e raws = BRes (records_of_text split c t)
  | None => run_py_bytes split c cs e raws = BIOError
  end.
Proof. exact py_bytes_closed_b. Qed.
Print Assumptions C12_records_bytes_closed.

(* ... and however the text layer's pieces are re-cut before the reader sees them (TextIOWrapper.read(n) gathers decoded pieces in
   its own buffer and hands out at most n characters) *)
Theorem C12_records_bytes_rechunked : forall (split : str -> list str * bool) (c : cfg) (cs : nat) (e : codec) (raws : list bytes)
    (t : str) (tps pieces : list str),
  (1 <= cs)%nat -> decode_bytes e (concat raws) = Some t -> text_layer e raws = Some tps ->
  Forall nonempty pieces -> concat pieces = concat tps ->
  run_py split c cs pieces = records_of_text split c t.
Proof. exact py_bytes_rechunked. Qed.
Print Assumptions C12_records_bytes_rechunked.

(* hence one outcome per byte string *)
Theorem C12_bytes_partition_invariant : forall (split : str -> list str * bool) (c : cfg) (e : codec) (b : bytes)
    (raws1 raws2 : list bytes) (cs1 cs2 : nat),
  (1 <= cs1)%nat -> (1 <= cs2)%nat -> concat raws1 = b -> concat raws2 = b ->
  run_py_bytes split c cs1 e raws1 = run_py_bytes split c cs2 e raws2.
Proof. exact py_bytes_partition_invariant. Qed.
Print Assumptions C12_bytes_partition_invariant.

(* non-vacuity: a BOM cut in two, a 2-byte, a 3-byte and a 4-byte character each cut in two (the 4-byte one with an empty read
   inside), CR CR LF with the cut between the CRs and again inside the CR LF pair, a CR at the end of a read followed by a
   non-LF; quoted_rfc with a header, chunk size 2.  The text layer's pieces and the reader's outcome are concrete: the record
   spans three physical lines, the BOM warning is set, NL = 5, NR = 3 *)
Example C12_nonvacuous_bytes :
  let c := {| c_rfc := true; c_comment := None; c_header := true; c_enc := EncUtf8; c_modifier := None |} in
  let raws := [[239; 187]; [191; 104; 44; 195]; [169; 13]; [10; 226; 130]; [172; 44; 34; 240; 159]; []; [152; 128; 13]; [13; 10];
               [98; 34; 13]; [97]]%N in
  codec_of_enc (c_enc c) = Some CUtf8 /\
  decode_bytes CUtf8 (concat raws) =
    Some [BOMC; 104; COMMA; 233; CR; LF; 8364; COMMA; QT; 128512; CR; CR; LF; 98; QT; CR; 97]%N /\
  text_layer CUtf8 raws =
    Some [[]; [BOMC; 104; COMMA]; [233]; [LF]; [8364; COMMA; QT]; []; [128512]; [LF; LF]; [98; QT]; [LF; 97]; []]%N /\
  run_py_bytes (lite_split (Some [COMMA])) c 2 CUtf8 raws =
    BRes (ROk [[[8364]; [QT; 128512; LF; LF; 98; QT]]; [[97]]]%N (Some [[104]; [233]]%N)
              {| w_bom := true; w_defective := None; w_fields := Some (1, 2, 3, 1)%nat |} 5 3).
Proof. cbv zeta. repeat split; vm_compute; reflexivity. Qed.
Print Assumptions C12_nonvacuous_bytes.

(* non-vacuity of the error branch: a truncated 4-byte character (error at the flush), an invalid continuation byte (error at
   the read that carries it), a lone continuation byte, an overlong form, a surrogate; latin-1 reads any bytes as text *)
Example C12_nonvacuous_invalid :
  let c := {| c_rfc := false; c_comment := None; c_header := false; c_enc := EncUtf8; c_modifier := None |} in
  decode_bytes CUtf8 [97; 10; 240; 159; 152]%N = None /\
  text_layer_trace CUtf8 [[97; 10; 240; 159]; [152]]%N = ([([97; LF], false, 2%nat); ([], false, 1%nat)], false)%N /\
  text_layer_trace CUtf8 [[97; 10; 240; 159]; [40]]%N = ([([97; LF], false, 2%nat)], false)%N /\
  map (fun b => decode_bytes CUtf8 b) [[128]; [192; 175]; [237; 160; 128]]%N = [None; None; None] /\
  run_py_bytes (lite_split (Some [COMMA])) c 1 CUtf8 [[97; 10; 240; 159]; [152]]%N = BIOError /\
  text_layer CLatin1 [[239; 187]; [191; 13]; []; [13]; [10; 255]]%N = Some [[239; 187]; [191]; []; [LF]; [LF; 255]; []]%N /\
  (* CPython's deferred error: a read ending in ED A0 (half of an encoded surrogate) returns, the next non-empty read raises *)
  text_layer_trace CUtf8 [[97; 237; 160]; []; [98]]%N = ([([97], false, 1%nat); ([], false, 1%nat)], false)%N /\
  text_layer_trace CUtf8 [[97; 237; 160]]%N = ([([97], false, 1%nat)], false)%N /\
  text_layer_trace CUtf8 [[97; 237; 160; 128]]%N = ([], false).
Proof. cbv zeta. repeat split; vm_compute; reflexivity. Qed.
Print Assumptions C12_nonvacuous_invalid.
