(* Props/C12.v — placeholder while the proofs are ported *)
From RBQL Require Import Base Lines Reader.
Example C12_smoke : rows_py {| c_rfc := false; c_comment := None; c_header := false; c_enc := EncNone; c_modifier := None |} 2 [[97; CR]; [LF; 97]]%N = ([[97]; [97]]%N, (2%nat, false)).
Proof. vm_compute. reflexivity. Qed.
Print Assumptions C12_smoke.
