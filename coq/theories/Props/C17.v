(* Props/C17.v — like(text, pattern) implements SQL LIKE exactly.
   ONLY statements: each closed by [exact <lemma>] with Print Assumptions beneath. *)
From RBQL Require Import Base Like Like_Proofs.

(* For both flavours (Python re / JS RegExp), on single-line texts, like = SQL LIKE *)
Theorem C17_like_correct : forall (fl : flavour) (t p : str),
  single_line fl t -> (like fl t p = true <-> SqlLike t p).
Proof. exact like_correct. Qed.
Print Assumptions C17_like_correct.

(* a pattern free of % and _ matches exactly itself, whatever regex metacharacters it contains *)
Theorem C17_meta_literal : forall (fl : flavour) (t p : str),
  Forall (fun c => c <> PCT /\ c <> UND) p -> single_line fl t -> (like fl t p = true <-> t = p).
Proof. exact like_meta_literal. Qed.
Print Assumptions C17_meta_literal.

(* the per-query regex cache never changes an answer, for any sequence of (text, pattern) calls *)
Theorem C17_cache_coherent : forall (fl : flavour) (calls : list (str * str)),
  like_seq fl [] calls = map (fun tp => like fl (fst tp) (snd tp)) calls.
Proof. intros fl calls. exact (like_seq_coherent fl calls [] cache_ok_nil). Qed.
Print Assumptions C17_cache_coherent.

(* non-vacuity: a text full of regex metacharacters is single-line and matches under % and _ *)
Example C17_nonvacuous :
  single_line Py [46; 42; 92; 91; 40]%N /\ like Py [46; 42; 92; 91; 40]%N [46; PCT; 91; UND]%N = true.
Proof. split; [intros c Hc; cbn in Hc; repeat destruct Hc as [<- | Hc]; try reflexivity; contradiction | vm_compute; reflexivity]. Qed.
Print Assumptions C17_nonvacuous.

(* note (outside the property's single-line quantifier): LF breaks the equivalence in Python *)
Example C17_lf_note : like Py [ca; LF] [ca] = true /\ ~ SqlLike [ca; LF] [ca].
Proof. exact like_lf_dollar. Qed.
Print Assumptions C17_lf_note.
