(* Props/C17.v — like(text, pattern) implements SQL LIKE exactly.
   ONLY statements: each closed by [exact <lemma>] with Print Assumptions beneath. *)
From RBQL Require Import Base PyStr JsStr Like Like_Proofs LikeIx LikeIx_Proofs.

(* For both flavours (Python re / JS RegExp), on single-line texts, like = SQL LIKE *)
Theorem C17_like_correct : forall (fl : flavour) (t p : str),
  single_line fl t -> (like fl t p = true <-> SqlLike t p).
Proof. exact like_correct. Qed.
Print Assumptions C17_like_correct.

(* a pattern free of % and _ matches exactly itself, whatever regex metacharacters it contains *)
Theorem C17_meta_literal : forall (fl : flavour) (t p : str),
  Forall (fun c => c <> PCT /\ c <> UND) p -> single_line fl t -> (like fl t p = true <-> t = p).
Proof. exact like_meta_literal. Qed.
Print Assumptions C17_meta_literal.

(* the per-query regex cache never changes an answer, for any sequence of (text, pattern) calls *)
Theorem C17_cache_coherent : forall (fl : flavour) (calls : list (str * str)),
  like_seq fl [] calls = map (fun tp => like fl (fst tp) (snd tp)) calls.
Proof. intros fl calls. exact (like_seq_coherent fl calls [] cache_ok_nil). Qed.
Print Assumptions C17_cache_coherent.

(* non-vacuity: a text full of regex metacharacters is single-line and matches under % and _ *)
Example C17_nonvacuous :
  single_line Py [46; 42; 92; 91; 40]%N /\ like Py [46; 42; 92; 91; 40]%N [46; PCT; 91; UND]%N = true.
Proof. split; [intros c Hc; cbn in Hc; repeat destruct Hc as [<- | Hc]; try reflexivity; contradiction | vm_compute; reflexivity]. Qed.
Print Assumptions C17_nonvacuous.

(* note (outside the property's single-line quantifier): LF breaks the equivalence in Python *)
Example C17_lf_note : like Py [ca; LF] [ca] = true /\ ~ SqlLike [ca; LF] [ca].
Proof. exact like_lf_dollar. Qed.
Print Assumptions C17_lf_note.

(* ---- the pattern TEXT (task gen2; LikeIx.v).  ix_like_to_regex / jsix_like_to_regex are the index-style models of like_to_regex of
   rbql_engine.py / rbql.js (integer positions, s[i], s[p:i] / substring, re.escape / regexp_escape, text concatenation); on every run of
   ./check C17 the source is translated again and proved equal to them (generated obligations gen_like_to_regex_eq, gen_js_like_to_regex_eq). *)

(* the index models write the text of the token list of Like.like_to_regex: anchors, the literal runs escaped, a dot, a dot and a star *)
Theorem C17_index_model_like_to_regex : forall p : str, ix_like_to_regex p = render py_re_escape (like_to_regex p).
Proof. exact ix_like_to_regex_correct. Qed.
Print Assumptions C17_index_model_like_to_regex.

Theorem C17_js_index_model_like_to_regex : forall p : str, jsix_like_to_regex p = render jsix_regexp_escape (like_to_regex p).
Proof. exact jsix_like_to_regex_correct. Qed.
Print Assumptions C17_js_index_model_like_to_regex.

(* the reader of the emitted fragment of the regular-expression syntax (parse_pattern: escaped characters, plain non-special characters,
   dot, dot-star, anchors; everything else is not read) reads that text back as EXACTLY the token list - in particular re.escape /
   regexp_escape escape every character that has a meaning, and only characters whose escape is the character itself *)
Theorem C17_pattern_text_read_back_py : forall p : str, parse_pattern Py (ix_like_to_regex p) = Some (like_to_regex p).
Proof. exact ix_like_text_read_back. Qed.
Print Assumptions C17_pattern_text_read_back_py.

Theorem C17_pattern_text_read_back_js : forall p : str, parse_pattern Js (jsix_like_to_regex p) = Some (like_to_regex p).
Proof. exact jsix_like_text_read_back. Qed.
Print Assumptions C17_pattern_text_read_back_js.

(* C17_like_correct for the text: matching the emitted pattern text is SQL LIKE on single-line texts *)
Theorem C17_like_correct_text_py : forall t p : str, single_line Py t -> (regex_like Py (ix_like_to_regex p) t = true <-> SqlLike t p).
Proof. exact ix_like_correct. Qed.
Print Assumptions C17_like_correct_text_py.

Theorem C17_like_correct_text_js : forall t p : str, single_line Js t -> (regex_like Js (jsix_like_to_regex p) t = true <-> SqlLike t p).
Proof. exact jsix_like_correct. Qed.
Print Assumptions C17_like_correct_text_js.

(* the texts: a%b_.c under both ports; a bare star, or a dot-star followed by a question mark, is outside the fragment *)
Example C17_text_examples :
  ix_like_to_regex [97; 37; 98; 95; 46; 99]%N = [94; 97; 46; 42; 98; 46; 92; 46; 99; 36]%N /\
  jsix_like_to_regex [97; 37; 98; 95; 46; 99]%N = [94; 97; 46; 42; 98; 46; 92; 46; 99; 36]%N /\
  ix_like_to_regex [32; 45]%N = [94; 92; 32; 92; 45; 36]%N /\ jsix_like_to_regex [32; 45]%N = [94; 32; 45; 36]%N /\
  parse_pattern Py [94; 97; 42; 36]%N = None /\ parse_pattern Js [94; 46; 42; 63; 36]%N = None /\ parse_pattern Js [94; 92; 45; 36]%N = None.
Proof. vm_compute. repeat split. Qed.
Print Assumptions C17_text_examples.
