(* Props/C02.v — ORDER BY, DISTINCT and TOP/LIMIT compose as sort, then dedup, then truncate. *)
From RBQL Require Import Base Value Expr Writers Writers_Proofs Sort_Proofs Join Agg Engine Spec Engine_Proofs.
From Coq Require Import Permutation Sorted.

(* the writer chain (SortedWriter -> Uniq/UniqCount -> Top -> sink) fed with any sequence of (sort key, row)
   offers emits trunc top (dedup distinct (order offers)), for every configuration *)
Theorem C02_chain : forall (cfg : chain_cfg) (es : list (key * row)) (st : chain_st),
  fresh st ->
  written (chain_finish yes cfg (fst (chain_feed yes cfg st es))) = written st ++ chain_spec cfg es.
Proof. exact chain_correct. Qed.
Print Assumptions C02_chain.

(* ... and so does every non-aggregate SELECT query whose evaluations succeed (any expression semantics) *)
Theorem C02_query :
  forall (expr : Type) (eval : env -> expr -> res val) (q : query expr) hdr A B jm offs,
    is_agg q = false -> is_update q = false -> static_check q = None ->
    join_map_of expr q B = Some jm ->
    all_offers expr eval q jm 0 A = Ok offs ->
    let o := run eval yes q hdr A B in
    o_error o = None /\
    written (o_chain o) =
      trunc (q_top q) (dedup (q_distinct q)
        (match q_order q with
         | None => map snd offs
         | Some (_, reverse) => let s := map snd (stable_sort offs) in if reverse then rev s else s
         end)).
Proof.
  intros expr eval q hdr A B jm offs Hagg Hupd Hst Hjm Hoff o.
  destruct (run_select_rows expr eval q hdr A B jm offs Hagg Hupd Hst Hjm Hoff) as [H1 H2].
  split; [exact H1|]. fold o in H2. rewrite H2. unfold chain_spec, order_spec, cfg_of, ordered. cbn.
  destruct (q_order q) as [[ks rv]|]; reflexivity.
Qed.
Print Assumptions C02_query.

(* what "order" means: a permutation ... *)
Theorem C02_sort_permutation : forall es, Permutation (stable_sort es) es.
Proof. exact stable_sort_perm. Qed.
Print Assumptions C02_sort_permutation.

(* ... non-decreasing in the key (integer keys and string keys, i.e. where Python's order is defined) ... *)
Theorem C02_sort_sorted_int : forall es, Forall (fun e => int_key (fst e) = true) es ->
  StronglySorted (fun a b => key_leb (fst a) (fst b) = true) (stable_sort es).
Proof. exact (stable_sort_sorted IntKey int_key_total int_key_trans). Qed.
Print Assumptions C02_sort_sorted_int.

Theorem C02_sort_sorted_str : forall es, Forall (fun e => str_key (fst e) = true) es ->
  StronglySorted (fun a b => key_leb (fst a) (fst b) = true) (stable_sort es).
Proof. exact (stable_sort_sorted StrKey str_key_total str_key_trans). Qed.
Print Assumptions C02_sort_sorted_str.

(* ... with ties in input order: the entries whose key ties with k appear in their input order *)
Theorem C02_sort_ties_int : forall es k, int_key k = true -> Forall (fun e => int_key (fst e) = true) es ->
  filter (fun x => key_eqv k (fst x)) (stable_sort es) = filter (fun x => key_eqv k (fst x)) es.
Proof. intros es k. exact (stable_sort_stable IntKey int_key_trans es k). Qed.
Print Assumptions C02_sort_ties_int.

Theorem C02_sort_ties_str : forall es k, str_key k = true -> Forall (fun e => str_key (fst e) = true) es ->
  filter (fun x => key_eqv k (fst x)) (stable_sort es) = filter (fun x => key_eqv k (fst x)) es.
Proof. intros es k. exact (stable_sort_stable StrKey str_key_trans es k). Qed.
Print Assumptions C02_sort_ties_str.

(* ... and that determines the result: ANY sorted arrangement of the entries that keeps every key class in input order
   - i.e. the output of any stable sorting algorithm, such as Python's sorted - IS the model's sort *)
Theorem C02_sort_stable_unique_int : forall es es',
  Forall (fun e => int_key (fst e) = true) es -> Forall (fun e => int_key (fst e) = true) es' ->
  StronglySorted (fun a b => key_leb (fst a) (fst b) = true) es' ->
  (forall k, int_key k = true -> filter (fun x => key_eqv k (fst x)) es' = filter (fun x => key_eqv k (fst x)) es) ->
  es' = stable_sort es.
Proof. exact (sort_stable_unique IntKey int_key_total int_key_trans). Qed.
Print Assumptions C02_sort_stable_unique_int.

Theorem C02_sort_stable_unique_str : forall es es',
  Forall (fun e => str_key (fst e) = true) es -> Forall (fun e => str_key (fst e) = true) es' ->
  StronglySorted (fun a b => key_leb (fst a) (fst b) = true) es' ->
  (forall k, str_key k = true -> filter (fun x => key_eqv k (fst x)) es' = filter (fun x => key_eqv k (fst x)) es) ->
  es' = stable_sort es.
Proof. exact (sort_stable_unique StrKey str_key_total str_key_trans). Qed.
Print Assumptions C02_sort_stable_unique_str.

(* DESC is exactly the reverse of the ascending sequence *)
Theorem C02_desc_is_reverse : forall es, ordered true es = rev (ordered false es).
Proof. reflexivity. Qed.
Print Assumptions C02_desc_is_reverse.

(* DISTINCT COUNT: the count table built incrementally = first occurrences with their multiplicities *)
Theorem C02_distinct_count : forall l, count_rows (count_all l []) =
  map (fun r => VA (AInt (Z.of_nat (multiplicity r l))) :: r) (dedup_first l []).
Proof. exact count_rows_spec. Qed.
Print Assumptions C02_distinct_count.

(* a bounded query that needs no buffering stops pulling once the bound is exceeded: if a prefix A1 of the
   input already offers more than n rows, whatever follows (A2: any length, even records on which evaluation
   would fail) is never pulled and cannot change the result *)
Theorem C02_early_stop :
  forall (expr : Type) (eval : env -> expr -> res val) (q : query expr) hdr A1 B jm offs1 n,
    is_agg q = false -> is_update q = false -> static_check q = None ->
    q_top q = Some n -> q_order q = None -> q_distinct q = DNo ->
    join_map_of expr q B = Some jm ->
    all_offers expr eval q jm 0 A1 = Ok offs1 ->
    n < length offs1 ->
    forall A2,
      run eval yes q hdr (A1 ++ A2) B = run eval yes q hdr A1 B
      /\ o_pulls (run eval yes q hdr (A1 ++ A2) B) <= length A1
      /\ o_error (run eval yes q hdr (A1 ++ A2) B) = None
      /\ written (o_chain (run eval yes q hdr (A1 ++ A2) B)) = firstn n (map snd offs1).
Proof. exact run_top_early_stop. Qed.
Print Assumptions C02_early_stop.

(* non-vacuity: duplicates, ties and a bound *)
Definition k1 : key := [AInt 1]. Definition k2 : key := [AInt 2].
Definition rx : row := [VA (AStr [120%N])]. Definition ry : row := [VA (AStr [121%N])].
Example C02_nonvacuous :
  chain_spec {| c_top := Some 2; c_distinct := DCount; c_order := Some true |}
             [(k2, rx); (k1, ry); (k2, ry); (k1, ry); (k2, rx)]
  = [VA (AInt 2) :: rx; VA (AInt 3) :: ry]
  /\ fresh chain_init
  /\ Forall (fun e => int_key (fst e) = true) [(k2, rx); (k1, ry); (k2, ry); (k1, ry); (k2, rx)].
Proof. split; [vm_compute; reflexivity|]. split; [repeat split|]. repeat constructor. Qed.
Print Assumptions C02_nonvacuous.
