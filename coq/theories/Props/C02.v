(* Props/C02.v — ORDER BY, DISTINCT and TOP/LIMIT compose as sort, then dedup, then truncate. *)
From RBQL Require Import Base Value Expr Writers Writers_Proofs Sort_Proofs Join Agg Engine Spec Engine_Proofs.
From Coq Require Import Permutation Sorted.

(* the writer chain (SortedWriter -> Uniq/UniqCount -> Top -> sink) fed with any sequence of (sort key, row)
   offers emits trunc top (dedup distinct (order offers)), for every configuration *)
Theorem C02_chain : forall (cfg : chain_cfg) (es : list (key * row)) (st : chain_st),
  fresh st ->
  written (chain_finish yes cfg (fst (chain_feed yes cfg st es))) = written st ++ chain_spec cfg es.
Proof. exact chain_correct. Qed.
Print Assumptions C02_chain.

(* ... and so does every non-aggregate SELECT query whose evaluations succeed (any expression semantics) *)
Theorem C02_query :
  forall (expr : Type) (eval : env -> expr -> res val) (q : query expr) hdr A B jm offs,
    is_agg q = false -> is_update q = false -> static_check q = None ->
    join_map_of expr q B = Some jm ->
    all_offers expr eval q jm 0 A = Ok offs ->
    let o := run eval yes q hdr A B in
    o_error o = None /\
    written (o_chain o) =
      trunc (q_top q) (dedup (q_distinct q)
        (match q_order q with
         | None => map snd offs
         | Some (_, reverse) => let s := map snd (stable_sort offs) in if reverse then rev s else s
         end)).
Proof.
  intros expr eval q hdr A B jm offs Hagg Hupd Hst Hjm Hoff o.
  destruct (run_select_rows expr eval q hdr A B jm offs Hagg Hupd Hst Hjm Hoff) as [H1 H2].
  split; [exact H1|]. fold o in H2. rewrite H2. unfold chain_spec, order_spec, cfg_of, ordered. cbn.
  destruct (q_order q) as [[ks rv]|]; reflexivity.
Qed.
Print Assumptions C02_query.

(* what "order" means: a permutation ... *)
Theorem C02_sort_permutation : forall es, Permutation (stable_sort es) es.
Proof. exact stable_sort_perm. Qed.
Print Assumptions C02_sort_permutation.

(* ... non-decreasing in the key (integer keys and string keys, i.e. where Python's order is defined) ... *)
Theorem C02_sort_sorted_int : forall es, Forall (fun e => int_key (fst e) = true) es ->
  StronglySorted (fun a b => key_leb (fst a) (fst b) = true) (stable_sort es).
Proof. exact (stable_sort_sorted IntKey int_key_total int_key_trans). Qed.
Print Assumptions C02_sort_sorted_int.

Theorem C02_sort_sorted_str : forall es, Forall (fun e => str_key (fst e) = true) es ->
  StronglySorted (fun a b => key_leb (fst a) (fst b) = true) (stable_sort es).
Proof. exact (stable_sort_sorted StrKey str_key_total str_key_trans). Qed.
Print Assumptions C02_sort_sorted_str.

(* ... with ties in input order: the entries whose key ties with k appear in their input order *)
Theorem C02_sort_ties_int : forall es k, int_key k = true -> Forall (fun e => int_key (fst e) = true) es ->
  filter (fun x => key_eqv k (fst x)) (stable_sort es) = filter (fun x => key_eqv k (fst x)) es.
Proof. intros es k. exact (stable_sort_stable IntKey int_key_trans es k). Qed.
Print Assumptions C02_sort_ties_int.

Theorem C02_sort_ties_str : forall es k, str_key k = true -> Forall (fun e => str_key (fst e) = true) es ->
  filter (fun x => key_eqv k (fst x)) (stable_sort es) = filter (fun x => key_eqv k (fst x)) es.
Proof. intros es k. exact (stable_sort_stable StrKey str_key_trans es k). Qed.
Print Assumptions C02_sort_ties_str.

(* ... and that determines the result: ANY sorted arrangement of the entries that keeps every key class in input order
   - i.e. the output of any stable sorting algorithm, such as Python's sorted - IS the model's sort *)
Theorem C02_sort_stable_unique_int : forall es es',
  Forall (fun e => int_key (fst e) = true) es -> Forall (fun e => int_key (fst e) = true) es' ->
  StronglySorted (fun a b => key_leb (fst a) (fst b) = true) es' ->
  (forall k, int_key k = true -> filter (fun x => key_eqv k (fst x)) es' = filter (fun x => key_eqv k (fst x)) es) ->
  es' = stable_sort es.
Proof. exact (sort_stable_unique IntKey int_key_total int_key_trans). Qed.
Print Assumptions C02_sort_stable_unique_int.

Theorem C02_sort_stable_unique_str : forall es es',
  Forall (fun e => str_key (fst e) = true) es -> Forall (fun e => str_key (fst e) = true) es' ->
  StronglySorted (fun a b => key_leb (fst a) (fst b) = true) es' ->
  (forall k, str_key k = true -> filter (fun x => key_eqv k (fst x)) es' = filter (fun x => key_eqv k (fst x)) es) ->
  es' = stable_sort es.
Proof. exact (sort_stable_unique StrKey str_key_total str_key_trans). Qed.
Print Assumptions C02_sort_stable_unique_str.

(* DESC is exactly the reverse of the ascending sequence *)
Theorem C02_desc_is_reverse : forall es, ordered true es = rev (ordered false es).
Proof. reflexivity. Qed.
Print Assumptions C02_desc_is_reverse.

(* DISTINCT COUNT: the count table built incrementally = first occurrences with their multiplicities *)
Theorem C02_distinct_count : forall l, count_rows (count_all l []) =
  map (fun r => VA (AInt (Z.of_nat (multiplicity r l))) :: r) (dedup_first l []).
Proof. exact count_rows_spec. Qed.
Print Assumptions C02_distinct_count.

(* a bounded query that needs no buffering stops pulling once the bound is exceeded: if a prefix A1 of the
   input already offers more than n rows, whatever follows (A2: any length, even records on which evaluation
   would fail) is never pulled and cannot change the result *)
Theorem C02_early_stop :
  forall (expr : Type) (eval : env -> expr -> res val) (q : query expr) hdr A1 B jm offs1 n,
    is_agg q = false -> is_update q = false -> static_check q = None ->
    q_top q = Some n -> q_order q = None -> q_distinct q = DNo ->
    join_map_of expr q B = Some jm ->
    all_offers expr eval q jm 0 A1 = Ok offs1 ->
    n < length offs1 ->
    forall A2,
      run eval yes q hdr (A1 ++ A2) B = run eval yes q hdr A1 B
      /\ o_pulls (run eval yes q hdr (A1 ++ A2) B) <= length A1
      /\ o_error (run eval yes q hdr (A1 ++ A2) B) = None
      /\ written (o_chain (run eval yes q hdr (A1 ++ A2) B)) = firstn n (map snd offs1).
Proof. exact run_top_early_stop. Qed.
Print Assumptions C02_early_stop.

(* non-vacuity: duplicates, ties and a bound *)
Definition k1 : key := [AInt 1]. Definition k2 : key := [AInt 2].
Definition rx : row := [VA (AStr [120%N])]. Definition ry : row := [VA (AStr [121%N])].
Example C02_nonvacuous :
  chain_spec {| c_top := Some 2; c_distinct := DCount; c_order := Some true |}
             [(k2, rx); (k1, ry); (k2, ry); (k1, ry); (k2, rx)]
  = [VA (AInt 2) :: rx; VA (AInt 3) :: ry]
  /\ fresh chain_init
  /\ Forall (fun e => int_key (fst e) = true) [(k2, rx); (k1, ry); (k2, ry); (k1, ry); (k2, rx)].
Proof. split; [vm_compute; reflexivity|]. split; [repeat split|]. repeat constructor. Qed.
Print Assumptions C02_nonvacuous.

(* ---- rbql-js: SortedWriter sorts with Array.prototype.sort(stable_compare) over entries  key components ++ [arrival index, record].
   ECMA-262 says nothing about the algorithm; it promises, for a consistent comparator, a permutation of the entries in which no
   later entry compares less than an earlier one.  That is enough (JsSort.v, JsSort_Proofs.v): *)
From RBQL Require Import Utf16 JsSort JsSort_Proofs.

(* a sorted arrangement of given elements under a strict total order is unique - no algorithm is mentioned ... *)
Theorem C02_js_sort_unique : forall (A : Type) (ltb : A -> A -> bool) (l l1 l2 : list A),
  (forall a, In a l -> ltb a a = false) ->
  (forall a b c, In a l -> In b l -> In c l -> ltb a b = true -> ltb b c = true -> ltb a c = true) ->
  (forall a b, In a l -> In b l -> a = b \/ ltb a b = true \/ ltb b a = true) ->
  Permutation l l1 -> Permutation l l2 ->
  Sorted (fun a b => ltb a b = true) l1 -> Sorted (fun a b => ltb a b = true) l2 ->
  l1 = l2.
Proof. exact sorted_perm_unique. Qed.
Print Assumptions C02_js_sort_unique.

(* ... also when sorted is read the way ECMA-262 puts it (no inversion), where totality alone decides *)
Theorem C02_js_sort_unique_ecma : forall (A : Type) (ltb : A -> A -> bool) (l l1 l2 : list A),
  (forall a b, In a l -> In b l -> a = b \/ ltb a b = true \/ ltb b a = true) ->
  Permutation l l1 -> Permutation l l2 ->
  StronglySorted (fun a b => ltb b a = false) l1 -> StronglySorted (fun a b => ltb b a = false) l2 ->
  l1 = l2.
Proof. exact ecma_sorted_perm_unique. Qed.
Print Assumptions C02_js_sort_unique_ecma.

(* on entries whose keys are position-wise homogeneous (same length, a number or a string at each position in all of them) and
   whose arrival indices are pairwise distinct, stable_compare is the lexicographic order on (key, arrival index) - numbers as
   integers, strings by UTF-16 code units -, a consistent comparator and a strict total order *)
Theorem C02_js_compare_total : forall (R : Type) (l : list (entry R)),
  (forall a b, In a l -> In b l -> shape_eqb (e_key a) (e_key b) = true) -> NoDup (map e_idx l) ->
  (forall a b, In a l -> In b l -> (stable_compare a b = Some (-1)%Z <-> entry_ltb a b = true)) /\
  (forall a b, In a l -> In b l -> (stable_compare a b = Some 1%Z <-> stable_compare b a = Some (-1)%Z)) /\
  (forall a b, In a l -> In b l -> (stable_compare a b = None <-> a = b)) /\
  (forall a, In a l -> stable_compare a a <> Some (-1)%Z) /\
  (forall a b c, In a l -> In b l -> In c l ->
     stable_compare a b = Some (-1)%Z -> stable_compare b c = Some (-1)%Z -> stable_compare a c = Some (-1)%Z) /\
  (forall a b, In a l -> In b l -> a = b \/ stable_compare a b = Some (-1)%Z \/ stable_compare b a = Some (-1)%Z).
Proof. exact stable_compare_total_order. Qed.
Print Assumptions C02_js_compare_total.

(* hence: number the offers (sort key, row) of the reference engine in arrival order as SortedWriter.write does, the keys seen as
   JavaScript sees them (an integer is a number, a string is its UTF-16 encoding); ANY arrangement of these entries that
   Array.prototype.sort may return yields the rows of the reference stable sort, and reverse() yields the DESC output, the
   reverse of the ascending one.  Strings: no code point in U+E000..U+FFFF (C19_utf16_order_agree) ... *)
Theorem C02_js_sort_is_stable_sort : forall (es : list (key * row)) (out : list (entry row)),
  (forall e, In e es -> key_ok (forallb low_or_astral) (fst e) = true) ->
  (forall a b, In a es -> In b es -> shape_eqb (enc_key (fst a)) (enc_key (fst b)) = true) ->
  Permutation (js_entries es) out ->
  StronglySorted (fun a b => stable_compare b a <> Some (-1)%Z) out ->
  js_output false out = map snd (stable_sort es)
  /\ js_output false out = ordered false es
  /\ js_output true out = ordered true es
  /\ js_output true out = rev (ordered false es).
Proof. exact js_sort_is_stable_sort. Qed.
Print Assumptions C02_js_sort_is_stable_sort.

(* ... or no code point above U+FFFF *)
Theorem C02_js_sort_is_stable_sort_bmp : forall (es : list (key * row)) (out : list (entry row)),
  (forall e, In e es -> key_ok (forallb bmp) (fst e) = true) ->
  (forall a b, In a es -> In b es -> shape_eqb (enc_key (fst a)) (enc_key (fst b)) = true) ->
  Permutation (js_entries es) out ->
  StronglySorted (fun a b => stable_compare b a <> Some (-1)%Z) out ->
  js_output false out = map snd (stable_sort es)
  /\ js_output false out = ordered false es
  /\ js_output true out = ordered true es
  /\ js_output true out = rev (ordered false es).
Proof. exact js_sort_is_stable_sort_bmp. Qed.
Print Assumptions C02_js_sort_is_stable_sort_bmp.

(* with a number and strings in one key position stable_compare is not transitive ("10" < "9" < 10 but not "10" < 10) and not a
   consistent comparator: the language-neutral fragment keeps every sort key position of one kind *)
Theorem C02_js_sort_mixed_refuted :
  exists a b c : entry unit,
    NoDup (map e_idx [a; b; c])
    /\ stable_compare a b = Some (-1)%Z /\ stable_compare b c = Some (-1)%Z
    /\ stable_compare a c = Some 1%Z /\ stable_compare c a = Some 1%Z.
Proof. exact stable_compare_mixed_refuted. Qed.
Print Assumptions C02_js_sort_mixed_refuted.
