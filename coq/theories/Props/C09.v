(* Props/C09.v — Column-name variables bind to the right column; header line is never data.
   ONLY statements: each closed by [exact <lemma>] with Print Assumptions beneath. *)
From RBQL Require Import Base Parser ParserVars ParserVars_Proofs.
Local Open Scope N_scope.

(* The key under which the init code stores a column is the column's name: Python's value of the literal
   that python_string_escape_column_name writes between the quotes is the name itself, for both quote
   characters and every name without NUL (a NUL cannot occur in Python source text). *)
Theorem C09_escape_roundtrip : forall (name : str) (qc : ch), qc = QT \/ qc = APOS -> ~ In 0 name ->
  py_literal_value (qc :: escape_column_name qc name ++ [qc]) = Some name.
Proof. exact escape_roundtrip. Qed.
Print Assumptions C09_escape_roundtrip.

Theorem C09_escape_injective : forall (n1 n2 : str) (qc : ch), qc = QT \/ qc = APOS -> ~ In 0 n1 -> ~ In 0 n2 ->
  escape_column_name qc n1 = escape_column_name qc n2 -> n1 = n2.
Proof. exact escape_injective. Qed.
Print Assumptions C09_escape_injective.

(* non-vacuity: a name made of backslash, both quotes, LF, CR, TAB, a letter and a non-ASCII character *)
Example C09_escape_nonvacuous :
  ~ In 0 [BSL; QT; APOS; LF; CR; TAB; 97; 19990] /\
  escape_column_name QT [BSL; QT; APOS; LF; CR; TAB; 97; 19990] = [BSL; BSL; BSL; QT; APOS; BSL; 110; BSL; 114; BSL; 116; 97; 19990] /\
  py_literal_value (QT :: escape_column_name QT [BSL; QT; APOS; LF; CR; TAB; 97; 19990] ++ [QT]) = Some [BSL; QT; APOS; LF; CR; TAB; 97; 19990].
Proof. split; [intro H; cbn in H; repeat destruct H as [H|H]; try discriminate; contradiction | split; vm_compute; reflexivity]. Qed.
Print Assumptions C09_escape_nonvacuous.

(* the NUL hypothesis is needed by the model: a raw NUL is not accepted inside a literal *)
Example C09_escape_nul_needed : py_literal_value (QT :: escape_column_name QT [0] ++ [QT]) = None.
Proof. vm_compute. reflexivity. Qed.
Print Assumptions C09_escape_nul_needed.

(* With the effective header flag on, the records handed to the engine are all but the first one and the
   header is the first one; with it off, every record is data and there is no header; in both cases the
   i-th record handed over (0-based) is numbered NR = i + 1, so the first data record has NR = 1. *)
Theorem C09_header_never_data : forall {R : Type} (flag : bool) (w : option str) (all_records : list R),
  let st := effective flag w in
  (has_header st = true ->
     csv_records st all_records = tl all_records /\ csv_header st all_records = hd_error all_records) /\
  (has_header st = false ->
     csv_records st all_records = all_records /\ csv_header st all_records = None) /\
  (forall i r, nth_error (csv_records st all_records) i = Some r ->
               nth_error (numbered (csv_records st all_records)) i = Some (S i, r)).
Proof. exact @header_never_data. Qed.
Print Assumptions C09_header_never_data.

Example C09_header_nonvacuous :
  has_header (effective false (Some S_header)) = true /\
  csv_records (effective false (Some S_header)) [[1]; [2]; [3]] = [[2]; [3]] /\
  csv_header (effective false (Some S_header)) [[1]; [2]; [3]] = Some [1] /\
  numbered (csv_records (effective false (Some S_header)) [[1]; [2]; [3]]) = [(1%nat, [2]); (2%nat, [3])] /\
  has_header (effective true (Some S_noheaders)) = false /\
  csv_records (effective true (Some S_noheaders)) [[1]; [2]] = [[1]; [2]].
Proof. vm_compute. repeat split. Qed.
Print Assumptions C09_header_nonvacuous.

(* The effective flag is the WITH modifier when it is header(s) / noheader(s), else the caller's flag. The
   join iterator applies the same function [effective] to its own caller flag and the same modifier. *)
Theorem C09_with_override : forall (flag : bool),
  has_header (effective flag None) = flag /\
  (forall m, In m M_HEADER -> has_header (effective flag (Some m)) = true) /\
  (forall m, In m M_NOHEADER -> has_header (effective flag (Some m)) = false) /\
  (forall m, ~ In m M_HEADER -> ~ In m M_NOHEADER -> has_header (effective flag (Some m)) = flag).
Proof. exact with_override. Qed.
Print Assumptions C09_with_override.
