(* Props/C09.v — placeholder while the proofs are being developed *)
From RBQL Require Import Base Parser ParserVars.
Example C09_placeholder : h_init true = mkH true false.
Proof. reflexivity. Qed.
Print Assumptions C09_placeholder.
