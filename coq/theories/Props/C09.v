(* Props/C09.v — Column-name variables bind to the right column; header line is never data.
   ONLY statements: each closed by [exact <lemma>] with Print Assumptions beneath. *)
From RBQL Require Import Base PyStr Parser ParserVars ParserVars_Proofs VarsIx VarsIx_Proofs.
Local Open Scope N_scope.

(* The key under which the init code stores a column is the column's name: Python's value of the literal
   that python_string_escape_column_name writes between the quotes is the name itself, for both quote
   characters and every name without NUL (a NUL cannot occur in Python source text). *)
Theorem C09_escape_roundtrip : forall (name : str) (qc : ch), qc = QT \/ qc = APOS -> ~ In 0 name ->
  py_literal_value (qc :: escape_column_name qc name ++ [qc]) = Some name.
Proof. exact escape_roundtrip. Qed.
Print Assumptions C09_escape_roundtrip.

Theorem C09_escape_injective : forall (n1 n2 : str) (qc : ch), qc = QT \/ qc = APOS -> ~ In 0 n1 -> ~ In 0 n2 ->
  escape_column_name qc n1 = escape_column_name qc n2 -> n1 = n2.
Proof. exact escape_injective. Qed.
Print Assumptions C09_escape_injective.

(* non-vacuity: a name made of backslash, both quotes, LF, CR, TAB, a letter and a non-ASCII character *)
Example C09_escape_nonvacuous :
  ~ In 0 [BSL; QT; APOS; LF; CR; TAB; 97; 19990] /\
  escape_column_name QT [BSL; QT; APOS; LF; CR; TAB; 97; 19990] = [BSL; BSL; BSL; QT; APOS; BSL; 110; BSL; 114; BSL; 116; 97; 19990] /\
  py_literal_value (QT :: escape_column_name QT [BSL; QT; APOS; LF; CR; TAB; 97; 19990] ++ [QT]) = Some [BSL; QT; APOS; LF; CR; TAB; 97; 19990].
Proof. split; [intro H; cbn in H; repeat destruct H as [H|H]; try discriminate; contradiction | split; vm_compute; reflexivity]. Qed.
Print Assumptions C09_escape_nonvacuous.

(* the NUL hypothesis is needed by the model: a raw NUL is not accepted inside a literal *)
Example C09_escape_nul_needed : py_literal_value (QT :: escape_column_name QT [0] ++ [QT]) = None.
Proof. vm_compute. reflexivity. Qed.
Print Assumptions C09_escape_nul_needed.

(* With the effective header flag on, the records handed to the engine are all but the first one and the
   header is the first one; with it off, every record is data and there is no header; in both cases the
   i-th record handed over (0-based) is numbered NR = i + 1, so the first data record has NR = 1. *)
Theorem C09_header_never_data : forall {R : Type} (flag : bool) (w : option str) (all_records : list R),
  let st := effective flag w in
  (has_header st = true ->
     csv_records st all_records = tl all_records /\ csv_header st all_records = hd_error all_records) /\
  (has_header st = false ->
     csv_records st all_records = all_records /\ csv_header st all_records = None) /\
  (forall i r, nth_error (csv_records st all_records) i = Some r ->
               nth_error (numbered (csv_records st all_records)) i = Some (S i, r)).
Proof. exact @header_never_data. Qed.
Print Assumptions C09_header_never_data.

Example C09_header_nonvacuous :
  has_header (effective false (Some S_header)) = true /\
  csv_records (effective false (Some S_header)) [[1]; [2]; [3]] = [[2]; [3]] /\
  csv_header (effective false (Some S_header)) [[1]; [2]; [3]] = Some [1] /\
  numbered (csv_records (effective false (Some S_header)) [[1]; [2]; [3]]) = [(1%nat, [2]); (2%nat, [3])] /\
  has_header (effective true (Some S_noheaders)) = false /\
  csv_records (effective true (Some S_noheaders)) [[1]; [2]] = [[1]; [2]].
Proof. vm_compute. repeat split. Qed.
Print Assumptions C09_header_nonvacuous.

(* The effective flag is the WITH modifier when it is header(s) / noheader(s), else the caller's flag. The
   join iterator applies the same function [effective] to its own caller flag and the same modifier. *)
Theorem C09_with_override : forall (flag : bool),
  has_header (effective flag None) = flag /\
  (forall m, In m M_HEADER -> has_header (effective flag (Some m)) = true) /\
  (forall m, In m M_NOHEADER -> has_header (effective flag (Some m)) = false) /\
  (forall m, ~ In m M_HEADER -> ~ In m M_NOHEADER -> has_header (effective flag (Some m)) = flag).
Proof. exact with_override. Qed.
Print Assumptions C09_with_override.

(* C09_binding. For a header of distinct NUL-free names with names[i] = n, under the hypothesis the code forces
   (every a.ident token of the literal-free query text names a column: otherwise parse_attribute_variables raises
   an error; since fix e1c769f tokens inside string literals, hence inside other column names, no longer count):
   - list / pandas / sqlite source and CSV source: the variable map binds  a.n  (when the scanner finds the token
     a.n, which requires n to be an identifier) to (initialize, i), and - when the query has a bracket access and
     passes the prefilter for n -  a[DQ<escaped n>DQ]  to (initialize, i) and  a[SQ<escaped n>SQ]  to (no init, i)
     (DQ / SQ = double / single quote character);
   - direct mode (all names usable as variables): the bare name n, when it occurs in the query, to (initialize, i).
   Together with C09_escape_roundtrip the stored key of a[DQ<escaped n>DQ] is n itself. *)
Theorem C09_binding : forall (src : source) (query : str) (p : ch) (names : list str) (i : nat) (n : str),
  NoDup names -> nul_free names -> nth_error names i = Some n ->
  (forall x, In x (attr_idents query p) -> In x names) ->
  match src with
  | SrcTable false =>
      Forall (fun x => direct_name_ok x = true) names -> contains n query = true ->
      exists m, get_variables_map src query p (Some names) None = VOk m /\ map_get n m = Some (true, N.of_nat i)
  | _ =>
      exists m, get_variables_map src query p (Some names) None = VOk m /\
        (In n (attr_idents query p) -> map_get (p :: DOT :: n) m = Some (true, N.of_nat i)) /\
        (has_bracket_access query p = true -> query_probably_has_dictionary_variable query n = true ->
           map_get (dict_var p QT n) m = Some (true, N.of_nat i) /\ map_get (dict_var p APOS n) m = Some (false, N.of_nat i))
  end.
Proof. exact binding. Qed.
Print Assumptions C09_binding.

(* the prefilter never skips a variable the query uses: if the query contains the canonical escaped text of n
   (in either quote style) then query_probably_has_dictionary_variable is true *)
Theorem C09_prefilter_sound : forall (query n : str) (qc : ch), qc = QT \/ qc = APOS ->
  contains (escape_column_name qc n) query = true -> query_probably_has_dictionary_variable query n = true.
Proof. exact prefilter_sound. Qed.
Print Assumptions C09_prefilter_sound.

(* non-vacuity: header [x y; name; q DQ backslash r], query (ex_query in ParserVars_Proofs.v)
     select a.name, a[DQ x y DQ], a[SQ q DQ backslash backslash r SQ] where a1 != SQ a.zz SQ
   (the a.zz inside the literal is not a variable): every hypothesis holds and the three spellings are bound to
   columns 1, 0, 2; evaluating the third one against the RBQLRecord storage gives column 2 *)
Example C09_binding_nonvacuous :
  NoDup ex_names /\ nul_free ex_names /\
  (forall x, In x (attr_idents ex_query 97) -> In x ex_names) /\
  In [110; 97; 109; 101] (attr_idents ex_query 97) /\
  has_bracket_access ex_query 97 = true /\
  query_probably_has_dictionary_variable ex_query [120; 32; 121] = true /\
  contains (escape_column_name APOS [113; QT; BSL; 114]) ex_query = true /\
  exists m, get_variables_map (SrcTable true) ex_query 97 (Some ex_names) None = VOk m /\
            map_get (97 :: DOT :: [110; 97; 109; 101]) m = Some (true, 1) /\
            map_get (dict_var 97 QT [120; 32; 121]) m = Some (true, 0) /\
            map_get (dict_var 97 APOS [113; QT; BSL; 114]) m = Some (false, 2) /\
            eval_bracket_access 97 m (APOS :: escape_column_name APOS [113; QT; BSL; 114] ++ [APOS]) = Some 2.
Proof. exact binding_example. Qed.
Print Assumptions C09_binding_nonvacuous.

(* ---- the source-shaped index models (task gen2; VarsIx.v): on every run of ./check C09 python_string_escape_column_name and
   query_probably_has_dictionary_variable of rbql_engine.py (and their rbql.js counterparts) are translated into Gallina again and
   proved equal to them (generated obligations gen_escape_column_name_eq, gen_prefilter_eq, gen_js_...). *)

(* five sequential str.replace calls after the assert on the quote character = escape_column_name; None = the assert fails *)
Theorem C09_index_model_escape_column_name : forall (name : str) (qc : ch),
  ix_python_string_escape_column_name name [qc] = if N.eqb qc QT || N.eqb qc APOS then Some (escape_column_name qc name) else None.
Proof. exact ix_escape_column_name_correct. Qed.
Print Assumptions C09_index_model_escape_column_name.

Theorem C09_js_index_model_escape_column_name : forall (name : str) (qc : ch),
  jsix_js_string_escape_column_name name [qc] = if N.eqb qc APOS || N.eqb qc QT || N.eqb qc 96 then Some (escape_column_name qc name) else None.
Proof. exact jsix_escape_column_name_correct. Qed.
Print Assumptions C09_js_index_model_escape_column_name.

(* the loop over the segments with its early `return False` = the model's forallb *)
Theorem C09_index_model_prefilter : forall query name : str,
  ix_query_probably_has_dictionary_variable query name = query_probably_has_dictionary_variable query name.
Proof. exact ix_prefilter_correct. Qed.
Print Assumptions C09_index_model_prefilter.

Theorem C09_js_index_model_prefilter : forall query name : str,
  jsix_query_probably_has_dictionary_variable query name = query_probably_has_dictionary_variable query name.
Proof. exact jsix_prefilter_correct. Qed.
Print Assumptions C09_js_index_model_prefilter.

(* s.replace(c, r) with a one-character pattern replaces every occurrence, character by character (Base.replace = join of split) *)
Theorem C09_replace_one_character : forall (s : str) (c : ch) (r : str), py_replace s [c] r = replace_ch c r s.
Proof. exact py_replace_ch. Qed.
Print Assumptions C09_replace_one_character.
