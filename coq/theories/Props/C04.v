(* Props/C04.v — JOIN pairs each A record with exactly its key-equal B records. *)
From RBQL Require Import Base Value Expr Writers Join Join_Proofs Agg Engine Spec Engine_Proofs Header Header_Proofs Width_Proofs JoinWidth_Proofs.

(* the bucket found for key k holds exactly the B records whose key equals k, in B order,
   each with its record number and field count *)
Theorem C04_matches : forall (ks : list rkey) (B : list rec) (m : jmap) (k : key),
  build ks B = inl m ->
  get_join_records (m_buckets m) k =
    flat_map (fun '(nr, f) => match rhs_key ks nr f with
                              | Ok k' => if key_eqb k k' then [(nr, length f, f)] else []
                              | Err _ => []
                              end) (number_from 0 B).
Proof. exact build_matches. Qed.
Print Assumptions C04_matches.

(* INNER / JOIN: the matches; LEFT [OUTER]: the matches, or one all-None record as wide as the widest of: the B records,
   the join header; STRICT LEFT: exactly one match or a runtime error.
   [widen jh m] is the map the main loop works with (C04_engine_map): right after build(), shallow_parse_input_query
   raises max_record_len to the number of names of the join header when there is one (jh = Some n; fix c71773a, D27) *)
Theorem C04_inner : forall m k, get_rhs JInner m k = Ok (map binfo_of (get_join_records (m_buckets m) k)).
Proof. exact get_rhs_inner. Qed.
Print Assumptions C04_inner.

Theorem C04_left : forall ks B m jh k, build ks B = inl m ->
  get_rhs JLeft (widen jh m) k =
    Ok (match get_join_records (m_buckets m) k with
        | [] => let n := Nat.max (fold_left (fun acc f => Nat.max acc (length f)) B 0)
                                 (match jh with Some n => n | None => 0 end) in
                [BRec None n (repeat ANone n)]
        | ms => map binfo_of ms
        end).
Proof. exact get_rhs_left_widened. Qed.
Print Assumptions C04_left.

(* the header adjustment touches nothing but the width of that null record: the buckets are build's, INNER and STRICT LEFT
   are unaffected, and so is LEFT JOIN for every key that has a partner *)
Theorem C04_widen_only_null_record : forall jh m k,
  m_buckets (widen jh m) = m_buckets m
  /\ (forall jk, jk <> JLeft -> get_rhs jk (widen jh m) k = get_rhs jk m k)
  /\ (get_join_records (m_buckets m) k <> [] -> get_rhs JLeft (widen jh m) k = get_rhs JLeft m k)
  /\ widen None m = m.
Proof. exact widen_only_null_record. Qed.
Print Assumptions C04_widen_only_null_record.

(* the join map of a run: build over the join records, widened by the join header of the query's join clause *)
Theorem C04_engine_map : forall (expr : Type) (q : query expr) js B jm,
  q_join q = Some js -> join_map_of expr q B = Some jm ->
  exists m, build (j_rhs js) B = inl m /\ jm = Some (widen (j_bhdr js) m).
Proof. exact join_map_of_widen. Qed.
Print Assumptions C04_engine_map.

Theorem C04_strict : forall m k,
  (length (get_join_records (m_buckets m) k) = 1 ->
     get_rhs JStrict m k = Ok (map binfo_of (get_join_records (m_buckets m) k)))
  /\ (length (get_join_records (m_buckets m) k) <> 1 -> get_rhs JStrict m k = Err (XRuntime 3)).
Proof. exact get_rhs_strict. Qed.
Print Assumptions C04_strict.

(* a B record lacking a key field stops the query before any record is processed, naming that B record *)
Theorem C04_build_error : forall ks B bnr, build ks B = inr bnr ->
  exists pre f post, B = pre ++ f :: post /\ bnr = S (length pre)
                     /\ (exists e, rhs_key ks bnr f = Err e)
                     /\ Forall (fun '(n, g) => exists k, rhs_key ks n g = Ok k) (number_from 0 pre).
Proof. intros ks B bnr H. exact (build_from_error ks B 0 _ bnr H). Qed.
Print Assumptions C04_build_error.

(* downstream: WHERE / SELECT / ORDER BY / DISTINCT / TOP see the paired records as if A had been expanded:
   the rows offered to the writer chain are the comprehension over (record, match) pairs, NR being A's number.
   (C03 and C05 state the same for aggregation and UPDATE.) *)
Theorem C04_downstream :
  forall (expr : Type) (eval : env -> expr -> res val) (q : query expr) hdr A B jm offs,
    is_agg q = false -> is_update q = false -> static_check q = None ->
    join_map_of expr q B = Some jm ->
    all_offers expr eval q jm 0 A = Ok offs ->
    offs = flat_map (fun '(nr, a) =>
              flat_map (fun b => rows_or_nil (select_rows eval q (env_of nr a b 0)))
                       (rows_or_nil (matches_of expr q jm nr a))) (number_from 0 A)
    /\ written (o_chain (run eval yes q hdr A B)) = chain_spec (cfg_of q) offs.
Proof.
  intros expr eval q hdr A B jm offs Hagg Hupd Hst Hjm Hoff. split.
  - exact (all_offers_flat expr eval q jm A 0 offs Hoff).
  - exact (proj2 (run_select_rows expr eval q hdr A B jm offs Hagg Hupd Hst Hjm Hoff)).
Qed.
Print Assumptions C04_downstream.

(* non-vacuity: duplicate keys, a LEFT JOIN null record (no header: widest B record; a header wider than every B record:
   the header; a join table with a header and NO records: the header), NR as key component *)
Definition exB : list rec := [[AStr [49%N]; AStr [112%N]]; [AStr [50%N]]; [AStr [49%N]; AStr [113%N]; AStr [114%N]]].
Example C04_nonvacuous :
  exists m, build [RFld 0] exB = inl m
    /\ get_rhs JInner m [AStr [49%N]] = Ok [BRec (Some 1) 2 [AStr [49%N]; AStr [112%N]]; BRec (Some 3) 3 [AStr [49%N]; AStr [113%N]; AStr [114%N]]]
    /\ get_rhs JLeft (widen None m) [AStr [57%N]] = Ok [BRec None 3 [ANone; ANone; ANone]]
    /\ get_rhs JLeft (widen (Some 2) m) [AStr [57%N]] = Ok [BRec None 3 [ANone; ANone; ANone]]
    /\ get_rhs JLeft (widen (Some 4) m) [AStr [57%N]] = Ok [BRec None 4 [ANone; ANone; ANone; ANone]]
    /\ (exists m0, build [RFld 0] [] = inl m0
                   /\ get_rhs JLeft (widen (Some 3) m0) [AStr [57%N]] = Ok [BRec None 3 [ANone; ANone; ANone]]
                   /\ get_rhs JLeft (widen None m0) [AStr [57%N]] = Ok [BRec None 0 []])
    /\ (exists m2, build [RNR] exB = inl m2 /\ get_rhs JStrict m2 [AInt 2] = Ok [BRec (Some 2) 1 [AStr [50%N]]]).
Proof.
  eexists. split; [vm_compute; reflexivity|]. split; [vm_compute; reflexivity|]. split; [vm_compute; reflexivity|].
  split; [vm_compute; reflexivity|]. split; [vm_compute; reflexivity|].
  split; [eexists; split; [vm_compute; reflexivity|]; split; vm_compute; reflexivity|].
  eexists. split; vm_compute; reflexivity.
Qed.
Print Assumptions C04_nonvacuous.
