(* Props/C16.v — queries are isolated.
   Partial: the theorems are about a model in which each query's state (everything reachable from its RBQLContext, its
   writer chain, join map and the closures created per run) is disjoint from the other's and the only shared datum is
   the read-only global debug_mode.  That this partition is the code's is what the correspondence run tests (all
   results of interleaved / consecutive runs = the solo results of the engine model); OS-thread preemption inside a
   step is not explored. *)
From RBQL Require Import Base Isolation Front_Proofs.

(* every interleaving of the steps of two queries leaves each query in the state of its solo run *)
Theorem C16_interleaving : forall (G S1 S2 : Type) (step1 : G -> S1 -> S1) (step2 : G -> S2 -> S2) sched g s,
  run_interleaved G S1 S2 step1 step2 sched g s =
  (iter (count_true sched) (step1 g) (fst s), iter (count_false sched) (step2 g) (snd s)).
Proof. exact interleaving_is_solo. Qed.
Print Assumptions C16_interleaving.

(* a history of queries (succeeding or failing): each result is the result of running that query alone *)
Theorem C16_history : forall (G Q R : Type) (run_query : G -> Q -> R) g qs,
  run_seq G Q R run_query g qs = map (run_query g) qs.
Proof. intros G Q R. exact (@history_is_solo G Q R). Qed.
Print Assumptions C16_history.

Example C16_nonvacuous :
  run_interleaved unit nat nat (fun _ => S) (fun _ n => n + 2) [true; false; false; true; true] tt (0, 0) = (3, 4).
Proof. reflexivity. Qed.
Print Assumptions C16_nonvacuous.
