(* Props/C16.v — queries are isolated.
   Two layers.
   (1) C16_interleaving / C16_history: the generic non-interference argument over two abstract step machines whose states are
       disjoint BY ASSUMPTION and whose only shared datum is a read-only global.
   (2) C16_ir_*: the same over the IR of Shared.v, where the partition is a CHECKED fact: a program is a table of function
       bodies whose statements read shared cells, update the query's private state through arbitrary functions and write a
       shared cell only through SWrite / SMutate naming the cell; `isolated p e` (the transitive write set of entry point e is
       empty, checked as a certificate) implies non-interference for every schedule, every history and every expression
       semantics.  The IR TERM of the Python implementation (prog_py: every function, method, lambda of the five modules a
       query executes plus the generated main loops) is regenerated from the source on every run by
       harness/translate_shared.py, and the run compiles  gen_shared_isolated : forallb (isolated prog_py) entries_py = true
       and the instantiated corollaries (build/gen/shared_<pid>/SharedFacts.v).
   What stays trusted: the translator's effect rules (header of translate_shared.py; cross-checked on every run by snapshots
   of every shared cell around the executed queries), CPython's runtime and stdlib (ASSUMED list there), and that steps are
   atomic (true OS-thread preemption inside a statement is not modelled). *)
From RBQL Require Import Base Isolation Front_Proofs Shared Shared_Proofs.

(* every interleaving of the steps of two queries leaves each query in the state of its solo run *)
Theorem C16_interleaving : forall (G S1 S2 : Type) (step1 : G -> S1 -> S1) (step2 : G -> S2 -> S2) sched g s,
  run_interleaved G S1 S2 step1 step2 sched g s =
  (iter (count_true sched) (step1 g) (fst s), iter (count_false sched) (step2 g) (snd s)).
Proof. exact interleaving_is_solo. Qed.
Print Assumptions C16_interleaving.

(* a history of queries (succeeding or failing): each result is the result of running that query alone *)
Theorem C16_history : forall (G Q R : Type) (run_query : G -> Q -> R) g qs,
  run_seq G Q R run_query g qs = map (run_query g) qs.
Proof. intros G Q R. exact (@history_is_solo G Q R). Qed.
Print Assumptions C16_history.

Example C16_nonvacuous :
  run_interleaved unit nat nat (fun _ => S) (fun _ n => n + 2) [true; false; false; true; true] tt (0, 0) = (3, 4).
Proof. reflexivity. Qed.
Print Assumptions C16_nonvacuous.

(* ---- the IR layer (Shared.v): every small step is a scheduling point.
   `off` = shared flags assumed false in the store (debug_mode): a block `if flag: ..` guarded by one of them is dead; the
   analyser checks that nothing reachable outside such blocks writes any cell, so the flags stay false.  off = [] is the
   unconditional statement. *)

(* two entry points whose transitive shared write sets are empty: under EVERY schedule the shared store is unchanged and each
   query (private state, outputs, continuation, error flag) is exactly where its solo run from the same store is after as many
   steps as the schedule gave it - for every expression semantics rd / loc / tst / wr / mu / out / truthy *)
Theorem C16_ir_interleaving : forall (P V Y : Type) (rd : N -> V -> P -> option P) (loc : N -> P -> option P) (tst : N -> P -> bool)
    (wr : N -> P -> V) (mu : N -> V -> P -> V) (out : N -> P -> Y) (truthy : V -> bool) (pr : prog) (off : list cell) (e1 e2 : fid),
  isolated off pr e1 = true -> isolated off pr e2 = true ->
  forall (sched : list bool) (g : cell -> V) (p1 p2 : P),
  (forall c, mem c off = true -> truthy (g c) = false) ->
  run2 P V Y rd loc tst wr mu out truthy pr sched g (start P Y e1 p1) (start P Y e2 p2) =
  (g, snd (solo P V Y rd loc tst wr mu out truthy pr (count_true sched) g (start P Y e1 p1)),
      snd (solo P V Y rd loc tst wr mu out truthy pr (count_false sched) g (start P Y e2 p2))).
Proof. exact ir_interleaving. Qed.
Print Assumptions C16_ir_interleaving.

(* a history of queries (each given any number of steps; a query may stop with an error at any SRead / SLocal): the store at
   the end is the store at the beginning and every query's result is its solo result in that store *)
Theorem C16_ir_history : forall (P V Y : Type) (rd : N -> V -> P -> option P) (loc : N -> P -> option P) (tst : N -> P -> bool)
    (wr : N -> P -> V) (mu : N -> V -> P -> V) (out : N -> P -> Y) (truthy : V -> bool) (pr : prog) (off : list cell)
    (qs : list (fid * P * nat)),
  (forall q, In q qs -> isolated off pr (fst (fst q)) = true) ->
  forall g : cell -> V, (forall c, mem c off = true -> truthy (g c) = false) ->
  run_hist P V Y rd loc tst wr mu out truthy pr g qs = (g, map (solo_result P V Y rd loc tst wr mu out truthy pr g) qs).
Proof. exact ir_history. Qed.
Print Assumptions C16_ir_history.

(* the solo run itself leaves the store as it found it *)
Theorem C16_ir_solo_store : forall (P V Y : Type) (rd : N -> V -> P -> option P) (loc : N -> P -> option P) (tst : N -> P -> bool)
    (wr : N -> P -> V) (mu : N -> V -> P -> V) (out : N -> P -> Y) (truthy : V -> bool) (pr : prog) (off : list cell) (e : fid),
  isolated off pr e = true -> forall n g p, (forall c, mem c off = true -> truthy (g c) = false) ->
  fst (solo P V Y rd loc tst wr mu out truthy pr n g (start P Y e p)) = g.
Proof. exact ir_solo_store. Qed.
Print Assumptions C16_ir_solo_store.

(* non-vacuity: a program with reads, a loop, a call and a failing statement is accepted ... *)
Example C16_ir_nonvacuous : isolated [] ex_clean 1%N = true /\ isolated [] ex_clean 2%N = true /\
  read_set [] ex_clean 1%N = [0%N; 1%N] /\ write_set [] ex_clean 1%N = [].
Proof. exact ex_clean_isolated. Qed.
Print Assumptions C16_ir_nonvacuous.

(* ... a history whose first query fails half-way leaves the second one its solo result ... *)
Example C16_ir_history_with_error :
  let qs := [(1%N, 101%N, 40%nat); (1%N, 0%N, 200%nat)] in
  map (c_err N N) (snd (run_hist N N N ex_rd ex_loc ex_tst ex_wr ex_mu ex_out ex_truthy ex_clean ex_store qs)) = [true; false] /\
  snd (run_hist N N N ex_rd ex_loc ex_tst ex_wr ex_mu ex_out ex_truthy ex_clean ex_store qs)
    = map (solo_result N N N ex_rd ex_loc ex_tst ex_wr ex_mu ex_out ex_truthy ex_clean ex_store) qs /\
  map (fun c => length (c_outs N N c)) (snd (run_hist N N N ex_rd ex_loc ex_tst ex_wr ex_mu ex_out ex_truthy ex_clean ex_store qs)) = [0%nat; 4%nat].
Proof. exact ex_history_with_error. Qed.
Print Assumptions C16_ir_history_with_error.

(* ... the flag assumption is satisfiable and needed: a program whose only writes sit under `if flag 7:` is rejected without
   the assumption, accepted with it, ex_store has the flag off, and with the flag ON the store does change ... *)
Example C16_ir_guard_nonvacuous :
  isolated [] ex_guarded 1%N = false /\ isolated [7%N] ex_guarded 1%N = true /\ write_set [7%N] ex_guarded 1%N = [] /\
  (forall c, mem c [7%N] = true -> ex_truthy (ex_store c) = false) /\
  fst (solo N N N ex_rd ex_loc ex_tst ex_wr ex_mu ex_out ex_truthy ex_guarded 10%nat (fun c => if N.eqb c 7%N then 1%N else ex_store c) (start N N 1%N 0%N)) 0%N
    <> ex_store 0%N.
Proof. exact ex_guarded_facts. Qed.
Print Assumptions C16_ir_guard_nonvacuous.

(* ... and the verdict `isolated = false` is meaningful: a two-query program with ONE shared write is rejected, and under some
   schedule the reader's output differs from its solo output *)
Theorem C16_ir_refutation :
  isolated [] ex_leaky 2%N = false /\ write_set [] ex_leaky 2%N = [0%N] /\
  exists sched,
    c_outs N N (snd (run2 N N N ex_rd ex_loc ex_tst ex_wr ex_mu ex_out ex_truthy ex_leaky sched ex_store (start N N 1%N 0%N) (start N N 2%N 0%N)))
    <> c_outs N N (snd (solo N N N ex_rd ex_loc ex_tst ex_wr ex_mu ex_out ex_truthy ex_leaky (count_true sched) ex_store (start N N 1%N 0%N)))
    /\ fst (fst (run2 N N N ex_rd ex_loc ex_tst ex_wr ex_mu ex_out ex_truthy ex_leaky sched ex_store (start N N 1%N 0%N) (start N N 2%N 0%N))) 0%N <> ex_store 0%N.
Proof. exact ex_leaky_refuted. Qed.
Print Assumptions C16_ir_refutation.
