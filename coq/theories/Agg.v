(* Agg.v — the aggregators of rbql_engine.py (Min/Max/Sum/Avg/Variance/Median/Count/ArrayAgg/AnyValue),
   NumHandler, ConstGroupVerifier and the key-sorted emission of AggregateWriter. *)
From RBQL Require Import Base Value Expr.
From Coq Require Import QArith.

Inductive agg_kind := KMin | KMax | KSum | KAvg | KVar | KMedian | KCount | KArray | KAny.
Inductive col_kind := CAgg (k : agg_kind) | CConst.

(* NumHandler *)
Record numh := { h_is_int : bool; h_done : bool; h_is_str : bool }.
Definition numh_init (start_with_int : bool) : numh :=
  {| h_is_int := start_with_int; h_done := false; h_is_str := false |}.

Definition is_str_atom (a : atom) : bool := match a with AStr _ => true | _ => false end.

Definition to_float (a : atom) : res atom :=
  match a with
  | AStr s => match parse_float s with Some q => Ok (AFlt q) | None => Err (XRuntime 2) end
  | AInt z => Ok (AFlt (inject_Z z))
  | ABool b => Ok (AFlt (inject_Z (Z_of_bool b)))
  | AFlt q => Ok (AFlt q)
  | ANone => Err XType
  end.

(* NumHandler.parse: returns the converted value and the handler's new state
   (the state changes even when the conversion then fails) *)
Definition numh_parse (h : numh) (v : atom) : res atom * numh :=
  let h1 := if h_done h then h
            else {| h_is_int := h_is_int h; h_done := true; h_is_str := is_str_atom v |} in
  if negb (h_is_str h1) then (Ok v, h1)
  else if h_is_int h1 then
    match v with
    | AStr s => match parse_int s with
                | Some z => (Ok (AInt z), h1)
                | None => let h2 := {| h_is_int := false; h_done := true; h_is_str := true |} in (to_float v, h2)
                end
    | AInt z => (Ok (AInt z), h1)
    | ABool b => (Ok (AInt (Z_of_bool b)), h1)
    | ANone => (Err XType, h1)
    | AFlt _ => (Err XUnmodelled, h1)
    end
  else (to_float v, h1).

Definition uses_numh (k : agg_kind) : option bool :=      (* Some start_with_int *)
  match k with
  | KMin | KMax | KSum | KMedian => Some true
  | KAvg | KVar => Some false
  | _ => None
  end.

(* per-group state *)
Inductive ast :=
| SVal (v : val)                            (* Min, Max, Sum, AnyValue, Const *)
| SSumCnt (s : atom) (n : nat)              (* Avg *)
| SVar (s sq : atom) (n : nat)              (* Variance *)
| SList (l : list atom)                     (* Median, ArrayAgg (input order) *)
| SCount (n : nat).                         (* Count *)

Definition add_a (a b : atom) : res atom :=
  match add_atoms a b with
  | Ok (VA r) => Ok r
  | Ok (VL _) => Err XUnmodelled
  | Err e => Err e
  end.

Definition mul_a (a b : atom) : res atom :=
  match a, b with
  | AFlt _, _ | _, AFlt _ =>
      match num_of a, num_of b with Some x, Some y => Ok (AFlt (Qred (x * y))) | _, _ => Err XType end
  | AInt x, AInt y => Ok (AInt (x * y))
  | _, _ => Err XUnmodelled
  end.

(* min(cur, val) / max(cur, val): Python returns the first argument on ties *)
Definition min_a (cur v : atom) : res atom :=
  match atom_ltb v cur with Some true => Ok v | Some false => Ok cur | None => Err XType end.
Definition max_a (cur v : atom) : res atom :=
  match atom_ltb cur v with Some true => Ok v | Some false => Ok cur | None => Err XType end.

Definition atom_of_val (v : val) : res atom := match v with VA a => Ok a | VL _ => Err XUnmodelled end.

(* aggregator.increment for one group: old state (None = key not present) and the (already parsed) value *)
Definition agg_step (k : agg_kind) (old : option ast) (v : atom) : res ast :=
  match k, old with
  | KAny, None => Ok (SVal (VA v))
  | KAny, Some s => Ok s
  (* a stored None would be read back as "no value yet" (stats.get(key) is None): outside the model *)
  | KMin, None => match v with ANone => Err XUnmodelled | _ => Ok (SVal (VA v)) end
  | KMin, Some (SVal (VA c)) => do r <- min_a c v; Ok (SVal (VA r))
  | KMax, None => match v with ANone => Err XUnmodelled | _ => Ok (SVal (VA v)) end
  | KMax, Some (SVal (VA c)) => do r <- max_a c v; Ok (SVal (VA r))
  | KSum, None => do r <- add_a (AInt 0) v; Ok (SVal (VA r))
  | KSum, Some (SVal (VA c)) => do r <- add_a c v; Ok (SVal (VA r))
  | KAvg, None => Ok (SSumCnt v 1)
  | KAvg, Some (SSumCnt s n) => do r <- add_a s v; Ok (SSumCnt r (S n))
  | KVar, None => do sq <- mul_a v v; Ok (SVar v sq 1)
  | KVar, Some (SVar s q n) => do sq <- mul_a v v; do s' <- add_a s v; do q' <- add_a q sq; Ok (SVar s' q' (S n))
  | KMedian, None => Ok (SList [v])
  | KMedian, Some (SList l) => Ok (SList (l ++ [v]))
  | KCount, None => Ok (SCount 1)
  | KCount, Some (SCount n) => Ok (SCount (S n))
  | KArray, None => Ok (SList [v])
  | KArray, Some (SList l) => Ok (SList (l ++ [v]))
  | _, _ => Err XUnmodelled
  end.

(* sorted(vals) for the median: insertion sort under atom_leb (numbers) *)
Fixpoint ins_atom (a : atom) (l : list atom) : list atom :=
  match l with
  | [] => [a]
  | h :: t => if atom_leb a h then a :: h :: t else h :: ins_atom a t
  end.
Definition sort_atoms (l : list atom) : list atom := fold_right ins_atom [] l.

Definition q_of (a : atom) : res Q := match num_of a with Some q => Ok q | None => Err XType end.
Definition Qnat (n : nat) : Q := inject_Z (Z.of_nat n).

Definition agg_final (k : agg_kind) (s : ast) : res val :=
  match k, s with
  | KAny, SVal v | KMin, SVal v | KMax, SVal v | KSum, SVal v => Ok v
  | KAvg, SSumCnt sm n => do q <- q_of sm; Ok (VA (AFlt (Qred (q / Qnat n))))
  | KVar, SVar sm sq n =>
      do a <- q_of sm; do b <- q_of sq;
      Ok (VA (AFlt (Qred (b / Qnat n - (a / Qnat n) * (a / Qnat n)))))
  | KMedian, SList l =>
      let sl := sort_atoms l in
      let m := Nat.div (length sl) 2 in
      if Nat.odd (length sl) then Ok (VA (nth m sl ANone))
      else
        let a := nth (m - 1) sl ANone in
        let b := nth m sl ANone in
        if atom_eqb a b then Ok (VA a)
        else do x <- q_of a; do y <- q_of b; Ok (VA (AFlt (Qred ((x + y) / 2))))
  | KCount, SCount n => Ok (VInt (Z.of_nat n))
  | KArray, SList l => Ok (VL l)
  | _, _ => Err XUnmodelled
  end.

(* one output column of an aggregate query *)
Record col := { c_kind : col_kind; c_numh : numh; c_stats : list (key * ast) }.

Definition col_init (ck : col_kind) : col :=
  {| c_kind := ck;
     c_numh := match ck with CAgg k => match uses_numh k with Some b => numh_init b | None => numh_init true end
                        | CConst => numh_init true end;
     c_stats := [] |}.

Fixpoint stats_get (l : list (key * ast)) (k : key) : option ast :=
  match l with [] => None | (k', s) :: t => if key_eqb k k' then Some s else stats_get t k end.
Fixpoint stats_set (l : list (key * ast)) (k : key) (s : ast) : list (key * ast) :=
  match l with
  | [] => [(k, s)]
  | (k', s') :: t => if key_eqb k k' then (k', s) :: t else (k', s') :: stats_set t k s
  end.

(* the aggregator's numeric conversion of one value (NumHandler.parse for the kinds that have a handler) *)
Definition conv (ak : agg_kind) (h : numh) (a : atom) : res atom * numh :=
  match uses_numh ak with Some _ => numh_parse h a | None => (Ok a, h) end.

(* aggregator.increment(key, value) *)
Definition col_increment (c : col) (k : key) (v : val) : res col :=
  match c_kind c with
  | CConst =>
      match stats_get (c_stats c) k with
      | None => Ok {| c_kind := c_kind c; c_numh := c_numh c; c_stats := stats_set (c_stats c) k (SVal v) |}
      | Some (SVal old) => if val_eqb old v then Ok c else Err (XRuntime 1)
      | Some _ => Err XUnmodelled
      end
  | CAgg ak =>
      match ak with
      | KCount =>
          do s <- agg_step KCount (stats_get (c_stats c) k) ANone;
          Ok {| c_kind := c_kind c; c_numh := c_numh c; c_stats := stats_set (c_stats c) k s |}
      | _ =>
        do a <- atom_of_val v;
        let '(pa, h') := conv ak (c_numh c) a in
        (* the handler's state change is kept even if the conversion fails; the query fails then anyway *)
        do a' <- pa;
        do s <- agg_step ak (stats_get (c_stats c) k) a';
        Ok {| c_kind := c_kind c; c_numh := h'; c_stats := stats_set (c_stats c) k s |}
      end
  end.

Definition col_final (c : col) (k : key) : res val :=
  match stats_get (c_stats c) k with
  | None => Err XUnmodelled
  | Some s => match c_kind c with
              | CConst => match s with SVal v => Ok v | _ => Err XUnmodelled end
              | CAgg ak => agg_final ak s
              end
  end.

(* select_aggregated for stage 2 (and the increments of stage 1): all columns, left to right *)
Fixpoint cols_increment (cs : list col) (k : key) (vs : list val) : res (list col) :=
  match cs, vs with
  | [], [] => Ok []
  | c :: ct, v :: vt => do c' <- col_increment c k v; do r <- cols_increment ct k vt; Ok (c' :: r)
  | _, _ => Err XUnmodelled
  end.

(* AggregateWriter state: columns + the set of keys (first-occurrence order, set semantics) *)
Record agg_st := { a_cols : list col; a_keys : list key }.

Definition keys_add (l : list key) (k : key) : list key :=
  if existsb (key_eqb k) l then l else l ++ [k].

(* sorted(list(aggregation_keys)) *)
Fixpoint ins_key (k : key) (l : list key) : list key :=
  match l with [] => [k] | h :: t => if key_leb k h then k :: h :: t else h :: ins_key k t end.
Definition sort_keys (l : list key) : list key := fold_right ins_key [] l.

Fixpoint final_row (cs : list col) (k : key) : res row :=
  match cs with
  | [] => Ok []
  | c :: t => do v <- col_final c k; do r <- final_row t k; Ok (v :: r)
  end.

Fixpoint final_rows (cs : list col) (ks : list key) : res (list row) :=
  match ks with
  | [] => Ok []
  | k :: t => do r <- final_row cs k; do rs <- final_rows cs t; Ok (r :: rs)
  end.
