(* EntryReader.v — entry points of this area; returns None for codes it does not own *)
From RBQL Require Import Base Sx.

Definition dispatch_reader (code : N) (x : sx) : option sx :=
  match code with
  | _ => None
  end.
