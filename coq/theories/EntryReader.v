(* EntryReader.v — entry points of the reader area (codes 200-299) over the universal value sx.
   200 Python reader run            201 Python reader rows (line_mode, _get_all_rows)
   202 spec records_of_text         203 spec split_lines            204 spec rows_of_lines on a text    205 rows_of_lines on lines
   210 JS reader over decoded chunks  211 JS reader over byte chunks (stream)   212 JS reader bulk
   213 lines_js (decoded chunks)      214 lines_js_bulk
   220 UTF-8 streaming decode   221 UTF-8 whole decode   222 UTF-8 encode   223 decode_each_chunk (pre-fix behaviour)
   Field splitting is not part of this area: the split function is either the local [lite_split] (simple policy on a
   delimiter / monocolumn) or a finite table (line -> fields, warning) supplied with the case, falling back to lite_split. *)
From RBQL Require Import Base Sx Lines Utf8 Reader ReaderJs.

Definition enc_of_sx (x : sx) : option enc :=
  match x with
  | A 0%N => Some EncNone
  | A 1%N => Some EncUtf8
  | A 2%N => Some EncLatin1
  | _ => None
  end.

(* cfg = L [rfc; comment option; has_header; enc; modifier option] *)
Definition cfg_of_sx (x : sx) : option cfg :=
  match x with
  | L [r; cm; h; e; m] =>
      match bool_of_sx r, option_of_sx str_of_sx cm, bool_of_sx h, enc_of_sx e, option_of_sx bool_of_sx m with
      | Some r', Some cm', Some h', Some e', Some m' =>
          Some {| c_rfc := r'; c_comment := cm'; c_header := h'; c_enc := e'; c_modifier := m' |}
      | _, _, _, _, _ => None
      end
  | _ => None
  end.

Definition table_split (tbl : list (str * (list str * bool))) (fallback : str -> list str * bool) (line : str) : list str * bool :=
  match List.find (fun e => str_eqb (fst e) line) tbl with
  | Some e => snd e
  | None => fallback line
  end.

Definition tbl_entry_of_sx (x : sx) : option (str * (list str * bool)) :=
  match x with
  | L [l; fs; w] =>
      match str_of_sx l, list_of_sx str_of_sx fs, bool_of_sx w with
      | Some l', Some fs', Some w' => Some (l', (fs', w'))
      | _, _, _ => None
      end
  | _ => None
  end.

(* split spec = L [delim option; table] *)
Definition split_of_sx (x : sx) : option (str -> list str * bool) :=
  match x with
  | L [d; t] =>
      match option_of_sx str_of_sx d, list_of_sx tbl_entry_of_sx t with
      | Some d', Some t' => Some (table_split t' (lite_split d'))
      | _, _ => None
      end
  | _ => None
  end.

Definition sx_of_record (r : list str) : sx := sx_of_list sx_of_str r.

Definition sx_of_warnings (w : warnings) : sx :=
  L [sx_of_bool (w_bom w);
     sx_of_option sx_of_nat (w_defective w);
     sx_of_option (fun q => match q with (r1, n1, r2, n2) => L [sx_of_nat r1; sx_of_nat n1; sx_of_nat r2; sx_of_nat n2] end) (w_fields w)].

Definition sx_of_result (r : result) : sx :=
  match r with
  | ROk recs h w nl nr => L [A 0; sx_of_list sx_of_record recs; sx_of_option sx_of_record h; sx_of_warnings w; sx_of_nat nl; sx_of_nat nr]
  | RErr nr nl => L [A 1; sx_of_nat nr; sx_of_nat nl]
  end.

Definition sx_of_jresult (r : jresult) : sx :=
  match r with
  | JOk recs h w nl nr => L [A 0; sx_of_list sx_of_record recs; sx_of_option sx_of_record h; sx_of_warnings w; sx_of_nat nl; sx_of_nat nr]
  | JErr (JDefect nr nl) => L [A 1; sx_of_nat nr; sx_of_nat nl]
  | JErr JUtf8 => L [A 2]
  | JStuck => L [A 3]
  end.

Definition sx_of_rows (r : list str * (nat * bool)) : sx :=
  L [sx_of_list sx_of_str (fst r); sx_of_nat (fst (snd r)); sx_of_bool (snd (snd r))].

Definition strs_of_sx := list_of_sx str_of_sx.

Definition sched_of_sx (x : sx) : option (list (str * bool)) :=
  list_of_sx (fun e => match e with
                       | L [d; b] => match str_of_sx d, bool_of_sx b with Some d', Some b' => Some (d', b') | _, _ => None end
                       | _ => None end) x.

(* 200: L [cfg; split; cs; pieces] *)
Definition ep_py_run (x : sx) : sx :=
  match x with
  | L [c; sp; cs; ps] =>
      match cfg_of_sx c, split_of_sx sp, nat_of_sx cs, strs_of_sx ps with
      | Some c', Some sp', Some cs', Some ps' => sx_of_result (run_py sp' c' cs' ps')
      | _, _, _, _ => ERR
      end
  | _ => ERR
  end.

(* 201: L [cfg; cs; pieces] *)
Definition ep_py_rows (x : sx) : sx :=
  match x with
  | L [c; cs; ps] =>
      match cfg_of_sx c, nat_of_sx cs, strs_of_sx ps with
      | Some c', Some cs', Some ps' => sx_of_rows (rows_py c' cs' ps')
      | _, _, _ => ERR
      end
  | _ => ERR
  end.

(* 202: L [cfg; split; text] *)
Definition ep_spec_records (x : sx) : sx :=
  match x with
  | L [c; sp; t] =>
      match cfg_of_sx c, split_of_sx sp, str_of_sx t with
      | Some c', Some sp', Some t' => sx_of_result (records_of_text sp' c' t')
      | _, _, _ => ERR
      end
  | _ => ERR
  end.

(* 203: text *)
Definition ep_split_lines (x : sx) : sx :=
  match str_of_sx x with Some t => sx_of_list sx_of_str (split_lines t) | None => ERR end.

(* 204: L [cfg; text] *)
Definition ep_spec_rows (x : sx) : sx :=
  match x with
  | L [c; t] =>
      match cfg_of_sx c, str_of_sx t with
      | Some c', Some t' => sx_of_rows (rows_of_lines c' (split_lines t'))
      | _, _ => ERR
      end
  | _ => ERR
  end.

(* 205: L [cfg; L [line ...]] : the logical rows of an explicit list of physical lines *)
Definition ep_spec_rows_of_lines (x : sx) : sx :=
  match x with
  | L [c; ls] =>
      match cfg_of_sx c, strs_of_sx ls with
      | Some c', Some ls' => sx_of_rows (rows_of_lines c' ls')
      | _, _ => ERR
      end
  | _ => ERR
  end.

(* 210: L [cfg; split; b0; L [L [decoded chunk; run continuations after it] ...]] *)
Definition ep_js_decoded (x : sx) : sx :=
  match x with
  | L [c; sp; b0; ch] =>
      match cfg_of_sx c, split_of_sx sp, bool_of_sx b0, sched_of_sx ch with
      | Some c', Some sp', Some b0', Some ch' => sx_of_jresult (run_js_decoded sp' c' b0' ch')
      | _, _, _, _ => ERR
      end
  | _ => ERR
  end.

(* 211: L [cfg; split; b0; L [L [byte chunk; flag] ...]] *)
Definition ep_js_stream (x : sx) : sx :=
  match x with
  | L [c; sp; b0; ch] =>
      match cfg_of_sx c, split_of_sx sp, bool_of_sx b0, sched_of_sx ch with
      | Some c', Some sp', Some b0', Some ch' => sx_of_jresult (run_js_stream sp' c' b0' ch')
      | _, _, _, _ => ERR
      end
  | _ => ERR
  end.

(* 212: L [cfg; split; bytes] *)
Definition ep_js_bulk (x : sx) : sx :=
  match x with
  | L [c; sp; b] =>
      match cfg_of_sx c, split_of_sx sp, str_of_sx b with
      | Some c', Some sp', Some b' => sx_of_jresult (run_js_bulk sp' c' b')
      | _, _, _ => ERR
      end
  | _ => ERR
  end.

(* 213: L [decoded chunk ...] *)
Definition ep_lines_js (x : sx) : sx :=
  match strs_of_sx x with Some ch => sx_of_list sx_of_str (lines_js ch) | None => ERR end.

(* 214: text *)
Definition ep_lines_js_bulk (x : sx) : sx :=
  match str_of_sx x with Some t => sx_of_list sx_of_str (lines_js_bulk t) | None => ERR end.

(* 220: L [byte chunk ...] -> option (list str) *)
Definition ep_utf8_streaming (x : sx) : sx :=
  match strs_of_sx x with
  | Some ch => sx_of_option (sx_of_list sx_of_str) (decode_streaming ch)
  | None => ERR
  end.

(* 221: bytes -> option str *)
Definition ep_utf8_whole (x : sx) : sx :=
  match str_of_sx x with Some b => sx_of_option sx_of_str (decode_whole b) | None => ERR end.

(* 222: str -> bytes *)
Definition ep_utf8_encode (x : sx) : sx :=
  match str_of_sx x with Some s => sx_of_str (utf8_encode s) | None => ERR end.

(* 223: L [byte chunk ...] -> option (list str), each chunk decoded on its own *)
Definition ep_utf8_each (x : sx) : sx :=
  match strs_of_sx x with
  | Some ch => sx_of_option (sx_of_list sx_of_str) (decode_each_chunk ch)
  | None => ERR
  end.

Definition dispatch_reader (code : N) (x : sx) : option sx :=
  match code with
  | 200%N => Some (ep_py_run x)
  | 201%N => Some (ep_py_rows x)
  | 202%N => Some (ep_spec_records x)
  | 203%N => Some (ep_split_lines x)
  | 204%N => Some (ep_spec_rows x)
  | 205%N => Some (ep_spec_rows_of_lines x)
  | 210%N => Some (ep_js_decoded x)
  | 211%N => Some (ep_js_stream x)
  | 212%N => Some (ep_js_bulk x)
  | 213%N => Some (ep_lines_js x)
  | 214%N => Some (ep_lines_js_bulk x)
  | 220%N => Some (ep_utf8_streaming x)
  | 221%N => Some (ep_utf8_whole x)
  | 222%N => Some (ep_utf8_encode x)
  | 223%N => Some (ep_utf8_each x)
  | _ => None
  end.
