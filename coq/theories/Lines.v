(* Lines.v — the specification of line breaking shared by the CSV writer/reader models:
   csv_utils.extract_line_from_data (first match of (?:\r\n)|\r|\n) and the declarative
   split into lines (breaks at CRLF | CR | LF, a final unterminated line is a line, no
   empty line after a final terminator). *)
From RBQL Require Import Base.

Inductive sep := SLF | SCR | SCRLF.

(* csv_utils.extract_line_from_data *)
Fixpoint extract (d : str) : option (str * sep * str) :=
  match d with
  | [] => None
  | c :: t =>
      if N.eqb c LF then Some ([], SLF, t)
      else if N.eqb c CR then
        match t with
        | c2 :: t2 => if N.eqb c2 LF then Some ([], SCRLF, t2) else Some ([], SCR, t)
        | [] => Some ([], SCR, [])
        end
      else match extract t with
           | Some (b, s, a) => Some (c :: b, s, a)
           | None => None
           end
  end.

Definition has_newline (d : str) : bool := existsb (fun c => N.eqb c LF || N.eqb c CR) d.

Fixpoint split_lines_fuel (fuel : nat) (t : str) : list str :=
  match fuel with
  | O => []
  | S f => match extract t with
           | None => match t with [] => [] | _ => [t] end
           | Some (b, _, a) => b :: split_lines_fuel f a
           end
  end.
Definition split_lines (t : str) : list str := split_lines_fuel (S (length t)) t.
