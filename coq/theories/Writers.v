(* Writers.v — the writer chain of rbql_engine.py:
     SortedWriter -> UniqWriter | UniqCountWriter -> TopWriter -> (user / CSV / table writer)
   built in the order shallow_parse_input_query builds it (Top innermost).  The innermost writer is an
   oracle w : nat -> bool giving the answer of its k-th write (true everywhere = a writer that never
   refuses; fail_at k = a consumer that goes away at its k-th write). *)
From RBQL Require Import Base Value.

Inductive dmode := DNo | DDistinct | DCount.

Record chain_cfg := { c_top : option nat; c_distinct : dmode; c_order : option bool (* Some reverse *) }.

(* events seen by the innermost writer *)
Inductive event := EvHeader (h : option (list str)) | EvWrite (r : row) (ok : bool) | EvFinish.

Record chain_st := {
  s_trace : list event;          (* reversed *)
  s_nwrites : nat;               (* number of writes the innermost writer has seen *)
  s_NW : nat;                    (* TopWriter.NW *)
  s_seen : list row;             (* UniqWriter.seen (reversed insertion order) *)
  s_counts : list (row * nat);   (* UniqCountWriter.records, insertion order *)
  s_entries : list (key * row)   (* SortedWriter.unsorted_entries, insertion order *)
}.

Definition chain_init : chain_st :=
  {| s_trace := []; s_nwrites := 0; s_NW := 0; s_seen := []; s_counts := []; s_entries := [] |}.

Section Chain.
Variable w : nat -> bool.
Variable cfg : chain_cfg.

Definition base_write (st : chain_st) (r : row) : chain_st * bool :=
  let ok := w (s_nwrites st) in
  ({| s_trace := EvWrite r ok :: s_trace st; s_nwrites := S (s_nwrites st); s_NW := s_NW st;
      s_seen := s_seen st; s_counts := s_counts st; s_entries := s_entries st |}, ok).

Definition set_header (st : chain_st) (h : option (list str)) : chain_st :=
  {| s_trace := EvHeader h :: s_trace st; s_nwrites := s_nwrites st; s_NW := s_NW st;
     s_seen := s_seen st; s_counts := s_counts st; s_entries := s_entries st |}.

Definition base_finish (st : chain_st) : chain_st :=
  {| s_trace := EvFinish :: s_trace st; s_nwrites := s_nwrites st; s_NW := s_NW st;
     s_seen := s_seen st; s_counts := s_counts st; s_entries := s_entries st |}.

(* TopWriter.write *)
Definition top_write (st : chain_st) (r : row) : chain_st * bool :=
  match c_top cfg with
  | None => base_write st r
  | Some n =>
      if Nat.leb n (s_NW st) then (st, false)
      else let '(st', ok) := base_write st r in
           if ok then ({| s_trace := s_trace st'; s_nwrites := s_nwrites st'; s_NW := S (s_NW st');
                          s_seen := s_seen st'; s_counts := s_counts st'; s_entries := s_entries st' |}, true)
           else (st', false)
  end.

Definition row_mem (r : row) (l : list row) : bool := existsb (row_eqb r) l.

Fixpoint count_incr (r : row) (l : list (row * nat)) : list (row * nat) :=
  match l with
  | [] => [(r, 1%nat)]
  | (r', n) :: t => if row_eqb r r' then (r', S n) :: t else (r', n) :: count_incr r t
  end.

(* UniqWriter.write / UniqCountWriter.write *)
Definition uniq_write (st : chain_st) (r : row) : chain_st * bool :=
  match c_distinct cfg with
  | DNo => top_write st r
  | DDistinct =>
      if row_mem r (s_seen st) then (st, true)
      else top_write {| s_trace := s_trace st; s_nwrites := s_nwrites st; s_NW := s_NW st;
                        s_seen := r :: s_seen st; s_counts := s_counts st; s_entries := s_entries st |} r
  | DCount =>
      ({| s_trace := s_trace st; s_nwrites := s_nwrites st; s_NW := s_NW st;
          s_seen := s_seen st; s_counts := count_incr r (s_counts st); s_entries := s_entries st |}, true)
  end.

(* the write of the outermost writer: SortedWriter.write(sort_key, record) or the one below it *)
Definition chain_write (st : chain_st) (k : key) (r : row) : chain_st * bool :=
  match c_order cfg with
  | None => uniq_write st r
  | Some _ =>
      ({| s_trace := s_trace st; s_nwrites := s_nwrites st; s_NW := s_NW st;
          s_seen := s_seen st; s_counts := s_counts st; s_entries := s_entries st ++ [(k, r)] |}, true)
  end.

(* the main loop offering (sort_key, record) pairs to the outermost writer until one is refused *)
Fixpoint chain_feed (st : chain_st) (rs : list (key * row)) : chain_st * bool :=
  match rs with
  | [] => (st, true)
  | (k, r) :: t => let '(st', ok) := chain_write st k r in
                   if ok then chain_feed st' t else (st', false)
  end.

(* for e in ...: if not subwriter.write(e): break *)
Fixpoint feed (wr : chain_st -> row -> chain_st * bool) (st : chain_st) (rs : list row) : chain_st :=
  match rs with
  | [] => st
  | r :: t => let '(st', ok) := wr st r in if ok then feed wr st' t else st'
  end.

(* sorted(entries, key=lambda x: x[0]): stable insertion sort on the key *)
Fixpoint insert_sorted (e : key * row) (l : list (key * row)) : list (key * row) :=
  match l with
  | [] => [e]
  | h :: t => if key_leb (fst e) (fst h) then e :: h :: t else h :: insert_sorted e t
  end.
(* fold_right inserts the elements from the last to the first; an element is placed before the
   already inserted (= later) elements with an equal key, so equal keys stay in input order *)
Definition stable_sort (l : list (key * row)) : list (key * row) :=
  fold_right insert_sorted [] l.

Definition ordered (reverse : bool) (es : list (key * row)) : list row :=
  let s := map snd (stable_sort es) in if reverse then rev s else s.

Definition count_rows (cs : list (row * nat)) : list row :=
  map (fun '(r, n) => VA (AInt (Z.of_nat n)) :: r) cs.

(* UniqCountWriter.finish / UniqWriter.finish / TopWriter.finish, ending in the innermost finish *)
Definition uniq_finish (st : chain_st) : chain_st :=
  match c_distinct cfg with
  | DCount => base_finish (feed top_write st (count_rows (s_counts st)))
  | _ => base_finish st
  end.

(* writer.finish() of the outermost writer *)
Definition chain_finish (st : chain_st) : chain_st :=
  match c_order cfg with
  | None => uniq_finish st
  | Some reverse => uniq_finish (feed uniq_write st (ordered reverse (s_entries st)))
  end.

End Chain.

Definition yes : nat -> bool := fun _ => true.
Definition fail_at (k : nat) : nat -> bool := fun i => Nat.ltb i k.   (* writes 0..k-1 succeed, write k is refused *)

(* rows accepted by the innermost writer, in order *)
Definition written (st : chain_st) : list row :=
  flat_map (fun e => match e with EvWrite r true => [r] | _ => [] end) (rev (s_trace st)).

(* ---- specification of the chain ---- *)
Fixpoint dedup_first (l : list row) (seen : list row) : list row :=
  match l with
  | [] => []
  | r :: t => if existsb (row_eqb r) seen then dedup_first t seen else r :: dedup_first t (r :: seen)
  end.

Definition multiplicity (r : row) (l : list row) : nat := length (filter (row_eqb r) l).

Definition dedup (m : dmode) (l : list row) : list row :=
  match m with
  | DNo => l
  | DDistinct => dedup_first l []
  | DCount => map (fun r => VA (AInt (Z.of_nat (multiplicity r l))) :: r) (dedup_first l [])
  end.

Definition trunc (t : option nat) (l : list row) : list row :=
  match t with None => l | Some n => firstn n l end.

Definition order_spec (o : option bool) (es : list (key * row)) : list row :=
  match o with None => map snd es | Some reverse => ordered reverse es end.

Definition chain_spec (cfg : chain_cfg) (es : list (key * row)) : list row :=
  trunc (c_top cfg) (dedup (c_distinct cfg) (order_spec (c_order cfg) es)).
