(* JsKey_Proofs.v - the JSON text of a key determines the key (JsKey.v), and where it does not.
   js_stringify_injective : on faithful values (null, booleans, integers, strings of code units, arrays of these; the FULL
       surrogate rule of well-formed JSON.stringify is covered: no restriction on the strings) equal texts mean equal values.
       Proved through a stronger statement, stringify_prefix_free: a text followed by anything that does not go on with a
       digit determines the value and what follows (the texts form a prefix code up to the digits of a number).
   js_key_faithful        : two records / key lists have the same key text exactly when they are the same list.
   js_key_nan_refuted     : [NaN] and [null] are different records with the same text.
   The string part goes through unquote_body (JsKey.v), a left inverse of quote_body. *)
From RBQL Require Import Base Parser Parser_Combine_Proofs JsKey.
Local Open Scope N_scope.

(* ------------------------------------------------------------------ hexadecimal escapes *)
Lemma hex_round : forall k, k < 16 -> hex_val (hex_digit k) = Some k.
Proof.
  intros k H.
  assert (E : k = 0 \/ k = 1 \/ k = 2 \/ k = 3 \/ k = 4 \/ k = 5 \/ k = 6 \/ k = 7 \/ k = 8 \/ k = 9 \/ k = 10 \/ k = 11 \/ k = 12 \/ k = 13 \/ k = 14 \/ k = 15) by lia.
  repeat (destruct E as [E | E]; [subst k; reflexivity|]). subst k; reflexivity.
Qed.

Lemma hex_recompose : forall c, c < 65536 ->
  ((c / 4096 * 16 + (c / 256) mod 16) * 16 + (c / 16) mod 16) * 16 + c mod 16 = c.
Proof.
  intros c H.
  pose proof (N.div_mod c 16 ltac:(lia)) as D0. pose proof (N.mod_lt c 16 ltac:(lia)) as M0.
  pose proof (N.div_mod (c / 16) 16 ltac:(lia)) as D1. pose proof (N.mod_lt (c / 16) 16 ltac:(lia)) as M1.
  pose proof (N.div_mod (c / 16 / 16) 16 ltac:(lia)) as D2. pose proof (N.mod_lt (c / 16 / 16) 16 ltac:(lia)) as M2.
  rewrite (N.div_div c 16 16) in D2, M2, D1 by lia. change (16 * 16) with 256 in *.
  rewrite (N.div_div c 256 16) in D2 by lia. change (256 * 16) with 4096 in *.
  lia.
Qed.

(* ------------------------------------------------------------------ reading one escaped unit back *)
Definition after (c : N) (x : list N) : option (list N * list N) :=
  match unquote_body x with Some (s, rest) => Some (c :: s, rest) | None => None end.

Lemma unquote_uesc : forall c x, c < 65536 -> unquote_body (uesc c ++ x) = after c x.
Proof.
  intros c x H. unfold uesc. cbn [app].
  set (a := hex_digit (c / 4096)). set (b := hex_digit ((c / 256) mod 16)). set (d := hex_digit ((c / 16) mod 16)). set (e := hex_digit (c mod 16)).
  change (unquote_body (92 :: 117 :: a :: b :: d :: e :: x)) with
    (match hex_val a, hex_val b, hex_val d, hex_val e, unquote_body x with
     | Some a, Some b, Some x, Some d, Some (s, rest) => Some ((((a * 16 + b) * 16 + x) * 16 + d) :: s, rest)
     | _, _, _, _, _ => None
     end).
  subst a b d e.
  rewrite !hex_round.
  - unfold after. destruct (unquote_body x) as [[s rest]|]; [|reflexivity]. rewrite (hex_recompose c H). reflexivity.
  - apply N.mod_lt; lia.
  - apply N.mod_lt; lia.
  - apply N.mod_lt; lia.
  - apply N.div_lt_upper_bound; lia.
Qed.

Lemma unquote_literal : forall c x, c <> 34 -> c <> 92 -> unquote_body (c :: x) = after c x.
Proof.
  intros c x H1 H2. cbn [unquote_body]. apply N.eqb_neq in H1, H2. rewrite H1, H2. reflexivity.
Qed.

Lemma unquote_unit : forall c x, c < 65536 -> unquote_body (quote_unit c ++ x) = after c x.
Proof.
  intros c x H. unfold quote_unit.
  destruct (N.eqb_spec c 8) as [->|N8]; [reflexivity|].
  destruct (N.eqb_spec c 9) as [->|N9]; [reflexivity|].
  destruct (N.eqb_spec c 10) as [->|N10]; [reflexivity|].
  destruct (N.eqb_spec c 12) as [->|N12]; [reflexivity|].
  destruct (N.eqb_spec c 13) as [->|N13]; [reflexivity|].
  destruct (N.eqb_spec c 34) as [->|N34]; [reflexivity|].
  destruct (N.eqb_spec c 92) as [->|N92]; [reflexivity|].
  destruct (N.ltb_spec c 32) as [L|L].
  - apply unquote_uesc; exact H.
  - cbn [app]. apply unquote_literal; assumption.
Qed.

(* ------------------------------------------------------------------ quote_body has a left inverse *)
Definition units_ok (s : list N) : bool := forallb (fun c => N.ltb c 65536) s.

Lemma unquote_quote_len : forall n s rest, (length s <= n)%nat -> units_ok s = true ->
  unquote_body (quote_body s ++ 34 :: rest) = Some (s, rest).
Proof.
  induction n as [|n IH]; intros s rest Hl Hu.
  - destruct s; [reflexivity | cbn [length] in Hl; lia].
  - destruct s as [|c t]; [reflexivity|].
    cbn [units_ok forallb] in Hu. apply andb_true_iff in Hu. destruct Hu as [Hc Ht]. apply N.ltb_lt in Hc.
    cbn [length] in Hl.
    assert (IHt : unquote_body (quote_body t ++ 34 :: rest) = Some (t, rest)) by (apply IH; [lia | exact Ht]).
    cbn [quote_body].
    destruct (is_high c) eqn:Hh.
    + destruct t as [|d t'].
      * rewrite unquote_uesc by exact Hc. unfold after. reflexivity.
      * destruct (is_low d) eqn:Hd.
        -- cbn [app]. unfold is_high in Hh. unfold is_low in Hd.
           apply andb_true_iff in Hh, Hd. destruct Hh as [Hh1 Hh2], Hd as [Hd1 Hd2]. apply N.leb_le in Hh1, Hh2, Hd1, Hd2.
           rewrite unquote_literal by lia. unfold after. rewrite unquote_literal by lia. unfold after.
           cbn [forallb] in Ht. apply andb_true_iff in Ht. destruct Ht as [_ Ht'].
           rewrite (IH t' rest); [reflexivity | cbn [length] in Hl; lia | exact Ht'].
        -- rewrite <- app_assoc. rewrite unquote_uesc by exact Hc. unfold after. rewrite IHt. reflexivity.
    + destruct (is_low c) eqn:Hlo.
      * rewrite <- app_assoc. rewrite unquote_uesc by exact Hc. unfold after. rewrite IHt. reflexivity.
      * rewrite <- app_assoc. rewrite unquote_unit by exact Hc. unfold after. rewrite IHt. reflexivity.
Qed.

Lemma unquote_quote : forall s rest, units_ok s = true -> unquote_body (quote_body s ++ 34 :: rest) = Some (s, rest).
Proof. intros s rest. apply (unquote_quote_len (length s)). apply Nat.le_refl. Qed.

(* ------------------------------------------------------------------ integer texts *)
Definition is_dig (c : N) : bool := N.leb 48 c && N.leb c 57.
(* the text does not go on with a digit *)
Definition nd (r : list N) : bool := match r with [] => true | c :: _ => negb (is_dig c) end.

Lemma digits_split : forall u v r1 r2,
  Forall (fun c => 48 <= c <= 57) u -> Forall (fun c => 48 <= c <= 57) v -> nd r1 = true -> nd r2 = true ->
  u ++ r1 = v ++ r2 -> u = v /\ r1 = r2.
Proof.
  induction u as [|c u IH]; intros v r1 r2 Hu Hv N1 N2 E.
  - destruct v as [|d v]; [split; [reflexivity | exact E]|].
    exfalso. cbn [app] in E. subst r1. cbn [nd] in N1. inversion Hv as [|? ? Hd _]; subst.
    unfold is_dig in N1. destruct Hd as [Hd1 Hd2]. apply N.leb_le in Hd1, Hd2. rewrite Hd1, Hd2 in N1. discriminate N1.
  - destruct v as [|d v].
    + exfalso. cbn [app] in E. subst r2. cbn [nd] in N2. inversion Hu as [|? ? Hc _]; subst.
      unfold is_dig in N2. destruct Hc as [Hc1 Hc2]. apply N.leb_le in Hc1, Hc2. rewrite Hc1, Hc2 in N2. discriminate N2.
    + cbn [app] in E. injection E as E1 E2. subst d. inversion Hu; subst. inversion Hv; subst.
      destruct (IH v r1 r2) as [A B]; try assumption. subst v. split; [reflexivity | exact B].
Qed.

Lemma dec_of_N_digits : forall n, Forall (fun c => 48 <= c <= 57) (dec_of_N n).
Proof. intro n. unfold dec_of_N. apply dec_fuel_digits. constructor. Qed.

Lemma dec_fuel_nonempty : forall f n acc, acc <> [] -> dec_fuel f n acc <> [].
Proof.
  induction f as [|f IH]; intros n acc H; [exact H|]. cbn [dec_fuel].
  destruct (N.ltb n 10); [discriminate | apply IH; discriminate].
Qed.

Lemma dec_of_N_head : forall n, exists c t, dec_of_N n = c :: t /\ 48 <= c <= 57.
Proof.
  intro n. pose proof (dec_of_N_digits n) as D.
  destruct (dec_of_N n) as [|c t] eqn:E.
  - exfalso. unfold dec_of_N in E. cbn [dec_fuel] in E. destruct (N.ltb n 10); [discriminate E|].
    revert E. apply dec_fuel_nonempty. discriminate.
  - exists c, t. split; [reflexivity|]. inversion D; assumption.
Qed.

Lemma dec_of_N_inj : forall a b, dec_of_N a = dec_of_N b -> a = b.
Proof. intros a b E. apply (f_equal N_of_digits) in E. rewrite !dec_of_N_val in E. exact E. Qed.

Lemma dec_split : forall a b r1 r2, nd r1 = true -> nd r2 = true ->
  dec_of_N a ++ r1 = dec_of_N b ++ r2 -> a = b /\ r1 = r2.
Proof.
  intros a b r1 r2 N1 N2 E. destruct (digits_split _ _ _ _ (dec_of_N_digits a) (dec_of_N_digits b) N1 N2 E) as [A B].
  split; [apply dec_of_N_inj; exact A | exact B].
Qed.

Lemma int_text_head : forall z, exists c t, int_text z = c :: t /\ (c = 45 \/ 48 <= c <= 57).
Proof.
  intros [|p|p]; cbn [int_text].
  - exists 48, []. split; [reflexivity | right; lia].
  - destruct (dec_of_N_head (N.pos p)) as [c [t [E H]]]. exists c, t. split; [exact E | right; exact H].
  - eexists _, _. split; [reflexivity | left; reflexivity].
Qed.

Lemma dec_of_N_0 : dec_of_N 0 = [48].
Proof. reflexivity. Qed.

Lemma int_text_split : forall a b r1 r2, nd r1 = true -> nd r2 = true ->
  int_text a ++ r1 = int_text b ++ r2 -> a = b /\ r1 = r2.
Proof.
  assert (Hneg : forall n r r' t, 45 :: t ++ r = dec_of_N n ++ r' -> False).
  { intros n r r' t E. destruct (dec_of_N_head n) as [c [u [E1 H]]]. rewrite E1 in E. cbn [app] in E. injection E as E2 _. lia. }
  assert (Hpos : forall p, int_text (Z.pos p) = dec_of_N (N.pos p)) by reflexivity.
  assert (H0 : int_text 0%Z = dec_of_N 0) by reflexivity.
  intros a b r1 r2 N1 N2 E.
  destruct a as [|p|p], b as [|q|q]; try rewrite !Hpos in E; try rewrite !H0 in E.
  - split; [reflexivity|]. cbn in E. injection E as E. exact E.
  - destruct (dec_split _ _ _ _ N1 N2 E) as [A B]. discriminate A.
  - exfalso. cbn [int_text app] in E. symmetry in E. exact (Hneg _ _ _ _ E).
  - destruct (dec_split _ _ _ _ N1 N2 E) as [A B]. discriminate A.
  - destruct (dec_split _ _ _ _ N1 N2 E) as [A B]. injection A as A. subst q. split; [reflexivity | exact B].
  - exfalso. cbn [int_text app] in E. symmetry in E. exact (Hneg _ _ _ _ E).
  - exfalso. cbn [int_text app] in E. exact (Hneg _ _ _ _ E).
  - exfalso. cbn [int_text app] in E. exact (Hneg _ _ _ _ E).
  - cbn [int_text app] in E. injection E as E. destruct (dec_split _ _ _ _ N1 N2 E) as [A B]. injection A as A. subst q. split; [reflexivity | exact B].
Qed.

(* ------------------------------------------------------------------ values *)
Section JvInd.
  Variable P : jv -> Prop.
  Hypothesis HNull : P JNull.
  Hypothesis HBool : forall b, P (JBool b).
  Hypothesis HInt : forall z, P (JInt z).
  Hypothesis HStr : forall s, P (JStr s).
  Hypothesis HArr : forall l, Forall P l -> P (JArr l).
  Hypothesis HNaN : P JNaN.
  Hypothesis HUndef : P JUndef.
  Hypothesis HInf : P JInf.
  Fixpoint jv_rect' (v : jv) : P v :=
    match v with
    | JNull => HNull | JBool b => HBool b | JInt z => HInt z | JStr s => HStr s
    | JArr l => HArr l ((fix go (l : list jv) : Forall P l :=
                           match l with [] => Forall_nil P | a :: l' => Forall_cons a (jv_rect' a) (go l') end) l)
    | JNaN => HNaN | JUndef => HUndef | JInf => HInf
    end.
End JvInd.

Fixpoint sep_tail (l : list jv) : list N :=
  match l with [] => [93] | b :: l' => 44 :: js_stringify b ++ sep_tail l' end.

Lemma join_sep : forall l a, join [44] (map js_stringify (a :: l)) ++ [93] = js_stringify a ++ sep_tail l.
Proof.
  induction l as [|b l IH]; intro a.
  - reflexivity.
  - change (join [44] (map js_stringify (a :: b :: l))) with (js_stringify a ++ [44] ++ join [44] (map js_stringify (b :: l))).
    rewrite <- !app_assoc. f_equal. cbn [app sep_tail]. f_equal. exact (IH b).
Qed.

Lemma stringify_arr : forall l, js_stringify (JArr l) = 91 :: match l with [] => [93] | a :: l' => js_stringify a ++ sep_tail l' end.
Proof.
  intros [|a l]; [reflexivity|].
  change (js_stringify (JArr (a :: l))) with (91 :: join [44] (map js_stringify (a :: l)) ++ [93]).
  rewrite join_sep. reflexivity.
Qed.

Lemma nd_sep_tail : forall l r, nd (sep_tail l ++ r) = true.
Proof. intros [|b l] r; reflexivity. Qed.

Definition prefix_free (v1 : jv) : Prop :=
  faithful v1 = true -> forall v2 r1 r2, faithful v2 = true -> nd r1 = true -> nd r2 = true ->
  js_stringify v1 ++ r1 = js_stringify v2 ++ r2 -> v1 = v2 /\ r1 = r2.

Lemma sep_tail_split : forall l1, Forall prefix_free l1 -> forallb faithful l1 = true ->
  forall l2 r1 r2, forallb faithful l2 = true ->
  sep_tail l1 ++ r1 = sep_tail l2 ++ r2 -> l1 = l2 /\ r1 = r2.
Proof.
  induction l1 as [|a l1 IH]; intros HP F1 l2 r1 r2 F2 E.
  - destruct l2 as [|b l2]; [|discriminate E]. cbn in E. injection E as E. split; [reflexivity | exact E].
  - destruct l2 as [|b l2]; [discriminate E|].
    cbn [sep_tail app] in E. injection E as E. rewrite <- !app_assoc in E.
    cbn [forallb] in F1, F2. apply andb_true_iff in F1, F2. destruct F1 as [Fa F1], F2 as [Fb F2].
    inversion HP as [|? ? Pa HP']; subst.
    destruct (Pa Fa b _ _ Fb (nd_sep_tail l1 r1) (nd_sep_tail l2 r2) E) as [A B]. subst b.
    destruct (IH HP' F1 l2 r1 r2 F2 B) as [C D]. subst l2. split; [reflexivity | exact D].
Qed.

Lemma quote_split : forall s1 s2 r1 r2, units_ok s1 = true -> units_ok s2 = true ->
  quote_json s1 ++ r1 = quote_json s2 ++ r2 -> s1 = s2 /\ r1 = r2.
Proof.
  intros s1 s2 r1 r2 U1 U2 E. unfold quote_json in E. cbn [app] in E. injection E as E. rewrite <- !app_assoc in E. cbn [app] in E.
  apply (f_equal unquote_body) in E. rewrite !unquote_quote in E by assumption. injection E as A B. split; assumption.
Qed.

Lemma stringify_prefix_free : forall v, prefix_free v.
Proof.
  induction v using jv_rect'; unfold prefix_free; intros F1 v2 r1 r2 F2 N1 N2 E; try discriminate F1.
  - (* null *)
    destruct v2 as [|[|]|z|s|l| | |]; try discriminate F2; try discriminate E.
    + injection E as E. split; [reflexivity | exact E].
    + exfalso. destruct (int_text_head z) as [c [t [Ez Hc]]]. cbn [js_stringify] in E. rewrite Ez in E. injection E as E1 _. lia.
  - (* bool *)
    destruct b; destruct v2 as [|[|]|z|s|l| | |]; try discriminate F2; try discriminate E;
    try (injection E as E; split; [reflexivity | exact E]);
    exfalso; destruct (int_text_head z) as [c [t [Ez Hc]]]; cbn [js_stringify] in E; rewrite Ez in E; injection E as E1 _; lia.
  - (* int *)
    destruct (int_text_head z) as [c [t [Ez Hc]]].
    destruct v2 as [|[|]|z2|s|l| | |]; try discriminate F2;
      try (exfalso; cbn [js_stringify] in E; rewrite Ez in E; injection E as E1 _; lia).
    + cbn [js_stringify] in E. destruct (int_text_split _ _ _ _ N1 N2 E) as [A B]. subst z2. split; [reflexivity | exact B].
  - (* string *)
    destruct v2 as [|[|]|z|s2|l| | |]; try discriminate F2; try discriminate E.
    + exfalso. destruct (int_text_head z) as [c [t [Ez Hc]]]. cbn [js_stringify] in E. rewrite Ez in E. injection E as E1 _. lia.
    + cbn [js_stringify] in E. destruct (quote_split _ _ _ _ F1 F2 E) as [A B]. subst s2. split; [reflexivity | exact B].
  - (* array *)
    rewrite stringify_arr in E.
    destruct v2 as [|[|]|z|s2|l2| | |]; try discriminate F2; try discriminate E.
    + exfalso. destruct (int_text_head z) as [c [t [Ez Hc]]]. cbn [js_stringify] in E. rewrite Ez in E. injection E as E1 _. lia.
    + rewrite stringify_arr in E. cbn [app] in E. injection E as E. cbn [faithful] in F1, F2.
      destruct l as [|a l], l2 as [|b l2].
      * injection E as E. split; [reflexivity | exact E].
      * exfalso. destruct b as [|[|]|z|s|l3| | |]; try discriminate F2; try discriminate E.
        -- destruct (int_text_head z) as [c [t [Ez Hc]]]. cbn [js_stringify] in E. rewrite Ez in E. injection E as E1 _. lia.
      * exfalso. destruct a as [|[|]|z|s|l3| | |]; try discriminate F1; try discriminate E.
        -- destruct (int_text_head z) as [c [t [Ez Hc]]]. cbn [js_stringify] in E. rewrite Ez in E. injection E as E1 _. lia.
      * rewrite <- !app_assoc in E. cbn [forallb] in F1, F2. apply andb_true_iff in F1, F2. destruct F1 as [Fa F1], F2 as [Fb F2].
        inversion H as [|? ? Pa HP']; subst.
        destruct (Pa Fa b _ _ Fb (nd_sep_tail l r1) (nd_sep_tail l2 r2) E) as [A B]. subst b.
        destruct (sep_tail_split l HP' F1 l2 r1 r2 F2 B) as [C D]. subst l2. split; [reflexivity | exact D].
Qed.

(* ------------------------------------------------------------------ the statements *)
Theorem js_stringify_injective : forall v1 v2, faithful v1 = true -> faithful v2 = true ->
  js_stringify v1 = js_stringify v2 -> v1 = v2.
Proof.
  intros v1 v2 F1 F2 E.
  assert (E' : js_stringify v1 ++ [] = js_stringify v2 ++ []) by (rewrite !app_nil_r; exact E).
  destruct (stringify_prefix_free v1 F1 v2 [] [] F2 eq_refl eq_refl E') as [A _]. exact A.
Qed.

(* records and key lists: the key text identifies exactly the equal tuples *)
Theorem js_key_faithful : forall r1 r2 : list jv, forallb faithful r1 = true -> forallb faithful r2 = true ->
  (js_key r1 = js_key r2 <-> r1 = r2).
Proof.
  intros r1 r2 F1 F2. split.
  - intro E. assert (A : JArr r1 = JArr r2) by (apply js_stringify_injective; assumption). injection A as A. exact A.
  - intros ->. reflexivity.
Qed.

Corollary js_key_distinct : forall r1 r2 : list jv, forallb faithful r1 = true -> forallb faithful r2 = true ->
  r1 <> r2 -> js_key r1 <> js_key r2.
Proof. intros r1 r2 F1 F2 H E. apply H. apply (js_key_faithful r1 r2 F1 F2). exact E. Qed.

(* NaN, undefined and the infinities all print as null: the text no longer identifies the record *)
Theorem js_key_nan_refuted : exists v1 v2, v1 <> v2 /\ js_stringify v1 = js_stringify v2.
Proof. exists (JArr [JNaN]), (JArr [JNull]). split; [discriminate | vm_compute; reflexivity]. Qed.

Theorem js_key_unfaithful_collisions :
  js_key [JNaN] = js_key [JNull] /\ js_key [JUndef] = js_key [JNull] /\ js_key [JInf] = js_key [JNull].
Proof. vm_compute. repeat split. Qed.
