(* Update_Proofs.v — UPDATE: one record out per record in, same width, only assigned fields change,
   right-hand sides see the original record, NU counts updated records (C05) *)
From RBQL Require Import Base Value Expr Writers Writers_Proofs Join Agg Engine Spec Engine_Proofs.

Section U.
Variable expr : Type.
Variable eval : env -> expr -> res val.
Notation query := (query expr).

Lemma set_nth_length : forall (r : row) i v r', set_nth r i v = Some r' -> length r' = length r.
Proof.
  induction r as [|x r IH]; intros i v r' H; [destruct i; discriminate|].
  destruct i as [|i]; cbn in H.
  - injection H as <-. reflexivity.
  - destruct (set_nth r i v) as [t|] eqn:E; [|discriminate]. injection H as <-. cbn. f_equal. eapply IH; eassumption.
Qed.

Lemma set_nth_none : forall (r : row) i v, set_nth r i v = None <-> length r <= i.
Proof.
  induction r as [|x r IH]; intros i v; cbn.
  - split; [intros _; lia | destruct i; reflexivity].
  - destruct i as [|i]; [split; [discriminate | lia]|].
    specialize (IH i v). destruct (set_nth r i v) eqn:E; split; intros H.
    + discriminate.
    + exfalso. assert (H0 : length r <= i) by lia. apply IH in H0. discriminate.
    + assert (H0 : length r <= i) by (apply IH; reflexivity). lia.
    + reflexivity.
Qed.

Lemma set_nth_nth : forall (r : row) i v r' j d, set_nth r i v = Some r' ->
  nth j r' d = if Nat.eqb j i then v else nth j r d.
Proof.
  induction r as [|x r IH]; intros i v r' j d H; [destruct i; discriminate|].
  destruct i as [|i]; cbn in H.
  - injection H as <-. destruct j; reflexivity.
  - destruct (set_nth r i v) as [t|] eqn:E; [|discriminate]. injection H as <-.
    destruct j as [|j]; [reflexivity|]. cbn. apply (IH i v t j d E).
Qed.

Lemma apply_assigns_length en : forall asg up r, apply_assigns eval en up asg = Ok r -> length r = length up.
Proof.
  induction asg as [|[i e] asg IH]; intros up r H; cbn in H.
  - injection H as <-. reflexivity.
  - apply bind_ok in H. destruct H as [v [Hv H]]. destruct (set_nth up i v) as [up'|] eqn:E; [|discriminate].
    rewrite (IH up' r H). eapply set_nth_length; eassumption.
Qed.

(* field j after the assignments: untouched unless assigned; otherwise the last assignment's value, evaluated on en *)
Lemma apply_assigns_nth en : forall asg up r j, apply_assigns eval en up asg = Ok r ->
  Ok (nth j r VNone) = last_assign expr eval en asg j (Ok (nth j up VNone)).
Proof.
  induction asg as [|[i e] asg IH]; intros up r j H; cbn in H.
  - injection H as <-. reflexivity.
  - apply bind_ok in H. destruct H as [v [Hv H]]. destruct (set_nth up i v) as [up'|] eqn:E; [|discriminate].
    cbn [last_assign]. rewrite (IH up' r j H). rewrite (set_nth_nth up i v up' j VNone E).
    destruct (Nat.eqb j i); [rewrite Hv|]; reflexivity.
Qed.

Lemma last_assign_untouched en : forall asg j cur, ~ In j (map fst asg) -> last_assign expr eval en asg j cur = cur.
Proof.
  induction asg as [|[i e] asg IH]; intros j cur H; [reflexivity|]. cbn in *.
  destruct (Nat.eqb_spec j i); [subst; exfalso; apply H; left; reflexivity|]. apply IH. intros Hin. apply H. right. assumption.
Qed.

(* a bad target index fails with BadField, whatever the other assignments are *)
Lemma apply_assigns_bad en : forall asg up, 
  (forall i e, In (i, e) asg -> exists v, eval en e = Ok v) ->
  (exists i e, In (i, e) asg /\ length up <= i) ->
  exists i, apply_assigns eval en up asg = Err (XBadField i) /\ length up <= i.
Proof.
  induction asg as [|[i e] asg IH]; intros up Hev [i0 [e0 [Hin Hlen]]]; [contradiction|].
  cbn [apply_assigns]. destruct (Hev i e (or_introl eq_refl)) as [v Hv]. rewrite Hv. cbn [bind].
  destruct (set_nth up i v) as [up'|] eqn:E.
  - assert (Hl : length up' = length up) by (eapply set_nth_length; eassumption).
    destruct Hin as [Heq | Hin].
    + injection Heq as -> ->. assert (Hn : set_nth up i0 v = None) by (apply set_nth_none; assumption). congruence.
    + destruct (IH up') as [i1 [H1 H2]].
      * intros i' e' Hin'. apply (Hev i' e'). right. assumption.
      * exists i0, e0. split; [assumption | lia].
      * exists i1. split; [assumption | lia].
  - exists i. split; [reflexivity|]. apply (set_nth_none up i v). assumption.
Qed.

Section Q.
Variable q : query.
Variable asg : list (nat * expr).
Hypothesis Hk : q_kind q = QUpdate asg.
Hypothesis Ho : q_order q = None.
Hypothesis Hd : q_distinct q = DNo.
Hypothesis Ht : q_top q = None.

Let cfg := cfg_of q.

Lemma cfg_plain_write w st k r : chain_write w cfg st k r = base_write w st r.
Proof. unfold chain_write, cfg, cfg_of. cbn. rewrite Ho. cbn. unfold uniq_write. cbn. rewrite Hd. unfold top_write. cbn. rewrite Ht. reflexivity. Qed.

(* one record, updated and written, for a writer that never refuses *)
Lemma process_record_update jm ls nr a b matched r nu' :
  update_partner expr q jm nr a = Ok (b, matched) ->
  update_row expr eval q asg nr a b matched (l_nu ls) = Ok (r, nu') ->
  exists ls1, process_record eval yes q jm ls nr a = (ls1, Continue)
              /\ written (l_chain ls1) = written (l_chain ls) ++ [r] /\ l_nu ls1 = nu' /\ l_agg ls1 = l_agg ls.
Proof.
  intros Hp Hr. unfold process_record. rewrite Hk. unfold update_partner in Hp. unfold update_row in Hr.
  assert (Hpu : forall b0 m0, (b0, m0) = (b, matched) ->
            exists ls1, process_update eval yes q ls nr a b0 m0 asg = (ls1, Continue)
                        /\ written (l_chain ls1) = written (l_chain ls) ++ [r] /\ l_nu ls1 = nu' /\ l_agg ls1 = l_agg ls).
  { intros b0 m0 Heq. injection Heq as -> ->. unfold process_update. unfold env_of in Hr.
    apply bind_ok in Hr. destruct Hr as [ok [Hok Hr]]. rewrite Hok. destruct ok.
    - apply bind_ok in Hr. destruct Hr as [r' [Hr' Hr]]. injection Hr as <- <-. rewrite Hr'.
      fold cfg. rewrite cfg_plain_write. unfold base_write, yes. eexists. split; [reflexivity|].
      cbn [l_chain l_nu l_agg]. split; [|split; reflexivity].
      unfold written. cbn [s_trace rev]. rewrite flat_map_app. cbn. reflexivity.
    - injection Hr as <- <-. fold cfg. rewrite cfg_plain_write. unfold base_write, yes. eexists. split; [reflexivity|].
      cbn [l_chain l_nu l_agg]. split; [|split; reflexivity].
      unfold written. cbn [s_trace rev]. rewrite flat_map_app. cbn. reflexivity. }
  destruct (q_join q) as [js|]; [destruct jm as [m|]|].
  - apply bind_ok in Hp. destruct Hp as [k [Hkey Hp]]. apply bind_ok in Hp. destruct Hp as [ms [Hms Hp]].
    rewrite Hkey. cbn [bind]. rewrite Hms. destruct ms as [|b1 [|b2 ms]]; try discriminate; injection Hp as <- <-; apply Hpu; reflexivity.
  - injection Hp as <- <-. apply Hpu; reflexivity.
  - injection Hp as <- <-. apply Hpu; reflexivity.
Qed.

(* a failing record *)
Lemma process_record_update_error jm ls nr a e :
  update_record_error expr eval q asg jm nr (l_nu ls) a = Some e ->
  exists ls1, process_record eval yes q jm ls nr a = (ls1, Fail e) /\ l_chain ls1 = l_chain ls.
Proof.
  unfold update_record_error. intros H. unfold process_record. rewrite Hk. unfold update_partner in H.
  assert (Hpu : forall b0 m0, (match update_row expr eval q asg nr a b0 m0 (l_nu ls) with Err e0 => Some e0 | Ok _ => None end) = Some e ->
            exists ls1, process_update eval yes q ls nr a b0 m0 asg = (ls1, Fail e) /\ l_chain ls1 = l_chain ls).
  { intros b0 m0 Hr. unfold update_row, env_of in Hr. unfold process_update.
    destruct (if m0 then where_ok eval q _ else Ok false) as [[|]|e1].
    - cbn [bind] in Hr. destruct (apply_assigns eval _ _ asg) as [r'|e2]; [discriminate|]. injection Hr as ->.
      eexists. split; reflexivity.
    - discriminate.
    - injection Hr as ->. eexists. split; reflexivity. }
  destruct (q_join q) as [js|]; [destruct jm as [m|]|].
  - destruct (lhs_key (j_lhs js) nr a) as [k|e1]; cbn [bind] in *.
    + destruct (get_rhs (j_kind js) m k) as [ms|e2]; cbn [bind] in *.
      * destruct ms as [|b1 [|b2 ms]]; cbn [fst snd] in H; [apply Hpu; assumption | apply Hpu; assumption|].
        injection H as <-. exists ls. split; reflexivity.
      * injection H as <-. exists ls. split; reflexivity.
    + injection H as <-. exists ls. split; reflexivity.
  - cbn [fst snd] in H. apply Hpu; assumption.
  - cbn [fst snd] in H. apply Hpu; assumption.
Qed.

(* a prefix of records updated and written; the loop continues with the rest *)
Lemma main_loop_update_app jm : forall A1 ls nr rows nu' A2,
  update_all_nu expr eval q asg jm nr (l_nu ls) A1 = Ok (rows, nu') ->
  exists ls1, main_loop eval yes q jm ls nr (A1 ++ A2) = main_loop eval yes q jm ls1 (nr + length A1) A2
              /\ written (l_chain ls1) = written (l_chain ls) ++ rows /\ l_nu ls1 = nu' /\ l_agg ls1 = l_agg ls.
Proof.
  induction A1 as [|a A1 IH]; intros ls nr rows nu' A2 H.
  - cbn in H. injection H as <- <-. exists ls. cbn. rewrite app_nil_r, Nat.add_0_r. repeat split.
  - cbn [update_all_nu] in H. apply bind_ok in H. destruct H as [[b matched] [Hp H]].
    apply bind_ok in H. destruct H as [[r nu1] [Hr H]]. apply bind_ok in H. destruct H as [[rs nu2] [Hrs H]]. injection H as <- <-.
    cbn [fst snd] in *. cbn [app main_loop].
    destruct (process_record_update jm ls (S nr) a b matched r nu1 Hp Hr) as [ls1 [H1 [H2 [H3 H4]]]]. rewrite H1.
    subst nu1. destruct (IH ls1 (S nr) rs nu2 A2 Hrs) as [ls2 [L1 [L2 [L3 L4]]]].
    exists ls2. rewrite L1. split; [f_equal; cbn; lia|]. split; [rewrite L2, H2, <- app_assoc; reflexivity|].
    split; [assumption | congruence].
Qed.

Lemma main_loop_update jm : forall A ls nr rows,
  update_all expr eval q asg jm nr (l_nu ls) A = Ok rows ->
  exists ls', main_loop eval yes q jm ls nr A = (ls', nr + length A, None)
              /\ written (l_chain ls') = written (l_chain ls) ++ rows /\ l_agg ls' = l_agg ls.
Proof.
  intros A ls nr rows H. unfold update_all in H. apply bind_ok in H. destruct H as [[rs nu'] [H H2]]. injection H2 as <-.
  destruct (main_loop_update_app jm A ls nr rs nu' [] H) as [ls1 [L1 [L2 [L3 L4]]]].
  rewrite app_nil_r in L1. exists ls1. rewrite L1. cbn. repeat split; assumption.
Qed.

(* the first record whose update fails stops the query with that record's number; earlier records are written *)
Lemma main_loop_update_first_offender jm A1 a A2 ls nr rows nu' e :
  update_all_nu expr eval q asg jm nr (l_nu ls) A1 = Ok (rows, nu') ->
  update_record_error expr eval q asg jm (S (nr + length A1)) nu' a = Some e ->
  exists ls', main_loop eval yes q jm ls nr (A1 ++ a :: A2) = (ls', S (nr + length A1), Some (classify (S (nr + length A1)) e))
              /\ written (l_chain ls') = written (l_chain ls) ++ rows.
Proof.
  intros H He. destruct (main_loop_update_app jm A1 ls nr rows nu' (a :: A2) H) as [ls1 [L1 [L2 [L3 L4]]]].
  rewrite L1. cbn [main_loop]. rewrite <- L3 in He.
  destruct (process_record_update_error jm ls1 (S (nr + length A1)) a e He) as [ls2 [P1 P2]]. rewrite P1.
  exists ls2. split; [reflexivity|]. rewrite P2. assumption.
Qed.

End Q.

Theorem run_update (q : query) asg hdr A B jm rows :
  q_kind q = QUpdate asg -> q_order q = None -> q_distinct q = DNo -> q_top q = None -> q_group q = None ->
  join_map_of expr q B = Some jm ->
  update_all expr eval q asg jm 0 0 A = Ok rows ->
  let o := run eval yes q hdr A B in
  o_error o = None /\ written (o_chain o) = rows /\ o_pulls o = length A.
Proof.
  intros Hk Ho Hd Ht Hg Hjm Hu. unfold run.
  assert (Hst : static_check q = None).
  { unfold static_check. rewrite Ho, Hg. cbn. rewrite Hk. destruct (q_join q); reflexivity. }
  rewrite Hst. unfold join_map_of in Hjm.
  assert (Hagg : is_agg q = false).
  { unfold is_agg, has_agg_item. rewrite Hg, Hk. reflexivity. }
  set (ls0 := {| l_chain := set_header chain_init hdr; l_agg := None; l_nu := 0 |}).
  assert (Hfin : forall ls' n, l_agg ls' = None -> written (l_chain ls') = rows ->
            let '(st, ferr) := finish yes q ls' in
            o_error {| o_chain := st; o_pulls := n; o_error := ferr |} = None
            /\ written (o_chain {| o_chain := st; o_pulls := n; o_error := ferr |}) = rows
            /\ o_pulls {| o_chain := st; o_pulls := n; o_error := ferr |} = n).
  { intros ls' n Ha Hw. unfold finish. rewrite Ha. cbn. unfold chain_finish, cfg_of. cbn. rewrite Ho. cbn.
    unfold uniq_finish. cbn. rewrite Hd. rewrite written_base_finish. repeat split. assumption. }
  assert (Hagg_keep : forall jm0 A0 ls nr, l_agg ls = None ->
            l_agg (fst (fst (main_loop eval yes q jm0 ls nr A0))) = None).
  { intros jm0. induction A0 as [|a A0 IH]; intros ls nr Hl; [exact Hl|]. cbn [main_loop].
    assert (Hp : l_agg (fst (process_record eval yes q jm0 ls (S nr) a)) = None).
    { unfold process_record. rewrite Hk.
      assert (Hu2 : forall b m0, l_agg (fst (process_update eval yes q ls (S nr) a b m0 asg)) = None).
      { intros b m0. unfold process_update.
        destruct (if m0 then where_ok eval q _ else Ok false) as [[|]|]; cbn; try assumption.
        - destruct (apply_assigns eval _ _ asg); [destruct (chain_write _ _ _ _ _) | ]; cbn; assumption.
        - destruct (chain_write _ _ _ _ _); cbn; assumption. }
      destruct (q_join q); [destruct jm0|]; try apply Hu2.
      destruct (bind _ _) as [[|b1 [|b2 l]]|]; try apply Hu2; cbn; assumption. }
    destruct (process_record eval yes q jm0 ls (S nr) a) as [ls1 [| |e]]; cbn [fst] in *; try assumption.
    apply IH. assumption. }
  destruct (q_join q) as [js|] eqn:Ej.
  - destruct (build (j_rhs js) B) as [m|bnr] eqn:Eb; [|discriminate]. injection Hjm as <-.
    destruct (main_loop_update q asg Hk Ho Hd Ht (Some (widen (j_bhdr js) m)) A ls0 0 rows Hu) as [ls' [L1 [L2 _]]].
    pose proof (Hagg_keep (Some (widen (j_bhdr js) m)) A ls0 0 eq_refl) as Hl. rewrite L1 in *. cbn [fst] in Hl.
    unfold ls0 in L2. cbn [l_chain] in L2. rewrite written_set_header in L2.
    change (written chain_init) with (@nil row) in L2. cbn [app] in L2.
    specialize (Hfin ls' (0 + length A) Hl L2). destruct (finish yes q ls'). exact Hfin.
  - injection Hjm as <-.
    destruct (main_loop_update q asg Hk Ho Hd Ht None A ls0 0 rows Hu) as [ls' [L1 [L2 _]]].
    pose proof (Hagg_keep None A ls0 0 eq_refl) as Hl. rewrite L1 in *. cbn [fst] in Hl.
    unfold ls0 in L2. cbn [l_chain] in L2. rewrite written_set_header in L2.
    change (written chain_init) with (@nil row) in L2. cbn [app] in L2.
    specialize (Hfin ls' (0 + length A) Hl L2). destruct (finish yes q ls'). exact Hfin.
Qed.

(* shape of update_all's result *)
Lemma update_row_length (q : query) asg nr a b m nu r nu' :
  update_row expr eval q asg nr a b m nu = Ok (r, nu') -> length r = length a.
Proof.
  unfold update_row. intros H. apply bind_ok in H. destruct H as [ok [_ H]]. destruct ok.
  - apply bind_ok in H. destruct H as [r' [Hr H]]. injection H as <- <-.
    rewrite (apply_assigns_length _ _ _ _ Hr). apply map_length.
  - injection H as <- <-. apply map_length.
Qed.

Lemma update_all_nu_shape (q : query) asg jm : forall A nr nu rows nu',
  update_all_nu expr eval q asg jm nr nu A = Ok (rows, nu') -> Forall2 (fun r a => length r = length a) rows A.
Proof.
  induction A as [|a A IH]; intros nr nu rows nu' H.
  - cbn in H. injection H as <- <-. constructor.
  - cbn [update_all_nu] in H. apply bind_ok in H. destruct H as [[b m] [_ H]].
    apply bind_ok in H. destruct H as [[r nu1] [Hr H]]. apply bind_ok in H. destruct H as [[rs nu2] [Hrs H]]. injection H as <- <-.
    constructor; [eapply update_row_length; eassumption | eapply IH; eassumption].
Qed.

Lemma update_all_shape (q : query) asg jm A nr nu rows :
  update_all expr eval q asg jm nr nu A = Ok rows -> Forall2 (fun r a => length r = length a) rows A.
Proof.
  unfold update_all. intros H. apply bind_ok in H. destruct H as [[rs nu'] [H H2]]. injection H2 as <-.
  eapply update_all_nu_shape; eassumption.
Qed.

End U.
