(* Value_Proofs.v — equality on atoms/values/rows is an equivalence; order facts for keys *)
From RBQL Require Import Base Value.
From Coq Require Import QArith.

Lemma str_eqb_refl s : str_eqb s s = true.
Proof. induction s as [|c s IH]; cbn; [reflexivity | rewrite N.eqb_refl, IH; reflexivity]. Qed.

Lemma str_eqb_true a : forall b, str_eqb a b = true <-> a = b.
Proof.
  induction a as [|x a IH]; intros [|y b]; cbn; split; intros H; try reflexivity; try discriminate.
  - apply andb_true_iff in H. destruct H as [H1 H2]. apply N.eqb_eq in H1. apply IH in H2. subst. reflexivity.
  - injection H as -> ->. apply andb_true_iff. split; [apply N.eqb_refl | apply IH; reflexivity].
Qed.

(* the equality class of an atom *)
Inductive acls := KNone | KStr (s : str) | KNum (q : Q).
Definition cls (a : atom) : acls :=
  match a with
  | ANone => KNone | AStr s => KStr s
  | ABool b => KNum (inject_Z (Z_of_bool b)) | AInt z => KNum (inject_Z z) | AFlt q => KNum q
  end.
Definition cls_eqb (x y : acls) : bool :=
  match x, y with
  | KNone, KNone => true
  | KStr s, KStr t => str_eqb s t
  | KNum p, KNum q => Qeq_bool p q
  | _, _ => false
  end.

Lemma atom_eqb_cls a b : atom_eqb a b = cls_eqb (cls a) (cls b).
Proof. destruct a, b; reflexivity. Qed.

Lemma cls_eqb_refl x : cls_eqb x x = true.
Proof. destruct x; cbn; [reflexivity | apply str_eqb_refl | apply Qeq_bool_iff; reflexivity]. Qed.

Lemma cls_eqb_sym x y : cls_eqb x y = cls_eqb y x.
Proof.
  destruct x, y; cbn; try reflexivity.
  - destruct (str_eqb s s0) eqn:E.
    + apply str_eqb_true in E. subst. symmetry. apply str_eqb_refl.
    + destruct (str_eqb s0 s) eqn:E2; [|reflexivity]. apply str_eqb_true in E2. subst. rewrite str_eqb_refl in E. discriminate.
  - destruct (Qeq_bool q q0) eqn:E.
    + apply Qeq_bool_iff in E. symmetry. apply Qeq_bool_iff. symmetry. assumption.
    + destruct (Qeq_bool q0 q) eqn:E2; [|reflexivity]. apply Qeq_bool_iff in E2. symmetry in E2. apply Qeq_bool_iff in E2. congruence.
Qed.

Lemma cls_eqb_trans x y z : cls_eqb x y = true -> cls_eqb y z = true -> cls_eqb x z = true.
Proof.
  destruct x, y, z; cbn; intros H1 H2; try discriminate; try reflexivity.
  - apply str_eqb_true in H1. apply str_eqb_true in H2. subst. apply str_eqb_refl.
  - apply Qeq_bool_iff in H1. apply Qeq_bool_iff in H2. apply Qeq_bool_iff. rewrite H1. assumption.
Qed.

Lemma atom_eqb_refl a : atom_eqb a a = true.
Proof. rewrite atom_eqb_cls. apply cls_eqb_refl. Qed.
Lemma atom_eqb_sym a b : atom_eqb a b = atom_eqb b a.
Proof. rewrite !atom_eqb_cls. apply cls_eqb_sym. Qed.
Lemma atom_eqb_trans a b c : atom_eqb a b = true -> atom_eqb b c = true -> atom_eqb a c = true.
Proof. rewrite !atom_eqb_cls. apply cls_eqb_trans. Qed.

Lemma atoms_eqb_refl l : atoms_eqb l l = true.
Proof. induction l as [|a l IH]; cbn; [reflexivity | rewrite atom_eqb_refl, IH; reflexivity]. Qed.
Lemma atoms_eqb_sym a : forall b, atoms_eqb a b = atoms_eqb b a.
Proof. induction a as [|x a IH]; intros [|y b]; cbn; try reflexivity. rewrite atom_eqb_sym, IH. reflexivity. Qed.
Lemma atoms_eqb_trans a : forall b c, atoms_eqb a b = true -> atoms_eqb b c = true -> atoms_eqb a c = true.
Proof.
  induction a as [|x a IH]; intros [|y b] [|z c]; cbn; intros H1 H2; try discriminate; try reflexivity.
  apply andb_true_iff in H1. apply andb_true_iff in H2. destruct H1 as [A1 A2], H2 as [B1 B2].
  apply andb_true_iff. split; [eapply atom_eqb_trans; eassumption | eapply IH; eassumption].
Qed.

Lemma val_eqb_refl v : val_eqb v v = true.
Proof. destruct v; cbn; [apply atom_eqb_refl | apply atoms_eqb_refl]. Qed.
Lemma val_eqb_sym a b : val_eqb a b = val_eqb b a.
Proof. destruct a, b; cbn; try reflexivity; [apply atom_eqb_sym | apply atoms_eqb_sym]. Qed.
Lemma val_eqb_trans a b c : val_eqb a b = true -> val_eqb b c = true -> val_eqb a c = true.
Proof.
  destruct a, b, c; cbn; intros H1 H2; try discriminate; [eapply atom_eqb_trans | eapply atoms_eqb_trans]; eassumption.
Qed.

Lemma row_eqb_refl r : row_eqb r r = true.
Proof. induction r as [|a l IH]; cbn; [reflexivity | rewrite val_eqb_refl, IH; reflexivity]. Qed.
Lemma row_eqb_sym a : forall b, row_eqb a b = row_eqb b a.
Proof. induction a as [|x a IH]; intros [|y b]; cbn; try reflexivity. rewrite val_eqb_sym, IH. reflexivity. Qed.
Lemma row_eqb_trans a : forall b c, row_eqb a b = true -> row_eqb b c = true -> row_eqb a c = true.
Proof.
  induction a as [|x a IH]; intros [|y b] [|z c]; cbn; intros H1 H2; try discriminate; try reflexivity.
  apply andb_true_iff in H1. apply andb_true_iff in H2. destruct H1 as [A1 A2], H2 as [B1 B2].
  apply andb_true_iff. split; [eapply val_eqb_trans; eassumption | eapply IH; eassumption].
Qed.

(* rewriting under row_eqb *)
Lemma row_eqb_left a b c : row_eqb a b = true -> row_eqb a c = row_eqb b c.
Proof.
  intros H. destruct (row_eqb b c) eqn:E.
  - eapply row_eqb_trans; eassumption.
  - destruct (row_eqb a c) eqn:E2; [|reflexivity].
    rewrite row_eqb_sym in H. rewrite (row_eqb_trans _ _ _ H E2) in E. discriminate.
Qed.
