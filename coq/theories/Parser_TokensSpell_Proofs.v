(* Parser_TokensSpell_Proofs.v — C08_token_spelling, part 6: what the rest of the engine reads off the action record
   ([norm]: the join KIND instead of the join spelling, the record limit of find_top instead of TOP and LIMIT), the
   sigma-independent form of the main theorem and the clauses of property C08 as corollaries. *)
From RBQL Require Import Base Parser Parser_Spelling_Proofs Parser_Tokens_Proofs Parser_TokensLocate_Proofs
  Parser_TokensRender_Proofs Parser_TokensQuery_Proofs Parser_TokensMain_Proofs.
Local Open Scope N_scope.

(* joiner_type of shallow_parse_input_query: JOIN, INNER JOIN -> InnerJoiner; LEFT JOIN, LEFT OUTER JOIN -> LeftJoiner;
   STRICT LEFT JOIN -> StrictLeftJoiner *)
Definition jk_of (st : stmt) : jkind :=
  match st with
  | STRICT_LEFT_JOIN => JStrict
  | LEFT_OUTER_JOIN | LEFT_JOIN => JLeft
  | _ => JInner
  end.

(* the action record as the engine uses it: a_top and a_limit are read only by find_top (and only for SELECT
   queries), the join spelling only through joiner_type *)
Record nactions := mkN {
  n_with : option str; n_select : option str; n_distinct : bool; n_distinct_count : bool; n_update : option str;
  n_where : option str; n_order : option (str * bool); n_group : option str; n_except : option str;
  n_join : option (jkind * str); n_from : option str;
  n_top : res (option Z) }.
Definition norm (fl : lang) (a : actions) : nactions :=
  mkN (a_with a) (a_select a) (a_distinct a) (a_distinct_count a) (a_update a) (a_where a) (a_order a) (a_group a)
    (a_except a) (match a_join a with Some (st, t) => Some (jk_of st, t) | None => None end) (a_from a)
    (match a_select a with Some _ => find_top fl a | None => Ok None end).
Definition norm_res (fl : lang) (r : res actions) : res nactions :=
  match r with Ok a => Ok (norm fl a) | Err e => Err e end.

(* the meaning of an abstract query: no spelling choice in it *)
Definition nact (fl : lang) (q : aq) : nactions :=
  mkN None
    (match q_kind q with QSelect _ _ _ sel => Some sel | QUpdate _ => None end)
    (match q_kind q with QSelect _ d _ _ => d | _ => false end)
    (match q_kind q with QSelect _ d c _ => d && c | _ => false end)
    (match q_kind q with QUpdate asg => Some asg | _ => None end)
    (q_where q) (q_order q) (q_group q) (q_except q) (q_join q) (q_from q)
    (match q_kind q with
     | QSelect top _ _ _ =>
         match q_limit q with
         | Some t => match parse_int fl t with Some z => Ok (Some z) | None => Err E_limit_not_int end
         | None => Ok (match top with Some ds => Some (Z.of_N (N_of_digits ds)) | None => None end)
         end
     | QUpdate _ => Ok None
     end).

Lemma norm_actions_of : forall fl s q, norm fl (actions_of s q) = nact fl q.
Proof.
  intros fl s q. unfold norm, nact, actions_of, find_top.
  cbn [a_with a_select a_top a_distinct a_distinct_count a_update a_where a_order a_group a_limit a_except a_join a_from].
  f_equal.
  - destruct (q_join q) as [[jk t]|]; [|reflexivity]. destruct jk; cbn [jstmt]; [destruct (s_inner s) | destruct (s_outer s) |]; reflexivity.
  - destruct (q_kind q) as [top d c sel|asg]; [|reflexivity]. destruct (q_limit q); [reflexivity|]. destruct top; reflexivity.
Qed.

(* C08_token_spelling: the result does NOT depend on sigma *)
Theorem token_spelling_norm : forall fl with_from s q, wf_aq fl with_from q = true -> sigma_ok s q ->
  norm_res fl (separate_actions fl with_from (render s q)) = Ok (nact fl q).
Proof. intros fl wf s q W SO. rewrite (token_spelling fl wf s q W SO). cbn [norm_res]. rewrite norm_actions_of. reflexivity. Qed.
Print Assumptions token_spelling_norm.

(* any two spellings of the same query: clause order, letter case of every keyword, number of spaces, JOIN / INNER
   JOIN, LEFT JOIN / LEFT OUTER JOIN, an explicit ASC, UPDATE SET / UPDATE *)
Theorem spelling_invariant : forall fl with_from s1 s2 q, wf_aq fl with_from q = true -> sigma_ok s1 q -> sigma_ok s2 q ->
  norm_res fl (separate_actions fl with_from (render s1 q)) = norm_res fl (separate_actions fl with_from (render s2 q)).
Proof. intros. rewrite !token_spelling_norm by assumption. reflexivity. Qed.
Print Assumptions spelling_invariant.

(* when the two spellings also agree on the JOIN words, the raw action records are equal *)
Theorem spelling_invariant_raw : forall fl with_from s1 s2 q, wf_aq fl with_from q = true -> sigma_ok s1 q -> sigma_ok s2 q ->
  s_inner s1 = s_inner s2 -> s_outer s1 = s_outer s2 ->
  separate_actions fl with_from (render s1 q) = separate_actions fl with_from (render s2 q).
Proof.
  intros fl wf s1 s2 q W S1 S2 EI EO. rewrite !token_spelling by assumption. unfold actions_of, jstmt. rewrite EI, EO. reflexivity.
Qed.
Print Assumptions spelling_invariant_raw.

(* ------------------------------------------------------------------ the clauses of C08, one by one *)
From Coq Require Import Permutation.

Definition with_order (s : sigma) (l : list ck) : sigma :=
  mkSigma l (s_ws s) (s_lead s) (s_gaps s) (s_sp s) (s_inner s) (s_outer s) (s_hw s) (s_hk s) (s_top s) (s_top_g s) (s_top_sp s)
    (s_dist s) (s_dist_g s) (s_count s) (s_dist_sp s) (s_set s) (s_set_w s) (s_set_sp s) (s_asc s) (s_dir_w s) (s_dir_g s).

Lemma sigma_ok_order : forall s q l, sigma_ok s q -> Permutation (s_order s) l -> sigma_ok (with_order s l) q.
Proof.
  intros s q l [ND [PR [WS R]]] P. unfold sigma_ok. cbn [with_order s_order s_ws s_hw s_dir_w].
  split; [apply (Permutation_NoDup P ND)|]. split.
  - intro k. rewrite <- PR. split; [apply Permutation_in; apply Permutation_sym; exact P | apply Permutation_in; exact P].
  - split; [|exact R]. intros k I. apply WS. apply (Permutation_in k (Permutation_sym P) I).
Qed.

(* the order of the clauses after SELECT / UPDATE: any permutation gives the same action record *)
Theorem clause_order_invariant : forall fl with_from s q l, wf_aq fl with_from q = true -> sigma_ok s q ->
  Permutation (s_order s) l ->
  separate_actions fl with_from (render (with_order s l) q) = separate_actions fl with_from (render s q).
Proof.
  intros fl wf s q l W SO P. apply spelling_invariant_raw; try assumption; try reflexivity. apply sigma_ok_order; assumption.
Qed.
Print Assumptions clause_order_invariant.

(* the number of spaces wherever the regexes allow more than one: before a keyword, between the words of a keyword,
   after a keyword, after SELECT / UPDATE, around TOP n, DISTINCT, COUNT, SET, before ASC / DESC *)
Definition respace (s : sigma) (lead : ck -> nat) (gaps : ck -> list nat) (sp : ck -> nat)
  (hk tg tsp dg dsp ssp og : nat) : sigma :=
  mkSigma (s_order s) (s_ws s) lead gaps sp (s_inner s) (s_outer s) (s_hw s) hk (s_top s) tg tsp
    (s_dist s) dg (s_count s) dsp (s_set s) (s_set_w s) ssp (s_asc s) (s_dir_w s) og.

Theorem extra_spaces_invariant : forall fl with_from s q lead gaps sp hk tg tsp dg dsp ssp og,
  wf_aq fl with_from q = true -> sigma_ok s q ->
  separate_actions fl with_from (render (respace s lead gaps sp hk tg tsp dg dsp ssp og) q)
  = separate_actions fl with_from (render s q).
Proof. intros. apply spelling_invariant_raw; try assumption; reflexivity. Qed.
Print Assumptions extra_spaces_invariant.

(* the letter case of every keyword (statement words, TOP, DISTINCT, COUNT, SET, ASC / DESC) *)
Definition respell (s : sigma) (ws : ck -> list str) (hw top dist count setw dirw : str) : sigma :=
  mkSigma (s_order s) ws (s_lead s) (s_gaps s) (s_sp s) (s_inner s) (s_outer s) hw (s_hk s) top (s_top_g s) (s_top_sp s)
    dist (s_dist_g s) count (s_dist_sp s) (s_set s) setw (s_set_sp s) (s_asc s) dirw (s_dir_g s).

Theorem keyword_case_invariant : forall fl with_from s q ws hw top dist count setw dirw,
  wf_aq fl with_from q = true -> sigma_ok s q -> sigma_ok (respell s ws hw top dist count setw dirw) q ->
  separate_actions fl with_from (render (respell s ws hw top dist count setw dirw) q) = separate_actions fl with_from (render s q).
Proof. intros. apply spelling_invariant_raw; try assumption; reflexivity. Qed.
Print Assumptions keyword_case_invariant.

(* JOIN = INNER JOIN, LEFT JOIN = LEFT OUTER JOIN: the spellings give different join_subtype entries which the
   engine maps to the same joiner *)
Theorem join_spelling_equiv : forall fl with_from s1 s2 q, wf_aq fl with_from q = true -> sigma_ok s1 q -> sigma_ok s2 q ->
  norm_res fl (separate_actions fl with_from (render s1 q)) = norm_res fl (separate_actions fl with_from (render s2 q))
  /\ jk_of JOIN = jk_of INNER_JOIN /\ jk_of LEFT_JOIN = jk_of LEFT_OUTER_JOIN.
Proof. intros. split; [apply spelling_invariant; assumption | split; reflexivity]. Qed.
Print Assumptions join_spelling_equiv.

(* ------------------------------------------------------------------ TOP n = LIMIT n *)
Lemma py_int_all_digits : forall ds acc ad, forallb is_digit ds = true -> (ds <> [] \/ ad = true) ->
  py_int_digits ds acc ad = Some (N_of_digits_acc acc ds).
Proof.
  induction ds as [|c t IH]; intros acc ad D H.
  - destruct H as [H | ->]; [contradiction H; reflexivity | reflexivity].
  - cbn [forallb] in D. apply andb_true_iff in D. destruct D as [D1 D2]. cbn [py_int_digits N_of_digits_acc]. rewrite D1.
    apply IH; [exact D2 | right; reflexivity].
Qed.

Lemma parse_int_digits : forall fl ds, top_ok (Some ds) = true -> parse_int fl ds = Some (Z.of_N (N_of_digits ds)).
Proof.
  intros fl ds H. cbn [top_ok] in H. destruct fl; cbn [parse_int]; [|rewrite H; reflexivity].
  apply andb_true_iff in H. destruct H as [N D]. destruct ds as [|c t]; [discriminate N|].
  pose proof D as D0. cbn [forallb] in D. apply andb_true_iff in D. destruct D as [D1 _]. unfold is_digit, in_range in D1.
  apply andb_true_iff in D1. destruct D1 as [A B]. apply N.leb_le in A. apply N.leb_le in B.
  rewrite (proj2 (N.eqb_neq c 45)) by lia. rewrite (proj2 (N.eqb_neq c 43)) by lia.
  rewrite (py_int_all_digits (c :: t) 0 false D0) by (left; discriminate). reflexivity.
Qed.

Definition top_to_limit (q : aq) : aq :=
  match q_kind q with
  | QSelect (Some ds) d c sel =>
      mkAq (QSelect None d c sel) (q_where q) (q_order q) (q_group q) (Some ds) (q_except q) (q_join q) (q_from q)
  | _ => q
  end.

Theorem top_limit_equiv : forall fl with_from s1 s2 q, q_limit q = None ->
  wf_aq fl with_from q = true -> wf_aq fl with_from (top_to_limit q) = true ->
  sigma_ok s1 q -> sigma_ok s2 (top_to_limit q) ->
  norm_res fl (separate_actions fl with_from (render s1 q))
  = norm_res fl (separate_actions fl with_from (render s2 (top_to_limit q))).
Proof.
  intros fl wf s1 s2 q NL W1 W2 S1 S2. rewrite !token_spelling_norm by assumption. f_equal.
  unfold top_to_limit in *. destruct (q_kind q) as [[ds|] d c sel|asg] eqn:K; try reflexivity.
  unfold nact. cbn [q_kind q_where q_order q_group q_limit q_except q_join q_from]. rewrite K, NL.
  assert (T : top_ok (Some ds) = true).
  { destruct (wf_parts fl wf q W1) as [WH _]. rewrite K in WH. cbn [head_ok] in WH. apply andb_true_iff in WH. destruct WH as [WH _].
    apply andb_true_iff in WH. destruct WH as [WH _]. apply andb_true_iff in WH. exact (proj2 WH). }
  rewrite (parse_int_digits fl ds T). reflexivity.
Qed.
Print Assumptions top_limit_equiv.
