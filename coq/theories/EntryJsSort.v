(* EntryJsSort.v - entry points of JsSort.v (codes 565-566).
   Encoding of a key component [kc] as sx (the tags of EntryJsKey.v):
     KNum z = L [A 2; L [A sign; A magnitude]]   (sx_of_Z)        KStr s = L [A 3; L code units]
   an entry (without its record, which the comparator never reads in the model) = L [L components; A arrival index]
   (the index is a unary natural number in the model: an index of a million or more is refused with ERR)
   565: stable_compare a b               arg = L [a; b], two entries                          result = A 0 (-1) | A 1 (undefined) | A 2 (1)
   566: compare_aggregation_keys a b     arg = L [a; b], each L [] (null) or L [L components]   result = A 0 (-1) | A 1 (0) | A 2 (1) *)
From RBQL Require Import Base Sx JsSort.
Local Open Scope N_scope.

Definition kc_of_sx (x : sx) : option kc :=
  match x with
  | L [A 2; z] => option_map KNum (Z_of_sx z)
  | L [A 3; s] => option_map KStr (str_of_sx s)
  | _ => None
  end.

Definition entry_of_sx (x : sx) : option (entry unit) :=
  match x with
  | L [k; A i] => if N.ltb i 1000000 then option_map (fun k' => (k', N.to_nat i, tt)) (list_of_sx kc_of_sx k) else None
  | _ => None
  end.

Definition sx_of_sign (z : Z) : sx :=
  match z with Zneg _ => A 0 | Z0 => A 1 | Zpos _ => A 2 end.

Definition ep_stable_compare (x : sx) : sx :=
  match x with
  | L [a; b] =>
      match entry_of_sx a, entry_of_sx b with
      | Some ea, Some eb => sx_of_sign (sort_value (stable_compare ea eb))
      | _, _ => ERR
      end
  | _ => ERR
  end.

Definition ep_compare_aggregation_keys (x : sx) : sx :=
  match x with
  | L [a; b] =>
      match option_of_sx (list_of_sx kc_of_sx) a, option_of_sx (list_of_sx kc_of_sx) b with
      | Some ka, Some kb => sx_of_sign (compare_aggregation_keys ka kb)
      | _, _ => ERR
      end
  | _ => ERR
  end.

Definition dispatch_jssort (code : N) (x : sx) : option sx :=
  match code with
  | 565 => Some (ep_stable_compare x)
  | 566 => Some (ep_compare_aggregation_keys x)
  | _ => None
  end.
