(* Header.v — output header synthesis: column_info_from_node (Python, on the AST shape of a select item) /
   column_info_from_text_span (JS), select_output_header, the EXCEPT / UPDATE / DISTINCT COUNT headers. *)
From RBQL Require Import Base Expr.

(* the shape of one select item, as far as header inference can see it *)
Inductive hitem :=
| HField (t : tbl) (i : nat)          (* aN / bN  or  a[N] / b[N]   (0-based i) *)
| HAttr (t : tbl) (name : str)        (* a.name *)
| HDict (t : tbl) (name : str)        (* a["name"] / a['name'] *)
| HVar (name : str)                   (* a bare identifier: NR, NF, ... *)
| HStar | HStarA | HStarB
| HOther                              (* any other expression: call, operator, literal, UNNEST(..), COUNT-star ... *)
| HAs (alias : str).                  (* <expr> AS alias   (whatever the expression is) *)

(* QueryColumnInfo; None of the source = [option cinfo] None *)
Inductive cinfo :=
| CStar (t : option tbl)
| CIdx (t : tbl) (i : nat)
| CName (s : str)
| CAlias (s : str).

Definition info_of (h : hitem) : option cinfo :=
  match h with
  | HField t i => Some (CIdx t i)
  | HAttr _ n => Some (CName n)
  | HDict _ n => Some (CName n)
  | HVar n => Some (CName n)
  | HStar => Some (CStar None)
  | HStarA => Some (CStar (Some TA))
  | HStarB => Some (CStar (Some TB))
  | HOther => None
  | HAs a => Some (CAlias a)
  end.

(* str(n) *)
Fixpoint dec_digits (fuel n : nat) (acc : str) : str :=
  match fuel with
  | O => acc
  | S f => let d := N.of_nat (Nat.modulo n 10) in
           let acc' := (48 + d)%N :: acc in
           if Nat.ltb n 10 then acc' else dec_digits f (Nat.div n 10) acc'
  end.
Definition dec_of_nat (n : nat) : str := dec_digits (S n) n [].
Definition colK (k : nat) : str := [99; 111; 108]%N ++ dec_of_nat k.     (* "col" + str(k) *)

Inductive hres := HNone | HSome (h : list str) | HErr.     (* no header / header / parsing error *)

Fixpoint build_header (ih jh : list str) (infos : list (option cinfo)) (out : list str) : list str :=
  match infos with
  | [] => out
  | qi :: t =>
      let out' :=
        match qi with
        | None => out ++ [colK (S (length out))]
        | Some (CStar None) => out ++ ih ++ jh
        | Some (CStar (Some TA)) => out ++ ih
        | Some (CStar (Some TB)) => out ++ jh
        | Some (CName n) => out ++ [n]
        | Some (CAlias a) => out ++ [a]
        | Some (CIdx TA i) => match nth_error ih i with Some n => out ++ [n] | None => out ++ [colK (S (length out))] end
        | Some (CIdx TB i) => match nth_error jh i with Some n => out ++ [n] | None => out ++ [colK (S (length out))] end
        end in
      build_header ih jh t out'
  end.

Definition is_star_info (q : option cinfo) : bool := match q with Some (CStar _) => true | _ => false end.
Definition is_alias_info (q : option cinfo) : bool := match q with Some (CAlias _) => true | _ => false end.

(* select_output_header *)
Definition select_output_header (ih jh : option (list str)) (infos : list (option cinfo)) : hres :=
  let has_star := existsb is_star_info infos in
  let has_alias := existsb is_alias_info infos in
  match ih with
  | None =>
      if has_star && has_alias then HErr
      else if negb has_alias then HNone
      else HSome (build_header [] [] infos [])
  | Some i => HSome (build_header i (match jh with Some j => j | None => [] end) infos [])
  end.

(* the header handed to the writer by shallow_parse_input_query *)
Inductive hquery :=
| HQSelect (items : list hitem) (distinct_count : bool)
| HQExcept (idxs : list nat) (distinct_count : bool)
| HQUpdate.

Fixpoint except_list {T} (l : list T) (idxs : list nat) (i : nat) : list T :=
  match l with
  | [] => []
  | x :: t => if existsb (Nat.eqb i) idxs then except_list t idxs (S i) else x :: except_list t idxs (S i)
  end.

Definition COL1 : str := colK 1.

Definition output_header (ih jh : option (list str)) (q : hquery) : hres :=
  match q with
  | HQSelect items dc =>
      let infos := map info_of items in
      select_output_header ih jh (if dc then None :: infos else infos)
  | HQExcept idxs dc =>
      match ih with
      | None => HNone
      | Some i => HSome ((if dc then [COL1] else []) ++ except_list i idxs 0)
      end
  | HQUpdate => match ih with None => HNone | Some i => HSome i end
  end.

(* number of output columns of a select list over records of na (and nb) fields *)
Definition hitem_width (na nb : nat) (h : hitem) : nat :=
  match h with HStar => na + nb | HStarA => na | HStarB => nb | _ => 1 end.
Definition hitems_width (na nb : nat) (items : list hitem) : nat :=
  fold_right (fun h acc => hitem_width na nb h + acc) 0 items.
