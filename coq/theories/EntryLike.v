(* EntryLike.v — entry points for Like.v (code 17) *)
From RBQL Require Import Base Sx Like.

Definition fl_of_sx (x : sx) : option flavour :=
  match x with A n => Some (if N.eqb n 0 then Py else Js) | _ => None end.

(* 17: like_seq  arg = L [fl; L [ L [text; pat]; ... ]]  ->  L [bool...] *)
Definition ep_like (x : sx) : sx :=
  match x with
  | L [f; calls] =>
      match fl_of_sx f, list_of_sx (fun c => match c with
                                             | L [t; p] => match str_of_sx t, str_of_sx p with
                                                           | Some t', Some p' => Some (t', p') | _, _ => None end
                                             | _ => None end) calls with
      | Some fl, Some cs => sx_of_list sx_of_bool (like_seq fl [] cs)
      | _, _ => ERR
      end
  | _ => ERR
  end.

Definition dispatch_like (code : N) (x : sx) : option sx :=
  match code with
  | 17%N => Some (ep_like x)
  | _ => None
  end.
