(* Parser_TokensQuery_Proofs.v — C08_token_spelling, part 4: the abstract query [aq], the spelling choice [sigma],
   [render], the expected action record, and the well-formedness conditions (all boolean). *)
From RBQL Require Import Base Parser Parser_Spelling_Proofs Parser_Tokens_Proofs Parser_TokensLocate_Proofs
  Parser_TokensRender_Proofs.
Local Open Scope N_scope.

(* ------------------------------------------------------------------ abstract queries *)
Inductive jkind := JInner | JLeft | JStrict.
Inductive qkind :=
| QSelect (top : option str) (dist cnt : bool) (sel : str)    (* TOP digits; DISTINCT; DISTINCT COUNT; select list *)
| QUpdate (asg : str).                                         (* assignment text *)
Record aq := mkAq {
  q_kind : qkind;
  q_where : option str;
  q_order : option (str * bool);        (* sort key text, descending? *)
  q_group : option str;
  q_limit : option str;                 (* digits *)
  q_except : option str;
  q_join : option (jkind * str);        (* kind, "table ON condition" text *)
  q_from : option str }.                (* input table id; only when the FROM group is searched (with_from) *)

Inductive ck := CJoin | COrder | CWhere | CGroup | CLimit | CExcept | CFrom.
Definition ck_eqb (a b : ck) : bool :=
  match a, b with
  | CJoin, CJoin | COrder, COrder | CWhere, CWhere | CGroup, CGroup | CLimit, CLimit | CExcept, CExcept | CFrom, CFrom => true
  | _, _ => false
  end.
Definition isS {A} (o : option A) : bool := match o with Some _ => true | None => false end.
Definition present (q : aq) (k : ck) : bool :=
  match k with
  | CJoin => isS (q_join q) | COrder => isS (q_order q) | CWhere => isS (q_where q) | CGroup => isS (q_group q)
  | CLimit => isS (q_limit q) | CExcept => isS (q_except q) | CFrom => isS (q_from q)
  end.

(* ------------------------------------------------------------------ spelling choices *)
Record sigma := mkSigma {
  s_order : list ck;                     (* the order of the clauses after the SELECT / UPDATE clause *)
  s_ws : ck -> list str;                 (* the spelled words of each clause keyword (letter case) *)
  s_lead : ck -> nat;                    (* extra spaces before the keyword (there is always one) *)
  s_gaps : ck -> list nat;               (* extra spaces between the words of the keyword *)
  s_sp : ck -> nat;                      (* extra spaces after the keyword *)
  s_inner : bool;                        (* INNER JOIN instead of JOIN *)
  s_outer : bool;                        (* LEFT OUTER JOIN instead of LEFT JOIN *)
  s_hw : str; s_hk : nat;                (* the spelled SELECT / UPDATE word, extra spaces after it *)
  s_top : str; s_top_g : nat; s_top_sp : nat;         (* TOP, spaces before the digits (>= 0), extra spaces after *)
  s_dist : str; s_dist_g : nat; s_count : str; s_dist_sp : nat;   (* DISTINCT, spaces before COUNT (>= 0), COUNT, extra spaces *)
  s_set : bool; s_set_w : str; s_set_sp : nat;        (* UPDATE SET x / UPDATE x *)
  s_asc : bool; s_dir_w : str; s_dir_g : nat }.       (* write an explicit ASC; the spelled ASC / DESC word; extra spaces before it *)

Definition jstmt (s : sigma) (k : jkind) : stmt :=
  match k with
  | JInner => if s_inner s then INNER_JOIN else JOIN
  | JLeft => if s_outer s then LEFT_OUTER_JOIN else LEFT_JOIN
  | JStrict => STRICT_LEFT_JOIN
  end.
Definition st_of (s : sigma) (q : aq) (k : ck) : stmt :=
  match k with
  | CJoin => match q_join q with Some (jk, _) => jstmt s jk | None => JOIN end
  | COrder => ORDER_BY | CWhere => WHERE | CGroup => GROUP_BY | CLimit => LIMIT | CExcept => EXCEPT | CFrom => FROM
  end.
Definition oget (o : option str) : str := match o with Some t => t | None => [] end.
Definition order_txt (dirw : str) (s_asc0 : bool) (g : nat) (o : option (str * bool)) : str :=
  match o with
  | Some (t, desc) => t ++ (if desc || s_asc0 then sps (S g) ++ dirw else [])
  | None => []
  end.
Definition txt_of (s : sigma) (q : aq) (k : ck) : str :=
  match k with
  | CJoin => match q_join q with Some (_, t) => t | None => [] end
  | COrder => order_txt (s_dir_w s) (s_asc s) (s_dir_g s) (q_order q)
  | CWhere => oget (q_where q) | CGroup => oget (q_group q) | CLimit => oget (q_limit q)
  | CExcept => oget (q_except q) | CFrom => oget (q_from q)
  end.
Definition rcl_of (s : sigma) (q : aq) (k : ck) : rcl :=
  mkRcl (st_of s q k) (s_ws s k) (s_lead s k) (s_gaps s k) (s_sp s k) (txt_of s q k).

Definition top_part (s : sigma) (top : option str) : str :=
  match top with Some ds => s_top s ++ sps (s_top_g s) ++ ds ++ sps (S (s_top_sp s)) | None => [] end.
Definition dist_part (s : sigma) (dist cnt : bool) : str :=
  if dist then s_dist s ++ (if cnt then sps (s_dist_g s) ++ s_count s else []) ++ sps (S (s_dist_sp s)) else [].
Definition head_text (s : sigma) (k : qkind) : str :=
  match k with
  | QSelect top dist cnt sel => top_part s top ++ dist_part s dist cnt ++ sel
  | QUpdate asg => (if s_set s then s_set_w s ++ sps (S (s_set_sp s)) else []) ++ asg
  end.
Definition head_st (k : qkind) : stmt := match k with QSelect _ _ _ _ => SELECT | QUpdate _ => UPDATE end.

Definition render (s : sigma) (q : aq) : str :=
  render_q (s_hw s) (s_hk s) (head_text s (q_kind q)) (map (rcl_of s q) (s_order s)).

(* the action record the code must produce *)
Definition actions_of (s : sigma) (q : aq) : actions :=
  mkActions None
    (match q_kind q with QSelect _ _ _ sel => Some sel | QUpdate _ => None end)
    (match q_kind q with QSelect (Some ds) _ _ _ => Some (N_of_digits ds) | _ => None end)
    (match q_kind q with QSelect _ d _ _ => d | _ => false end)
    (match q_kind q with QSelect _ d c _ => d && c | _ => false end)
    (match q_kind q with QUpdate asg => Some asg | _ => None end)
    (q_where q) (q_order q) (q_group q) (q_limit q) (q_except q)
    (match q_join q with Some (jk, t) => Some (jstmt s jk, t) | None => None end)
    (q_from q).

(* ------------------------------------------------------------------ clause texts: conditions (boolean) *)
(* the whitespace removed by the strip applied to clause texts *)
Definition txt_ws (fl : lang) (c : ch) : bool := match fl with LPy => ws LPy c | LJs => is_sp c end.
Lemma strip_txt_by : forall fl s, strip_txt fl s = strip_by (txt_ws fl) s.
Proof. destruct fl; reflexivity. Qed.
Lemma txt_ws_SP : forall fl, txt_ws fl SP = true.
Proof. destruct fl; reflexivity. Qed.

(* non-empty, no leading / trailing character that the strip would remove *)
Definition edge_ok (fl : lang) (T : str) : bool :=
  match T, rev T with
  | c :: _, d :: _ => negb (txt_ws fl c) && negb (txt_ws fl d)
  | _, _ => false
  end.
(* the text does not end with "(" lower-case{4,20} ")" : the WITH-modifier regex cannot match a query ending in T
   (sufficient, not necessary) *)
Definition wt_ok (T : str) : bool :=
  match rev T with
  | c :: r1 =>
      if N.eqb c RPAR then
        let (nm, r2) := span_by is_lower r1 in
        match r2 with
        | d :: _ => negb (N.eqb d LPAR && Nat.leb 4 (length nm) && Nat.leb (length nm) 20)
        | [] => false
        end
      else true
  | [] => true
  end.
Definition clause_ok (fl : lang) (with_from : bool) (T : str) : bool :=
  edge_ok fl T && quiet_all fl with_from T && wt_ok T.

Lemma rev_sps : forall n, rev (sps n) = sps n.
Proof.
  induction n as [|n IH]; [reflexivity|]. change (sps (S n)) with (SP :: sps n). cbn [rev]. rewrite IH.
  rewrite <- (sps_comm n []). rewrite app_nil_r. reflexivity.
Qed.

Lemma lstrip_sps : forall f n s, f SP = true -> lstrip_by f (sps n ++ s) = lstrip_by f s.
Proof. intros f n s H. induction n as [|n IH]; [reflexivity|]. cbn [sps repeat app lstrip_by]. rewrite H. exact IH. Qed.

Lemma strip_span : forall fl T a b, edge_ok fl T = true -> strip_txt fl (sps a ++ T ++ sps b) = T.
Proof.
  intros fl T a b E. rewrite strip_txt_by. unfold edge_ok in E.
  destruct T as [|c T']; [discriminate E|]. destruct (rev (c :: T')) as [|d R] eqn:RV; [discriminate E|].
  apply andb_true_iff in E. destruct E as [E1 E2]. apply negb_true_iff in E1. apply negb_true_iff in E2.
  unfold strip_by, rstrip_by. rewrite (lstrip_sps _ a _ (txt_ws_SP fl)). cbn [app lstrip_by]. rewrite E1.
  change (c :: T' ++ sps b) with ((c :: T') ++ sps b). rewrite rev_app_distr, rev_sps, (lstrip_sps _ b _ (txt_ws_SP fl)).
  rewrite RV. cbn [lstrip_by]. rewrite E2. rewrite <- RV. apply rev_involutive.
Qed.

(* ------------------------------------------------------------------ spelled words *)
Lemma case_eq_ci_self : forall fl k c, case_eq k c -> ci_eq fl k c = true.
Proof.
  intros fl k c [->|[_ [_ E]]]; unfold ci_eq; [rewrite N.eqb_refl | rewrite E, N.eqb_refl]; reflexivity.
Qed.

Lemma eat_ci_case : forall fl kw w rest, case_rel kw w -> eat_ci fl kw (w ++ rest) = Some rest.
Proof.
  intros fl kw w rest H. induction H as [|k c kw w Hc Hr IH]; [reflexivity|]. cbn [app eat_ci].
  rewrite (case_eq_ci_self fl k c Hc). exact IH.
Qed.

Lemma case_rel_letters : forall kw w, case_rel kw w -> letters kw = true -> letters w = true.
Proof.
  intros kw w H. induction H as [|k c kw w Hc Hr IH]; intro L; [reflexivity|]. unfold letters in *. cbn [forallb] in *.
  apply andb_true_iff in L. destruct L as [L1 L2]. rewrite (IH L2), andb_true_r.
  destruct Hc as [<-|[_ [A _]]]; assumption.
Qed.

Lemma letters_rev : forall w, letters w = true -> letters (rev w) = true.
Proof.
  intros w H. unfold letters in *. rewrite forallb_forall in *. intros x Hx. apply H. apply in_rev. exact Hx.
Qed.

(* the pattern kw fails inside K whatever follows *)
Fixpoint clash (fl : lang) (kw K : str) : bool :=
  match kw, K with
  | k :: kw', c :: K' => if ci_eq fl k c then clash fl kw' K' else true
  | _, _ => false
  end.
Lemma clash_none : forall fl kw K Y, clash fl kw K = true -> eat_ci fl kw (K ++ Y) = None.
Proof.
  intros fl kw. induction kw as [|k kw IH]; intros K Y H; [discriminate H|]. destruct K as [|c K]; [discriminate H|].
  cbn [clash] in H. cbn [app eat_ci]. destruct (ci_eq fl k c); [apply IH; exact H | reflexivity].
Qed.
Lemma clash_none_case : forall fl kw K w Y, clash fl kw K = true -> case_rel K w -> eat_ci fl kw (w ++ Y) = None.
Proof.
  intros fl kw K w Y H C. pose proof (eat_ci_rel fl kw (K ++ Y) (w ++ Y) (case_rel_app _ _ _ _ C (case_rel_refl Y))) as R.
  unfold rel_opt in R. rewrite (clash_none fl kw K Y H) in R. destruct (eat_ci fl kw (w ++ Y)); [contradiction | reflexivity].
Qed.

(* ------------------------------------------------------------------ ORDER BY: the ASC / DESC tail *)
Definition isN {A} (o : option A) : bool := match o with Some _ => false | None => true end.
(* the sort key text itself does not end with the word ASC or DESC *)
Definition order_ok (fl : lang) (t : str) : bool :=
  isN (strip_tail_kw fl K_ASC (SP :: t)) && isN (strip_tail_kw fl K_DESC (SP :: t)).

Lemma last_nonsp : forall fl T, edge_ok fl T = true -> exists d R, rev T = d :: R /\ is_sp d = false.
Proof.
  intros fl T E. unfold edge_ok in E. destruct T as [|c T']; [discriminate E|]. destruct (rev (c :: T')) as [|d R]; [discriminate E|].
  exists d, R. split; [reflexivity|]. apply andb_true_iff in E. destruct E as [_ E]. apply negb_true_iff in E.
  unfold is_sp. destruct (N.eqb_spec d 32) as [->|]; [|reflexivity]. change (txt_ws fl SP = false) in E. rewrite (txt_ws_SP fl) in E. discriminate E.
Qed.

Lemma strip_tail_none : forall fl kw t a b, letters kw = true -> edge_ok fl t = true ->
  strip_tail_kw fl kw (SP :: t) = None -> strip_tail_kw fl kw (sps (S a) ++ t ++ sps b) = None.
Proof.
  intros fl kw t a b L E H. destruct (last_nonsp fl t E) as [d [R [RV ND]]]. pose proof (letters_rev kw L) as LR.
  unfold strip_tail_kw in *. cbn [rev] in H. rewrite RV in H. cbn [app] in H. rewrite (drop_sp_nonsp d _ ND) in H.
  rewrite !rev_app_distr, !rev_sps, RV. rewrite <- !app_assoc. rewrite drop_sp_sps. cbn [app]. rewrite (drop_sp_nonsp d _ ND).
  change (d :: R ++ [SP]) with ((d :: R) ++ SP :: []) in H. change (d :: R ++ sps (S a)) with ((d :: R) ++ SP :: sps a).
  rewrite (eat_ci_app_sp fl _ (d :: R) [] LR) in H. rewrite (eat_ci_app_sp fl _ (d :: R) (sps a) LR).
  destruct (eat_ci fl (rev kw) (d :: R)) as [[|c r]|]; cbn [option_map app] in *.
  - exfalso. cbn [eat_one_sp] in H. change (is_sp SP) with true in H. cbv iota in H. discriminate H.
  - cbn [eat_one_sp] in *. destruct (is_sp c); [discriminate H | reflexivity].
  - reflexivity.
Qed.

Lemma strip_tail_hit : forall fl K w t a g b, letters K = true -> K <> [] -> case_rel K w ->
  strip_tail_kw fl K (sps a ++ t ++ sps (S g) ++ w ++ sps b) = Some (sps a ++ t ++ sps g).
Proof.
  intros fl K w t a g b L NE C. unfold strip_tail_kw. rewrite !rev_app_distr, !rev_sps. rewrite <- !app_assoc, drop_sp_sps.
  pose proof (case_rel_rev K w C) as CR.
  assert (NS : exists c x, rev w = c :: x /\ is_sp c = false).
  { pose proof (letters_rev w (case_rel_letters K w C L)) as LW. destruct (rev w) as [|c x] eqn:RW.
    - exfalso. apply NE. destruct K as [|k K']; [reflexivity|]. inversion C; subst. cbn [rev] in RW. destruct (rev l'); discriminate RW.
    - exists c, x. split; [reflexivity|]. unfold letters in LW. cbn [forallb] in LW. apply andb_true_iff in LW. apply alpha_is_sp. exact (proj1 LW). }
  destruct NS as [c [x [RW NS]]].
  assert (D : forall Y, drop_sp (rev w ++ Y) = rev w ++ Y) by (intro Y; rewrite RW; cbn [app]; apply drop_sp_nonsp; exact NS).
  rewrite D. rewrite (eat_ci_case fl (rev K) (rev w) _ CR). cbn [sps repeat app eat_one_sp]. change (is_sp SP) with true. cbv iota.
  f_equal. change (repeat SP g) with (sps g). rewrite !rev_app_distr, !rev_sps, rev_involutive, <- !app_assoc. reflexivity.
Qed.

(* ------------------------------------------------------------------ the effect of one clause on the action record *)
Definition jact (s : sigma) (q : aq) : option (stmt * str) :=
  match q_join q with Some (jk, t) => Some (jstmt s jk, t) | None => None end.
Definition put (s : sigma) (q : aq) (k : ck) (acc : actions) : actions :=
  match k with
  | CJoin => mkActions (a_with acc) (a_select acc) (a_top acc) (a_distinct acc) (a_distinct_count acc)
               (a_update acc) (a_where acc) (a_order acc) (a_group acc) (a_limit acc) (a_except acc) (jact s q) (a_from acc)
  | COrder => mkActions (a_with acc) (a_select acc) (a_top acc) (a_distinct acc) (a_distinct_count acc)
               (a_update acc) (a_where acc) (q_order q) (a_group acc) (a_limit acc) (a_except acc) (a_join acc) (a_from acc)
  | CWhere => mkActions (a_with acc) (a_select acc) (a_top acc) (a_distinct acc) (a_distinct_count acc)
               (a_update acc) (q_where q) (a_order acc) (a_group acc) (a_limit acc) (a_except acc) (a_join acc) (a_from acc)
  | CGroup => mkActions (a_with acc) (a_select acc) (a_top acc) (a_distinct acc) (a_distinct_count acc)
               (a_update acc) (a_where acc) (a_order acc) (q_group q) (a_limit acc) (a_except acc) (a_join acc) (a_from acc)
  | CLimit => mkActions (a_with acc) (a_select acc) (a_top acc) (a_distinct acc) (a_distinct_count acc)
               (a_update acc) (a_where acc) (a_order acc) (a_group acc) (q_limit q) (a_except acc) (a_join acc) (a_from acc)
  | CExcept => mkActions (a_with acc) (a_select acc) (a_top acc) (a_distinct acc) (a_distinct_count acc)
               (a_update acc) (a_where acc) (a_order acc) (a_group acc) (a_limit acc) (q_except q) (a_join acc) (a_from acc)
  | CFrom => mkActions (a_with acc) (a_select acc) (a_top acc) (a_distinct acc) (a_distinct_count acc)
               (a_update acc) (a_where acc) (a_order acc) (a_group acc) (a_limit acc) (a_except acc) (a_join acc) (q_from q)
  end.

(* the text conditions of one clause kind *)
Definition otxt_ok (fl : lang) (wf : bool) (o : option str) : bool :=
  match o with Some t => clause_ok fl wf t | None => true end.
Definition kind_ok (fl : lang) (wf : bool) (q : aq) (k : ck) : bool :=
  match k with
  | CJoin => match q_join q with Some (_, t) => clause_ok fl wf t | None => true end
  | COrder => match q_order q with Some (t, _) => clause_ok fl wf t && order_ok fl t | None => true end
  | CWhere => otxt_ok fl wf (q_where q) | CGroup => otxt_ok fl wf (q_group q) | CLimit => otxt_ok fl wf (q_limit q)
  | CExcept => otxt_ok fl wf (q_except q) | CFrom => otxt_ok fl wf (q_from q)
  end.
Definition dir_word (q : aq) : str := match q_order q with Some (_, true) => K_DESC | _ => K_ASC end.

Lemma clause_ok_edge : forall fl wf t, clause_ok fl wf t = true -> edge_ok fl t = true.
Proof. intros fl wf t H. unfold clause_ok in H. apply andb_true_iff in H. destruct H as [H _]. apply andb_true_iff in H. exact (proj1 H). Qed.

Lemma letters_ASC : letters K_ASC = true. Proof. reflexivity. Qed.
Lemma letters_DESC : letters K_DESC = true. Proof. reflexivity. Qed.
Lemma clash_ASC_DESC : forall fl, clash fl (rev K_ASC) (rev K_DESC) = true. Proof. destruct fl; reflexivity. Qed.

Lemma apply_put : forall fl wf s q k start r acc,
  present q k = true -> kind_ok fl wf q k = true -> case_rel (dir_word q) (s_dir_w s) ->
  apply_statement fl (st_of s q k) start (span_of (rcl_of s q k) r) acc = Ok (put s q k acc).
Proof.
  intros fl wf s q k start r acc P K CD. unfold span_of. cbn [rcl_of rc_sp rc_txt].
  destruct k; cbn [present kind_ok st_of txt_of put] in *.
  - (* JOIN *) unfold jact. destruct (q_join q) as [[jk t]|]; [|discriminate P].
    pose proof (strip_span fl t (S (s_sp s CJoin)) (next_lead r) (clause_ok_edge _ _ _ K)) as E.
    destruct jk; cbn [jstmt]; [destruct (s_inner s) | destruct (s_outer s) |]; cbn [apply_statement]; rewrite E; reflexivity.
  - (* ORDER BY *) destruct (q_order q) as [[t desc]|] eqn:QO; [|discriminate P]. apply andb_true_iff in K. destruct K as [K1 K2].
    pose proof (clause_ok_edge _ _ _ K1) as E. unfold order_ok in K2. apply andb_true_iff in K2. destruct K2 as [OA OD].
    assert (NA : strip_tail_kw fl K_ASC (SP :: t) = None) by (destruct (strip_tail_kw fl K_ASC (SP :: t)); [discriminate OA | reflexivity]).
    assert (ND : strip_tail_kw fl K_DESC (SP :: t) = None) by (destruct (strip_tail_kw fl K_DESC (SP :: t)); [discriminate OD | reflexivity]).
    unfold dir_word in CD. rewrite QO in CD. cbn [order_txt apply_statement].
    destruct desc; cbn [orb].
    + (* DESC *) rewrite <- !app_assoc.
      assert (A : strip_tail_kw fl K_ASC (sps (S (s_sp s COrder)) ++ t ++ sps (S (s_dir_g s)) ++ s_dir_w s ++ sps (next_lead r)) = None).
      { unfold strip_tail_kw. rewrite !rev_app_distr, !rev_sps, <- !app_assoc, drop_sp_sps.
        pose proof (case_rel_rev _ _ CD) as CR.
        assert (D : drop_sp (rev (s_dir_w s) ++ sps (S (s_dir_g s)) ++ rev t ++ sps (S (s_sp s COrder)))
                    = rev (s_dir_w s) ++ sps (S (s_dir_g s)) ++ rev t ++ sps (S (s_sp s COrder))).
        { inversion CR as [|k0 c0 l0 l0' Hc Hl E1 E2]. apply drop_sp_nonsp.
          destruct Hc as [<-|[_ [Hc _]]]; [reflexivity | apply alpha_is_sp; exact Hc]. }
        rewrite D. rewrite (clash_none_case fl _ _ _ _ (clash_ASC_DESC fl) CR). reflexivity. }
      rewrite A. rewrite (strip_tail_hit fl K_DESC _ t _ _ _ letters_DESC ltac:(discriminate) CD).
      rewrite (strip_span fl t _ _ E). reflexivity.
    + destruct (s_asc s).
      * (* explicit ASC *) rewrite <- !app_assoc.
        rewrite (strip_tail_hit fl K_ASC _ t _ _ _ letters_ASC ltac:(discriminate) CD).
        rewrite (strip_tail_none fl K_DESC t _ _ letters_DESC E ND). rewrite (strip_span fl t _ _ E). reflexivity.
      * rewrite app_nil_r. rewrite (strip_tail_none fl K_ASC t _ _ letters_ASC E NA).
        rewrite (strip_tail_none fl K_DESC t _ _ letters_DESC E ND). rewrite (strip_span fl t _ _ E). reflexivity.
  - destruct (q_where q) as [t|]; [|discriminate P]. cbn [oget apply_statement]. rewrite (strip_span fl t _ _ (clause_ok_edge _ _ _ K)). reflexivity.
  - destruct (q_group q) as [t|]; [|discriminate P]. cbn [oget apply_statement]. rewrite (strip_span fl t _ _ (clause_ok_edge _ _ _ K)). reflexivity.
  - destruct (q_limit q) as [t|]; [|discriminate P]. cbn [oget apply_statement]. rewrite (strip_span fl t _ _ (clause_ok_edge _ _ _ K)). reflexivity.
  - destruct (q_except q) as [t|]; [|discriminate P]. cbn [oget apply_statement]. rewrite (strip_span fl t _ _ (clause_ok_edge _ _ _ K)). reflexivity.
  - destruct (q_from q) as [t|]; [|discriminate P]. cbn [oget apply_statement]. rewrite (strip_span fl t _ _ (clause_ok_edge _ _ _ K)). reflexivity.
Qed.

(* ------------------------------------------------------------------ scanners on a text followed by j spaces *)
Lemma eat_ci_app_sps : forall fl kw u j, letters kw = true ->
  eat_ci fl kw (u ++ sps j) = option_map (fun r => r ++ sps j) (eat_ci fl kw u).
Proof.
  intros fl kw u j L. destruct j as [|j]; [|apply eat_ci_app_sp; exact L].
  cbn [sps repeat]. rewrite app_nil_r. destruct (eat_ci fl kw u) as [r|]; [cbn [option_map]; rewrite app_nil_r|]; reflexivity.
Qed.

Lemma eat_one_sp_app_none : forall r j, eat_one_sp (r ++ [SP]) = None -> eat_one_sp (r ++ sps j) = None.
Proof.
  intros r j H. destruct r as [|c r]; [discriminate H|]. cbn [app eat_one_sp] in *. destruct (is_sp c); [discriminate H | reflexivity].
Qed.

Lemma eat_then_sp_none : forall fl kw u, letters kw = true ->
  match eat_ci fl kw (u ++ [SP]) with Some r2 => eat_one_sp r2 | None => None end = None ->
  forall j, match eat_ci fl kw (u ++ sps j) with Some r2 => eat_one_sp r2 | None => None end = None.
Proof.
  intros fl kw u L H j. rewrite (eat_ci_app_sps fl kw u j L). rewrite (eat_ci_app_sp fl kw u [] L) in H.
  destruct (eat_ci fl kw u) as [r|]; [|reflexivity]. cbn [option_map] in *. apply eat_one_sp_app_none. exact H.
Qed.

Lemma span_by_app_sps : forall f u j, f SP = false ->
  span_by f (u ++ sps j) = (fst (span_by f u), snd (span_by f u) ++ sps j).
Proof.
  intros f u j H. induction u as [|c u IH].
  - destruct j as [|j]; [reflexivity|]. cbn [sps repeat app span_by]. rewrite H. reflexivity.
  - cbn [app span_by]. destruct (f c); [|reflexivity]. rewrite IH. destruct (span_by f u). reflexivity.
Qed.

Lemma span_digits_stop : forall ds r, forallb is_digit ds = true -> span_by is_digit (ds ++ SP :: r) = (ds, SP :: r).
Proof.
  induction ds as [|d ds IH]; intros r H; [reflexivity|]. cbn [forallb] in H. apply andb_true_iff in H. destruct H as [H1 H2].
  cbn [app span_by]. rewrite H1, (IH r H2). reflexivity.
Qed.

Lemma first_nonsp : forall fl T, edge_ok fl T = true -> exists c T', T = c :: T' /\ is_sp c = false.
Proof.
  intros fl T E. unfold edge_ok in E. destruct T as [|c T']; [discriminate E|]. exists c, T'. split; [reflexivity|].
  destruct (rev (c :: T')); [discriminate E|]. apply andb_true_iff in E. destruct E as [E _]. apply negb_true_iff in E.
  unfold is_sp. destruct (N.eqb_spec c 32) as [->|]; [|reflexivity]. change (txt_ws fl SP = false) in E. rewrite (txt_ws_SP fl) in E. discriminate E.
Qed.

Lemma drop_sp_edge : forall fl T a Y, edge_ok fl T = true -> drop_sp (sps a ++ T ++ Y) = T ++ Y.
Proof.
  intros fl T a Y E. rewrite drop_sp_sps. destruct (first_nonsp fl T E) as [c [T' [-> N]]]. apply drop_sp_nonsp. exact N.
Qed.

(* ------------------------------------------------------------------ SELECT: TOP *)
Definition seltop_ok (fl : lang) (sel : str) : bool := isN (parse_top fl (sel ++ [SP])).
Definition seldist_ok (fl : lang) (sel : str) : bool := isN (parse_distinct fl (sel ++ [SP])).
Definition nocount (fl : lang) (sel : str) : bool :=
  match eat_ci fl K_COUNT (sel ++ [SP]) with Some r2 => isN (eat_one_sp r2) | None => true end.

Lemma parse_top_none : forall fl sel a j, edge_ok fl sel = true -> seltop_ok fl sel = true ->
  parse_top fl (sps a ++ sel ++ sps j) = None.
Proof.
  intros fl sel a j E H. unfold seltop_ok in H. unfold parse_top in *. rewrite (drop_sp_edge fl sel a _ E).
  pose proof (drop_sp_edge fl sel 0 [SP] E) as D0. cbn [sps repeat app] in D0. rewrite D0 in H.
  rewrite (eat_ci_app_sps fl K_TOP sel j eq_refl). rewrite (eat_ci_app_sp fl K_TOP sel [] eq_refl) in H.
  destruct (eat_ci fl K_TOP sel) as [r|]; [|reflexivity]. cbn [option_map] in *.
  destruct (forallb is_sp r) eqn:A.
  - rewrite (drop_sp_app_allsp r _ A). rewrite <- (app_nil_r (sps j)), drop_sp_sps. reflexivity.
  - rewrite (drop_sp_app_nonsp r _ A). rewrite (drop_sp_app_nonsp r _ A) in H.
    rewrite (span_by_app_sps is_digit (drop_sp r) j eq_refl). change [SP] with (sps 1) in H.
    rewrite (span_by_app_sps is_digit (drop_sp r) 1 eq_refl) in H.
    destruct (span_by is_digit (drop_sp r)) as [ds r2]. cbn [fst snd] in *. destruct ds as [|d ds]; [reflexivity|].
    assert (N1 : eat_one_sp (r2 ++ [SP]) = None).
    { change [SP] with (sps 1). destruct (eat_one_sp (r2 ++ sps 1)); [discriminate H | reflexivity]. }
    rewrite (eat_one_sp_app_none r2 j N1). reflexivity.
Qed.

Lemma parse_top_hit : forall fl w g ds k a Y, case_rel K_TOP w -> forallb is_digit ds = true -> ds <> [] ->
  parse_top fl (sps a ++ w ++ sps g ++ ds ++ sps (S k) ++ Y) = Some (N_of_digits ds, sps k ++ Y).
Proof.
  intros fl w g ds k a Y C D NE. unfold parse_top. rewrite drop_sp_sps.
  assert (NS : drop_sp (w ++ sps g ++ ds ++ sps (S k) ++ Y) = w ++ sps g ++ ds ++ sps (S k) ++ Y).
  { inversion C as [|k0 c0 l0 l0' Hc Hl E1 E2]. apply drop_sp_nonsp. destruct Hc as [<-|[_ [Hc _]]]; [reflexivity | apply alpha_is_sp; exact Hc]. }
  rewrite NS, (eat_ci_case fl K_TOP w _ C), drop_sp_sps.
  destruct ds as [|d ds]; [contradiction|].
  assert (DN : is_sp d = false).
  { cbn [forallb] in D. apply andb_true_iff in D. destruct D as [D _]. unfold is_digit, in_range in D. apply andb_true_iff in D.
    destruct D as [D1 D2]. apply N.leb_le in D1. unfold is_sp. apply N.eqb_neq. lia. }
  change ((d :: ds) ++ sps (S k) ++ Y) with (d :: (ds ++ sps (S k) ++ Y)). rewrite (drop_sp_nonsp d _ DN).
  change (d :: ds ++ sps (S k) ++ Y) with ((d :: ds) ++ SP :: (sps k ++ Y)). rewrite (span_digits_stop _ _ D).
  cbn [eat_one_sp]. change (is_sp SP) with true. cbv iota. reflexivity.
Qed.

(* ------------------------------------------------------------------ SELECT: DISTINCT [COUNT] *)
Lemma word_drop : forall K w Y, case_rel K w -> letters K = true -> K <> [] -> drop_sp (w ++ Y) = w ++ Y.
Proof.
  intros K w Y C L NE. destruct C as [|k c K' w' Hc Hr]; [contradiction|]. cbn [app]. apply drop_sp_nonsp.
  unfold letters in L. cbn [forallb] in L. apply andb_true_iff in L. destruct L as [L _].
  destruct Hc as [<-|[_ [Hc _]]]; apply alpha_is_sp; assumption.
Qed.

Lemma parse_distinct_none : forall fl sel a j, edge_ok fl sel = true -> seldist_ok fl sel = true ->
  parse_distinct fl (sps a ++ sel ++ sps j) = None.
Proof.
  intros fl sel a j E H. unfold seldist_ok in H. unfold parse_distinct in *. rewrite (drop_sp_edge fl sel a _ E).
  pose proof (drop_sp_edge fl sel 0 [SP] E) as D0. cbn [sps repeat app] in D0. rewrite D0 in H.
  rewrite (eat_ci_app_sps fl K_DISTINCT sel j eq_refl). rewrite (eat_ci_app_sp fl K_DISTINCT sel [] eq_refl) in H.
  destruct (eat_ci fl K_DISTINCT sel) as [r|]; [|reflexivity]. cbn [option_map] in *.
  destruct (match eat_ci fl K_COUNT (drop_sp (r ++ [SP])) with Some r2 => eat_one_sp r2 | None => None end) eqn:C1; [discriminate H|].
  destruct (eat_one_sp (r ++ [SP])) eqn:S1; [discriminate H|].
  destruct r as [|c r]; [discriminate S1|]. cbn [app eat_one_sp] in S1. destruct (is_sp c) eqn:NC; [discriminate S1|].
  cbn [app] in *. rewrite (drop_sp_nonsp c (r ++ [SP]) NC) in C1. rewrite (drop_sp_nonsp c (r ++ sps j) NC).
  change (c :: r ++ sps j) with ((c :: r) ++ sps j). change (c :: r ++ [SP]) with ((c :: r) ++ [SP]) in C1.
  rewrite (eat_then_sp_none fl K_COUNT (c :: r) eq_refl C1 j). cbn [app eat_one_sp]. rewrite NC. reflexivity.
Qed.

Lemma parse_distinct_count : forall fl w g wc k a Y, case_rel K_DISTINCT w -> case_rel K_COUNT wc ->
  parse_distinct fl (sps a ++ w ++ sps g ++ wc ++ sps (S k) ++ Y) = Some (true, sps k ++ Y).
Proof.
  intros fl w g wc k a Y C CC. unfold parse_distinct. rewrite drop_sp_sps.
  rewrite (word_drop K_DISTINCT w _ C eq_refl ltac:(discriminate)). rewrite (eat_ci_case fl _ w _ C). rewrite drop_sp_sps.
  rewrite (word_drop K_COUNT wc _ CC eq_refl ltac:(discriminate)). rewrite (eat_ci_case fl _ wc _ CC).
  cbn [sps repeat app eat_one_sp]. change (is_sp SP) with true. cbv iota. reflexivity.
Qed.

Lemma parse_distinct_plain : forall fl w k a sel j, case_rel K_DISTINCT w -> edge_ok fl sel = true -> nocount fl sel = true ->
  parse_distinct fl (sps a ++ w ++ sps (S k) ++ sel ++ sps j) = Some (false, sel ++ sps j).
Proof.
  intros fl w k a sel j C E NCnt. unfold parse_distinct. rewrite drop_sp_sps.
  rewrite (word_drop K_DISTINCT w _ C eq_refl ltac:(discriminate)). rewrite (eat_ci_case fl _ w _ C).
  rewrite (drop_sp_edge fl sel (S k) _ E).
  assert (N1 : match eat_ci fl K_COUNT (sel ++ [SP]) with Some r2 => eat_one_sp r2 | None => None end = None).
  { unfold nocount in NCnt. destruct (eat_ci fl K_COUNT (sel ++ [SP])) as [r2|]; [|reflexivity].
    destruct (eat_one_sp r2); [discriminate NCnt | reflexivity]. }
  rewrite (eat_then_sp_none fl K_COUNT sel eq_refl N1 j).
  cbn [sps repeat app eat_one_sp]. change (is_sp SP) with true. cbv iota. reflexivity.
Qed.

Lemma parse_top_clash : forall fl w a Y, case_rel K_DISTINCT w -> parse_top fl (sps a ++ w ++ Y) = None.
Proof.
  intros fl w a Y C. unfold parse_top. rewrite drop_sp_sps. rewrite (word_drop K_DISTINCT w _ C eq_refl ltac:(discriminate)).
  rewrite (clash_none_case fl K_TOP K_DISTINCT w Y); [reflexivity | destruct fl; reflexivity | exact C].
Qed.

(* the DISTINCT stage of the SELECT clause *)
Definition dist_ok (fl : lang) (dist cnt : bool) (sel : str) : bool :=
  if dist then (if cnt then true else nocount fl sel) else seldist_ok fl sel.

Lemma dist_stage : forall fl s dist cnt sel a j, edge_ok fl sel = true -> dist_ok fl dist cnt sel = true ->
  case_rel K_DISTINCT (s_dist s) -> case_rel K_COUNT (s_count s) ->
  exists X, match parse_distinct fl (sps a ++ dist_part s dist cnt ++ sel ++ sps j) with
            | Some (c, r) => (true, c, r)
            | None => @pair (bool * bool) str (false, false) (sps a ++ dist_part s dist cnt ++ sel ++ sps j)
            end = (dist, dist && cnt, X) /\ strip_txt fl X = sel.
Proof.
  intros fl s dist cnt sel a j E D C CC. unfold dist_part, dist_ok in *. destruct dist; [destruct cnt|].
  - rewrite <- !app_assoc. rewrite (parse_distinct_count fl _ _ _ _ _ _ C CC). eexists. split; [reflexivity|].
    apply strip_span. exact E.
  - cbn [app]. rewrite <- !app_assoc. rewrite (parse_distinct_plain fl _ _ _ _ _ C E D). eexists. split; [reflexivity|].
    apply (strip_span fl sel 0 j E).
  - cbn [app]. rewrite (parse_distinct_none fl sel a j E D). eexists. split; [reflexivity|]. apply strip_span. exact E.
Qed.

(* ------------------------------------------------------------------ UPDATE: the optional SET *)
Definition uset_ok (fl : lang) (asg : str) : bool :=
  match eat_ci fl K_SET asg with
  | None => true
  | Some r => match fl with LPy => match r with c :: _ => negb (is_sp c) | [] => false end | LJs => false end
  end.

Lemma strip_set_plain : forall fl asg a j, edge_ok fl asg = true -> uset_ok fl asg = true ->
  strip_set fl (sps a ++ asg ++ sps j) = sps a ++ asg ++ sps j.
Proof.
  intros fl asg a j E U. unfold strip_set, uset_ok in *. rewrite (drop_sp_edge fl asg a _ E).
  rewrite (eat_ci_app_sps fl K_SET asg j eq_refl). destruct (eat_ci fl K_SET asg) as [r|]; [|reflexivity].
  cbn [option_map]. destruct fl; [|discriminate U]. destruct r as [|c r]; [discriminate U|]. apply negb_true_iff in U.
  cbn [app eat_one_sp]. rewrite U. reflexivity.
Qed.

Lemma strip_set_hit : forall fl w k asg a j, case_rel K_SET w -> edge_ok fl asg = true ->
  strip_txt fl (strip_set fl (sps a ++ w ++ sps (S k) ++ asg ++ sps j)) = asg.
Proof.
  intros fl w k asg a j C E. unfold strip_set. rewrite drop_sp_sps. rewrite (word_drop K_SET w _ C eq_refl ltac:(discriminate)).
  rewrite (eat_ci_case fl _ w _ C). destruct fl.
  - cbn [sps repeat app eat_one_sp]. change (is_sp SP) with true. cbv iota. apply (strip_span LPy asg k j E).
  - apply (strip_span LJs asg (S k) j E).
Qed.

(* ------------------------------------------------------------------ the head clause *)
Definition top_ok (top : option str) : bool :=
  match top with Some ds => nonempty ds && forallb is_digit ds | None => true end.
Definition head_ok (fl : lang) (wf : bool) (k : qkind) : bool :=
  match k with
  | QSelect top dist cnt sel =>
      clause_ok fl wf sel && top_ok top && dist_ok fl dist cnt sel &&
      (match top with None => dist || seltop_ok fl sel | Some _ => true end)
  | QUpdate asg => clause_ok fl wf asg && uset_ok fl asg
  end.
Definition head_put (k : qkind) (acc : actions) : actions :=
  match k with
  | QSelect top dist cnt sel =>
      mkActions (a_with acc) (Some sel) (match top with Some ds => Some (N_of_digits ds) | None => None end) dist (dist && cnt)
        (a_update acc) (a_where acc) (a_order acc) (a_group acc) (a_limit acc) (a_except acc) (a_join acc) (a_from acc)
  | QUpdate asg =>
      mkActions (a_with acc) (a_select acc) (a_top acc) (a_distinct acc) (a_distinct_count acc)
        (Some asg) (a_where acc) (a_order acc) (a_group acc) (a_limit acc) (a_except acc) (a_join acc) (a_from acc)
  end.
Definition head_words_ok (s : sigma) : Prop :=
  case_rel K_TOP (s_top s) /\ case_rel K_DISTINCT (s_dist s) /\ case_rel K_COUNT (s_count s) /\ case_rel K_SET (s_set_w s).

Lemma apply_head : forall fl wf s k j acc, head_ok fl wf k = true -> head_words_ok s ->
  apply_statement fl (head_st k) 0 (sps (S (s_hk s)) ++ head_text s k ++ sps j) acc = Ok (head_put k acc).
Proof.
  intros fl wf s k j acc H [CT [CD [CC CS]]]. destruct k as [top dist cnt sel | asg]; cbn [head_ok head_st head_text head_put] in *.
  - apply andb_true_iff in H. destruct H as [H H4]. apply andb_true_iff in H. destruct H as [H H3].
    apply andb_true_iff in H. destruct H as [H1 H2]. pose proof (clause_ok_edge _ _ _ H1) as E.
    cbn [apply_statement Nat.eqb]. destruct top as [ds|]; cbn [top_part].
    + cbn [top_ok] in H2. apply andb_true_iff in H2. destruct H2 as [N D].
      rewrite <- !app_assoc. rewrite (parse_top_hit fl _ _ ds _ _ _ CT D) by (destruct ds; [discriminate N | discriminate]).
      destruct (dist_stage fl s dist cnt sel (s_top_sp s) j E H3 CD CC) as [X [EQ ST]]. rewrite EQ, ST. reflexivity.
    + cbn [app]. rewrite <- !app_assoc.
      assert (PT : parse_top fl (sps (S (s_hk s)) ++ dist_part s dist cnt ++ sel ++ sps j) = None).
      { destruct dist; cbn [orb] in H4.
        - unfold dist_part. rewrite <- !app_assoc. apply parse_top_clash. exact CD.
        - cbn [dist_part app]. apply parse_top_none; assumption. }
      rewrite PT. destruct (dist_stage fl s dist cnt sel (S (s_hk s)) j E H3 CD CC) as [X [EQ ST]]. rewrite EQ, ST. reflexivity.
  - apply andb_true_iff in H. destruct H as [H1 H2]. pose proof (clause_ok_edge _ _ _ H1) as E.
    cbn [apply_statement Nat.eqb]. destruct (s_set s).
    + rewrite <- !app_assoc. rewrite (strip_set_hit fl _ _ asg _ _ CS E). reflexivity.
    + cbn [app]. rewrite (strip_set_plain fl asg _ _ E H2). rewrite (strip_span fl asg _ _ E). reflexivity.
Qed.

(* ------------------------------------------------------------------ all clauses, in any order *)
Definition order_ok_for (fl : lang) (wf : bool) (s : sigma) (q : aq) : Prop :=
  forall k, In k (s_order s) -> present q k = true /\ kind_ok fl wf q k = true.

Lemma proc_cls_put : forall fl wf s q, case_rel (dir_word q) (s_dir_w s) ->
  forall l pos acc, (forall k, In k l -> present q k = true /\ kind_ok fl wf q k = true) ->
  proc_cls fl pos (map (rcl_of s q) l) acc = Ok (fold_left (fun a k => put s q k a) l acc).
Proof.
  intros fl wf s q CD. induction l as [|k l IH]; intros pos acc H; [reflexivity|].
  cbn [map proc_cls fold_left]. change (rc_st (rcl_of s q k)) with (st_of s q k).
  destruct (H k (or_introl eq_refl)) as [P K]. rewrite (apply_put fl wf s q k _ _ acc P K CD).
  apply IH. intros k' Hk'. apply H. right. exact Hk'.
Qed.

Definition mem (k : ck) (l : list ck) : bool := existsb (ck_eqb k) l.

Lemma fold_put : forall s q l acc,
  fold_left (fun a k => put s q k a) l acc =
  mkActions (a_with acc) (a_select acc) (a_top acc) (a_distinct acc) (a_distinct_count acc) (a_update acc)
    (if mem CWhere l then q_where q else a_where acc)
    (if mem COrder l then q_order q else a_order acc)
    (if mem CGroup l then q_group q else a_group acc)
    (if mem CLimit l then q_limit q else a_limit acc)
    (if mem CExcept l then q_except q else a_except acc)
    (if mem CJoin l then jact s q else a_join acc)
    (if mem CFrom l then q_from q else a_from acc).
Proof.
  intros s q. induction l as [|k l IH]; intro acc; [destruct acc; reflexivity|].
  cbn [fold_left]. rewrite IH. unfold mem. cbn [existsb].
  destruct k; cbn [put ck_eqb orb a_with a_select a_top a_distinct a_distinct_count a_update a_where a_order a_group a_limit a_except a_join a_from];
    f_equal;
    match goal with |- (if ?b then _ else _) = _ => destruct b; reflexivity end.
Qed.

Lemma mem_In : forall k l, mem k l = true <-> In k l.
Proof.
  intros k l. unfold mem. rewrite existsb_exists. split.
  - intros [x [Ix E]]. destruct k, x; try discriminate E; exact Ix.
  - intro I. exists k. split; [exact I | destruct k; reflexivity].
Qed.

Definition acc0 : actions := mkActions None None None false false None None None None None None None None.

Lemma fold_put_all : forall s q l, (forall k, In k l <-> present q k = true) ->
  fold_left (fun a k => put s q k a) l (head_put (q_kind q) acc0) = actions_of s q.
Proof.
  intros s q l H. rewrite fold_put.
  assert (M : forall k, mem k l = present q k).
  { intro k. destruct (present q k) eqn:P; [apply mem_In, H; exact P|].
    destruct (mem k l) eqn:E; [|reflexivity]. apply mem_In, H in E. rewrite E in P. discriminate P. }
  rewrite !M. unfold actions_of, jact. cbn [present].
  destruct (q_kind q) as [top d c sel|asg]; cbn [head_put acc0 a_with a_select a_top a_distinct a_distinct_count a_update a_where a_order a_group a_limit a_except a_join a_from];
    destruct (q_where q), (q_order q), (q_group q), (q_limit q), (q_except q), (q_join q) as [[? ?]|], (q_from q); try destruct top; reflexivity.
Qed.

(* ------------------------------------------------------------------ the end of the text: strip(' ') and the WITH regex *)
Lemma span_by_stop : forall f u a d b Y, span_by f u = (a, d :: b) -> span_by f (u ++ Y) = (a, d :: b ++ Y).
Proof.
  intros f. induction u as [|c u IH]; intros a d b Y H; [discriminate H|]. cbn [app span_by] in *.
  destruct (f c).
  - destruct (span_by f u) as [a' b'] eqn:E. injection H as <- ->. rewrite (IH a' d b Y eq_refl). reflexivity.
  - injection H as <- <- <-. reflexivity.
Qed.

Definition end_ok (T : str) : bool :=
  match rev T with d :: _ => negb (is_sp d) | [] => false end.

Lemma with_match_none : forall fl pre T, end_ok T = true -> wt_ok T = true -> with_match fl (pre ++ SP :: T) = None.
Proof.
  intros fl pre T E W. unfold with_match. rewrite rev_app_distr. cbn [rev]. rewrite <- !app_assoc. cbn [app].
  unfold end_ok, wt_ok in *. destruct (rev T) as [|c r1]; [discriminate E|]. apply negb_true_iff in E.
  cbn [app]. rewrite (drop_sp_nonsp c _ E). cbn [eat_ch]. destruct (N.eqb c RPAR); [|reflexivity].
  destruct (span_by is_lower r1) as [nm r2] eqn:S. destruct r2 as [|d r2]; [discriminate W|].
  rewrite (span_by_stop is_lower r1 nm d r2 _ S). apply negb_true_iff in W.
  destruct (Nat.leb 4 (length nm) && Nat.leb (length nm) 20) eqn:LN; [|reflexivity]. cbn [eat_ch].
  destruct (N.eqb d LPAR); [|reflexivity]. cbn [andb] in W. apply andb_true_iff in LN. destruct LN as [L1 L2].
  rewrite L1, L2 in W. discriminate W.
Qed.

Lemma strip_sp_id : forall x c t, x = c :: t -> is_sp c = false -> end_ok x = true -> strip_sp x = x.
Proof.
  intros x c t -> N E. unfold strip_sp, strip_by, rstrip_by. cbn [lstrip_by]. rewrite N. unfold end_ok in E.
  destruct (rev (c :: t)) as [|d r] eqn:R; [discriminate E|]. apply negb_true_iff in E. cbn [lstrip_by]. rewrite E.
  rewrite <- R. apply rev_involutive.
Qed.

Lemma end_ok_app : forall pre T, end_ok T = true -> end_ok (pre ++ T) = true.
Proof. intros pre T E. unfold end_ok in *. rewrite rev_app_distr. destruct (rev T); [discriminate E | exact E]. Qed.

Lemma sps_S_app : forall n (x : str), sps (S n) ++ x = sps n ++ SP :: x.
Proof. intros n x. change (sps (S n) ++ x) with (SP :: sps n ++ x). apply sps_comm. Qed.

Lemma cls_last : forall cs pre0 T0, exists pre T,
  pre0 ++ SP :: T0 ++ render_cls cs = pre ++ SP :: T /\ ((T = T0 /\ cs = []) \/ exists c, In c cs /\ T = rc_txt c).
Proof.
  induction cs as [|c r IH]; intros pre0 T0.
  - exists pre0, T0. split; [cbn [render_cls]; rewrite app_nil_r; reflexivity | left; split; reflexivity].
  - destruct (IH (pre0 ++ SP :: T0 ++ sps (rc_lead c) ++ SP :: rc_kw c ++ sps (rc_sp c)) (rc_txt c)) as [pre [T [E H]]].
    exists pre, T. split.
    + rewrite <- E. cbn [render_cls]. unfold render_cl. rewrite (sps_S_app (rc_sp c)).
      rewrite <- !app_assoc. cbn [app]. rewrite <- !app_assoc. cbn [app]. rewrite <- !app_assoc. reflexivity.
    + right. destruct H as [[-> ->]|[c' [I ->]]]; [exists c; split; [left; reflexivity | reflexivity] | exists c'; split; [right; exact I | reflexivity]].
Qed.

Lemma render_q_last : forall hw hk ht cs, exists pre T,
  render_q hw hk ht cs = pre ++ SP :: T /\ ((T = ht /\ cs = []) \/ exists c, In c cs /\ T = rc_txt c).
Proof.
  intros hw hk ht cs. destruct (cls_last cs (hw ++ sps hk) ht) as [pre [T [E H]]]. exists pre, T. split; [|exact H].
  rewrite <- E. unfold render_q. rewrite (sps_S_app hk). rewrite <- !app_assoc. reflexivity.
Qed.
