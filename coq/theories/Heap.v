(* Heap.v - a tiny imperative IR with a heap of mutable list objects that have identity (model; no proofs here).

   Purpose (property C06, list clause): the per-record code that RBQL generates (the PROCESS_* templates with the
   generated select / update expressions, the helpers select_simple / select_unnested / select_aggregated /
   select_except / safe_set) and the write / finish methods of the writer classes are translated - on every check
   run, from the source text of the implementation, by harness/translate_heap.py - into terms of this IR.  The IR
   only keeps what matters for "no query modifies its sources": which list OBJECT a variable denotes (alias, copy,
   fresh object), which objects are mutated in place, which objects are handed to the output writer, which objects
   escape into containers.  Field values are atoms (hval); records are flat lists of atoms.

   Objects     oid = nat; the heap maps an oid to its current content; g_next is the allocation counter.
   Sources     a fixed list srcs of oids: the rows of the input table and of the join table, the containers the engine
               keeps them in (the lists handed out by get_rhs) and every list-valued CELL reachable from a row (record
               copies are shallow: a cell object is shared between a source row and its copies).  Everything else is
               "owned".
   Pool        g_pool: the owned objects that have escaped into a container or an attribute (SStore) plus the objects
               the writers owned before the query started; RLoad / RElem of an owned container pick from it.
   Log         g_log: every object that was handed to a writer's write method (SEmit), at every level of the chain.

   Control     SIf runs one of its two branches, SFor runs its body zero or more times, every statement may raise
               before it does anything (outcome OExc ends the whole run: this is "early exit by exception at any
               point"; an unbound variable has no other rule, it raises).  Conditions are not modelled: the relation
               contains every path. *)
From Coq Require Import List Arith Bool.
Import ListNotations.

Definition oid := nat.
Definition hvar := nat.
Definition hval := nat.

(* right-hand sides that bind a variable to a list object *)
Inductive rhs :=
| RVar (x : hvar)              (* y = x                          ALIAS: the very same object *)
| RCopy (x : hvar)             (* x[:], list(x), x.slice()       a new object with the content of x *)
| RConcat (xs : list hvar)     (* [..] + x + [..], x.concat(y)   a new object, even for one operand *)
| RFresh                       (* list display, comprehension, call known to build a new list *)
| RSrc                         (* get_record(), get_rhs(..): some source object *)
| RElem (x : hvar)             (* an element of container x: a source if x is a source, else an escaped owned object *)
| RCell (x : hvar)             (* a CELL of row x (x[i] where x is a flat record): rows are copied shallowly, so the cell of
                                  any row - even a fresh one - may be an object shared with a source row: never owned *)
| RLoad.                       (* an object read back from writer-owned state *)

Inductive stmt :=
| SAssign (x : hvar) (r : rhs)
| SSetItem (x : hvar)          (* any in-place mutation of the object x denotes *)
| SEmit (x : hvar)             (* hand the object to the next writer's write method *)
| SStore (x : hvar)            (* the object escapes into a container / attribute *)
| SIf (a b : stmt)
| SFor (b : stmt)
| SSeq (a b : stmt)
| SSkip.

Definition block (l : list stmt) : stmt := fold_right SSeq SSkip l.

Record gstate := mkG {
  g_heap : oid -> option (list hval);
  g_next : oid;
  g_pool : list oid;
  g_log : list oid }.

Definition env := hvar -> option oid.
Definition env_empty : env := fun _ => None.
Definition env_set (e : env) (x : hvar) (i : oid) : env := fun y => if Nat.eqb y x then Some i else e y.

Definition heap_set (h : oid -> option (list hval)) (i : oid) (l : list hval) : oid -> option (list hval) :=
  fun j => if Nat.eqb j i then Some l else h j.

Definition g_alloc (g : gstate) (l : list hval) : gstate :=
  mkG (heap_set (g_heap g) (g_next g) l) (S (g_next g)) (g_pool g) (g_log g).
Definition g_write (g : gstate) (i : oid) (l : list hval) : gstate :=
  mkG (heap_set (g_heap g) i l) (g_next g) (g_pool g) (g_log g).
Definition g_store (g : gstate) (i : oid) : gstate := mkG (g_heap g) (g_next g) (i :: g_pool g) (g_log g).
Definition g_emit (g : gstate) (i : oid) : gstate := mkG (g_heap g) (g_next g) (g_pool g) (i :: g_log g).

Inductive outcome := ONorm | OExc.

Section Semantics.
  Variable srcs : list oid.
  (* what the receiver of an emitted object does with it (the rest of the writer chain) *)
  Variable H : oid -> gstate -> gstate -> Prop.

  Inductive eval_rhs (e : env) (g : gstate) : rhs -> oid -> gstate -> Prop :=
  | E_var : forall x i, e x = Some i -> eval_rhs e g (RVar x) i g
  | E_copy : forall x i l, e x = Some i -> g_heap g i = Some l -> eval_rhs e g (RCopy x) (g_next g) (g_alloc g l)
  | E_concat : forall xs ls,
      Forall2 (fun x l => exists i, e x = Some i /\ g_heap g i = Some l) xs ls ->
      eval_rhs e g (RConcat xs) (g_next g) (g_alloc g (concat ls))
  | E_fresh : forall l, eval_rhs e g RFresh (g_next g) (g_alloc g l)
  | E_src : forall i, In i srcs -> eval_rhs e g RSrc i g
  | E_elem_src : forall x j i, e x = Some j -> In j srcs -> In i srcs -> eval_rhs e g (RElem x) i g
  | E_elem_own : forall x j i, e x = Some j -> ~ In j srcs -> In i (g_pool g) -> eval_rhs e g (RElem x) i g
  | E_cell : forall x j i, e x = Some j -> In i srcs \/ In i (g_pool g) -> eval_rhs e g (RCell x) i g
  | E_load : forall i, In i (g_pool g) -> eval_rhs e g RLoad i g.

  Inductive exec : stmt -> env -> gstate -> outcome -> env -> gstate -> Prop :=
  | X_exc : forall s e g, exec s e g OExc e g
  | X_skip : forall e g, exec SSkip e g ONorm e g
  | X_assign : forall x r e g i g', eval_rhs e g r i g' -> exec (SAssign x r) e g ONorm (env_set e x i) g'
  | X_setitem : forall x e g i l l', e x = Some i -> g_heap g i = Some l -> exec (SSetItem x) e g ONorm e (g_write g i l')
  | X_emit : forall x e g i g' o, e x = Some i -> H i (g_emit g i) g' -> exec (SEmit x) e g o e g'
  | X_store : forall x e g i, e x = Some i -> exec (SStore x) e g ONorm e (g_store g i)
  | X_seq_n : forall a b e g e1 g1 o e2 g2,
      exec a e g ONorm e1 g1 -> exec b e1 g1 o e2 g2 -> exec (SSeq a b) e g o e2 g2
  | X_seq_x : forall a b e g e1 g1, exec a e g OExc e1 g1 -> exec (SSeq a b) e g OExc e1 g1
  | X_if_l : forall a b e g o e' g', exec a e g o e' g' -> exec (SIf a b) e g o e' g'
  | X_if_r : forall a b e g o e' g', exec b e g o e' g' -> exec (SIf a b) e g o e' g'
  | X_for_0 : forall b e g, exec (SFor b) e g ONorm e g
  | X_for_s : forall b e g e1 g1 o e2 g2,
      exec b e g ONorm e1 g1 -> exec (SFor b) e1 g1 o e2 g2 -> exec (SFor b) e g o e2 g2
  | X_for_x : forall b e g e1 g1, exec b e g OExc e1 g1 -> exec (SFor b) e g OExc e1 g1.
End Semantics.

(* ---------------------------------------------------------------- writers *)

(* a writer class: the body of write (its record argument is variable PARAM) and the body of finish *)
Record writer := mkW { w_write : stmt; w_finish : stmt }.
Definition PARAM : hvar := 0.

(* handing object i to the chain ws: the first writer's write runs (possibly raising midway), its SEmit hands objects
   to the rest of the chain; below the last writer nothing happens *)
Fixpoint handler_of (srcs : list oid) (ws : list writer) (i : oid) (g g' : gstate) : Prop :=
  match ws with
  | [] => g' = g
  | w :: rest => exists o e', exec srcs (handler_of srcs rest) (w_write w) (env_set env_empty PARAM i) g o e' g'
  end.

(* finish of every writer from the top of the chain down (a finish may raise: the rest may then not run) *)
Fixpoint finish_chain (srcs : list oid) (ws : list writer) (g g' : gstate) : Prop :=
  match ws with
  | [] => g' = g
  | w :: rest => exists o e' g1, exec srcs (handler_of srcs rest) (w_finish w) env_empty g o e' g1
                                 /\ (g' = g1 \/ finish_chain srcs rest g1 g')
  end.

(* the writers alone: the chain is handed a sequence of objects, one after the other, and is then (possibly) finished *)
Fixpoint feed_chain (srcs : list oid) (ws : list writer) (handed : list oid) (g g' : gstate) : Prop :=
  match handed with
  | [] => g' = g \/ finish_chain srcs ws g g'
  | i :: rest => exists g1, handler_of srcs ws i (g_emit g i) g1 /\ feed_chain srcs ws rest g1 g'
  end.

(* a whole query: the main loop program (it binds its records itself with RSrc), then - unless it raised - finish *)
Definition run_query (srcs : list oid) (prog : stmt) (ws : list writer) (e0 : env) (g g' : gstate) : Prop :=
  exists o e1 g1, exec srcs (handler_of srcs ws) prog e0 g o e1 g1 /\ (g' = g1 \/ finish_chain srcs ws g1 g').

(* ---------------------------------------------------------------- the ownership analyser *)

(* c = the variables that DEFINITELY do not denote a source object ("clean"); everything else may alias a source *)
Fixpoint vmem (x : hvar) (c : list hvar) : bool :=
  match c with [] => false | y :: t => Nat.eqb x y || vmem x t end.
Definition vinter (a b : list hvar) : list hvar := filter (fun x => vmem x b) a.
Definition vsubset (a b : list hvar) : bool := forallb (fun x => vmem x b) a.
Definition vremove (x : hvar) (c : list hvar) : list hvar := filter (fun y => negb (Nat.eqb y x)) c.

Definition rhs_clean (c : list hvar) (r : rhs) : bool :=
  match r with
  | RVar x => vmem x c
  | RCopy _ | RConcat _ | RFresh | RLoad => true
  | RSrc | RCell _ => false
  | RElem x => vmem x c
  end.

(* greatest clean set below c that the loop body preserves (checked, not assumed) *)
Fixpoint loop_inv (fuel : nat) (f : list hvar -> option (list hvar)) (c : list hvar) : option (list hvar) :=
  match fuel with
  | 0 => None
  | S k => match f c with
           | None => None
           | Some c1 => if vsubset c c1 then Some c else loop_inv k f (vinter c c1)
           end
  end.

(* an s c = Some c' : s never mutates, emits or stores a possibly-source object when started with clean set c, and c'
   is clean afterwards; None : it may *)
Fixpoint an (s : stmt) (c : list hvar) {struct s} : option (list hvar) :=
  match s with
  | SSkip => Some c
  | SAssign x r => Some (if rhs_clean c r then x :: c else vremove x c)
  | SSetItem x | SEmit x | SStore x => if vmem x c then Some c else None
  | SSeq a b => match an a c with Some c1 => an b c1 | None => None end
  | SIf a b => match an a c, an b c with Some c1, Some c2 => Some (vinter c1 c2) | _, _ => None end
  | SFor b => loop_inv (S (length c)) (an b) c
  end.

Definition safe (c : list hvar) (s : stmt) : bool := match an s c with Some _ => true | None => false end.

Definition writer_ok (w : writer) : bool := safe [PARAM] (w_write w) && safe [] (w_finish w).

(* the most general well-behaved user writer: mutates and keeps what it is handed, mutates what it owns *)
Definition w_any : writer :=
  mkW (SFor (SSeq (SSetItem PARAM) (SStore PARAM))) (SFor (SSeq (SAssign 1 RLoad) (SSetItem 1))).

(* initial state: sources are allocated objects; neither the writer-owned pool nor the log holds a source *)
Definition wf (srcs : list oid) (g : gstate) : Prop :=
  (forall i, In i srcs -> i < g_next g) /\
  (forall i, In i (g_pool g) -> ~ In i srcs) /\
  (forall i, In i (g_log g) -> ~ In i srcs).
