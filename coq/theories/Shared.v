(* Shared.v - C16 over an IR that is REGENERATED FROM THE SOURCE on every run (harness/translate_shared.py).

   The state of a process that runs queries is split into
     - a global STORE of shared cells (module-level bindings, class-level attributes, default-argument objects, function
       attributes: everything that outlives one call of a public entry point), and
     - one PRIVATE state per query (everything allocated by the call: RBQLContext, writer chain, join map, closures, locals).
   A statement may READ a shared cell, update the private state through an ARBITRARY function (the semantic functions are
   section variables: the theorems hold for every expression semantics), test the private state, emit an output, call a
   function of the program, and it may WRITE / MUTATE a shared cell only through the explicit SWrite / SMutate naming the cell.
   SRead and SLocal may FAIL (an exception at any statement): the query stops, its continuation is dropped.
   One small step = one statement; EVERY small step is a scheduling point (finer than the get_record / write / finish points
   of the property text).  A program is a table of function bodies; a query starts as a call of an entry point.

   The analyser  isolated p e  (certificate check: the set R computed by `reach` is closed under calls, every function in it
   is defined and none of their bodies contains SWrite / SMutate) is proved sound in Shared_Proofs.v.  No proofs here. *)
From RBQL Require Import Base.

Definition cell := N.
Definition fid := N.

Inductive stmt : Type :=
| SRead (c : cell) (t : N)           (* private := rd t (store c) private      (may fail) *)
| SLocal (t : N)                     (* private := loc t private               (may fail) *)
| SEmit (t : N)                      (* outputs := out t private :: outputs *)
| SWrite (c : cell) (t : N)          (* store c := wr t private                (rebinding: global x; x = ..) *)
| SMutate (c : cell) (t : N)         (* store c := mu t (store c) private      (in-place mutation) *)
| SCall (f : fid)
| SIf (t : N) (a b : list stmt)
| SWhile (t : N) (body : list stmt)
| SGuard (c : cell) (body : list stmt).   (* if <shared flag c>: body      (`if debug_mode: ..`) *)

Definition prog := list (fid * list stmt).

Fixpoint body_of (p : prog) (f : fid) : list stmt :=
  match p with
  | [] => []
  | (g, b) :: r => if N.eqb g f then b else body_of r f
  end.

Definition mem (x : N) (l : list N) : bool := existsb (N.eqb x) l.

(* ---------------------------------------------------------------- the analyser *)

(* `off`: shared flags ASSUMED false in the initial store (debug flags: the theorems take  truthy (g c) = false  for c in off as
   a hypothesis, and the analyser checks that no reachable statement outside a block guarded by such a flag writes ANY cell - so
   the flags stay false).  A block guarded by a flag in `off` is dead and is skipped.  off = []: no assumption. *)
Section Analyser.
Variable off : list cell.

(* a statement without shared writes whose calls stay inside R *)
Fixpoint stmt_ok (R : list fid) (s : stmt) : bool :=
  match s with
  | SRead _ _ | SLocal _ | SEmit _ => true
  | SWrite _ _ | SMutate _ _ => false
  | SCall f => mem f R
  | SIf _ a b => forallb (stmt_ok R) a && forallb (stmt_ok R) b
  | SWhile _ b => forallb (stmt_ok R) b
  | SGuard c b => mem c off || forallb (stmt_ok R) b
  end.

Fixpoint stmt_calls (s : stmt) : list fid :=
  match s with
  | SCall f => [f]
  | SIf _ a b => flat_map stmt_calls a ++ flat_map stmt_calls b
  | SWhile _ b => flat_map stmt_calls b
  | SGuard c b => if mem c off then [] else flat_map stmt_calls b
  | _ => []
  end.

Fixpoint stmt_writes (s : stmt) : list cell :=
  match s with
  | SWrite c _ | SMutate c _ => [c]
  | SIf _ a b => flat_map stmt_writes a ++ flat_map stmt_writes b
  | SWhile _ b => flat_map stmt_writes b
  | SGuard c b => if mem c off then [] else flat_map stmt_writes b
  | _ => []
  end.

Fixpoint stmt_reads (s : stmt) : list cell :=
  match s with
  | SRead c _ | SMutate c _ => [c]
  | SIf _ a b => flat_map stmt_reads a ++ flat_map stmt_reads b
  | SWhile _ b => flat_map stmt_reads b
  | SGuard c b => c :: (if mem c off then [] else flat_map stmt_reads b)
  | _ => []
  end.

Fixpoint add_new (xs acc : list N) : list N :=
  match xs with
  | [] => acc
  | x :: r => if mem x acc then add_new r acc else add_new r (acc ++ [x])
  end.

Definition callees (p : prog) (R : list fid) : list fid :=
  flat_map (fun f => flat_map stmt_calls (body_of p f)) R.

(* functions reachable from R (fuel = number of rounds; the result is CHECKED by `closed`, so the fuel needs no proof) *)
Fixpoint reach (p : prog) (fuel : nat) (R : list fid) : list fid :=
  match fuel with
  | O => R
  | S k => let R' := add_new (callees p R) R in
           if Nat.eqb (length R') (length R) then R else reach p k R'
  end.

Definition closed (p : prog) (R : list fid) : bool :=
  forallb (fun f => mem f (map fst p) && forallb (stmt_ok R) (body_of p f)) R.

Definition reach_of (p : prog) (e : fid) : list fid := reach p (S (length p)) [e].

(* transitive shared write set / read set of an entry point *)
Definition write_set (p : prog) (e : fid) : list cell :=
  flat_map (fun f => flat_map stmt_writes (body_of p f)) (reach_of p e).
Definition read_set (p : prog) (e : fid) : list cell :=
  flat_map (fun f => flat_map stmt_reads (body_of p f)) (reach_of p e).

Definition isolated (p : prog) (e : fid) : bool :=
  let R := reach_of p e in mem e R && closed p R.
End Analyser.

(* the over-approximation the translator emits for a function body: any number of rounds, each round one of the effects
   (tests are numbered by position, so that the test function can pick any of them) *)
Fixpoint pick (i : N) (l : list stmt) : list stmt :=
  match l with
  | [] => []
  | s :: r => [SIf i [s; SLocal i] (pick (N.succ i) r)]
  end.
Definition star (l : list stmt) : list stmt := [SLocal 0%N; SWhile 0%N (pick 1%N l)].

(* ---------------------------------------------------------------- semantics *)

Section Sem.
Variables P V Y : Type.
Variable rd : N -> V -> P -> option P.
Variable loc : N -> P -> option P.
Variable tst : N -> P -> bool.
Variable wr : N -> P -> V.
Variable mu : N -> V -> P -> V.
Variable out : N -> P -> Y.
Variable truthy : V -> bool.
Variable pr : prog.

Definition store := cell -> V.
Definition upd (g : store) (c : cell) (v : V) : store := fun c' => if N.eqb c' c then v else g c'.

Record cfg := mkC { c_priv : P; c_outs : list Y; c_kont : list stmt; c_err : bool }.

Definition failed (c : cfg) : cfg := mkC (c_priv c) (c_outs c) [] true.

Definition step (g : store) (c : cfg) : store * cfg :=
  match c_kont c with
  | [] => (g, c)
  | s :: k =>
    match s with
    | SRead x t => match rd t (g x) (c_priv c) with
                   | Some p' => (g, mkC p' (c_outs c) k (c_err c))
                   | None => (g, failed c)
                   end
    | SLocal t => match loc t (c_priv c) with
                  | Some p' => (g, mkC p' (c_outs c) k (c_err c))
                  | None => (g, failed c)
                  end
    | SEmit t => (g, mkC (c_priv c) (out t (c_priv c) :: c_outs c) k (c_err c))
    | SWrite x t => (upd g x (wr t (c_priv c)), mkC (c_priv c) (c_outs c) k (c_err c))
    | SMutate x t => (upd g x (mu t (g x) (c_priv c)), mkC (c_priv c) (c_outs c) k (c_err c))
    | SCall f => (g, mkC (c_priv c) (c_outs c) (body_of pr f ++ k) (c_err c))
    | SIf t a b => (g, mkC (c_priv c) (c_outs c) ((if tst t (c_priv c) then a else b) ++ k) (c_err c))
    | SWhile t b => (g, mkC (c_priv c) (c_outs c) (if tst t (c_priv c) then b ++ SWhile t b :: k else k) (c_err c))
    | SGuard x b => (g, mkC (c_priv c) (c_outs c) (if truthy (g x) then b ++ k else k) (c_err c))
    end
  end.

(* two queries under a schedule: true = the first query takes the next small step *)
Fixpoint run2 (sched : list bool) (g : store) (c1 c2 : cfg) : store * cfg * cfg :=
  match sched with
  | [] => (g, c1, c2)
  | true :: r => let (g', c1') := step g c1 in run2 r g' c1' c2
  | false :: r => let (g', c2') := step g c2 in run2 r g' c1 c2'
  end.

(* one query alone, n small steps *)
Fixpoint solo (n : nat) (g : store) (c : cfg) : store * cfg :=
  match n with
  | O => (g, c)
  | S k => let (g', c') := step g c in solo k g' c'
  end.

Definition start (e : fid) (p : P) : cfg := mkC p [] [SCall e] false.

(* a history: queries (entry point, initial private state, number of steps it is given) one after another, the store threaded *)
Fixpoint run_hist (g : store) (qs : list (fid * P * nat)) : store * list cfg :=
  match qs with
  | [] => (g, [])
  | (e, p, n) :: r =>
    let (g', c) := solo n g (start e p) in
    let (g'', cs) := run_hist g' r in (g'', c :: cs)
  end.

Definition solo_result (g : store) (q : fid * P * nat) : cfg :=
  match q with (e, p, n) => snd (solo n g (start e p)) end.

End Sem.

(* ---------------------------------------------------------------- a program WITH a shared write (refutation example) *)

(* function 1 reads cell 0 and emits what it read; function 2 rebinds cell 0 *)
Definition ex_leaky : prog := [(1%N, [SRead 0%N 0%N; SEmit 0%N]); (2%N, [SWrite 0%N 0%N])].

(* a program without shared writes: reads, a loop, a call, a failing statement (tag 9 fails) *)
Definition ex_clean : prog :=
  [(1%N, [SRead 0%N 0%N; SWhile 1%N [SCall 2%N; SEmit 0%N]; SLocal 9%N; SEmit 0%N]);
   (2%N, [SLocal 2%N; SIf 3%N [SRead 1%N 1%N] []])].

Definition ex_rd (t : N) (v : N) (p : N) : option N := Some (p + v)%N.
Definition ex_loc (t : N) (p : N) : option N := if N.eqb t 9%N then (if N.ltb 100 p then None else Some p) else Some (p + 1)%N.
Definition ex_tst (t : N) (p : N) : bool := N.ltb p 20%N.
Definition ex_wr (t : N) (p : N) : N := 7%N.
Definition ex_mu (t : N) (v : N) (p : N) : N := (v + 1)%N.
Definition ex_out (t : N) (p : N) : N := p.
Definition ex_store : cell -> N := fun c => if N.eqb c 7%N then 0%N else (c + 5)%N.
Definition ex_truthy (v : N) : bool := negb (N.eqb v 0%N).

(* a program whose only shared write sits under a flag (cell 7) that is false in ex_store: `if debug_mode: set_debug_mode()` *)
Definition ex_guarded : prog :=
  [(1%N, [SRead 0%N 0%N; SGuard 7%N [SCall 2%N]; SEmit 0%N]);
   (2%N, [SWrite 0%N 0%N; SWrite 7%N 0%N])].
