(* Header_Proofs.v — the output header is as wide as the output records and follows the naming rules (C07) *)
From RBQL Require Import Base Expr Header.

Definition info_width (ih jh : list str) (q : option cinfo) : nat :=
  match q with
  | Some (CStar None) => length ih + length jh
  | Some (CStar (Some TA)) => length ih
  | Some (CStar (Some TB)) => length jh
  | _ => 1
  end.

Lemma build_header_length ih jh : forall infos out,
  length (build_header ih jh infos out) = length out + fold_right (fun q acc => info_width ih jh q + acc) 0 infos.
Proof.
  induction infos as [|q infos IH]; intros out; cbn [build_header fold_right]; [lia|].
  rewrite IH. destruct q as [[[[|]|]|[|] i|n|a]|]; cbn [info_width];
    try destruct (nth_error ih i); try destruct (nth_error jh i); rewrite ?app_length; cbn [length]; lia.
Qed.

Lemma info_width_item ih jh h : info_width ih jh (info_of h) = hitem_width (length ih) (length jh) h.
Proof. destruct h as [[|] i|[|] n|[|] n|n| | | | |a]; reflexivity. Qed.

Lemma fold_info_width ih jh items :
  fold_right (fun q acc => info_width ih jh q + acc) 0 (map info_of items) = hitems_width (length ih) (length jh) items.
Proof. induction items as [|x items IH]; cbn; [reflexivity|]. rewrite info_width_item, IH. reflexivity. Qed.

(* header width = number of output columns, for a table with a header (rectangular records of |ih| / |jh| fields) *)
Theorem header_width_select ih jh items dc h :
  output_header (Some ih) jh (HQSelect items dc) = HSome h ->
  length h = (if dc then 1 else 0) + hitems_width (length ih) (length (match jh with Some j => j | None => [] end)) items.
Proof.
  cbn [output_header select_output_header]. intros H. injection H as <-.
  rewrite build_header_length. cbn [length]. destruct dc; cbn [fold_right info_width]; rewrite fold_info_width; lia.
Qed.

Lemma except_list_length {T U} (l : list T) (m : list U) idxs : length l = length m ->
  forall i, length (except_list l idxs i) = length (except_list m idxs i).
Proof.
  revert m. induction l as [|x l IH]; intros [|y m] H i; try discriminate; [reflexivity|].
  cbn. injection H as H. destruct (existsb (Nat.eqb i) idxs); cbn; rewrite (IH m H); reflexivity.
Qed.

Theorem header_width_except ih jh idxs dc h (a : list ch) :
  output_header (Some ih) jh (HQExcept idxs dc) = HSome h -> length a = length ih ->
  length h = (if dc then 1 else 0) + length (except_list a idxs 0).
Proof.
  cbn [output_header]. intros H Ha. injection H as <-. rewrite app_length.
  rewrite (except_list_length ih a idxs (eq_sym Ha) 0). destruct dc; reflexivity.
Qed.

Theorem header_width_update ih jh h : output_header (Some ih) jh HQUpdate = HSome h -> h = ih.
Proof. cbn. intros H. injection H as <-. reflexivity. Qed.

(* naming rule, item by item: the name appended for an item given the columns already produced *)
Definition item_name (ih jh : list str) (pos : nat) (h : hitem) : list str :=
  match h with
  | HAs a => [a]
  | HField TA i => match nth_error ih i with Some n => [n] | None => [colK (S pos)] end
  | HField TB i => match nth_error jh i with Some n => [n] | None => [colK (S pos)] end
  | HAttr _ n | HDict _ n | HVar n => [n]
  | HStar => ih ++ jh | HStarA => ih | HStarB => jh
  | HOther => [colK (S pos)]
  end.

Fixpoint names_from (ih jh : list str) (pos : nat) (items : list hitem) : list str :=
  match items with
  | [] => []
  | h :: t => let n := item_name ih jh pos h in n ++ names_from ih jh (pos + length n) t
  end.

Lemma build_header_names ih jh : forall items out,
  build_header ih jh (map info_of items) out = out ++ names_from ih jh (length out) items.
Proof.
  induction items as [|h items IH]; intros out; cbn [map build_header names_from]; [rewrite app_nil_r; reflexivity|].
  rewrite IH. destruct h as [[|] i|[|] n|[|] n|n| | | | |a]; cbn [info_of item_name];
    try destruct (nth_error ih i); try destruct (nth_error jh i);
    rewrite ?app_length, <- ?app_assoc; cbn [length app]; rewrite ?Nat.add_0_r; try reflexivity.
Qed.

(* the alias for `expr AS name`; the source column's name for aN / a[N] / a.name / a["name"] and star expansions;
   the identifier for bare variables; colK with K = position in the output otherwise *)
Theorem header_names ih jh items :
  output_header (Some ih) (Some jh) (HQSelect items false) = HSome (names_from ih jh 0 items).
Proof. cbn [output_header select_output_header]. rewrite build_header_names. reflexivity. Qed.

(* a table without a header yields an output header only when aliases are used *)
Theorem headerless items dc :
  existsb (fun h => match h with HAs _ => true | _ => false end) items = false ->
  output_header None None (HQSelect items dc) = HNone.
Proof.
  intros H. cbn [output_header select_output_header].
  assert (E : existsb is_alias_info (if dc then None :: map info_of items else map info_of items) = false).
  { destruct dc; cbn [existsb is_alias_info orb]; induction items as [|h items IH]; cbn in *; try reflexivity;
      apply orb_false_iff in H; destruct H as [H1 H2]; rewrite (IH H2); destruct h; try reflexivity; discriminate. }
  rewrite E. rewrite andb_false_r. reflexivity.
Qed.

Theorem headerless_other ih : output_header None ih (HQExcept [] false) = HNone /\ output_header None ih HQUpdate = HNone.
Proof. split; reflexivity. Qed.
