(* VarSpelling.v — the variable layer below the expression fragment: which field a spelled variable token reads (C08: aN vs a[N]).
   Extends ParserVars.v (whose scanners basic_body / array_body / ctx_start and maps parse_basic_variables /
   parse_array_variables are the models of the two regexes
        (?:^|[^_a-zA-Z0-9])a([1-9][0-9]* )(?:$|(?=[^_a-zA-Z0-9]))          (?:^|[^_a-zA-Z0-9])a\[([1-9][0-9]* )\]
   of rbql_engine.py AND rbql.js) with
     - the map of the NUMBERED field variables of one table ([numbered_vars]: what get_variables_map builds before it looks at
       column names), for both prefixes; the rbql-js flavour is the same map as long as every number read is below 2^53
       (rbql-js reads the digits with parseInt and prints the number back with String: beyond 2^53 the variable NAME changes;
       the model then answers "not modelled", [numbered_vars_fl] = None);
     - the init code as a BINDING ENVIRONMENT: every line  <key> = safe_get(record_a, <index>)  of generate_init_statements is an
       assignment executed by the host language; its target is either a plain name (aN: a local variable) or a subscript of
       the record object (a[N], a["name"]: RBQLRecord.__setitem__ in Python - the key is the VALUE of what stands between the
       brackets, the integer N or a string; a property of the prototype-less object in rbql-js - the key is the property
       NAME, so the number N and the string "N" are the same key there).  A variable token of the expression text is read
       through the same classification ([classify]): name lookup, or __getitem__ / property read.  Assignments run in map
       order, the last one to a target wins ([lookup]).
     - the record-number names: NR is the loop variable; aNR / a.NR / b.NR exist only if generate_common_init_code emits their
       line ([nr_lookup]).
   No proofs in this file. *)
From RBQL Require Import Base Value Expr Parser ParserVars JoinVars.
From Coq Require String.
Import String.StringSyntax.
Local Open Scope N_scope.

(* ------------------------------------------------------------------ the numbered variables of one table *)
Definition numbered_vars (query : str) (prefix : ch) : vmap :=
  parse_array_variables query prefix (parse_basic_variables query prefix []).

(* every number the two scanners read *)
Definition found_numbers (query : str) (prefix : ch) : list N :=
  infos (find_all (ctx_start (basic_body prefix)) query) ++ infos (find_all (ctx_start (array_body prefix)) query).
Definition JS_EXACT : N := 9007199254740992.                    (* 2^53 *)
Definition js_exact (query : str) (prefix : ch) : bool := forallb (fun n => N.ltb n JS_EXACT) (found_numbers query prefix).
Definition numbered_vars_fl (fl : lang) (query : str) (prefix : ch) : option vmap :=
  match fl with
  | LPy => Some (numbered_vars query prefix)
  | LJs => if js_exact query prefix then Some (numbered_vars query prefix) else None
  end.

(* ------------------------------------------------------------------ spellings of one field variable *)
Inductive spelling := SpName | SpIndex.
Definition tbl_ch (t : tbl) : ch := match t with TA => 97 | TB => 98 end.
Definition name_tok (p : ch) (n : N) : str := p :: dec_of_N n.
Definition index_tok (p : ch) (n : N) : str := p :: LBR :: dec_of_N n ++ [RBR].
(* the text the renderer (harness/qmodel.py: Renderer.fld) writes for  EFld t i  : N = i + 1 *)
Definition render_fld (sp : spelling) (t : tbl) (i : nat) : str :=
  match sp with
  | SpName => name_tok (tbl_ch t) (N.of_nat (S i))
  | SpIndex => index_tok (tbl_ch t) (N.of_nat (S i))
  end.

(* ------------------------------------------------------------------ targets: what an assignment binds / what a token reads *)
Inductive target :=
| TLocal (name : str)        (* a plain name: local variable of the generated loop body *)
| TInt (n : N)               (* record[<integer n>]      (Python: the key is the int) *)
| TStr (s : str)             (* record[<string s>]       (Python: the key is the str; rbql-js: the property name) *)
| TOther.                    (* anything else (attribute access, an expression between the brackets, ...): not modelled here *)
Definition target_eqb (a b : target) : bool :=
  match a, b with
  | TLocal x, TLocal y => str_eqb x y
  | TInt x, TInt y => N.eqb x y
  | TStr x, TStr y => str_eqb x y
  | _, _ => false
  end.
(* /^[_0-9a-zA-Z]+$/ (rbql-js: such a key is declared with var); for Python the same class: the keys the maps produce in it
   are aN and, in direct mode, identifiers *)
Definition simple_name (s : str) : bool := nonempty s && forallb is_word s.
(* a decimal integer literal without leading zero (0 itself is one) *)
Definition is_numeral (s : str) : bool :=
  match s with
  | [] => false
  | [c] => is_digit c
  | c :: r => is_digit19 c && forallb is_digit r
  end.
(* the key denoted by the text between the brackets *)
Definition bracket_key (fl : lang) (inner : str) : target :=
  if is_numeral inner then
    match fl with
    | LPy => TInt (N_of_digits inner)
    | LJs => TStr (dec_of_N (N_of_digits inner))          (* String(n); exact below 2^53 *)
    end
  else match py_literal_value inner with
       | Some v => TStr v
       | None => TOther
       end.
Definition classify (fl : lang) (prefix : ch) (tok : str) : target :=
  if simple_name tok then TLocal tok
  else match tok with
       | p :: b :: r =>
           if N.eqb p prefix && N.eqb b LBR then
             match rev r with
             | e :: ri => if N.eqb e RBR then bracket_key fl (rev ri) else TOther
             | [] => TOther
             end
           else TOther
       | _ => TOther
       end.

(* the assignments of the init code for one table, in order (entries with initialize = False emit no line) *)
Definition bind_env (fl : lang) (prefix : ch) (m : vmap) : list (target * N) :=
  flat_map (fun e : str * vinfo => let '(k, (ini, i)) := e in if ini then [(classify fl prefix k, i)] else []) m.
Fixpoint assoc_last (t : target) (l : list (target * N)) : option N :=
  match l with
  | [] => None
  | (t', i) :: r => match assoc_last t r with
                    | Some j => Some j
                    | None => if target_eqb t' t then Some i else None
                    end
  end.
(* the 0-based field index a variable token reads (None: NameError / InternalBadKeyError / not modelled) *)
Definition lookup (fl : lang) (prefix : ch) (m : vmap) (tok : str) : option N :=
  match classify fl prefix tok with
  | TOther => None
  | t => assoc_last t (bind_env fl prefix m)
  end.
(* the model's parser side of the expression fragment: the node a variable token stands for *)
Definition field_expr (fl : lang) (t : tbl) (m : vmap) (tok : str) : option expr :=
  option_map (fun i => EFld t (N.to_nat i)) (lookup fl (tbl_ch t) m tok).

(* ------------------------------------------------------------------ record-number names *)
Definition S_b : str := Eval vm_compute in $"b".
(* does generate_init_statements emit the join table's common init code?  Python: "if join_variables_map:" - an EMPTY
   dict is falsy; rbql-js: "if (join_variables_map)" - an empty object is truthy *)
Definition join_init_emitted (fl : lang) (jm : option vmap) : bool :=
  match jm with
  | None => false
  | Some [] => match fl with LPy => false | LJs => true end
  | Some (_ :: _) => true
  end.
Inductive nrvar := NRA | NRB.              (* the record number of the input record / of the join record *)
(* [fmt] is the format expression (string literals replaced by placeholders) *)
Definition nr_lookup (fl : lang) (fmt : str) (jm : option vmap) (name : str) : option nrvar :=
  if str_eqb name S_NR then Some NRA
  else if str_eqb name S_aNR then (if contains S_aNR fmt then Some NRA else None)
  else if str_eqb name S_adotNR then (if contains S_adotNR fmt then Some NRA else None)
  else if str_eqb name S_bNR then (match jm with Some _ => Some NRB | None => None end)
  else if str_eqb name S_bdotNR then (if join_init_emitted fl jm && contains S_bdotNR fmt then Some NRB else None)
  else None.
Definition nr_expr (v : nrvar) : expr := match v with NRA => ENR | NRB => EBNR end.
