(* Protocol_Proofs.v — what the user-supplied (innermost) writer sees, for every query shape, every oracle w and every
   expression semantics (C15): set_header at most once and before any write, no write after one returned False,
   finish exactly once - as the last call - after a run without error, and never after a failed run. *)
From RBQL Require Import Base Value Expr Writers Join Agg Engine.

Definition is_hdr (hs : list event) : Prop := hs = [] \/ exists h, hs = [EvHeader h].
Definition okw (e : event) : Prop := exists r, e = EvWrite r true.

(* chronological view of the trace *)
Definition chron (st : chain_st) : list event := rev (s_trace st).

Definition Alive (st : chain_st) : Prop := exists hs ws, chron st = hs ++ ws /\ is_hdr hs /\ Forall okw ws.
Definition Dying (st : chain_st) : Prop := exists hs ws r, chron st = hs ++ ws ++ [EvWrite r false] /\ is_hdr hs /\ Forall okw ws.
Definition Live (st : chain_st) : Prop := Alive st \/ Dying st.
Definition Done (st : chain_st) : Prop :=
  exists hs ws fl, chron st = hs ++ ws ++ fl ++ [EvFinish] /\ is_hdr hs /\ Forall okw ws /\ (fl = [] \/ exists r, fl = [EvWrite r false]).

Lemma alive_init : Alive chain_init.
Proof. exists [], []. repeat split; [left; reflexivity | constructor]. Qed.

Lemma alive_set_header h : Alive (set_header chain_init h).
Proof. exists [EvHeader h], []. repeat split; [right; eexists; reflexivity | constructor]. Qed.

Lemma chron_cons st e tr nw NW seen counts entries :
  s_trace st = tr ->
  chron {| s_trace := e :: tr; s_nwrites := nw; s_NW := NW; s_seen := seen; s_counts := counts; s_entries := entries |} = chron st ++ [e].
Proof. intros H. unfold chron. cbn. rewrite H. reflexivity. Qed.

Section Oracle.
Variable w : nat -> bool.
Variable cfg : chain_cfg.

Lemma base_write_live st r : Alive st ->
  (snd (base_write w st r) = true -> Alive (fst (base_write w st r))) /\
  (snd (base_write w st r) = false -> Dying (fst (base_write w st r))).
Proof.
  intros [hs [ws [E [Hh Hw]]]]. unfold base_write. cbn [fst snd]. split; intros Hok.
  - exists hs, (ws ++ [EvWrite r true]). unfold chron in *. cbn [s_trace rev]. rewrite E, Hok, app_assoc. repeat split; try assumption.
    apply Forall_app. split; [assumption | constructor; [eexists; reflexivity | constructor]].
  - exists hs, ws, r. unfold chron in *. cbn [s_trace rev]. rewrite E, Hok, app_assoc. repeat split; assumption.
Qed.

Lemma base_finish_done st : Live st -> Done (base_finish st).
Proof.
  intros [[hs [ws [E [Hh Hw]]]] | [hs [ws [r [E [Hh Hw]]]]]]; unfold Done, chron, base_finish in *; cbn [s_trace rev].
  - exists hs, ws, []. rewrite E. cbn. rewrite app_assoc. repeat split; try assumption. left. reflexivity.
  - exists hs, ws, [EvWrite r false]. rewrite E. rewrite <- !app_assoc. repeat split; try assumption. right. eexists. reflexivity.
Qed.

(* a writer function that keeps the protocol: from an alive state, a True answer leaves it alive, any answer leaves it live *)
Definition keeps (wr : chain_st -> row -> chain_st * bool) : Prop :=
  forall st r, Alive st -> (snd (wr st r) = true -> Alive (fst (wr st r))) /\ Live (fst (wr st r)).

Lemma alive_same_trace st st' : s_trace st' = s_trace st -> Alive st -> Alive st'.
Proof. intros H [hs [ws [E R]]]. exists hs, ws. unfold chron in *. rewrite H. split; assumption. Qed.

Lemma top_write_keeps : keeps (top_write w cfg).
Proof.
  intros st r Ha. unfold top_write. destruct (c_top cfg) as [n|].
  - destruct (Nat.leb n (s_NW st)).
    + cbn. split; [discriminate | left; assumption].
    + destruct (base_write_live st r Ha) as [B1 B2]. destruct (base_write w st r) as [st' ok] eqn:E. cbn [fst snd] in *.
      destruct ok; cbn [fst snd].
      * split; [intros _|left]; apply (alive_same_trace st'); try reflexivity; apply B1; reflexivity.
      * split; [discriminate | right; apply B2; reflexivity].
  - destruct (base_write_live st r Ha) as [B1 B2]. destruct (snd (base_write w st r)) eqn:E.
    + split; [intros _; apply B1; reflexivity | left; apply B1; reflexivity].
    + split; [discriminate | right; apply B2; reflexivity].
Qed.

Lemma uniq_write_keeps : keeps (uniq_write w cfg).
Proof.
  intros st r Ha. unfold uniq_write. destruct (c_distinct cfg).
  - apply top_write_keeps. assumption.
  - destruct (row_mem r (s_seen st)).
    + cbn. split; [intros _ | left]; assumption.
    + apply top_write_keeps. apply (alive_same_trace st); [reflexivity | assumption].
  - cbn. split; [intros _ | left]; apply (alive_same_trace st); try reflexivity; assumption.
Qed.

Lemma feed_live wr : keeps wr -> forall l st, Alive st -> Live (feed wr st l).
Proof.
  intros Hk. induction l as [|r l IH]; intros st Ha; [left; assumption|].
  cbn [feed]. destruct (Hk st r Ha) as [K1 K2]. destruct (wr st r) as [st' ok]. cbn [fst snd] in *.
  destruct ok; [apply IH; apply K1; reflexivity | assumption].
Qed.

(* feeding with a writer that never reaches the innermost writer keeps the state alive *)
Lemma feed_alive_quiet wr : (forall st r, Alive st -> Alive (fst (wr st r))) -> forall l st, Alive st -> Alive (feed wr st l).
Proof.
  intros Hq. induction l as [|r l IH]; intros st Ha; [assumption|].
  cbn [feed]. pose proof (Hq st r Ha) as K. destruct (wr st r) as [st' ok]. cbn [fst] in K.
  destruct ok; [apply IH; assumption | assumption].
Qed.

Lemma chain_write_keeps st k r : Alive st ->
  (snd (chain_write w cfg st k r) = true -> Alive (fst (chain_write w cfg st k r))) /\ Live (fst (chain_write w cfg st k r)).
Proof.
  intros Ha. unfold chain_write. destruct (c_order cfg).
  - cbn. split; [intros _ | left]; apply (alive_same_trace st); try reflexivity; assumption.
  - apply uniq_write_keeps. assumption.
Qed.

(* when the chain buffers (ORDER BY or DISTINCT COUNT) the innermost writer sees nothing during the loop *)
Definition buffers : Prop := c_order cfg <> None \/ c_distinct cfg = DCount.

Lemma chain_write_buffered st k r : buffers -> Alive st ->
  snd (chain_write w cfg st k r) = true /\ Alive (fst (chain_write w cfg st k r)).
Proof.
  intros Hb Ha. unfold chain_write. destruct (c_order cfg) as [rv|] eqn:Eo.
  - cbn. split; [reflexivity|]. apply (alive_same_trace st); [reflexivity | assumption].
  - destruct Hb as [Hb | Hb]; [congruence|]. unfold uniq_write. rewrite Hb. cbn. split; [reflexivity|].
    apply (alive_same_trace st); [reflexivity | assumption].
Qed.

Lemma chain_feed_keeps : forall l st, Alive st ->
  (snd (chain_feed w cfg st l) = true -> Alive (fst (chain_feed w cfg st l))) /\ Live (fst (chain_feed w cfg st l))
  /\ (buffers -> Alive (fst (chain_feed w cfg st l))).
Proof.
  induction l as [|[k r] l IH]; intros st Ha.
  - cbn. split; [intros _; assumption | split; [left; assumption | intros _; assumption]].
  - cbn [chain_feed]. destruct (chain_write_keeps st k r Ha) as [K1 K2].
    pose proof (fun Hb => chain_write_buffered st k r Hb Ha) as K3.
    destruct (chain_write w cfg st k r) as [st' ok]. cbn [fst snd] in *. destruct ok.
    + apply IH. apply K1. reflexivity.
    + cbn [fst snd]. split; [discriminate|]. split; [assumption|]. intros Hb. destruct (K3 Hb) as [C _]. discriminate.
Qed.

(* finish() of the chain *)
Lemma uniq_finish_done st : (c_distinct cfg = DCount -> Alive st) -> Live st -> Done (uniq_finish w cfg st).
Proof.
  intros Hc Hl. unfold uniq_finish. destruct (c_distinct cfg) eqn:Ed; try (apply base_finish_done; assumption).
  apply base_finish_done. apply feed_live; [apply top_write_keeps | apply Hc; reflexivity].
Qed.

Lemma uniq_write_quiet_count : c_distinct cfg = DCount -> forall st r, Alive st -> Alive (fst (uniq_write w cfg st r)).
Proof. intros Hd st r Ha. unfold uniq_write. rewrite Hd. cbn. apply (alive_same_trace st); [reflexivity | assumption]. Qed.

Lemma chain_finish_done st : (buffers -> Alive st) -> Live st -> Done (chain_finish w cfg st).
Proof.
  intros Hb Hl. unfold chain_finish. destruct (c_order cfg) as [rv|] eqn:Eo.
  - assert (Ha : Alive st) by (apply Hb; left; congruence).
    apply uniq_finish_done.
    + intros Hd. apply feed_alive_quiet; [apply uniq_write_quiet_count; assumption | assumption].
    + apply feed_live; [apply uniq_write_keeps | assumption].
  - apply uniq_finish_done; [|assumption]. intros Hd. apply Hb. right. assumption.
Qed.

End Oracle.

(* ---------- the whole run ---------- *)
Section Run.
Variable expr : Type.
Variable eval : env -> expr -> res val.
Variable w : nat -> bool.
Variable q : query expr.
Let cfg := cfg_of q.

(* loop invariant: the chain is alive (and untouched while it buffers or aggregates); after a Stop or a failure it is live *)
Definition Inv (ls : lstate) : Prop := Alive (l_chain ls).

Lemma process_select_inv ls en : Inv ls ->
  let '(ls', fl) := process_select eval w q ls en in
  Live (l_chain ls') /\ (fl <> Stop -> Alive (l_chain ls')) /\ (buffers cfg -> Alive (l_chain ls'))
  /\ (is_agg q = true -> l_chain ls' = l_chain ls).
Proof.
  intros Ha. unfold process_select. destruct (is_agg q) eqn:Eagg.
  - destruct (agg_values eval q en) as [[[k vs]|]|e].
    + unfold aggregate_one. destruct (l_agg ls) as [a|].
      * destruct (cols_increment (a_cols a) k vs); cbn; repeat split; try (left; assumption); intros; assumption.
      * fold cfg. destruct (c_order cfg), (c_distinct cfg); try (cbn; repeat split; try (left; assumption); intros; assumption).
        destruct (cols_increment _ k vs); cbn; repeat split; try (left; assumption); intros; assumption.
    + cbn. repeat split; try (left; assumption); intros; assumption.
    + cbn. repeat split; try (left; assumption); intros; assumption.
  - destruct (select_rows eval q en) as [rs|e].
    + unfold write_rows. fold cfg. destruct (chain_feed_keeps w cfg rs (l_chain ls) Ha) as [K1 [K2 K3]].
      destruct (chain_feed w cfg (l_chain ls) rs) as [st' ok]. cbn [fst snd l_chain] in *.
      split; [assumption|]. split; [|split; [assumption | discriminate]].
      destruct ok; [intros _; apply K1; reflexivity | intros C; exfalso; apply C; reflexivity].
    + cbn. repeat split; try (left; assumption); try discriminate; intros; assumption.
Qed.

Lemma process_matches_inv nr a : forall ms ls, Inv ls ->
  let '(ls', fl) := process_matches eval w q ls nr a ms in
  Live (l_chain ls') /\ (fl <> Stop -> Alive (l_chain ls')) /\ (buffers cfg -> Alive (l_chain ls'))
  /\ (is_agg q = true -> l_chain ls' = l_chain ls).
Proof.
  induction ms as [|b ms IH]; intros ls Ha.
  - cbn. repeat split; try (left; assumption); intros; assumption.
  - cbn [process_matches].
    pose proof (process_select_inv ls {| e_nr := nr; e_nf := length a; e_a := a; e_b := b; e_nu := l_nu ls |} Ha) as P.
    destruct (process_select eval w q ls _) as [ls1 fl1]. destruct P as [P1 [P2 [P3 P4]]].
    destruct fl1; try (repeat split; try assumption; discriminate).
    assert (Hc : Continue <> Stop) by discriminate. specialize (IH ls1 (P2 Hc)). destruct (process_matches eval w q ls1 nr a ms) as [ls2 fl2].
    destruct IH as [I1 [I2 [I3 I4]]]. repeat split; try assumption. intros Hg. rewrite (I4 Hg). apply P4. assumption.
Qed.

Lemma process_update_inv ls nr a b m asg : Inv ls -> is_agg q = false ->
  let '(ls', fl) := process_update eval w q ls nr a b m asg in
  Live (l_chain ls') /\ (fl <> Stop -> Alive (l_chain ls')) /\ (buffers cfg -> Alive (l_chain ls')).
Proof.
  intros Ha _. unfold process_update.
  assert (Hw : forall up nu, let '(st', ok) := chain_write w cfg (l_chain ls) [] up in
             Live (l_chain {| l_chain := st'; l_agg := l_agg ls; l_nu := nu |})
             /\ ((if ok then Continue else Stop) <> Stop -> Alive st') /\ (buffers cfg -> Alive st')).
  { intros up nu. destruct (chain_write_keeps w cfg (l_chain ls) [] up Ha) as [K1 K2].
    pose proof (fun Hb => chain_write_buffered w cfg (l_chain ls) [] up Hb Ha) as K3.
    destruct (chain_write w cfg (l_chain ls) [] up) as [st' ok]. cbn [fst snd l_chain] in *.
    split; [assumption|]. split; [destruct ok; [intros _; apply K1; reflexivity | intros C; exfalso; apply C; reflexivity] | intros Hb; apply (K3 Hb)]. }
  destruct (if m then where_ok eval q _ else Ok false) as [[|]|e].
  - destruct (apply_assigns eval _ _ asg) as [up'|e2].
    + specialize (Hw up' (S (l_nu ls))). fold cfg. destruct (chain_write w cfg (l_chain ls) [] up') as [st' ok]. exact Hw.
    + cbn. repeat split; try (left; assumption); try discriminate; intros; assumption.
  - specialize (Hw (map VA a) (l_nu ls)). fold cfg. destruct (chain_write w cfg (l_chain ls) [] (map VA a)) as [st' ok]. exact Hw.
  - cbn. repeat split; try (left; assumption); try discriminate; intros; assumption.
Qed.

Hypothesis Hst : static_check q = None.

Lemma update_not_agg asg : q_kind q = QUpdate asg -> is_agg q = false.
Proof.
  intros Hk. unfold static_check, is_update in Hst. rewrite Hk in Hst. unfold is_agg, has_agg_item. rewrite Hk.
  destruct (q_group q); [|reflexivity]. destruct (q_order q); cbn in Hst; discriminate.
Qed.

Lemma process_record_inv jm ls nr a : Inv ls ->
  let '(ls', fl) := process_record eval w q jm ls nr a in
  Live (l_chain ls') /\ (fl <> Stop -> Alive (l_chain ls')) /\ (buffers cfg -> Alive (l_chain ls'))
  /\ (is_agg q = true -> l_chain ls' = l_chain ls).
Proof.
  intros Ha. unfold process_record.
  destruct (q_kind q) as [items|idxs|asg] eqn:Ek.
  - destruct (q_join q); [destruct jm|]; try apply process_matches_inv; try assumption.
    destruct (bind _ _) as [ms|e]; [apply process_matches_inv; assumption|].
    repeat split; try (left; assumption); try discriminate; intros; assumption.
  - destruct (q_join q); [destruct jm|]; try apply process_matches_inv; try assumption.
    destruct (bind _ _) as [ms|e]; [apply process_matches_inv; assumption|].
    repeat split; try (left; assumption); try discriminate; intros; assumption.
  - pose proof (update_not_agg asg Ek) as Hn.
    assert (Hupd : forall b m, let '(ls', fl) := process_update eval w q ls nr a b m asg in
              Live (l_chain ls') /\ (fl <> Stop -> Alive (l_chain ls')) /\ (buffers cfg -> Alive (l_chain ls')) /\ (is_agg q = true -> l_chain ls' = l_chain ls)).
    { intros b m. pose proof (process_update_inv ls nr a b m asg Ha Hn) as P. destruct (process_update eval w q ls nr a b m asg) as [ls' fl].
      destruct P as [P1 [P2 P3]]. repeat split; try assumption. intros C. congruence. }
    destruct (q_join q); [destruct jm|]; try apply Hupd.
    destruct (bind _ _) as [[|b1 [|b2 l]]|e]; try apply Hupd; repeat split; try (left; assumption); try discriminate; intros; assumption.
Qed.

(* the whole loop *)
Lemma main_loop_inv jm : forall A ls nr, Inv ls ->
  let '(ls', _, err) := main_loop eval w q jm ls nr A in
  Live (l_chain ls') /\ (buffers cfg -> Alive (l_chain ls')) /\ (is_agg q = true -> l_chain ls' = l_chain ls)
  /\ (err <> None -> Alive (l_chain ls')).
Proof.
  induction A as [|a A IH]; intros ls nr Ha.
  - cbn. split; [left; assumption|]. split; [intros; assumption|]. split; [reflexivity|]. intros C. exfalso. apply C. reflexivity.
  - cbn [main_loop]. pose proof (process_record_inv jm ls (S nr) a Ha) as P.
    destruct (process_record eval w q jm ls (S nr) a) as [ls1 fl]. destruct P as [P1 [P2 [P3 P4]]].
    destruct fl.
    + assert (Hc : Continue <> Stop) by discriminate. specialize (IH ls1 (S nr) (P2 Hc)). destruct (main_loop eval w q jm ls1 (S nr) A) as [[ls2 n2] e2].
      destruct IH as [I1 [I2 [I3 I4]]]. repeat split; try assumption. intros Hg. rewrite (I3 Hg). apply P4. assumption.
    + split; [assumption|]. split; [assumption|]. split; [assumption|]. intros C. exfalso. apply C. reflexivity.
    + split; [assumption|]. split; [assumption|]. split; [assumption|]. intros _. apply P2. discriminate.
Qed.

(* the aggregate writer only exists in aggregate queries *)
Lemma process_record_agg jm ls nr a : (is_agg q = false -> l_agg ls = None) ->
  is_agg q = false -> l_agg (fst (process_record eval w q jm ls nr a)) = None.
Proof.
  intros Hn Hf. specialize (Hn Hf). unfold process_record.
  assert (Hm : forall ms ls0, l_agg ls0 = None -> l_agg (fst (process_matches eval w q ls0 nr a ms)) = None).
  { induction ms as [|b ms IHm]; intros ls0 H0; [exact H0|]. cbn [process_matches]. unfold process_select. rewrite Hf.
    destruct (select_rows eval q _) as [rs|e]; [|exact H0]. destruct (write_rows w q (l_chain ls0) rs) as [st' ok].
    destruct ok; [apply IHm; exact H0 | exact H0]. }
  assert (Hu : forall b m asg, l_agg (fst (process_update eval w q ls nr a b m asg)) = None).
  { intros b m asg. unfold process_update. destruct (if m then where_ok eval q _ else Ok false) as [[|]|e]; try exact Hn.
    - destruct (apply_assigns eval _ _ asg); [destruct (chain_write _ _ _ _ _)|]; exact Hn.
    - destruct (chain_write _ _ _ _ _); exact Hn. }
  destruct (q_kind q).
  - destruct (q_join q); [destruct jm|]; try (apply Hm; exact Hn). destruct (bind _ _); [apply Hm; exact Hn | exact Hn].
  - destruct (q_join q); [destruct jm|]; try (apply Hm; exact Hn). destruct (bind _ _); [apply Hm; exact Hn | exact Hn].
  - destruct (q_join q); [destruct jm|]; try apply Hu. destruct (bind _ _) as [[|b1 [|b2 l]]|e]; try apply Hu; exact Hn.
Qed.

Lemma main_loop_agg_none jm : forall A ls nr, is_agg q = false -> l_agg ls = None ->
  l_agg (fst (fst (main_loop eval w q jm ls nr A))) = None.
Proof.
  induction A as [|a A IH]; intros ls nr Hf Hn; [exact Hn|]. cbn [main_loop].
  pose proof (process_record_agg jm ls (S nr) a (fun _ => Hn) Hf) as P.
  destruct (process_record eval w q jm ls (S nr) a) as [ls1 fl]. cbn [fst] in P.
  destruct fl; cbn [fst]; [apply IH; assumption | exact P | exact P].
Qed.

(* THE PROTOCOL, for every query, every writer oracle and every expression semantics *)
Theorem run_protocol hdr A B :
  let o := run eval w q hdr A B in
  match o_error o with
  | None => Done (o_chain o)                       (* [header] writes* [one refused write] finish *)
  | Some _ => Alive (o_chain o)                    (* [header] writes* - all accepted; finish is never called *)
  end.
Proof.
  unfold run. rewrite Hst.
  assert (Hmain : forall jm,
     let '(ls, pulls, err) := main_loop eval w q jm {| l_chain := set_header chain_init hdr; l_agg := None; l_nu := 0 |} 0 A in
     match err with
     | Some e => Alive (l_chain ls)
     | None => let '(st, ferr) := finish w q ls in
               match ferr with None => Done st | Some _ => Alive st end
     end).
  { intros jm. set (ls0 := {| l_chain := set_header chain_init hdr; l_agg := None; l_nu := 0 |}).
    pose proof (main_loop_inv jm A ls0 0 (alive_set_header hdr)) as P.
    pose proof (main_loop_agg_none jm A ls0 0) as Q.
    destruct (main_loop eval w q jm ls0 0 A) as [[ls pulls] err]. cbn [fst] in Q. destruct P as [P1 [P2 [P3 P4]]].
    destruct err as [e|]; [apply P4; discriminate|]. unfold finish. destruct (l_agg ls) as [a|] eqn:Eg.
    - assert (Hy : is_agg q = true).
      { destruct (is_agg q) eqn:E; [reflexivity|]. specialize (Q eq_refl eq_refl). discriminate. }
      assert (Hal : Alive (l_chain ls)) by (rewrite (P3 Hy); apply alive_set_header).
      destruct (final_rows (a_cols a) (sort_keys (a_keys a))) as [rows|e]; [|exact Hal].
      apply base_finish_done. apply feed_live; [apply top_write_keeps | exact Hal].
    - apply chain_finish_done; assumption. }
  destruct (q_join q) as [js|].
  - destruct (build (j_rhs js) B) as [m|bnr]; [|apply alive_init].
    specialize (Hmain (Some (widen (j_bhdr js) m))). destruct (main_loop eval w q (Some (widen (j_bhdr js) m)) _ 0 A) as [[ls pulls] [e|]]; [exact Hmain|].
    destruct (finish w q ls) as [st [fe|]]; exact Hmain.
  - specialize (Hmain None). destruct (main_loop eval w q None _ 0 A) as [[ls pulls] [e|]]; [exact Hmain|].
    destruct (finish w q ls) as [st [fe|]]; exact Hmain.
Qed.

(* consequently: a run in which the writer refused a write returns WITHOUT error *)
Theorem refusal_is_not_an_error hdr A B r :
  In (EvWrite r false) (s_trace (o_chain (run eval w q hdr A B))) -> o_error (run eval w q hdr A B) = None.
Proof.
  intros Hin. pose proof (run_protocol hdr A B) as P. cbn zeta in P.
  destruct (o_error (run eval w q hdr A B)) as [e|]; [|reflexivity]. exfalso.
  destruct P as [hs [ws [E [Hh Hw]]]]. unfold chron in E. apply in_rev in Hin. rewrite E in Hin.
  apply in_app_or in Hin. destruct Hin as [Hin | Hin].
  - destruct Hh as [-> | [h ->]]; [contradiction | destruct Hin as [C | []]; discriminate].
  - rewrite Forall_forall in Hw. destruct (Hw _ Hin) as [r0 C]. discriminate.
Qed.

End Run.

(* static mistakes: the writer sees nothing at all *)
Theorem static_error_no_output {expr} (eval : env -> expr -> res val) w (q : query expr) hdr A B t :
  static_check q = Some t -> s_trace (o_chain (run eval w q hdr A B)) = [].
Proof. intros H. unfold run. rewrite H. reflexivity. Qed.
