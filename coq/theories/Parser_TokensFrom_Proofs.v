(* Parser_TokensFrom_Proofs.v — C08_token_spelling, part 9: the redundant input table name.
   remove_redundant_input_table_name deletes  FROM a  (anywhere after the select list) and rewrites
   UPDATE a SET  to  update ; what is left is again a rendered query, so that the action record is the one of the
   query without these words. *)
From RBQL Require Import Base Parser Parser_Spelling_Proofs Parser_Tokens_Proofs Parser_TokensLocate_Proofs
  Parser_TokensRender_Proofs Parser_TokensQuery_Proofs Parser_TokensMain_Proofs Parser_TokensSpell_Proofs.
Local Open Scope N_scope.

(* ------------------------------------------------------------------ re.sub over a text without matches *)
Fixpoint tails (s : str) : list str := match s with [] => [] | _ :: t => s :: tails t end.
(* the FROM a regex matches nowhere in X *)
Definition fa_quiet (fl : lang) (X : str) : bool := forallb (fun u => isN (from_a_match fl None u)) (tails X).

Lemma from_a_prev : forall fl p p' s, from_a_match fl p s = from_a_match fl p' s.
Proof. reflexivity. Qed.

Section Sub.
  Variable fl : lang.
  Let m := from_a_match fl.

  Lemma sub_skip : forall A B p, sub_all_from m [SP] (A ++ B) p (length A) = sub_all_from m [SP] B None 0.
  Proof.
    induction A as [|c A IH]; intros B p.
    - cbn [app length]. destruct B as [|b B]; [reflexivity|]. cbn [sub_all_from]. reflexivity.
    - cbn [app length sub_all_from]. apply IH.
  Qed.

  Lemma sub_nomatch : forall P X p, (forall u, In u (tails P) -> m None (u ++ X) = None) ->
    sub_all_from m [SP] (P ++ X) p 0 = P ++ sub_all_from m [SP] X None 0.
  Proof.
    induction P as [|c P IH]; intros X p H.
    - cbn [app]. destruct X as [|x X]; [reflexivity|]. cbn [sub_all_from]. reflexivity.
    - cbn [app sub_all_from]. change (m p (c :: P ++ X)) with (m None ((c :: P) ++ X)).
      rewrite (H (c :: P)) by (left; reflexivity). f_equal. apply IH. intros u Iu. apply H. right. exact Iu.
  Qed.

  Lemma sub_quiet : forall X, fa_quiet fl X = true -> sub_all m [SP] X = X.
  Proof.
    intros X Q. unfold sub_all. rewrite <- (app_nil_r X) at 1. rewrite sub_nomatch; [cbn [sub_all_from]; apply app_nil_r|].
    intros u Iu. rewrite app_nil_r. unfold fa_quiet in Q. rewrite forallb_forall in Q. specialize (Q u Iu).
    unfold m. destruct (from_a_match fl None u); [discriminate Q | reflexivity].
  Qed.
End Sub.

Lemma tails_app : forall A B u, In u (tails B) -> In u (tails (A ++ B)).
Proof.
  induction A as [|a A IH]; intros B u H; [exact H|]. cbn [app tails]. right. apply IH. exact H.
Qed.
Lemma tails_app_l : forall A B u, In u (tails A) -> In (u ++ B) (tails (A ++ B)).
Proof.
  induction A as [|a A IH]; intros B u H; [contradiction|]. cbn [app tails] in *. destruct H as [<-|H]; [left; reflexivity | right; apply IH; exact H].
Qed.
Lemma fa_quiet_tail : forall fl A B, fa_quiet fl (A ++ B) = true -> fa_quiet fl B = true.
Proof.
  intros fl A B H. unfold fa_quiet in *. rewrite forallb_forall in *. intros u Iu. apply H. apply tails_app. exact Iu.
Qed.

(* ------------------------------------------------------------------ the FROM a regex is local *)
Lemma end_ok_notallsp : forall x, end_ok x = true -> forallb is_sp x = false.
Proof.
  intros x E. unfold end_ok in E. destruct (rev x) as [|d r] eqn:R; [discriminate E|]. apply negb_true_iff in E.
  destruct (forallb is_sp x) eqn:A; [|reflexivity]. rewrite forallb_forall in A.
  rewrite (A d) in E; [discriminate E|]. apply in_rev. rewrite R. left. reflexivity.
Qed.

Lemma end_ok_suffix : forall pre r, r <> [] -> end_ok (pre ++ r) = true -> end_ok r = true.
Proof.
  intros pre r NE E. unfold end_ok in *. rewrite rev_app_distr in E. destruct (rev r) as [|d x] eqn:R; [|exact E].
  exfalso. apply NE. rewrite <- (rev_involutive r), R. reflexivity.
Qed.

Lemma lstrip_suffix : forall f x, exists pre, x = pre ++ lstrip_by f x.
Proof.
  intros f x. induction x as [|c t [pre IH]]; [exists []; reflexivity|]. cbn [lstrip_by].
  destruct (f c); [exists (c :: pre); cbn [app]; rewrite <- IH; reflexivity | exists []; reflexivity].
Qed.

Lemma eat_ci_suffix : forall fl kw s r, eat_ci fl kw s = Some r -> exists pre, s = pre ++ r.
Proof.
  intros fl kw. induction kw as [|k kw IH]; intros s r H; [injection H as <-; exists []; reflexivity|].
  destruct s as [|c s]; [discriminate H|]. cbn [eat_ci] in H. destruct (ci_eq fl k c); [|discriminate H].
  destruct (IH s r H) as [pre ->]. exists (c :: pre). reflexivity.
Qed.

(* x ends with a non-space: dropping its leading spaces commutes with what follows *)
Lemma drop_sp_end : forall x R, end_ok x = true ->
  drop_sp (x ++ SP :: R) = drop_sp x ++ SP :: R /\ end_ok (drop_sp x) = true /\ drop_sp x <> [].
Proof.
  intros x R E. pose proof (end_ok_notallsp x E) as A. split; [apply drop_sp_app_nonsp; exact A|].
  destruct (lstrip_suffix is_sp x) as [pre EQ]. fold (drop_sp x) in EQ.
  assert (NE : drop_sp x <> []).
  { intro Z. rewrite Z, app_nil_r in EQ. subst pre. clear -A Z. induction x as [|c t IH]; [discriminate A|].
    unfold drop_sp in *. cbn [lstrip_by forallb] in *. destruct (is_sp c); [apply IH; assumption | discriminate Z]. }
  split; [|exact NE]. apply (end_ok_suffix pre); [exact NE | rewrite <- EQ; exact E].
Qed.

(* the part of the regex after FROM:  +a( +|$)  *)
Definition fa2 (fl : lang) (r2 : str) : bool :=
  match eat_sp1 r2 with
  | Some (c :: r4) => if ci_eq fl 65 c then match eat_sp1 r4 with Some _ => true | None => at_dollar fl r4 end else false
  | _ => false
  end.
Lemma from_a_fa2 : forall fl p s, isS (from_a_match fl p s) =
  match eat_sp1 s with Some r1 => match eat_ci fl K_FROM r1 with Some r2 => fa2 fl r2 | None => false end | None => false end.
Proof.
  intros fl p s. unfold from_a_match, fa2. destruct (eat_sp1 s) as [r1|]; [|reflexivity].
  destruct (eat_ci fl K_FROM r1) as [r2|]; [|reflexivity]. destruct (eat_sp1 r2) as [[|c r4]|]; try reflexivity.
  destruct (ci_eq fl 65 c); [|reflexivity]. destruct (eat_sp1 r4); [reflexivity|]. destruct (at_dollar fl r4); reflexivity.
Qed.

Lemma eat_sp1_cons : forall c t, eat_sp1 (c :: t) = if is_sp c then Some (drop_sp t) else None.
Proof. reflexivity. Qed.

Lemma ci_a_F : forall fl w Z, case_rel K_FROM w -> exists f t, w ++ Z = f :: t /\ ci_eq fl 65 f = false /\ is_sp f = false.
Proof.
  intros fl w Z C. inversion C as [|k c K' w' Hc Hr E1 E2]. exists c. eexists. split; [reflexivity|].
  destruct Hc as [<-|[_ [A L]]]; [destruct fl; split; reflexivity|]. split; [|apply alpha_is_sp; exact A].
  unfold ci_eq. rewrite <- L. destruct fl; [|reflexivity]. cbn [orb]. apply fold_extra_ascii. apply alpha_ascii. exact A.
Qed.

Lemma fa2_local : forall fl w R1 a fw Z, (w = [] \/ end_ok w = true) -> case_rel K_FROM fw ->
  fa2 fl (w ++ SP :: R1) = false -> fa2 fl (w ++ SP :: sps a ++ fw ++ Z) = false.
Proof.
  intros fl w R1 a fw Z W C H. destruct (ci_a_F fl fw Z C) as [f [t [EF [NF NS]]]].
  destruct W as [->|E].
  - cbn [app]. unfold fa2. rewrite eat_sp1_cons. change (is_sp SP) with true. cbv iota. rewrite drop_sp_sps, EF.
    rewrite (drop_sp_nonsp f t NS). rewrite NF. reflexivity.
  - destruct w as [|c1 w1]; [discriminate E|]. unfold fa2 in *. cbn [app] in *. rewrite eat_sp1_cons in *.
    destruct (is_sp c1) eqn:S1; [|reflexivity].
    assert (E1 : end_ok w1 = true).
    { apply (end_ok_suffix [c1]); [|exact E]. intros ->. unfold end_ok in E. cbn [rev app] in E. rewrite S1 in E. discriminate E. }
    destruct (drop_sp_end w1 R1 E1) as [D1 _]. destruct (drop_sp_end w1 (sps a ++ fw ++ Z) E1) as [D2 [E2 NE]].
    rewrite D1 in H. rewrite D2. destruct (drop_sp w1) as [|c2 w3]; [contradiction|]. cbn [app] in *.
    destruct (ci_eq fl 65 c2); [|reflexivity]. destruct w3 as [|c3 w4].
    + cbn [app eat_sp1] in H. change (is_sp SP) with true in H. cbv iota in H. discriminate H.
    + cbn [app] in *. rewrite eat_sp1_cons in *. destruct (is_sp c3); [discriminate H|].
      unfold at_dollar. destruct (w4 ++ SP :: sps a ++ fw ++ Z) eqn:X; [destruct w4; discriminate X | reflexivity].
Qed.

Lemma isS_none : forall {A} (o : option A), isS o = false -> o = None.
Proof. intros A [x|] H; [discriminate H | reflexivity]. Qed.

Lemma fa_local : forall fl u R1 a fw Z, end_ok u = true -> case_rel K_FROM fw ->
  from_a_match fl None (u ++ SP :: R1) = None -> from_a_match fl None (u ++ SP :: sps a ++ fw ++ Z) = None.
Proof.
  intros fl u R1 a fw Z E C H. apply isS_none. rewrite from_a_fa2. assert (H' : isS (from_a_match fl None (u ++ SP :: R1)) = false) by (rewrite H; reflexivity).
  rewrite from_a_fa2 in H'. destruct u as [|c0 u0]; [discriminate E|]. cbn [app] in *. rewrite eat_sp1_cons in *.
  destruct (is_sp c0) eqn:S0; [|reflexivity].
  assert (E0 : end_ok u0 = true).
  { apply (end_ok_suffix [c0]); [|exact E]. intros ->. unfold end_ok in E. cbn [rev app] in E. rewrite S0 in E. discriminate E. }
  destruct (drop_sp_end u0 R1 E0) as [D1 _]. destruct (drop_sp_end u0 (sps a ++ fw ++ Z) E0) as [D2 [E2 NE]].
  rewrite D1 in H'. rewrite D2. rewrite (eat_ci_app_sp fl K_FROM (drop_sp u0) R1 eq_refl) in H'.
  rewrite (eat_ci_app_sp fl K_FROM (drop_sp u0) (sps a ++ fw ++ Z) eq_refl).
  destruct (eat_ci fl K_FROM (drop_sp u0)) as [w|] eqn:EW; [|reflexivity]. cbn [option_map] in *.
  apply (fa2_local fl w R1 a fw Z); [|exact C | exact H'].
  destruct (eat_ci_suffix fl _ _ _ EW) as [pre EQ]. destruct w as [|c w']; [left; reflexivity|]. right.
  apply (end_ok_suffix pre); [discriminate | rewrite <- EQ; exact E2].
Qed.

(* the hit: spaces FROM spaces a, then spaces up to the next non-space, or the end of the text *)
Definition fa_text (a : nat) (fw : str) (g : nat) (c : ch) : str := sps (S a) ++ fw ++ sps (S g) ++ [c].

Lemma fa_hit : forall fl p a fw g c b R, case_rel K_FROM fw -> ci_eq fl 65 c = true ->
  (match R with [] => True | x :: _ => is_sp x = false /\ (1 <= b)%nat end) ->
  from_a_match fl p (fa_text a fw g c ++ sps b ++ R) = Some (length (fa_text a fw g c ++ sps b), tt).
Proof.
  intros fl p a fw g c b R C CA HR. unfold from_a_match, fa_text. rewrite <- !app_assoc.
  change (sps (S a) ++ fw ++ sps (S g) ++ [c] ++ sps b ++ R) with (SP :: (sps a ++ fw ++ sps (S g) ++ [c] ++ sps b ++ R)).
  rewrite eat_sp1_cons. change (is_sp SP) with true. cbv iota. rewrite drop_sp_sps.
  rewrite (word_drop K_FROM fw _ C eq_refl ltac:(discriminate)). rewrite (eat_ci_case fl K_FROM fw _ C).
  change (sps (S g) ++ [c] ++ sps b ++ R) with (SP :: (sps g ++ c :: sps b ++ R)). rewrite eat_sp1_cons.
  change (is_sp SP) with true. cbv iota. rewrite drop_sp_sps.
  assert (NC : is_sp c = false).
  { unfold ci_eq in CA. unfold is_sp. destruct (N.eqb_spec c 32) as [->|]; [|reflexivity]. destruct fl; discriminate CA. }
  rewrite (drop_sp_nonsp c _ NC). rewrite CA.
  assert (LEN : forall X, consumed (SP :: sps a ++ fw ++ SP :: sps g ++ c :: sps b ++ X) X
                = length (sps (S a) ++ fw ++ sps (S g) ++ [c] ++ sps b)).
  { intro X. unfold consumed. cbn [length]. rewrite !app_length. cbn [length]. rewrite !app_length. cbn [length]. rewrite !app_length, !sps_length. cbn [length]. lia. }
  destruct b as [|b].
  - destruct R as [|x R]; [|destruct HR as [_ HR]; lia]. change (sps 0 ++ []) with (@nil ch).
    cbn [eat_sp1 at_dollar]. rewrite <- (LEN []). reflexivity.
  - change (sps (S b) ++ R) with (SP :: (sps b ++ R)). rewrite eat_sp1_cons. change (is_sp SP) with true. cbv iota.
    rewrite drop_sp_sps. assert (DR : drop_sp R = R) by (destruct R as [|x R]; [reflexivity | apply drop_sp_nonsp; exact (proj1 HR)]).
    rewrite DR. rewrite <- (LEN R). reflexivity.
Qed.

Lemma tails_suffix : forall s u, In u (tails s) -> exists pre, s = pre ++ u /\ u <> [].
Proof.
  induction s as [|c s IH]; intros u H; [contradiction|]. cbn [tails] in H. destruct H as [<-|H].
  - exists []. split; [reflexivity | discriminate].
  - destruct (IH u H) as [pre [-> N]]. exists (c :: pre). split; [reflexivity | exact N].
Qed.

(* re.sub deletes the rendered FROM a: what stays is the text before, ONE space, the text after *)
Lemma sub_from_a : forall fl P a fw g c b R, end_ok P = true -> fa_quiet fl (P ++ SP :: R) = true ->
  case_rel K_FROM fw -> ci_eq fl 65 c = true ->
  (match R with [] => True | x :: _ => is_sp x = false /\ (1 <= b)%nat end) ->
  sub_all (from_a_match fl) [SP] (P ++ fa_text a fw g c ++ sps b ++ R) = P ++ SP :: R.
Proof.
  intros fl P a fw g c b R EP Q C CA HR. unfold sub_all. rewrite sub_nomatch.
  - f_equal. pose proof (fa_hit fl None a fw g c b R C CA HR) as HIT.
    assert (SH : exists A, fa_text a fw g c ++ sps b = SP :: A).
    { unfold fa_text. eexists. cbn [sps repeat app]. reflexivity. }
    destruct SH as [A SH]. rewrite app_assoc in *. rewrite SH in *. cbn [app] in HIT. cbn [app sub_all_from]. rewrite HIT.
    cbn [length Nat.sub app]. rewrite Nat.sub_0_r. f_equal. rewrite sub_skip.
    apply (sub_quiet fl R). apply (fa_quiet_tail fl (P ++ [SP]) R). rewrite <- app_assoc. exact Q.
  - intros u Iu. destruct (tails_suffix P u Iu) as [pre [EQ NE]].
    unfold fa_text. rewrite <- !app_assoc. change (sps (S a) ++ fw ++ sps (S g) ++ [c] ++ sps b ++ R) with (SP :: sps a ++ fw ++ (sps (S g) ++ [c] ++ sps b ++ R)).
    apply (fa_local fl u R); [apply (end_ok_suffix pre); [exact NE | rewrite <- EQ; exact EP] | exact C|].
    unfold fa_quiet in Q. rewrite forallb_forall in Q. specialize (Q (u ++ SP :: R) (tails_app_l P (SP :: R) u Iu)).
    destruct (from_a_match fl None (u ++ SP :: R)); [discriminate Q | reflexivity].
Qed.

(* ------------------------------------------------------------------ the edges of a rendered query (for strip) *)
Definition tend_ok (fl : lang) (T : str) : bool := match rev T with d :: _ => negb (txt_ws fl d) | [] => false end.

Lemma alpha_not_txt_ws : forall fl c, is_alpha c = true -> txt_ws fl c = false.
Proof. intros fl c A. destruct fl; [apply (alpha_not_ws LPy); exact A | apply alpha_is_sp; exact A]. Qed.

Lemma edge_tend : forall fl T, edge_ok fl T = true -> tend_ok fl T = true.
Proof.
  intros fl T E. unfold edge_ok, tend_ok in *. destruct T as [|c T']; [discriminate E|]. destruct (rev (c :: T')); [discriminate E|].
  apply andb_true_iff in E. exact (proj2 E).
Qed.
Lemma tend_app : forall fl A T, tend_ok fl T = true -> tend_ok fl (A ++ T) = true.
Proof. intros fl A T E. unfold tend_ok in *. rewrite rev_app_distr. destruct (rev T); [discriminate E | exact E]. Qed.
Lemma tend_end : forall fl T, tend_ok fl T = true -> end_ok T = true.
Proof.
  intros fl T E. unfold tend_ok, end_ok in *. destruct (rev T) as [|d r]; [discriminate E|]. apply negb_true_iff in E. apply negb_true_iff.
  unfold is_sp. destruct (N.eqb_spec d 32) as [->|]; [|reflexivity]. change (txt_ws fl SP = false) in E. rewrite txt_ws_SP in E. discriminate E.
Qed.

Lemma final_txt_tend : forall fl wf s q k, present q k = true -> kind_ok fl wf q k = true -> case_rel (dir_word q) (s_dir_w s) ->
  tend_ok fl (txt_of s q k) = true.
Proof.
  intros fl wf s q k P K CD.
  assert (G : forall t, clause_ok fl wf t = true -> tend_ok fl t = true) by (intros t H; apply edge_tend, (clause_ok_edge fl wf); exact H).
  destruct k; cbn [present kind_ok txt_of] in *.
  - destruct (q_join q) as [[jk t]|]; [|discriminate P]. apply G. exact K.
  - unfold order_txt. unfold dir_word in CD. destruct (q_order q) as [[t d]|]; [|discriminate P].
    apply andb_true_iff in K. destruct K as [K _]. destruct (d || s_asc s); [|rewrite app_nil_r; apply G; exact K].
    rewrite app_assoc. apply tend_app.
    assert (W : exists K0, case_rel K0 (s_dir_w s) /\ letters K0 = true /\ K0 <> []) by (destruct d; eexists; (split; [exact CD | split; [reflexivity | discriminate]])).
    destruct W as [K0 [C0 [L0 N0]]]. destruct (word_last_letter K0 _ C0 L0 N0) as [c [x [RW AL]]]. unfold tend_ok. rewrite RW.
    rewrite (alpha_not_txt_ws fl c AL). reflexivity.
  - destruct (q_where q); [|discriminate P]. apply G. exact K.
  - destruct (q_group q); [|discriminate P]. apply G. exact K.
  - destruct (q_limit q); [|discriminate P]. apply G. exact K.
  - destruct (q_except q); [|discriminate P]. apply G. exact K.
  - destruct (q_from q); [|discriminate P]. apply G. exact K.
Qed.

Lemma final_head_tend : forall fl wf s k, head_ok fl wf k = true -> tend_ok fl (head_text s k) = true.
Proof.
  intros fl wf s k H.
  assert (G : forall A t, clause_ok fl wf t = true -> tend_ok fl (A ++ t) = true) by (intros A t C; apply tend_app, edge_tend, (clause_ok_edge fl wf); exact C).
  destruct k as [top d c sel|asg]; cbn [head_ok head_text] in *.
  - apply andb_true_iff in H. destruct H as [H _]. apply andb_true_iff in H. destruct H as [H _]. apply andb_true_iff in H.
    destruct H as [H _]. rewrite app_assoc. apply G. exact H.
  - apply andb_true_iff in H. destruct H as [H _]. apply G. exact H.
Qed.

(* a rendered query over any sub-list of the clauses starts with a letter and ends with a character that no strip removes *)
Lemma render_edge_ok : forall fl wf s q l, head_ok fl wf (q_kind q) = true -> case_rel (head_word (q_kind q)) (s_hw s) ->
  case_rel (dir_word q) (s_dir_w s) -> (forall k, In k l -> present q k = true /\ kind_ok fl wf q k = true) ->
  edge_ok fl (render_q (s_hw s) (s_hk s) (head_text s (q_kind q)) (map (rcl_of s q) l)) = true.
Proof.
  intros fl wf s q l WH CH CD HK.
  destruct (render_q_last (s_hw s) (s_hk s) (head_text s (q_kind q)) (map (rcl_of s q) l)) as [pre [T [E H]]].
  assert (TE : tend_ok fl T = true).
  { destruct H as [[-> _]|[c [I ->]]]; [apply (final_head_tend fl wf); exact WH|].
    apply in_map_iff in I. destruct I as [k [<- Ik]]. cbn [rcl_of rc_txt]. destruct (HK k Ik) as [P K]. apply (final_txt_tend fl wf); assumption. }
  assert (TF : tend_ok fl (render_q (s_hw s) (s_hk s) (head_text s (q_kind q)) (map (rcl_of s q) l)) = true).
  { rewrite E. change (pre ++ SP :: T) with (pre ++ [SP] ++ T). rewrite app_assoc. apply tend_app. exact TE. }
  unfold edge_ok. unfold tend_ok in TF. unfold render_q in *.
  inversion CH as [|k0 c0 K' w' Hc Hr E1 E2]; [destruct (q_kind q); discriminate|]. rewrite <- E2 in *. cbn [app] in *.
  destruct (rev (c0 :: w' ++ sps (S (s_hk s)) ++ head_text s (q_kind q) ++ render_cls (map (rcl_of s q) l))) as [|d r]; [discriminate TF|].
  rewrite TF, andb_true_r. apply negb_true_iff. apply alpha_not_txt_ws.
  assert (AK : is_alpha k0 = true) by (destruct (q_kind q); cbn [head_word] in E1; unfold W_SELECT, W_UPDATE in E1; injection E1 as E1 _; rewrite E1; reflexivity).
  destruct Hc as [<-|[_ [A _]]]; assumption.
Qed.

(* ------------------------------------------------------------------ FROM a anywhere after the select list *)
Lemma render_cls_app : forall a b, render_cls (a ++ b) = render_cls a ++ render_cls b.
Proof. induction a as [|c a IH]; intro b; [reflexivity|]. cbn [app render_cls]. rewrite IH, app_assoc. reflexivity. Qed.
Lemma render_q_app : forall hw hk ht a b, render_q hw hk ht (a ++ b) = render_q hw hk ht a ++ render_cls b.
Proof. intros. unfold render_q. rewrite render_cls_app, <- !app_assoc. reflexivity. Qed.

(* the spelling with FROM a written between the clauses l1 and the clauses l2 (s_order s = l1 ++ l2) *)
Definition render_from (s : sigma) (q : aq) (l1 l2 : list ck) (a : nat) (fw : str) (g : nat) (c : ch) : str :=
  render_q (s_hw s) (s_hk s) (head_text s (q_kind q)) (map (rcl_of s q) l1) ++ fa_text a fw g c ++ render_cls (map (rcl_of s q) l2).
(* the regex eats the spaces before the next keyword: what is left is the spelling with ONE space there *)
Definition lead0 (s : sigma) (l2 : list ck) : sigma :=
  mkSigma (s_order s) (s_ws s) (fun k => match l2 with k0 :: _ => if ck_eqb k k0 then O else s_lead s k | [] => s_lead s k end)
    (s_gaps s) (s_sp s) (s_inner s) (s_outer s) (s_hw s) (s_hk s) (s_top s) (s_top_g s) (s_top_sp s)
    (s_dist s) (s_dist_g s) (s_count s) (s_dist_sp s) (s_set s) (s_set_w s) (s_set_sp s) (s_asc s) (s_dir_w s) (s_dir_g s).

Lemma ck_eqb_eq : forall a b, ck_eqb a b = true <-> a = b.
Proof. intros a b. split; [destruct a, b; intro H; try reflexivity; discriminate H | intros ->; destruct b; reflexivity]. Qed.

Lemma rcl_lead0_other : forall s q l2 k, (match l2 with k0 :: _ => k <> k0 | [] => True end) -> rcl_of (lead0 s l2) q k = rcl_of s q k.
Proof.
  intros s q l2 k H.
  assert (L : s_lead (lead0 s l2) k = s_lead s k).
  { cbn [lead0 s_lead]. destruct l2 as [|k0 r]; [reflexivity|]. destruct (ck_eqb k k0) eqn:E; [apply ck_eqb_eq in E; contradiction | reflexivity]. }
  unfold rcl_of. rewrite L. destruct k; reflexivity.
Qed.

Lemma sigma_ok_lead0 : forall s q l2, sigma_ok s q -> sigma_ok (lead0 s l2) q.
Proof. intros s q l2 H. exact H. Qed.

Lemma actions_lead0 : forall s q l2, actions_of (lead0 s l2) q = actions_of s q.
Proof. reflexivity. Qed.

Lemma head_text_lead0 : forall s l2 k, head_text (lead0 s l2) k = head_text s k.
Proof. intros. destruct k; reflexivity. Qed.

Lemma update_a_set_select : forall fl hw X, case_rel W_SELECT hw -> update_a_set fl (hw ++ X) = hw ++ X.
Proof.
  intros fl hw X C. unfold update_a_set. rewrite (word_drop W_SELECT hw X C eq_refl ltac:(discriminate)).
  rewrite (clash_none_case fl K_UPDATE W_SELECT hw X); [reflexivity | destruct fl; reflexivity | exact C].
Qed.

Lemma spelled_words_ok : forall ws ws', Forall2 case_rel ws ws' -> words_ok ws = true -> words_ok ws' = true.
Proof.
  intros ws ws' H. induction H as [|w w' ws ws' Hw Hr IH]; intro O; [reflexivity|]. unfold words_ok in *. cbn [forallb] in *.
  apply andb_true_iff in O. destruct O as [O1 O2]. rewrite (IH O2), andb_true_r. unfold word_ok in *. apply andb_true_iff in O1.
  destruct O1 as [N L]. rewrite (case_rel_letters w w' Hw L), andb_true_r. destruct Hw; [discriminate N | reflexivity].
Qed.

Lemma strip_txt_id : forall fl T, edge_ok fl T = true -> strip_txt fl T = T.
Proof. intros fl T E. pose proof (strip_span fl T 0 0 E) as S. cbn [sps repeat app] in S. rewrite app_nil_r in S. exact S. Qed.

Lemma nodup_app_r : forall {A} (l1 l2 : list A), NoDup (l1 ++ l2) -> NoDup l2.
Proof. induction l1 as [|x l1 IH]; intros l2 H; [exact H|]. cbn [app] in H. inversion H; subst. apply IH. assumption. Qed.

Theorem from_a_removed : forall fl s q l1 l2 a fw g c,
  wf_aq fl false q = true -> sigma_ok s q -> s_order s = l1 ++ l2 ->
  (exists top d cn sel, q_kind q = QSelect top d cn sel) ->
  case_rel K_FROM fw -> ci_eq fl 65 c = true ->
  fa_quiet fl (render (lead0 s l2) q ++ (match l2 with [] => [SP] | _ :: _ => [] end)) = true ->
  remove_redundant_input_table_name fl (render_from s q l1 l2 a fw g c) = render (lead0 s l2) q.
Proof.
  intros fl s q l1 l2 a fw g c W SO OR [top [d [cn [sel KQ]]]] CF CA FQ.
  destruct (wf_parts fl false q W) as [WH [WK _]]. pose proof SO as [ND [PR [WS [CH [HW CD]]]]].
  set (P := render_q (s_hw s) (s_hk s) (head_text s (q_kind q)) (map (rcl_of s q) l1)).
  assert (HKall : forall k, In k (s_order s) -> present q k = true /\ kind_ok fl false q k = true) by (intros k I; split; [apply PR; exact I | apply WK]).
  assert (EP : edge_ok fl P = true).
  { apply (render_edge_ok fl false s q l1 WH CH CD). intros k I. apply HKall. rewrite OR. apply in_or_app. left. exact I. }
  assert (EF : edge_ok fl (render (lead0 s l2) q) = true) by (apply (render_edge_ok fl false (lead0 s l2) q (s_order s) WH CH CD HKall)).
  assert (CS : case_rel W_SELECT (s_hw s)) by (rewrite KQ in CH; exact CH).
  assert (UF : forall X, update_a_set fl (render_q (s_hw s) (s_hk s) (head_text s (q_kind q)) X) = render_q (s_hw s) (s_hk s) (head_text s (q_kind q)) X)
    by (intro X; unfold render_q; apply update_a_set_select; exact CS).
  assert (F1 : map (rcl_of (lead0 s l2) q) l1 = map (rcl_of s q) l1).
  { apply map_ext_in. intros k I. apply rcl_lead0_other. destruct l2 as [|k0 r]; [constructor|]. intros ->.
    rewrite OR in ND. apply NoDup_remove_2 in ND. apply ND. apply in_or_app. left. exact I. }
  assert (FE : render (lead0 s l2) q = P ++ render_cls (map (rcl_of (lead0 s l2) q) l2)).
  { unfold render. change (s_order (lead0 s l2)) with (s_order s). rewrite OR, map_app, render_q_app, F1. reflexivity. }
  unfold remove_redundant_input_table_name, render_from. fold P.
  destruct l2 as [|k0 r].
  - cbn [map render_cls] in *. rewrite app_nil_r in FE. rewrite FE in *. rewrite app_nil_r.
    rewrite <- (app_nil_r (fa_text a fw g c)). change (fa_text a fw g c ++ []) with (fa_text a fw g c ++ sps 0 ++ []).
    rewrite (sub_from_a fl P a fw g c 0 [] (tend_end fl P (edge_tend fl P EP)) FQ CF CA I).
    pose proof (strip_span fl P 0 1 EP) as S1. change (sps 0 ++ P ++ sps 1) with (P ++ [SP]) in S1. rewrite S1.
    unfold P. rewrite UF. fold P. apply strip_txt_id. exact EP.
  - rewrite app_nil_r in FQ.
    assert (F2 : map (rcl_of (lead0 s (k0 :: r)) q) r = map (rcl_of s q) r).
    { apply map_ext_in. intros k I. apply rcl_lead0_other. intros ->. rewrite OR in ND. apply nodup_app_r in ND.
      inversion ND as [|? ? NI _]. apply NI. exact I. }
    set (Rk := rc_kw (rcl_of s q k0) ++ sps (S (s_sp s k0)) ++ txt_of s q k0 ++ render_cls (map (rcl_of s q) r)).
    assert (Q2 : render_cls (map (rcl_of s q) (k0 :: r)) = sps (S (s_lead s k0)) ++ Rk).
    { cbn [map render_cls]. unfold render_cl, Rk. cbn [rcl_of rc_lead rc_sp rc_txt]. rewrite (sps_S_app (s_lead s k0)). rewrite <- !app_assoc. cbn [app]. rewrite <- !app_assoc. reflexivity. }
    assert (F3 : render_cls (map (rcl_of (lead0 s (k0 :: r)) q) (k0 :: r)) = SP :: Rk).
    { cbn [map render_cls]. rewrite F2. unfold render_cl, Rk, rc_kw. cbn [rcl_of rc_lead rc_sp rc_txt rc_ws rc_gaps lead0 s_lead s_ws s_gaps s_sp].
      replace (ck_eqb k0 k0) with true by (symmetry; apply ck_eqb_eq; reflexivity).
      assert (T0 : txt_of (lead0 s (k0 :: r)) q k0 = txt_of s q k0) by (destruct k0; reflexivity). rewrite T0.
      cbn [sps repeat app]. rewrite <- !app_assoc. cbn [app]. rewrite <- !app_assoc. reflexivity. }
    rewrite Q2. rewrite FE, F3 in *.
    assert (HR : match Rk with [] => True | x :: _ => is_sp x = false /\ (1 <= S (s_lead s k0))%nat end).
    { assert (I0 : In k0 (s_order s)) by (rewrite OR; apply in_or_app; right; left; reflexivity).
      pose proof (spelled_words_ok _ _ (WS k0 I0) (stmt_words_ok _)) as WOK. unfold Rk, rc_kw. cbn [rcl_of rc_ws rc_gaps].
      destruct (s_ws s k0) as [|w0 wr] eqn:EW.
      - exfalso. pose proof (WS k0 I0) as X. rewrite EW in X. inversion X as [E0|]. apply (stmt_words_ne _ (eq_sym E0)).
      - destruct (kwtext_head_nonsp w0 wr (s_gaps s k0) (sps (S (s_sp s k0)) ++ txt_of s q k0 ++ render_cls (map (rcl_of s q) r)) WOK) as [x [t [E N]]].
        rewrite E. split; [exact N | lia]. }
    rewrite (sub_from_a fl P a fw g c (S (s_lead s k0)) Rk (tend_end fl P (edge_tend fl P EP)) FQ CF CA HR).
    rewrite (strip_txt_id fl _ EF).
    assert (UF2 : update_a_set fl (P ++ SP :: Rk) = P ++ SP :: Rk).
    { unfold P, render_q. rewrite <- !app_assoc. apply update_a_set_select. exact CS. }
    rewrite UF2. apply strip_txt_id. exact EF.
Qed.
Print Assumptions from_a_removed.

(* the action record does not see the redundant FROM a *)
Theorem from_a_redundant : forall fl s q l1 l2 a fw g c,
  wf_aq fl false q = true -> sigma_ok s q -> s_order s = l1 ++ l2 ->
  (exists top d cn sel, q_kind q = QSelect top d cn sel) ->
  case_rel K_FROM fw -> ci_eq fl 65 c = true ->
  fa_quiet fl (render (lead0 s l2) q ++ (match l2 with [] => [SP] | _ :: _ => [] end)) = true ->
  separate_actions fl false (remove_redundant_input_table_name fl (render_from s q l1 l2 a fw g c))
  = separate_actions fl false (render s q).
Proof.
  intros fl s q l1 l2 a fw g c W SO OR KQ CF CA FQ. rewrite (from_a_removed fl s q l1 l2 a fw g c W SO OR KQ CF CA FQ).
  rewrite (token_spelling fl false (lead0 s l2) q W (sigma_ok_lead0 s q l2 SO)). rewrite (token_spelling fl false s q W SO). reflexivity.
Qed.
Print Assumptions from_a_redundant.

(* a query without FROM a / UPDATE a SET passes through unchanged *)
Theorem remove_redundant_id : forall fl s q, wf_aq fl false q = true -> sigma_ok s q ->
  (exists top d cn sel, q_kind q = QSelect top d cn sel) -> fa_quiet fl (render s q) = true ->
  remove_redundant_input_table_name fl (render s q) = render s q.
Proof.
  intros fl s q W SO [top [d [cn [sel KQ]]]] FQ. destruct (wf_parts fl false q W) as [WH [WK _]]. pose proof SO as [ND [PR [WS [CH [HW CD]]]]].
  assert (EF : edge_ok fl (render s q) = true).
  { apply (render_edge_ok fl false s q (s_order s) WH CH CD). intros k I. split; [apply PR; exact I | apply WK]. }
  unfold remove_redundant_input_table_name. rewrite (sub_quiet fl _ FQ). rewrite (strip_txt_id fl _ EF).
  unfold render, render_q. rewrite update_a_set_select by (rewrite KQ in CH; exact CH). apply (strip_txt_id fl _ EF).
Qed.
Print Assumptions remove_redundant_id.

(* ------------------------------------------------------------------ UPDATE a SET *)
(* UPDATE  a  SET, one space, s_hk more spaces, the assignments, the clauses *)
Definition render_upd_a (s : sigma) (q : aq) (asg : str) (a : nat) (c : ch) (b : nat) : str :=
  s_hw s ++ sps (S a) ++ [c] ++ sps (S b) ++ s_set_w s ++ SP :: sps (s_hk s) ++ asg ++ render_cls (map (rcl_of s q) (s_order s)).
Definition W_update_lc : str := Eval vm_compute in firstn 6 S_update_sp.
(* what the code turns it into: lower-case update, no SET *)
Definition upd_plain (s : sigma) : sigma :=
  mkSigma (s_order s) (s_ws s) (s_lead s) (s_gaps s) (s_sp s) (s_inner s) (s_outer s) W_update_lc (s_hk s)
    (s_top s) (s_top_g s) (s_top_sp s) (s_dist s) (s_dist_g s) (s_count s) (s_dist_sp s) false (s_set_w s) (s_set_sp s)
    (s_asc s) (s_dir_w s) (s_dir_g s).

Lemma rcl_upd_plain : forall s q k, rcl_of (upd_plain s) q k = rcl_of s q k.
Proof. intros s q k. destruct k; reflexivity. Qed.

Lemma tend_app_eq : forall fl A T, T <> [] -> tend_ok fl (A ++ T) = tend_ok fl T.
Proof.
  intros fl A T NE. unfold tend_ok. rewrite rev_app_distr. destruct (rev T) as [|d r] eqn:R; [|reflexivity].
  exfalso. apply NE. rewrite <- (rev_involutive T), R. reflexivity.
Qed.

Lemma word_first_alpha : forall K w, case_rel K w -> letters K = true -> K <> [] -> exists c t, w = c :: t /\ is_alpha c = true.
Proof.
  intros K w C L NE. destruct C as [|k c K' w' Hc Hr]; [contradiction|]. exists c, w'. split; [reflexivity|].
  unfold letters in L. cbn [forallb] in L. apply andb_true_iff in L. destruct L as [L _].
  destruct Hc as [<-|[_ [Hc _]]]; assumption.
Qed.

Theorem update_set_removed : forall fl s q asg a c b,
  wf_aq fl false q = true -> sigma_ok s q -> q_kind q = QUpdate asg -> ci_eq fl 65 c = true ->
  fa_quiet fl (render_upd_a s q asg a c b) = true ->
  remove_redundant_input_table_name fl (render_upd_a s q asg a c b) = render (upd_plain s) q /\ sigma_ok (upd_plain s) q.
Proof.
  intros fl s q asg a c b W SO KQ CA FQ. destruct (wf_parts fl false q W) as [WH [WK _]]. pose proof SO as [ND [PR [WS [CH [[CT [CDI [CC CS]]] CD]]]]].
  assert (SO' : sigma_ok (upd_plain s) q).
  { unfold sigma_ok, head_words_ok. cbn [upd_plain s_order s_ws s_hw s_top s_dist s_count s_set_w s_dir_w].
    split; [exact ND|]. split; [exact PR|]. split; [exact WS|]. split; [|split; [repeat split; assumption | exact CD]].
    rewrite KQ. cbn [head_word]. vm_compute. repeat (constructor; [first [left; reflexivity | right; repeat split; reflexivity]|]). constructor. }
  split; [|exact SO'].
  assert (HKall : forall k, In k (s_order s) -> present q k = true /\ kind_ok fl false q k = true) by (intros k I; split; [apply PR; exact I | apply WK]).
  assert (EF : edge_ok fl (render (upd_plain s) q) = true).
  { destruct SO' as [_ [_ [_ [CH' [_ CD']]]]]. apply (render_edge_ok fl false (upd_plain s) q (s_order s) WH CH' CD' HKall). }
  assert (CU : case_rel W_UPDATE (s_hw s)) by (rewrite KQ in CH; exact CH).
  assert (NC : is_sp c = false).
  { unfold ci_eq in CA. unfold is_sp. destruct (N.eqb_spec c 32) as [->|]; [|reflexivity]. destruct fl; discriminate CA. }
  assert (ANE : asg <> []).
  { rewrite KQ in WH. cbn [head_ok] in WH. apply andb_true_iff in WH. destruct WH as [WH _]. apply clause_ok_edge in WH.
    intros ->. discriminate WH. }
  set (TL := sps (s_hk s) ++ asg ++ render_cls (map (rcl_of s q) (s_order s))).
  assert (RE : render (upd_plain s) q = S_update_sp ++ TL).
  { unfold render, render_q, TL. cbn [upd_plain s_hw s_hk s_order]. rewrite KQ. cbn [head_text upd_plain s_set app].
    rewrite (map_ext _ _ (rcl_upd_plain s q)). reflexivity. }
  assert (QE : render_upd_a s q asg a c b = (s_hw s ++ sps (S a) ++ [c] ++ sps (S b) ++ s_set_w s ++ [SP]) ++ TL).
  { unfold render_upd_a, TL. rewrite <- !app_assoc. reflexivity. }
  assert (TNE : asg ++ render_cls (map (rcl_of s q) (s_order s)) <> []) by (destruct asg; [contradiction | discriminate]).
  assert (EQ : edge_ok fl (render_upd_a s q asg a c b) = true).
  { pose proof (edge_tend fl _ EF) as TE. rewrite RE in TE. unfold TL in TE. rewrite !app_assoc in TE. rewrite <- app_assoc in TE.
    rewrite (tend_app_eq fl _ _ TNE) in TE.
    assert (TQ : tend_ok fl (render_upd_a s q asg a c b) = true).
    { rewrite QE. unfold TL. rewrite !app_assoc. rewrite <- (app_assoc _ asg). rewrite (tend_app_eq fl _ _ TNE). exact TE. }
    unfold edge_ok. unfold tend_ok in TQ. unfold render_upd_a in *.
    destruct (word_first_alpha W_UPDATE (s_hw s) CU eq_refl ltac:(discriminate)) as [c0 [w' [EW AC]]]. rewrite EW in *. cbn [app] in *.
    match type of TQ with match rev ?X with _ => _ end = _ => destruct (rev X) as [|d0 r0] end; [discriminate TQ|].
    rewrite TQ, andb_true_r. apply negb_true_iff. apply alpha_not_txt_ws. exact AC. }
  unfold remove_redundant_input_table_name. rewrite (sub_quiet fl _ FQ). rewrite (strip_txt_id fl _ EQ).
  assert (UA : update_a_set fl (render_upd_a s q asg a c b) = S_update_sp ++ TL).
  { unfold update_a_set, render_upd_a. rewrite (word_drop W_UPDATE (s_hw s) _ CU eq_refl ltac:(discriminate)).
    rewrite (eat_ci_case fl K_UPDATE (s_hw s) _ CU).
    change (sps (S a) ++ [c] ++ sps (S b) ++ s_set_w s ++ SP :: sps (s_hk s) ++ asg ++ render_cls (map (rcl_of s q) (s_order s)))
      with (SP :: (sps a ++ c :: (sps (S b) ++ s_set_w s ++ SP :: TL))).
    rewrite eat_sp1_cons. change (is_sp SP) with true. cbv iota. rewrite drop_sp_sps. rewrite (drop_sp_nonsp c _ NC). rewrite CA.
    change (sps (S b) ++ s_set_w s ++ SP :: TL) with (SP :: (sps b ++ s_set_w s ++ SP :: TL)).
    rewrite eat_sp1_cons. change (is_sp SP) with true. cbv iota. rewrite drop_sp_sps.
    rewrite (word_drop K_SET (s_set_w s) _ CS eq_refl ltac:(discriminate)). rewrite (eat_ci_case fl K_SET (s_set_w s) _ CS).
    cbn [eat_one_sp]. change (is_sp SP) with true. cbv iota. reflexivity. }
  rewrite UA, <- RE. apply (strip_txt_id fl _ EF).
Qed.
Print Assumptions update_set_removed.

Theorem update_set_redundant : forall fl s q asg a c b,
  wf_aq fl false q = true -> sigma_ok s q -> q_kind q = QUpdate asg -> ci_eq fl 65 c = true ->
  fa_quiet fl (render_upd_a s q asg a c b) = true ->
  separate_actions fl false (remove_redundant_input_table_name fl (render_upd_a s q asg a c b))
  = separate_actions fl false (render s q).
Proof.
  intros fl s q asg a c b W SO KQ CA FQ. destruct (update_set_removed fl s q asg a c b W SO KQ CA FQ) as [E SO'].
  rewrite E. rewrite (token_spelling fl false _ q W SO'), (token_spelling fl false s q W SO). reflexivity.
Qed.
Print Assumptions update_set_redundant.
