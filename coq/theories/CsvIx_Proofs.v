(* CsvIx_Proofs.v — the index-style model CsvIx.v (= what harness/translate_csv.py regenerates from csv_utils.py on every
   run) equals the suffix-style model Csv.v, function by function; hence every theorem about Csv.v is a theorem about
   CsvIx.v (the transferred statements at the end).  The tactic gen_csv_eq closes the per-run obligations
   gen_py_<name> = ix_<name> of the generated file. *)
From RBQL Require Import Base Csv CsvSpec PyStr CsvIx CsvStr_Proofs Csv_Proofs CsvLossy_Proofs PyStr_Proofs.

(* ================================================================ extract_next_field *)

Lemma skipn_add {A} (b : nat) : forall (a : nat) (l : list A), skipn a (skipn b l) = skipn (b + a) l.
Proof.
  induction b as [|b IH]; intros a l; [reflexivity|]. destruct l as [|x l]; [destruct a; reflexivity|]. cbn [skipn plus]. apply IH.
Qed.

Lemma re_match_field_nat (ext : bool) s n : (n <= length s)%nat ->
  re_match (if ext then RxFieldExt else RxField) s (Z.of_nat n) =
  match qmatch ext (skipn n s) with
  | Some (g0, raw, _) => Some (mk_match (Z.of_nat n) (Z.of_nat n + zlen g0)%Z g0 raw)
  | None => None
  end.
Proof.
  intros H. unfold re_match.
  assert (Z.to_nat (Z.min (Z.max 0 (Z.of_nat n)) (zlen s)) = n) as -> by (unfold zlen; lia).
  destruct ext; reflexivity.
Qed.

Lemma strip_prefix_starts p : forall s, starts_with p s = match strip_prefix p s with Some _ => true | None => false end.
Proof.
  induction p as [|c p IH]; intros s; [reflexivity|]. destruct s as [|d s]; [reflexivity|].
  cbn [starts_with strip_prefix]. destruct (N.eqb c d); [apply IH|reflexivity].
Qed.

(* the unquoted fall-back of extract_next_field, with the warning w0 already raised or not *)
Definition ix_fallback (src dlm : str) (cidx : Z) (result : list str) (w0 : bool) : list str * (Z * bool) :=
  let uidx := py_find src dlm cidx in
  let uidx := if (uidx =? (-1)%Z)%Z then zlen src else uidx in
  let field := py_slice src (Some cidx) (Some uidx) in
  (result ++ [field], ((uidx + zlen dlm)%Z, w0 || py_contains field [34%N])).

Definition pos_agrees (src : str) (m : nat) (pos : option str) : Prop :=
  match pos with
  | Some r => (m <= length src)%nat /\ r = skipn m src
  | None => (length src < m)%nat
  end.

Lemma ix_fallback_correct src dlm n result w0 : dlm <> [] -> (n <= length src)%nat ->
  let s := skipn n src in
  exists m : nat,
    ix_fallback src dlm (Z.of_nat n) result w0 =
      (result ++ [match find dlm s with None => s | Some i => firstn i s end],
       (Z.of_nat m, w0 || has QT (match find dlm s with None => s | Some i => firstn i s end))) /\
    pos_agrees src m (match find dlm s with None => None | Some i => Some (skipn (i + length dlm) s) end).
Proof.
  intros Hd Hn s. pose proof (dlm_len_pos dlm Hd) as Hdl. unfold ix_fallback. cbv zeta.
  rewrite (py_find_nat src dlm n Hn). fold s.
  assert (length s = length src - n)%nat as Hs by (unfold s; apply skipn_length).
  destruct (find dlm s) as [i|] eqn:F.
  - pose proof (find_some_len _ _ _ F) as Hi.
    destruct (Z.of_nat (n + i) =? -1)%Z eqn:E; [apply Z.eqb_eq in E; lia|].
    exists (n + i + length dlm)%nat.
    rewrite (py_slice_nat src n (n + i)) by lia. replace (n + i - n)%nat with i by lia. fold s.
    change [34%N] with [QT]. rewrite py_contains_qt. split.
    + unfold zlen. rewrite <- Nat2Z.inj_add. reflexivity.
    + cbn [pos_agrees]. split; [lia|]. unfold s. rewrite skipn_add. f_equal. lia.
  - rewrite Z.eqb_refl. exists (length src + length dlm)%nat.
    change (zlen src) with (Z.of_nat (length src)). rewrite (py_slice_nat src n (length src)) by lia. fold s.
    rewrite <- Hs. rewrite firstn_all. change [34%N] with [QT]. rewrite py_contains_qt. split.
    + unfold zlen. rewrite <- Nat2Z.inj_add. reflexivity.
    + cbn [pos_agrees]. lia.
Qed.

Theorem ix_extract_next_field_correct src dlm pr ext n result : dlm <> [] -> (n < length src)%nat ->
  exists m : nat,
    ix_extract_next_field src dlm pr ext (Z.of_nat n) result =
      (result ++ [snd (fst (fst (extract_next_field dlm pr ext (skipn n src))))],
       (Z.of_nat m, snd (fst (extract_next_field dlm pr ext (skipn n src))))) /\
    pos_agrees src m (snd (extract_next_field dlm pr ext (skipn n src))).
Proof.
  intros Hd Hn. pose proof (dlm_len_pos dlm Hd) as Hdl.
  set (s := skipn n src). assert (length s = length src - n)%nat as Hs by (unfold s; apply skipn_length).
  assert (forall w0, exists m : nat,
            ix_fallback src dlm (Z.of_nat n) result w0 =
              (result ++ [snd (fst (fst (match find dlm s with
                                         | None => ((false, s), w0 || has QT s, None)
                                         | Some i => ((false, firstn i s), w0 || has QT (firstn i s), Some (skipn (i + length dlm) s))
                                         end)))],
               (Z.of_nat m, snd (fst (match find dlm s with
                                      | None => ((false, s), w0 || has QT s, None)
                                      | Some i => ((false, firstn i s), w0 || has QT (firstn i s), Some (skipn (i + length dlm) s))
                                      end)))) /\
            pos_agrees src m (snd (match find dlm s with
                                   | None => ((false, s), w0 || has QT s, @None str)
                                   | Some i => ((false, firstn i s), w0 || has QT (firstn i s), Some (skipn (i + length dlm) s))
                                   end))) as Hfb.
  { intros w0. destruct (ix_fallback_correct src dlm n result w0 Hd ltac:(lia)) as [m [E P]]. fold s in E, P.
    exists m. destruct (find dlm s); cbn [fst snd]; split; assumption. }
  unfold ix_extract_next_field, extract_next_field. cbv zeta.
  rewrite (re_match_field_nat ext src n) by lia. fold s.
  destruct (qmatch ext s) as [[[g0 raw] r]|] eqn:M.
  2:{ destruct (Hfb false) as [m [E P]]. exists m. split; [|exact P]. etransitivity; [|exact E]. reflexivity. }
  destruct (qmatch_sound _ _ _ _ _ M) as [Es _].
  assert (length s = length g0 + length r)%nat as Hl by (rewrite Es at 1; apply app_length).
  assert (skipn (n + length g0) src = r) as Hr.
  { rewrite <- skipn_add. fold s. rewrite Es at 1. apply skipn_app_exact. }
  cbn [m_end m_group0 m_group1]. replace (Z.of_nat n + zlen g0)%Z with (Z.of_nat (n + length g0)) by (unfold zlen; lia).
  destruct r as [|c r1].
  - (* the match ends the line *)
    cbn [length] in Hl. replace (Z.of_nat (n + length g0) =? zlen src)%Z with true by (symmetry; apply Z.eqb_eq; unfold zlen; lia).
    cbn [orb]. exists (n + length g0 + length dlm)%nat. cbn [fst snd pos_agrees]. split; [|lia].
    unfold zlen. rewrite <- !Nat2Z.inj_add. destruct pr; [reflexivity|]. change [34%N; 34%N] with [QT; QT]. change [34%N] with [QT].
    rewrite py_replace_undouble. reflexivity.
  - cbn [length] in Hl.
    replace (Z.of_nat (n + length g0) =? zlen src)%Z with false by (symmetry; apply Z.eqb_neq; unfold zlen; lia).
    cbn [orb]. rewrite (py_startswith_nat src dlm (n + length g0)) by lia. rewrite Hr. rewrite strip_prefix_starts.
    destruct (strip_prefix dlm (c :: r1)) as [r2|] eqn:P.
    + apply strip_prefix_some in P. exists (n + length g0 + length dlm)%nat. cbn [fst snd pos_agrees].
      assert (length (c :: r1) = length dlm + length r2)%nat as Hl2 by (rewrite P; apply app_length). cbn [length] in Hl2.
      split; [|split; [lia|]].
      * unfold zlen. rewrite <- !Nat2Z.inj_add. destruct pr; [reflexivity|]. change [34%N; 34%N] with [QT; QT]. change [34%N] with [QT].
        rewrite py_replace_undouble. reflexivity.
      * rewrite <- skipn_add, Hr, P. symmetry. apply skipn_app_exact.
    + destruct (Hfb true) as [m [E Pm]]. exists m. split; [|exact Pm]. etransitivity; [|exact E]. reflexivity.
Qed.

(* ================================================================ the loop of split_quoted_str *)

Definition sq_state := (Z * list str * bool)%type.
Definition sq_cond (src : str) : sq_state -> bool := fun '(cidx, result, warning) => (cidx <? zlen src)%Z.
Definition sq_body (src dlm : str) (pr ext : bool) : sq_state -> sq_state :=
  fun '(cidx, result, warning) =>
    let '(result, extraction_report) := ix_extract_next_field src dlm pr ext cidx result in
    let cidx := fst extraction_report in
    let warning := warning || snd extraction_report in
    (cidx, result, warning).
Definition sq_post (src : str) : sq_state -> list str * bool :=
  fun '(cidx, result, warning) => (if (cidx =? zlen src)%Z then result ++ [@nil ch] else result, warning).

Lemma ix_loop_correct src dlm pr ext : dlm <> [] -> forall fuel n result w,
  (n <= length src)%nat -> (length src - n < fuel)%nat ->
  option_map (sq_post src) (while_fuel fuel (sq_cond src) (sq_body src dlm pr ext) (Z.of_nat n, result, w)) =
  Some (result ++ map snd (fst (sq_loop fuel dlm pr ext (skipn n src))), w || snd (sq_loop fuel dlm pr ext (skipn n src))).
Proof.
  intros Hd. induction fuel as [|f IH]; intros n result w Hn Hf; [lia|].
  cbn [while_fuel]. unfold sq_cond at 1.
  assert (length (skipn n src) = length src - n)%nat as Hs by apply skipn_length.
  destruct (Nat.eq_dec n (length src)) as [En|Nn].
  - replace (Z.of_nat n <? zlen src)%Z with false by (symmetry; apply Z.ltb_ge; unfold zlen; lia).
    cbn [option_map sq_post]. replace (Z.of_nat n =? zlen src)%Z with true by (symmetry; apply Z.eqb_eq; unfold zlen; lia).
    destruct (skipn n src) as [|c t] eqn:Ek; [|cbn [length] in Hs; lia]. rewrite sq_loop_nil. cbn [fst snd map]. rewrite orb_false_r. reflexivity.
  - replace (Z.of_nat n <? zlen src)%Z with true by (symmetry; apply Z.ltb_lt; unfold zlen; lia).
    destruct (ix_extract_next_field_correct src dlm pr ext n result Hd ltac:(lia)) as [m [E P]].
    assert (skipn n src <> []) as Hne by (intros C; rewrite C in Hs; cbn [length] in Hs; lia).
    rewrite (sq_loop_S _ _ _ _ _ Hne).
    unfold sq_body at 2. rewrite E. cbn [fst snd].
    destruct (extract_next_field dlm pr ext (skipn n src)) as [[[tag fld] w1] pos] eqn:X. cbn [fst snd] in *.
    destruct pos as [r|]; cbn [pos_agrees] in P.
    + destruct P as [Hm Er]. pose proof (extract_progress _ _ _ _ _ _ _ Hd X) as Hp. subst r. rewrite skipn_length in Hp.
      rewrite (IH m (result ++ [fld]) (w || w1)) by lia.
      destruct (sq_loop f dlm pr ext (skipn m src)) as [fs w2]. cbn [fst snd map].
      rewrite <- app_assoc. cbn [app]. rewrite orb_assoc. reflexivity.
    + destruct f as [|f']; [lia|]. cbn [while_fuel]. unfold sq_cond at 1.
      replace (Z.of_nat m <? zlen src)%Z with false by (symmetry; apply Z.ltb_ge; unfold zlen; lia).
      cbn [option_map sq_post]. replace (Z.of_nat m =? zlen src)%Z with false by (symmetry; apply Z.eqb_neq; unfold zlen; lia).
      cbn [fst snd map]. reflexivity.
Qed.

Lemma map_snd_untagged (l : list str) : map snd (map (fun f : str => (false, f)) l) = l.
Proof. rewrite map_map. cbn [snd]. apply map_id. Qed.

Theorem ix_split_quoted_str_correct src dlm pr : dlm <> [] -> dlm <> [QT] ->
  ix_split_quoted_str src dlm pr = Some (split_quoted_str dlm pr src).
Proof.
  intros Hd Hq. unfold ix_split_quoted_str, split_quoted_str, split_quoted_tagged, dlm_is_space.
  change [34%N] with [QT]. change [32%N] with [SP].
  destruct (str_eqb dlm [QT]) eqn:Eq; [apply str_eqb_eq in Eq; contradiction|]. cbn [negb].
  rewrite py_contains_qt. destruct (has QT src) eqn:Hh; cbn [negb].
  - pose proof (ix_loop_correct src dlm pr (negb (str_eqb dlm [SP])) Hd (S (length src)) 0 [] false ltac:(lia) ltac:(lia)) as L.
    cbn [skipn] in L. change (Z.of_nat 0) with 0%Z in L.
    destruct (sq_loop (S (length src)) dlm pr (negb (str_eqb dlm [SP])) src) as [fs w2]. cbn [fst snd app orb] in L.
    cbv zeta.
    change (while_fuel (S (length src)) _ _ (0%Z, [], false))
      with (while_fuel (S (length src)) (sq_cond src) (sq_body src dlm pr (negb (str_eqb dlm [SP]))) (0%Z, [], false)).
    destruct (while_fuel (S (length src)) (sq_cond src) (sq_body src dlm pr (negb (str_eqb dlm [SP]))) (0%Z, [], false)) as [[[c r] w]|];
      [|cbn [option_map] in L; discriminate L].
    cbn [option_map sq_post] in L. injection L as L1 L2. subst w2. rewrite <- L1. reflexivity.
  - unfold py_split. rewrite map_snd_untagged. reflexivity.
Qed.

(* ================================================================ split_whitespace_separated_str *)

Lemma fold_left_append {A B} (g : B -> A) (l : list B) : forall init : list A,
  fold_left (fun result m => result ++ [g m]) l init = init ++ map g l.
Proof.
  induction l as [|x l IH]; intros init; cbn [fold_left map]; [symmetry; apply app_nil_r|].
  rewrite IH, <- app_assoc. reflexivity.
Qed.

Lemma fold_left_map_arg {A B C} (f : A -> C -> A) (g : B -> C) (l : list B) : forall a,
  fold_left f (map g l) a = fold_left (fun a x => f a (g x)) l a.
Proof. induction l as [|x l IH]; intros a; cbn [fold_left map]; [reflexivity|apply IH]. Qed.

Lemma fold_left_ext_in {A B} (f g : A -> B -> A) (P : A -> Prop) (Q : B -> Prop) :
  (forall a x, P a -> Q x -> f a x = g a x) -> (forall a x, P a -> Q x -> P (g a x)) ->
  forall l a, P a -> Forall Q l -> fold_left f l a = fold_left g l a.
Proof.
  intros Hfg Hp. induction l as [|x l IH]; intros a Pa Hq; [reflexivity|]. inversion Hq as [|? ? Qx Ql]; subst.
  cbn [fold_left]. rewrite (Hfg a x Pa Qx). apply IH; [apply Hp; assumption|assumption].
Qed.

(* x[:-1] *)
Lemma py_slice_chop (x : str) : py_slice x None (Some (-1)%Z) = removelast x.
Proof.
  unfold py_slice, py_bound, py_norm. cbn [Z.ltb Z.compare].
  rewrite Nat.sub_0_r. cbn [skipn]. rewrite removelast_firstn_len. f_equal.
  destruct x as [|c x]; [reflexivity|]. cbn [length]. lia.
Qed.

Lemma set_nth_length {A} (v : A) : forall n l, length (set_nth n v l) = length l.
Proof. induction n as [|n IH]; intros [|x l]; cbn [set_nth length]; try reflexivity. rewrite IH. reflexivity. Qed.

Lemma set_nth_app {A} (v x : A) (a b : list A) : set_nth (length a) v (a ++ x :: b) = a ++ v :: b.
Proof. induction a as [|y a IH]; cbn [set_nth length app]; [reflexivity|]. rewrite IH. reflexivity. Qed.

(* the Python statement  result[i] = result[i][:-1]  at a position inside the list *)
Definition chop_at (result : list str) (i : nat) : list str := set_nth i (removelast (nth i result [])) result.

Lemma py_chop_step (result : list str) (i : nat) :
  py_setitem result (Z.of_nat i) (py_slice (py_getitem (@nil ch) result (Z.of_nat i)) None (Some (-1)%Z)) = chop_at result i.
Proof.
  unfold py_setitem, py_getitem, py_pos, chop_at.
  destruct (Z.of_nat i <? 0)%Z eqn:E; [apply Z.ltb_lt in E; lia|]. rewrite E. rewrite Nat2Z.id. rewrite py_slice_chop. reflexivity.
Qed.

Lemma chop_fold_prefix (l : list str) : forall k, (k <= length l)%nat ->
  fold_left chop_at (seq 0 k) l = map (@removelast ch) (firstn k l) ++ skipn k l.
Proof.
  induction k as [|k IH]; intros Hk; [reflexivity|].
  rewrite seq_S, fold_left_app. cbn [plus fold_left]. rewrite IH by lia.
  assert (k < length l)%nat as Hlt by lia.
  destruct (skipn k l) as [|x r] eqn:Es.
  { assert (length (skipn k l) = length l - k)%nat as Hs by apply skipn_length. rewrite Es in Hs. cbn [length] in Hs. lia. }
  assert (length (map (@removelast ch) (firstn k l)) = k) as Hlen by (rewrite map_length, firstn_length; lia).
  unfold chop_at. rewrite app_nth2 by lia. rewrite Hlen, Nat.sub_diag. cbn [nth].
  rewrite <- Hlen at 1. rewrite set_nth_app.
  assert (l = firstn k l ++ x :: r) as El by (rewrite <- Es; symmetry; apply firstn_skipn).
  assert (firstn (S k) l = firstn k l ++ [x]) as Ef.
  { rewrite El at 1. replace (S k) with (length (firstn k l) + 1)%nat by (rewrite firstn_length; lia).
    rewrite firstn_app_2. reflexivity. }
  assert (skipn (S k) l = r) as Esk.
  { rewrite El at 1. replace (S k) with (length (firstn k l) + 1)%nat by (rewrite firstn_length; lia).
    rewrite <- skipn_add. rewrite skipn_app_exact. reflexivity. }
  rewrite Ef, Esk, map_app, <- app_assoc. reflexivity.
Qed.

Lemma chop_all_but_last_prefix (l : list str) : l <> [] ->
  chop_all_but_last l = map (@removelast ch) (firstn (length l - 1) l) ++ skipn (length l - 1) l.
Proof.
  induction l as [|x r IH]; intros Hne; [contradiction|].
  destruct r as [|y r]; [reflexivity|].
  change (chop_all_but_last (x :: y :: r)) with (removelast x :: chop_all_but_last (y :: r)).
  rewrite IH by discriminate. cbn [length]. replace (S (S (length r)) - 1)%nat with (S (length r)) by lia.
  replace (S (length r) - 1)%nat with (length r) by lia. cbn [firstn skipn map app]. reflexivity.
Qed.

Lemma chop_fold (l : list str) :
  (if (1 <? zlen l)%Z
   then fold_left (fun result i => py_setitem result i (py_slice (py_getitem (@nil ch) result i) None (Some (-1)%Z)))
                  (py_range (zlen l - 1)%Z) l
   else l) = chop_all_but_last l.
Proof.
  destruct (1 <? zlen l)%Z eqn:E.
  - apply Z.ltb_lt in E. unfold zlen in E. unfold py_range. rewrite fold_left_map_arg.
    replace (Z.to_nat (zlen l - 1)) with (length l - 1)%nat by (unfold zlen; lia).
    rewrite (fold_left_ext_in _ chop_at (fun _ => True) (fun _ => True)); try (intros; exact I).
    + rewrite chop_fold_prefix by lia. symmetry. apply chop_all_but_last_prefix. destruct l; [cbn [length] in E; lia|discriminate].
    + intros a x _ _. apply py_chop_step.
    + apply Forall_forall. intros; exact I.
  - apply Z.ltb_ge in E. unfold zlen in E. destruct l as [|x [|y r]]; [reflexivity|reflexivity|cbn [length] in E; lia].
Qed.

Theorem ix_split_whitespace_separated_str_correct src pr :
  ix_split_whitespace_separated_str src pr = split_whitespace_separated_str pr src.
Proof.
  unfold ix_split_whitespace_separated_str, split_whitespace_separated_str. cbv zeta.
  rewrite (fold_left_append (fun m : str => m)). rewrite map_id. cbn [app].
  destruct pr; cbn [andb re_finditer_g0]; [|reflexivity]. apply chop_fold.
Qed.

(* ================================================================ smart_split, quote_field *)

(* the policy names of rbql_csv.py / csv_utils.smart_split *)
Definition policy_name (p : policy) : str :=
  match p with
  | Simple => [115; 105; 109; 112; 108; 101]%N                          (* simple *)
  | Quoted => [113; 117; 111; 116; 101; 100]%N                          (* quoted *)
  | QuotedRfc => [113; 117; 111; 116; 101; 100; 95; 114; 102; 99]%N     (* quoted_rfc *)
  | Whitespace => [119; 104; 105; 116; 101; 115; 112; 97; 99; 101]%N    (* whitespace *)
  | Monocolumn => [109; 111; 110; 111; 99; 111; 108; 117; 109; 110]%N   (* monocolumn *)
  end.

Definition quoted_policy (p : policy) : bool := match p with Quoted | QuotedRfc => true | _ => false end.

Theorem ix_smart_split_correct pol src dlm pr : (quoted_policy pol = true -> dlm <> [] /\ dlm <> [QT]) ->
  ix_smart_split src dlm (policy_name pol) pr = Some (smart_split pol dlm pr src).
Proof.
  intros H. unfold ix_smart_split.
  destruct pol; cbn [policy_name str_eqb N.eqb Pos.eqb andb smart_split];
    try reflexivity;
    try (rewrite ix_split_whitespace_separated_str_correct; reflexivity);
    destruct (H eq_refl) as [Hd Hq]; rewrite (ix_split_quoted_str_correct src dlm pr Hd Hq); reflexivity.
Qed.

Theorem ix_quote_field_correct src delim : ix_quote_field src delim = quote_field_py delim src.
Proof.
  unfold ix_quote_field, quote_field_py, wrap. change [34%N] with [QT]. change [34%N; 34%N] with [QT; QT].
  rewrite py_contains_qt, py_replace_double. unfold py_contains. reflexivity.
Qed.

Theorem ix_rfc_quote_field_correct src delim : ix_rfc_quote_field src delim = rfc_quote_field_py delim src.
Proof.
  unfold ix_rfc_quote_field, rfc_quote_field_py, wrap. change [34%N] with [QT]. change [34%N; 34%N] with [QT; QT].
  change [10%N] with [LF]. change [13%N] with [CR].
  rewrite py_contains_qt, py_replace_double, !py_contains_ch. unfold py_contains. reflexivity.
Qed.

(* ================================================================ theorems of C11 / C10 / C18 transferred to the index model *)

Lemma good_quoted_dlm_ix dlm : good_quoted_dlm dlm = true -> dlm <> [] /\ dlm <> [QT].
Proof.
  intros G. destruct (good_quoted_dlm_facts dlm G) as [c [d [E [Hc _]]]]. subst dlm. split; [discriminate|].
  intros C. injection C as C _. contradiction.
Qed.

Lemma good_dlm_ix pol dlm : good_dlm pol dlm = true -> quoted_policy pol = true -> dlm <> [] /\ dlm <> [QT].
Proof. intros G Q. destruct pol; try discriminate Q; apply good_quoted_dlm_ix; exact G. Qed.

Theorem ix_C11_split_is_dialect dlm line fs w : good_quoted_dlm dlm = true ->
  (ix_split_quoted_str line dlm false = Some (fs, w) <-> Split dlm line fs w).
Proof.
  intros G. destruct (good_quoted_dlm_ix dlm G) as [Hd Hq]. rewrite (ix_split_quoted_str_correct line dlm false Hd Hq).
  split; intros H.
  - injection H as H. apply (split_is_dialect dlm line fs w G). exact H.
  - f_equal. apply (split_is_dialect dlm line fs w G). exact H.
Qed.

Theorem ix_C11_preserving_rejoin dlm line : dlm <> [] -> dlm <> [QT] ->
  exists fs w, ix_split_quoted_str line dlm true = Some (fs, w) /\ join dlm fs = line.
Proof.
  intros Hd Hq. rewrite (ix_split_quoted_str_correct line dlm true Hd Hq).
  destruct (split_quoted_str dlm true line) as [fs w] eqn:E. exists fs, w. split; [reflexivity|].
  pose proof (preserving_rejoin dlm line Hd) as R. rewrite E in R. exact R.
Qed.

Theorem ix_C11_terminates src dlm pr : dlm <> [] -> dlm <> [QT] -> ix_split_quoted_str src dlm pr <> None.
Proof. intros Hd Hq. rewrite (ix_split_quoted_str_correct src dlm pr Hd Hq). discriminate. Qed.

Theorem ix_C18_quote_agree dlm f :
  ix_quote_field f dlm = quote_field_js dlm f /\ ix_rfc_quote_field f dlm = rfc_quote_field_js dlm f.
Proof.
  rewrite ix_quote_field_correct, ix_rfc_quote_field_correct. split; [apply quote_field_agree|apply rfc_quote_field_agree].
Qed.

(* ================================================================ closing the per-run obligations gen_py_<name> = ix_<name> *)

Lemma while_fuel_ext {St} (c1 c2 : St -> bool) (b1 b2 : St -> St) :
  (forall s, c1 s = c2 s) -> (forall s, b1 s = b2 s) -> forall fuel s, while_fuel fuel c1 b1 s = while_fuel fuel c2 b2 s.
Proof.
  intros Hc Hb. induction fuel as [|f IH]; intros s; [reflexivity|]. cbn [while_fuel]. rewrite Hc, Hb, IH. reflexivity.
Qed.

Lemma fold_left_ext {A B} (f g : A -> B -> A) : (forall a x, f a x = g a x) -> forall l a, fold_left f l a = fold_left g l a.
Proof. intros H. induction l as [|x l IH]; intros a; [reflexivity|]. cbn [fold_left]. rewrite H. apply IH. Qed.

(* normal forms of the list idioms (rewrite database pynorm) *)
Lemma fold_left_append_id (l : list str) (init : list str) : fold_left (fun result m => result ++ [m]) l init = init ++ l.
Proof. rewrite (fold_left_append (fun m : str => m)). rewrite map_id. reflexivity. Qed.

Lemma chop_fold_all (l : list str) :
  fold_left (fun result i => py_setitem result i (py_slice (py_getitem (@nil ch) result i) None (Some (-1)%Z)))
            (py_range (zlen l - 1)%Z) l = chop_all_but_last l.
Proof.
  pose proof (chop_fold l) as H. destruct (1 <? zlen l)%Z eqn:E; [exact H|].
  apply Z.ltb_ge in E. unfold zlen in E. destruct l as [|x [|y r]]; [reflexivity|reflexivity|cbn [length] in E; lia].
Qed.

Lemma chop_small (l : list str) : (1 <? zlen l)%Z = false -> chop_all_but_last l = l.
Proof. intros E. apply Z.ltb_ge in E. unfold zlen in E. destruct l as [|x [|y r]]; [reflexivity|reflexivity|cbn [length] in E; lia]. Qed.

Lemma py_slice_last1 {A} (l : list A) : py_slice l (Some (-1)%Z) None = skipn (length l - 1) l.
Proof.
  unfold py_slice, py_bound, py_norm. cbn [Z.ltb Z.compare].
  assert (Z.to_nat (Z.min (Z.max 0 (-1 + Z.of_nat (length l))) (Z.of_nat (length l))) = length l - 1)%nat as -> by lia.
  apply firstn_all2. rewrite skipn_length. lia.
Qed.

Lemma py_slice_init {A} (l : list A) : py_slice l None (Some (-1)%Z) = firstn (length l - 1) l.
Proof.
  unfold py_slice, py_bound, py_norm. cbn [Z.ltb Z.compare]. rewrite Nat.sub_0_r. cbn [skipn]. f_equal. lia.
Qed.

Lemma chop_slices (l : list str) :
  map (fun f => py_slice f None (Some (-1)%Z)) (py_slice l None (Some (-1)%Z)) ++ py_slice l (Some (-1)%Z) None = chop_all_but_last l.
Proof.
  rewrite py_slice_last1, py_slice_init. destruct l as [|x r]; [reflexivity|].
  rewrite chop_all_but_last_prefix by discriminate. f_equal. apply map_ext. intros f. apply py_slice_chop.
Qed.

#[export] Hint Rewrite fold_left_append_id chop_fold_all chop_slices app_nil_l app_nil_r : pynorm.
#[export] Hint Rewrite <- app_assoc : pynorm.
(* gencsv: the equalities gen_py_<name> = ix_<name> already proved in the generated file (added there) *)
#[export] Hint Rewrite app_nil_l : gencsv.
(* genhelpers: the helper functions of a generated file (Hint Unfold, added there): unfolded = inlined *)
Create HintDb genhelpers.
(* ixinline: index-model functions that a source may inline into their caller (tried only when the plain attempt fails) *)
Create HintDb ixinline.
#[export] Hint Unfold ix_extract_next_field : ixinline.

Lemma py_find_ge s p i : (-1 <= py_find s p i)%Z.
Proof.
  unfold py_find. destruct (zlen s <? py_norm (length s) i)%Z; [lia|].
  assert (0 <= py_norm (length s) i)%Z by (unfold py_norm; destruct (i <? 0)%Z eqn:E; [lia|apply Z.ltb_ge in E; exact E]).
  destruct (find p (skipn (Z.to_nat (py_norm (length s) i)) s)); lia.
Qed.

Lemma zlen_ge {A} (l : list A) : (0 <= zlen l)%Z.
Proof. unfold zlen. lia. Qed.

(* case analysis on every scrutinee (Boolean operators are spelled as matches first) *)
Ltac gen_break :=
  unfold orb, andb, negb in *;
  repeat (cbn [fst snd option_map m_start m_end m_group0 m_group1] in *;
          match goal with
          | |- ?x = ?x => reflexivity
          | |- context [match ?x with _ => _ end] =>
              lazymatch x with
              | context [match _ with _ => _ end] => fail        (* innermost scrutinee first *)
              | _ => destruct x eqn:?
              end
          | |- context [match ?x with _ => _ end] => destruct x eqn:?   (* e.g. a loop whose functions contain matches *)
          end).

(* hook: range facts of further primitives (CsvIxJs_Proofs.v adds js_indexof) *)
Ltac gen_ranges := idtac.

(* the Boolean integer comparisons met on the way, as propositions for lia; the ranges of str.find and len *)
Ltac gen_arith :=
  repeat match goal with
         | H : (_ =? _)%Z = true |- _ => apply Z.eqb_eq in H
         | H : (_ =? _)%Z = false |- _ => apply Z.eqb_neq in H
         | H : (_ <? _)%Z = true |- _ => apply Z.ltb_lt in H
         | H : (_ <? _)%Z = false |- _ => apply Z.ltb_ge in H
         | H : (_ <=? _)%Z = true |- _ => apply Z.leb_le in H
         | H : (_ <=? _)%Z = false |- _ => apply Z.leb_gt in H
         end;
  repeat match goal with
         | H : context [py_find ?s ?p ?i] |- _ =>
             lazymatch goal with _ : (-1 <= py_find s p i)%Z |- _ => fail | _ => pose proof (py_find_ge s p i) end
         | H : context [zlen ?l] |- _ =>
             lazymatch goal with _ : (0 <= zlen l)%Z |- _ => fail | _ => pose proof (zlen_ge l) end
         end;
  gen_ranges.

Ltac gen_leaf :=
  cbn [fst snd] in *;
  first [ reflexivity | congruence
        | symmetry; apply chop_small; assumption | apply chop_small; assumption
        | gen_arith; first [ exfalso; lia | repeat f_equal; lia ]
        | idtac ].

Ltac gen_pointwise_core :=
  autounfold with genhelpers; cbv beta zeta; autorewrite with gencsv; autorewrite with pynorm; gen_break; gen_leaf.

Ltac gen_pointwise :=
  intros; repeat match goal with p : (_ * _)%type |- _ => destruct p end;
  first [ solve [gen_pointwise_core] | solve [autounfold with ixinline; gen_pointwise_core] ].

(* the two sides contain loop combinators whose functions differ: replace the left one by the right one, pointwise *)
Ltac gen_loops :=
  repeat match goal with
         | |- ?L = ?R =>
             match L with
             | context [while_fuel ?f ?c1 ?b1 ?s1] =>
                 match R with
                 | context [while_fuel f ?c2 ?b2 s1] =>
                     first [ constr_eq c1 c2; constr_eq b1 b2; fail 1
                           | let H := fresh "Hloop" in
                             assert (H : while_fuel f c1 b1 s1 = while_fuel f c2 b2 s1) by (apply while_fuel_ext; gen_pointwise);
                             rewrite H; clear H ]
                 end
             | context [fold_left ?f1 ?l ?a] =>
                 match R with
                 | context [fold_left ?f2 l a] =>
                     first [ constr_eq f1 f2; fail 1
                           | let H := fresh "Hloop" in
                             assert (H : fold_left f1 l a = fold_left f2 l a) by (apply fold_left_ext; gen_pointwise);
                             rewrite H; clear H ]
                 end
             | context [map ?f1 ?l] =>
                 match R with
                 | context [map ?f2 l] =>
                     first [ constr_eq f1 f2; fail 1
                           | let H := fresh "Hloop" in
                             assert (H : map f1 l = map f2 l) by (apply map_ext; gen_pointwise);
                             rewrite H; clear H ]
                 end
             end
         end.

(* gen_csv_eq g h: the generated definition g equals the hand definition h, for all arguments *)
Ltac gen_csv_eq g h :=
  intros;
  first [ reflexivity
        | unfold g, h; autounfold with genhelpers; cbv beta zeta; autorewrite with gencsv; autorewrite with pynorm;
          first [ reflexivity
                | gen_loops; gen_break; gen_leaf ] ].
