(* Heap_Proofs.v - soundness of the ownership analyser of Heap.v:
   a program accepted by [safe], run against a chain of accepted writers, leaves every source object with its original
   content and never hands a source object to any writer - on every execution path, including every early exit. *)
From Coq Require Import List Arith Bool.
Import ListNotations.
From RBQL Require Import Heap.

(* ---------------------------------------------------------------- sets of variables *)

Lemma vmem_In : forall x c, vmem x c = true <-> In x c.
Proof.
  intros x c; induction c as [|y t IH]; cbn [vmem In].
  - split; [discriminate | tauto].
  - rewrite orb_true_iff, IH, Nat.eqb_eq. split; intros [E|E]; auto.
Qed.

Lemma vmem_inter : forall x a b, vmem x (vinter a b) = true <-> vmem x a = true /\ vmem x b = true.
Proof.
  intros x a b. unfold vinter. rewrite !vmem_In, filter_In, vmem_In. tauto.
Qed.

Lemma vmem_remove : forall x y c, vmem x (vremove y c) = true <-> vmem x c = true /\ x <> y.
Proof.
  intros x y c. unfold vremove. rewrite !vmem_In, filter_In, negb_true_iff, Nat.eqb_neq. tauto.
Qed.

Lemma vsubset_spec : forall a b, vsubset a b = true -> forall x, vmem x a = true -> vmem x b = true.
Proof.
  intros a b Hs x Hx. unfold vsubset in Hs. rewrite forallb_forall in Hs. apply Hs. apply vmem_In. exact Hx.
Qed.

Lemma loop_inv_spec : forall fuel f c ci,
  loop_inv fuel f c = Some ci ->
  (forall x, vmem x ci = true -> vmem x c = true) /\
  exists c1, f ci = Some c1 /\ (forall x, vmem x ci = true -> vmem x c1 = true).
Proof.
  induction fuel as [|k IH]; intros f c ci Hl; cbn [loop_inv] in Hl.
  - discriminate.
  - destruct (f c) as [c1|] eqn:Ef; [|discriminate].
    destruct (vsubset c c1) eqn:Es.
    + inversion Hl; subst ci. split; [auto|]. exists c1. split; [exact Ef|]. apply vsubset_spec. exact Es.
    + apply IH in Hl. destruct Hl as [Hsub Hex]. split; [|exact Hex].
      intros x Hx. apply Hsub in Hx. apply vmem_inter in Hx. tauto.
Qed.

(* ---------------------------------------------------------------- invariants *)

Section Sound.
  Variable srcs : list oid.
  Variable h0 : oid -> option (list hval).       (* the heap when the query started *)

  Definition ginv (g : gstate) : Prop :=
    (forall i, In i srcs -> g_heap g i = h0 i) /\
    (forall i, In i srcs -> i < g_next g) /\
    (forall i, In i (g_pool g) -> ~ In i srcs) /\
    (forall i, In i (g_log g) -> ~ In i srcs).

  Definition cinv (c : list hvar) (e : env) : Prop :=
    forall x i, vmem x c = true -> e x = Some i -> ~ In i srcs.

  Definition hok (H : oid -> gstate -> gstate -> Prop) : Prop :=
    forall i g g', ~ In i srcs -> ginv g -> H i g g' -> ginv g'.

  Lemma ginv_alloc : forall g l, ginv g -> ginv (g_alloc g l) /\ ~ In (g_next g) srcs.
  Proof.
    intros g l (Hh & Hn & Hp & Hl).
    assert (Hfresh : ~ In (g_next g) srcs) by (intro Hi; apply Hn in Hi; exact (Nat.lt_irrefl _ Hi)).
    split; [|exact Hfresh].
    unfold ginv, g_alloc; cbn. repeat split; auto.
    - intros i Hi. unfold heap_set. destruct (Nat.eqb i (g_next g)) eqn:E.
      + apply Nat.eqb_eq in E. subst i. contradiction.
      + apply Hh. exact Hi.
    - intros i Hi. apply Hn in Hi. apply Nat.lt_lt_succ_r. exact Hi.
  Qed.

  Lemma ginv_write : forall g i l, ginv g -> ~ In i srcs -> ginv (g_write g i l).
  Proof.
    intros g i l (Hh & Hn & Hp & Hl) Hi. unfold ginv, g_write; cbn. repeat split; auto.
    intros j Hj. unfold heap_set. destruct (Nat.eqb j i) eqn:E.
    - apply Nat.eqb_eq in E. subst j. contradiction.
    - apply Hh. exact Hj.
  Qed.

  Lemma ginv_store : forall g i, ginv g -> ~ In i srcs -> ginv (g_store g i).
  Proof.
    intros g i (Hh & Hn & Hp & Hl) Hi. unfold ginv, g_store; cbn. repeat split; auto.
    intros j [Hj|Hj]; [subst j; exact Hi | apply Hp; exact Hj].
  Qed.

  Lemma ginv_emit : forall g i, ginv g -> ~ In i srcs -> ginv (g_emit g i).
  Proof.
    intros g i (Hh & Hn & Hp & Hl) Hi. unfold ginv, g_emit; cbn. repeat split; auto.
    intros j [Hj|Hj]; [subst j; exact Hi | apply Hl; exact Hj].
  Qed.

  Lemma eval_rhs_sound : forall c e g r i g',
    eval_rhs srcs e g r i g' -> cinv c e -> ginv g ->
    ginv g' /\ (rhs_clean c r = true -> ~ In i srcs).
  Proof.
    intros c e g r i g' Hev Hc Hg. destruct Hev; cbn [rhs_clean].
    - split; [exact Hg|]. intros Hm. eapply Hc; eauto.
    - destruct (ginv_alloc g l Hg) as [Ha Hf]. split; auto.
    - destruct (ginv_alloc g (concat ls) Hg) as [Ha Hf]. split; auto.
    - destruct (ginv_alloc g l Hg) as [Ha Hf]. split; auto.
    - split; [exact Hg | discriminate].
    - split; [exact Hg|]. intros Hm Hi. eapply Hc; eauto.
    - split; [exact Hg|]. intros _. destruct Hg as (_ & _ & Hp & _). apply Hp. assumption.
    - split; [exact Hg | discriminate].
    - split; [exact Hg|]. intros _. destruct Hg as (_ & _ & Hp & _). apply Hp. assumption.
  Qed.

  Lemma cinv_weaken : forall c c' e, (forall x, vmem x c' = true -> vmem x c = true) -> cinv c e -> cinv c' e.
  Proof. intros c c' e Hs Hc x i Hx He. eapply Hc; eauto. Qed.

  Lemma cinv_assign : forall c e x i (b : bool),
    cinv c e -> (b = true -> ~ In i srcs) ->
    cinv (if b then x :: c else vremove x c) (env_set e x i).
  Proof.
    intros c e x i b Hc Hi y j Hy He. unfold env_set in He. destruct b.
    - destruct (Nat.eqb y x) eqn:E.
      + inversion He; subst j. auto.
      + cbn [vmem] in Hy. rewrite E in Hy. cbn in Hy. eapply Hc; eauto.
    - apply vmem_remove in Hy. destruct Hy as [Hy Hne].
      destruct (Nat.eqb y x) eqn:E.
      + apply Nat.eqb_eq in E. contradiction.
      + eapply Hc; eauto.
  Qed.

  Section WithHandler.
    Variable H : oid -> gstate -> gstate -> Prop.
    Hypothesis Hok : hok H.

    Definition stmt_sound (s : stmt) (c c' : list hvar) : Prop :=
      forall e g o e' g', exec srcs H s e g o e' g' -> cinv c e -> ginv g ->
        ginv g' /\ (o = ONorm -> cinv c' e').

    Lemma for_sound : forall b ci, stmt_sound b ci ci -> stmt_sound (SFor b) ci ci.
    Proof.
      intros b ci Hb e g o e' g' Hx. remember (SFor b) as s eqn:Es.
      induction Hx; try discriminate Es; intros Hc Hg.
      - split; [exact Hg | discriminate].
      - split; [exact Hg | intros _; exact Hc].
      - inversion Es; subst b0.
        destruct (Hb _ _ _ _ _ Hx1 Hc Hg) as [Hg1 Hc1].
        apply IHHx2; auto.
      - inversion Es; subst b0.
        destruct (Hb _ _ _ _ _ Hx Hc Hg) as [Hg1 _]. split; [exact Hg1 | discriminate].
    Qed.

    Lemma exec_sound : forall s c c', an s c = Some c' -> stmt_sound s c c'.
    Proof.
      induction s as [x r | x | x | x | a IHa b IHb | b IHb | a IHa b IHb | ]; intros c c' Han; cbn [an] in Han.
      - (* SAssign *)
        inversion Han; subst c'. intros e g o e' g' Hx Hc Hg. inversion Hx; subst.
        + split; [exact Hg | discriminate].
        + match goal with Hev : eval_rhs _ _ _ _ _ _ |- _ => destruct (eval_rhs_sound c e g r i g' Hev Hc Hg) as [Hg' Hi] end. split; [exact Hg'|].
          intros _. apply cinv_assign; auto.
      - (* SSetItem *)
        destruct (vmem x c) eqn:Em; [|discriminate]. inversion Han; subst c'.
        intros e g o e' g' Hx Hc Hg. inversion Hx; subst.
        + split; [exact Hg | discriminate].
        + split; [|intros _; exact Hc]. apply ginv_write; [exact Hg|]. eapply Hc; eauto.
      - (* SEmit *)
        destruct (vmem x c) eqn:Em; [|discriminate]. inversion Han; subst c'.
        intros e g o e' g' Hx Hc Hg. inversion Hx; subst.
        + split; [exact Hg | discriminate].
        + assert (Hi : ~ In i srcs) by (eapply Hc; eauto).
          split; [|intros _; exact Hc]. eapply Hok; [exact Hi | | eassumption]. apply ginv_emit; assumption.
      - (* SStore *)
        destruct (vmem x c) eqn:Em; [|discriminate]. inversion Han; subst c'.
        intros e g o e' g' Hx Hc Hg. inversion Hx; subst.
        + split; [exact Hg | discriminate].
        + split; [|intros _; exact Hc]. apply ginv_store; [exact Hg|]. eapply Hc; eauto.
      - (* SIf *)
        destruct (an a c) as [c1|] eqn:Ea; [|discriminate].
        destruct (an b c) as [c2|] eqn:Eb; [|discriminate]. inversion Han; subst c'.
        intros e g o e' g' Hx Hc Hg. inversion Hx; subst.
        + split; [exact Hg | discriminate].
        + match goal with Hb : exec _ _ a _ _ _ _ _ |- _ => destruct (IHa c c1 Ea _ _ _ _ _ Hb Hc Hg) as [Hg' Hc'] end. split; [exact Hg'|].
          intros Ho. eapply cinv_weaken; [|apply Hc'; exact Ho]. intros y Hy. apply vmem_inter in Hy. tauto.
        + match goal with Hb : exec _ _ b _ _ _ _ _ |- _ => destruct (IHb c c2 Eb _ _ _ _ _ Hb Hc Hg) as [Hg' Hc'] end. split; [exact Hg'|].
          intros Ho. eapply cinv_weaken; [|apply Hc'; exact Ho]. intros y Hy. apply vmem_inter in Hy. tauto.
      - (* SFor *)
        apply loop_inv_spec in Han. destruct Han as [Hsub [c1 [Eb Hsub1]]].
        assert (Hbody : stmt_sound b c' c').
        { intros e g o e' g' Hx Hc Hg. destruct (IHb c' c1 Eb _ _ _ _ _ Hx Hc Hg) as [Hg' Hc'].
          split; [exact Hg'|]. intros Ho. eapply cinv_weaken; [exact Hsub1 | apply Hc'; exact Ho]. }
        intros e g o e' g' Hx Hc Hg.
        eapply (for_sound b c' Hbody); eauto. eapply cinv_weaken; [exact Hsub | exact Hc].
      - (* SSeq *)
        destruct (an a c) as [c1|] eqn:Ea; [|discriminate].
        intros e g o e' g' Hx Hc Hg. inversion Hx; subst.
        + split; [exact Hg | discriminate].
        + match goal with Hb : exec _ _ a _ _ ONorm _ _ |- _ => destruct (IHa c c1 Ea _ _ _ _ _ Hb Hc Hg) as [Hg1 Hc1] end.
          eapply (IHb c1 c' Han); eauto.
        + match goal with Hb : exec _ _ a _ _ OExc _ _ |- _ => destruct (IHa c c1 Ea _ _ _ _ _ Hb Hc Hg) as [Hg1 _] end.
          split; [exact Hg1 | discriminate].
      - (* SSkip *)
        inversion Han; subst c'. intros e g o e' g' Hx Hc Hg. inversion Hx; subst.
        + split; [exact Hg | discriminate].
        + split; [exact Hg | intros _; exact Hc].
    Qed.
  End WithHandler.

  Lemma safe_an : forall c s, safe c s = true -> exists c', an s c = Some c'.
  Proof. intros c s Hs. unfold safe in Hs. destruct (an s c) as [c'|]; [eauto | discriminate]. Qed.

  Lemma cinv_param : forall i, ~ In i srcs -> cinv [PARAM] (env_set env_empty PARAM i).
  Proof.
    intros i Hi x j Hx He. unfold env_set, env_empty in He. destruct (Nat.eqb x PARAM); [|discriminate].
    inversion He; subst j. exact Hi.
  Qed.

  Lemma cinv_nil : forall e, cinv [] e.
  Proof. intros e x i Hx. discriminate. Qed.

  (* every writer of an accepted chain may be handed any non-source object: the chain never touches a source *)
  Lemma handler_ok : forall ws, Forall (fun w => writer_ok w = true) ws -> hok (handler_of srcs ws).
  Proof.
    induction ws as [|w rest IH]; intros Hall; cbn [handler_of].
    - intros i g g' _ Hg Hh. subst g'. exact Hg.
    - inversion Hall as [|w' r' Hw Hrest]; subst. specialize (IH Hrest).
      intros i g g' Hi Hg [o [e' Hx]].
      unfold writer_ok in Hw. apply andb_true_iff in Hw. destruct Hw as [Hw _].
      destruct (safe_an _ _ Hw) as [c' Han].
      destruct (exec_sound (handler_of srcs rest) IH _ _ _ Han _ _ _ _ _ Hx (cinv_param i Hi) Hg) as [Hg' _].
      exact Hg'.
  Qed.

  Lemma finish_ok : forall ws, Forall (fun w => writer_ok w = true) ws ->
    forall g g', ginv g -> finish_chain srcs ws g g' -> ginv g'.
  Proof.
    induction ws as [|w rest IH]; intros Hall g g' Hg Hf; cbn [finish_chain] in Hf.
    - subst g'. exact Hg.
    - inversion Hall as [|w' r' Hw Hrest]; subst.
      destruct Hf as [o [e' [g1 [Hx Hrest']]]].
      unfold writer_ok in Hw. apply andb_true_iff in Hw. destruct Hw as [_ Hw].
      destruct (safe_an _ _ Hw) as [c' Han].
      destruct (exec_sound (handler_of srcs rest) (handler_ok rest Hrest) _ _ _ Han _ _ _ _ _ Hx (cinv_nil _) Hg) as [Hg1 _].
      destruct Hrest' as [E|Hf]; [subst g'; exact Hg1 | eapply IH; eauto].
  Qed.

  Lemma run_ok : forall c0 prog ws e0 g g',
    safe c0 prog = true -> Forall (fun w => writer_ok w = true) ws ->
    cinv c0 e0 -> ginv g -> run_query srcs prog ws e0 g g' -> ginv g'.
  Proof.
    intros c0 prog ws e0 g g' Hs Hall Hc Hg [o [e1 [g1 [Hx Hfin]]]].
    destruct (safe_an _ _ Hs) as [c' Han].
    destruct (exec_sound (handler_of srcs ws) (handler_ok ws Hall) _ _ _ Han _ _ _ _ _ Hx Hc Hg) as [Hg1 _].
    destruct Hfin as [E|Hf]; [subst g'; exact Hg1 | eapply finish_ok; eauto].
  Qed.
End Sound.

(* ---------------------------------------------------------------- the statements used by Props/C06.v *)

Theorem ownership_sound : forall srcs c0 prog ws e0 g g',
  safe c0 prog = true ->
  Forall (fun w => writer_ok w = true) ws ->
  (forall x i, In x c0 -> e0 x = Some i -> ~ In i srcs) ->
  wf srcs g ->
  run_query srcs prog ws e0 g g' ->
  (forall i, In i srcs -> g_heap g' i = g_heap g i) /\ (forall i, In i (g_log g') -> ~ In i srcs).
Proof.
  intros srcs c0 prog ws e0 g g' Hs Hall He (Hn & Hp & Hl) Hrun.
  assert (Hg : ginv srcs (g_heap g) g) by (unfold ginv; repeat split; auto).
  assert (Hc : cinv srcs c0 e0) by (intros x i Hx Hi; apply (He x i); [apply vmem_In; exact Hx | exact Hi]).
  destruct (run_ok srcs (g_heap g) c0 prog ws e0 g g' Hs Hall Hc Hg Hrun) as (Hh & _ & _ & Hlog).
  split; assumption.
Qed.

(* the writers alone: whatever non-source objects an accepted chain is handed, and then finished, no source changes *)
Theorem writers_safe : forall srcs ws handed g g',
  Forall (fun w => writer_ok w = true) ws ->
  Forall (fun i => ~ In i srcs) handed ->
  wf srcs g ->
  feed_chain srcs ws handed g g' ->
  (forall i, In i srcs -> g_heap g' i = g_heap g i) /\ (forall i, In i (g_log g') -> ~ In i srcs).
Proof.
  intros srcs ws handed g g' Hall Hh (Hn & Hp & Hl) Hfeed.
  assert (Hg : ginv srcs (g_heap g) g) by (unfold ginv; repeat split; auto).
  assert (Hfin : ginv srcs (g_heap g) g').
  { clear Hn Hp Hl. revert Hg Hfeed. generalize (g_heap g) as h0. revert g.
    induction Hh as [|i t Hi Ht IH]; intros a h0 Ha Hfeed; cbn [feed_chain] in Hfeed.
    - destruct Hfeed as [E|Hf]; [subst; exact Ha | eapply finish_ok; eauto].
    - destruct Hfeed as [b [Hb Hrest]].
      assert (Hgb : ginv srcs h0 b).
      { eapply (handler_ok srcs h0 ws Hall); [exact Hi | | exact Hb]. apply ginv_emit; assumption. }
      eapply IH; eauto. }
  destruct Hfin as (Hh' & _ & _ & Hl'). split; assumption.
Qed.

(* ---------------------------------------------------------------- non-vacuity *)

Definition ex_heap : oid -> option (list hval) := fun i => if Nat.eqb i 0 then Some [7] else None.
Definition ex_g0 : gstate := mkG ex_heap 1 [] [].

(* "up_fields = record_a; up_fields[0] = v": rejected, and the semantics really lets it rewrite the source *)
Definition ex_alias : stmt := block [SAssign 1 RSrc; SAssign 2 (RVar 1); SSetItem 2].

Example alias_rejected_and_harmful :
  safe [] ex_alias = false /\
  wf [0] ex_g0 /\
  exists g', run_query [0] ex_alias [w_any] env_empty ex_g0 g' /\ g_heap g' 0 <> g_heap ex_g0 0.
Proof.
  split; [reflexivity|]. split.
  - unfold wf, ex_g0; cbn. split; [|split].
    + intros j [E|[]]. subst j. auto.
    + intros j [].
    + intros j [].
  - exists (g_write ex_g0 0 [8]). split.
    + exists ONorm, (env_set (env_set env_empty 1 0) 2 0), (g_write ex_g0 0 [8]). split; [|left; reflexivity].
      unfold ex_alias, block; cbn [fold_right].
      eapply X_seq_n. { apply X_assign. apply E_src. left. reflexivity. }
      eapply X_seq_n. { apply X_assign. apply E_var. reflexivity. }
      eapply X_seq_n. { eapply X_setitem with (l := [7]); reflexivity. }
      apply X_skip.
    + cbn. discriminate.
Qed.

(* "up_fields = record_a[:]; up_fields[0] = v; write(up_fields)": accepted; it has a run in which the copy is
   mutated, handed to the most general writer and mutated again there - the hypotheses of ownership_sound are
   satisfiable by a run that does something *)
Definition ex_copy : stmt := block [SAssign 1 RSrc; SAssign 2 (RCopy 1); SSetItem 2; SEmit 2].

Example copy_accepted_and_runs :
  safe [] ex_copy = true /\ writer_ok w_any = true /\
  exists g', run_query [0] ex_copy [w_any] env_empty ex_g0 g' /\ g_log g' = [1] /\ g_heap g' 1 = Some [9]
             /\ g_heap g' 0 = Some [7].
Proof.
  split; [reflexivity|]. split; [reflexivity|].
  set (g1 := g_alloc ex_g0 [7]). set (g2 := g_write g1 1 [8]). set (g3 := g_emit g2 1).
  set (g4 := g_store (g_write g3 1 [9]) 1).
  exists g4. split; [|repeat split].
  exists ONorm, (env_set (env_set env_empty 1 0) 2 1), g4. split; [|left; reflexivity].
  unfold ex_copy, block; cbn [fold_right].
  eapply X_seq_n. { apply X_assign. apply E_src. left. reflexivity. }
  eapply X_seq_n. { apply X_assign. eapply (E_copy _ _ _ 1 0 [7]); reflexivity. }
  eapply X_seq_n. { eapply (X_setitem _ _ 2 _ g1 1 [7] [8]); reflexivity. }
  eapply X_seq_n; [|apply X_skip].
  eapply (X_emit _ _ 2 _ g2 1 g4 ONorm); [reflexivity|].
  cbn [handler_of]. exists ONorm, (env_set env_empty PARAM 1).
  unfold w_any; cbn [w_write].
  eapply X_for_s; [|apply X_for_0].
  eapply X_seq_n.
  - eapply (X_setitem _ _ PARAM _ g3 1 [8] [9]); reflexivity.
  - eapply (X_store _ _ PARAM _ _ 1). reflexivity.
Qed.

(* ---------------------------------------------------------------- the form used by the generated obligations *)

Lemma pool_chain_ok : forall pool ws,
  forallb writer_ok pool = true -> incl ws pool -> Forall (fun w => writer_ok w = true) ws.
Proof.
  intros pool ws Hp Hi. rewrite forallb_forall in Hp. apply Forall_forall. intros w Hw. apply Hp. apply Hi. exact Hw.
Qed.

(* a program accepted with NO variable assumed clean, against any chain built from a list of accepted writer classes *)
Theorem program_sources_unchanged : forall pool prog,
  safe [] prog = true ->
  forallb writer_ok pool = true ->
  forall srcs ws e0 g g',
    incl ws pool -> wf srcs g -> run_query srcs prog ws e0 g g' ->
    (forall i, In i srcs -> g_heap g' i = g_heap g i) /\ (forall i, In i (g_log g') -> ~ In i srcs).
Proof.
  intros pool prog Hs Hp srcs ws e0 g g' Hi Hw Hr.
  apply (ownership_sound srcs [] prog ws e0 g g' Hs (pool_chain_ok pool ws Hp Hi)); [|exact Hw|exact Hr].
  intros x i [].
Qed.

(* "cell = row[i]; cell.append(v)" on a FRESH copy of a source row: rejected (the cell may be shared with the source row),
   and the semantics has a run in which it is: the source cell object 0 is rewritten although only the copy was indexed *)
Definition ex_cell : stmt := block [SAssign 1 RSrc; SAssign 2 (RCopy 1); SAssign 3 (RCell 2); SSetItem 3].

Example cell_mutation_rejected_and_harmful :
  safe [] ex_cell = false /\
  exists g', run_query [0] ex_cell [w_any] env_empty ex_g0 g' /\ g_heap g' 0 <> g_heap ex_g0 0.
Proof.
  split; [reflexivity|].
  exists (g_write (g_alloc ex_g0 [7]) 0 [8]). split.
  - exists ONorm, (env_set (env_set (env_set env_empty 1 0) 2 1) 3 0), (g_write (g_alloc ex_g0 [7]) 0 [8]).
    split; [|left; reflexivity].
    unfold ex_cell, block; cbn [fold_right].
    eapply X_seq_n. { apply X_assign. apply E_src. left. reflexivity. }
    eapply X_seq_n. { apply X_assign. eapply (E_copy _ _ _ 1 0 [7]); reflexivity. }
    eapply X_seq_n. { apply X_assign. eapply (E_cell _ _ _ 2 1 0); [reflexivity | left; left; reflexivity]. }
    eapply X_seq_n. { eapply (X_setitem _ _ 3 _ _ 0 [7] [8]); reflexivity. }
    apply X_skip.
  - cbn. discriminate.
Qed.
