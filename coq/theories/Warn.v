(* Warn.v — the inconsistent-field-count warning of TableIterator / CSVRecordIterator:
   fields_info (first record number per distinct field count, over the records actually pulled) and
   make_inconsistent_num_fields_warning (the two entries with the smallest record numbers). *)
From RBQL Require Import Base.

(* fields_info as an insertion-ordered association list: field count -> first record number *)
Fixpoint fi_mem (n : nat) (fi : list (nat * nat)) : bool :=
  match fi with [] => false | (k, _) :: t => Nat.eqb n k || fi_mem n t end.

Fixpoint fields_info_from (lens : list nat) (nr : nat) (fi : list (nat * nat)) : list (nat * nat) :=
  match lens with
  | [] => fi
  | n :: t => let nr' := S nr in
              fields_info_from t nr' (if fi_mem n fi then fi else fi ++ [(n, nr')])
  end.
Definition fields_info (lens : list nat) : list (nat * nat) := fields_info_from lens 0 [].

(* sorted(items, key=record number)[0:2]; record numbers are distinct and increase along the insertion order,
   so these are the first two entries *)
Definition field_count_warning (lens : list nat) : option (nat * nat * nat * nat) :=
  match fields_info lens with
  | (n1, r1) :: (n2, r2) :: _ => Some (n1, r1, n2, r2)
  | _ => None
  end.

(* specification *)
Fixpoint first_diff_from (n0 : nat) (lens : list nat) (nr : nat) : option (nat * nat) :=
  match lens with
  | [] => None
  | n :: t => if Nat.eqb n n0 then first_diff_from n0 t (S nr) else Some (n, S nr)
  end.
Definition field_count_spec (lens : list nat) : option (nat * nat * nat * nat) :=
  match lens with
  | [] => None
  | n0 :: t => match first_diff_from n0 t 1 with
               | Some (n2, r2) => Some (n0, 1, n2, r2)
               | None => None
               end
  end.
