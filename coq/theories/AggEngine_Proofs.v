(* AggEngine_Proofs.v — the main loop of an aggregate query accumulates exactly Spec.agg_inputs, and finish emits
   one row per distinct key in key order (C03) *)
From RBQL Require Import Base Value Expr Writers Writers_Proofs Join Agg Agg_Proofs Engine Spec.

Section P.
Variable expr : Type.
Variable eval : env -> expr -> res val.
Notation query := (query expr).

Section Q.
Variable w : nat -> bool.
Variable q : query.
Hypothesis Hagg : is_agg q = true.
Hypothesis Ho : q_order q = None.
Hypothesis Hd : q_distinct q = DNo.

(* select_aggregated as a function on the optional AggregateWriter state *)
Definition agg_one (st : option agg_st) (kv : key * list val) : res (option agg_st) :=
  match st with
  | None => do cs <- cols_increment (map col_init (col_kinds q)) (fst kv) (snd kv);
            Ok (Some {| a_cols := cs; a_keys := keys_add [] (fst kv) |})
  | Some a => do cs <- cols_increment (a_cols a) (fst kv) (snd kv);
              Ok (Some {| a_cols := cs; a_keys := keys_add (a_keys a) (fst kv) |})
  end.

Fixpoint agg_all (st : option agg_st) (kvs : list (key * list val)) : res (option agg_st) :=
  match kvs with [] => Ok st | kv :: t => do st' <- agg_one st kv; agg_all st' t end.

Lemma agg_all_app : forall l1 l2 st, agg_all st (l1 ++ l2) = (do st' <- agg_all st l1; agg_all st' l2).
Proof.
  induction l1 as [|kv l1 IH]; intros l2 st; [reflexivity|]. cbn [app agg_all].
  destruct (agg_one st kv) as [st'|e]; cbn [bind]; [apply IH | reflexivity].
Qed.

Lemma aggregate_one_spec ls k vs st' :
  agg_one (l_agg ls) (k, vs) = Ok st' ->
  aggregate_one q ls k vs = Ok {| l_chain := l_chain ls; l_agg := st'; l_nu := l_nu ls |}.
Proof.
  unfold agg_one, aggregate_one. cbn [fst snd]. unfold cfg_of. cbn. rewrite Ho, Hd.
  destruct (l_agg ls) as [a|]; intros H; apply bind_ok in H; destruct H as [cs [Hcs H]]; injection H as <-; rewrite Hcs; reflexivity.
Qed.

Lemma process_matches_agg nr a : forall ms ls r st',
  l_nu ls = 0 ->
  agg_matches expr eval q nr a ms = Ok r ->
  agg_all (l_agg ls) r = Ok st' ->
  process_matches eval w q ls nr a ms = ({| l_chain := l_chain ls; l_agg := st'; l_nu := l_nu ls |}, Continue).
Proof.
  induction ms as [|b ms IH]; intros ls r st' Hnu H Ha.
  - cbn in H. injection H as <-. cbn in Ha. injection Ha as <-. cbn. destruct ls; reflexivity.
  - cbn [agg_matches] in H. apply bind_ok in H. destruct H as [kv [Hkv H]].
    apply bind_ok in H. destruct H as [rs [Hrs H]]. injection H as <-.
    cbn [process_matches]. unfold process_select. rewrite Hagg, Hnu. unfold env_of in Hkv. rewrite Hkv.
    destruct kv as [[k vs]|].
    + cbn [agg_all] in Ha. apply bind_ok in Ha. destruct Ha as [st1 [H1 Ha]].
      rewrite (aggregate_one_spec ls k vs st1 H1).
      rewrite (IH {| l_chain := l_chain ls; l_agg := st1; l_nu := l_nu ls |} rs st' Hnu Hrs Ha). cbn [l_chain l_agg l_nu]. rewrite ?Hnu. reflexivity.
    + rewrite (IH ls rs st' Hnu Hrs Ha). rewrite ?Hnu. reflexivity.
Qed.

Hypothesis Hsel : exists items, q_kind q = QSelect items.

Lemma main_loop_agg jm : forall A ls nr inputs st',
  l_nu ls = 0 ->
  agg_inputs expr eval q jm nr A = Ok inputs ->
  agg_all (l_agg ls) inputs = Ok st' ->
  main_loop eval w q jm ls nr A = ({| l_chain := l_chain ls; l_agg := st'; l_nu := l_nu ls |}, nr + length A, None).
Proof.
  induction A as [|a A IH]; intros ls nr inputs st' Hnu H Ha.
  - cbn in H. injection H as <-. cbn in Ha. injection Ha as <-. cbn. rewrite Nat.add_0_r. destruct ls; reflexivity.
  - cbn [agg_inputs] in H. apply bind_ok in H. destruct H as [ms [Hm H]].
    apply bind_ok in H. destruct H as [r [Hr H]]. apply bind_ok in H. destruct H as [rs [Hrs H]]. injection H as <-.
    rewrite agg_all_app in Ha. apply bind_ok in Ha. destruct Ha as [st1 [H1 Ha]].
    cbn [main_loop].
    assert (Hrec : process_record eval w q jm ls (S nr) a = ({| l_chain := l_chain ls; l_agg := st1; l_nu := l_nu ls |}, Continue)).
    { unfold process_record. destruct Hsel as [items Hk]. rewrite Hk. unfold matches_of in Hm.
      destruct (q_join q) as [js|]; [destruct jm as [m|]|].
      - rewrite Hm. apply (process_matches_agg (S nr) a ms ls r st1 Hnu Hr H1).
      - injection Hm as <-. apply (process_matches_agg (S nr) a _ ls r st1 Hnu Hr H1).
      - injection Hm as <-. apply (process_matches_agg (S nr) a _ ls r st1 Hnu Hr H1). }
    rewrite Hrec. rewrite (IH {| l_chain := l_chain ls; l_agg := st1; l_nu := l_nu ls |} (S nr) rs st' Hnu Hrs Ha).
    cbn [l_chain l_agg l_nu length]. f_equal. f_equal. lia.
Qed.

End Q.

(* the accumulated state is the columns fed with all tuples plus the set of keys *)
Lemma agg_all_some (q : query) : forall inputs a,
  agg_all q (Some a) inputs =
  (do cs <- cols_feed (a_cols a) inputs;
   Ok (Some {| a_cols := cs; a_keys := fold_left keys_add (map fst inputs) (a_keys a) |})).
Proof.
  induction inputs as [|[k vs] inputs IH]; intros a.
  - cbn. destruct a; reflexivity.
  - cbn [agg_all agg_one fst snd cols_feed map fold_left].
    destruct (cols_increment (a_cols a) k vs) as [cs|e]; cbn [bind]; [|reflexivity]. rewrite IH. reflexivity.
Qed.

Lemma agg_all_none (q : query) kv inputs :
  agg_all q None (kv :: inputs) =
  (do cs <- cols_feed (map col_init (col_kinds q)) (kv :: inputs);
   Ok (Some {| a_cols := cs; a_keys := all_keys (kv :: inputs) |})).
Proof.
  destruct kv as [k vs]. cbn [agg_all agg_one fst snd cols_feed].
  destruct (cols_increment (map col_init (col_kinds q)) k vs) as [cs|e]; cbn [bind]; [|reflexivity].
  rewrite agg_all_some. cbn [a_cols a_keys]. unfold all_keys. cbn [map fst fold_left]. reflexivity.
Qed.

(* an aggregate query whose evaluations succeed: one row per distinct key, in key order, truncated by TOP *)
Theorem run_agg (q : query) hdr A B jm inputs rows :
  is_agg q = true -> (exists items, q_kind q = QSelect items) ->
  q_order q = None -> q_distinct q = DNo -> static_check q = None ->
  join_map_of expr q B = Some jm ->
  agg_inputs expr eval q jm 0 A = Ok inputs ->
  agg_rows expr q inputs = Ok rows ->
  let o := run eval yes q hdr A B in
  o_error o = None /\ written (o_chain o) = trunc (q_top q) rows /\ o_pulls o = length A.
Proof.
  intros Hagg Hsel Ho Hd Hst Hjm Hin Hrows. unfold run. rewrite Hst. unfold join_map_of in Hjm.
  set (ls0 := {| l_chain := set_header chain_init hdr; l_agg := None; l_nu := 0 |}).
  assert (Hmain : forall jm0, agg_inputs expr eval q jm0 0 A = Ok inputs ->
            let '(ls, pulls, err) := main_loop eval yes q jm0 ls0 0 A in
            match err with
            | Some e => False
            | None => let '(st, ferr) := finish yes q ls in
                      ferr = None /\ written st = trunc (q_top q) rows /\ pulls = length A
            end).
  { intros jm0 Hin0. unfold agg_rows in Hrows. destruct inputs as [|kv inputs].
    - injection Hrows as <-.
      rewrite (main_loop_agg yes q Hagg Ho Hd Hsel jm0 A ls0 0 [] None eq_refl Hin0 eq_refl).
      cbn [finish l_agg l_chain ls0]. unfold chain_finish, cfg_of. cbn. rewrite Ho. unfold uniq_finish. cbn. rewrite Hd.
      rewrite written_base_finish, written_set_header. split; [reflexivity|]. split; [|reflexivity].
      unfold trunc. destruct (q_top q); [rewrite firstn_nil|]; reflexivity.
    - apply bind_ok in Hrows. destruct Hrows as [cs [Hcs Hfin]].
      assert (Hall : agg_all q (l_agg ls0) (kv :: inputs) = Ok (Some {| a_cols := cs; a_keys := all_keys (kv :: inputs) |})).
      { cbn [l_agg ls0]. rewrite agg_all_none, Hcs. reflexivity. }
      rewrite (main_loop_agg yes q Hagg Ho Hd Hsel jm0 A ls0 0 (kv :: inputs) _ eq_refl Hin0 Hall).
      cbn [finish l_agg l_chain a_cols a_keys]. rewrite Hfin.
      rewrite written_base_finish.
      unfold ls0. cbn [l_chain]. destruct (feed_top (cfg_of q) rows (set_header chain_init hdr)) as [F1 _]. rewrite F1, written_set_header.
      split; [reflexivity|]. split; [|reflexivity]. cbn. unfold top_room, take, trunc, cfg_of. cbn.
      destruct (q_top q); [rewrite Nat.sub_0_r|]; reflexivity. }
  destruct (q_join q) as [js|] eqn:Ej.
  - destruct (build (j_rhs js) B) as [m|bnr] eqn:Eb; [|discriminate]. injection Hjm as <-.
    specialize (Hmain (Some (widen (j_bhdr js) m)) Hin). destruct (main_loop eval yes q (Some (widen (j_bhdr js) m)) ls0 0 A) as [[ls pulls] [e|]]; [contradiction|].
    destruct (finish yes q ls) as [st ferr]. destruct Hmain as [-> [H2 ->]]. cbn. repeat split. assumption.
  - injection Hjm as <-.
    specialize (Hmain None Hin). destruct (main_loop eval yes q None ls0 0 A) as [[ls pulls] [e|]]; [contradiction|].
    destruct (finish yes q ls) as [st ferr]. destruct Hmain as [-> [H2 ->]]. cbn. repeat split. assumption.
Qed.

(* row-wise feeding of all columns = column-wise feeding of each column with its own values *)
Lemma cols_increment_nth : forall cs k vs cs', cols_increment cs k vs = Ok cs' ->
  length vs = length cs /\ length cs' = length cs /\
  forall i c, nth_error cs i = Some c -> exists c', nth_error cs' i = Some c' /\ col_increment c k (nth i vs VNone) = Ok c'.
Proof.
  induction cs as [|c0 cs IH]; intros k vs cs' H; destruct vs as [|v vs]; cbn in H; try discriminate.
  - injection H as <-. repeat split. intros i c Hi. destruct i; discriminate.
  - apply bind_ok in H. destruct H as [c1 [H1 H]]. apply bind_ok in H. destruct H as [r [Hr H]]. injection H as <-.
    destruct (IH k vs r Hr) as [L1 [L2 L3]]. split; [cbn; lia|]. split; [cbn; lia|].
    intros i c Hi. destruct i as [|i]; cbn in Hi |- *.
    + injection Hi as <-. exists c1. split; [reflexivity | assumption].
    + apply L3. assumption.
Qed.

Theorem cols_feed_columnwise : forall inputs cs cs', cols_feed cs inputs = Ok cs' ->
  length cs' = length cs /\
  forall i c, nth_error cs i = Some c -> exists c', nth_error cs' i = Some c' /\ col_feed c (column i inputs) = Ok c'.
Proof.
  induction inputs as [|[k vs] inputs IH]; intros cs cs' H.
  - cbn in H. injection H as <-. split; [reflexivity|]. intros i c Hi. exists c. split; [assumption | reflexivity].
  - cbn [cols_feed] in H. apply bind_ok in H. destruct H as [cs1 [H1 H]].
    destruct (cols_increment_nth cs k vs cs1 H1) as [L1 [L2 L3]]. destruct (IH cs1 cs' H) as [M1 M2].
    split; [lia|]. intros i c Hi. destruct (L3 i c Hi) as [c1 [N1 N2]]. destruct (M2 i c1 N1) as [c' [P1 P2]].
    exists c'. split; [assumption|]. cbn [column map col_feed fst snd]. rewrite N2. cbn [bind]. exact P2.
Qed.

End P.
