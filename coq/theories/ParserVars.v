(* ParserVars.v — executable model of the variable-binding part of rbql_engine.py (C09):
   parse_basic_variables, parse_array_variables, parse_dictionary_variables (with
   query_probably_has_dictionary_variable and python_string_escape_column_name), parse_attribute_variables
   (dictionary comprehension: last duplicate wins), map_variables_directly, TableIterator.get_variables_map,
   CSVRecordIterator.get_variables_map, generate_common_init_code / generate_init_statements, the keys of
   RBQLRecord (Python value of the literal between the brackets), and the header logic of
   CSVRecordIterator (first_record / has_header / first_record_should_be_emitted / handle_query_modifier /
   get_header).
   The variable maps are association lists in insertion order with dict semantics for assignment
   ([map_set] keeps the position of an existing key). Where the source iterates over list(set(...))
   (field numbers, attribute names) the model uses the order of first occurrence in the query: the order
   of a Python set is not modelled and is not compared (it only permutes the lines of the init code).
   No proofs in this file. *)
From RBQL Require Import Base Parser.
From Coq Require String.
Import String.StringSyntax.
Local Open Scope N_scope.

Definition S_eq_record : str := Eval vm_compute in $" = RBQLRecord()".
Definition S_dotNR : str := Eval vm_compute in $".NR".
Definition S_dotNR_eq : str := Eval vm_compute in $".NR = ".
Definition S_NR : str := Eval vm_compute in $"NR".
Definition S_bNR : str := Eval vm_compute in $"bNR".
Definition S_aNR : str := Eval vm_compute in $"aNR".
Definition S_aNR_eq_NR : str := Eval vm_compute in $"aNR = NR".
Definition S_get_a : str := Eval vm_compute in $" = safe_get(record_a, ".
Definition S_rpar : str := Eval vm_compute in $")".
Definition S_get_b : str := Eval vm_compute in $" = safe_get(record_b, ".
Definition S_get_b_tail : str := Eval vm_compute in $") if record_b is not None else None".
Definition S_header : str := Eval vm_compute in $"header".
Definition S_headers : str := Eval vm_compute in $"headers".
Definition S_noheader : str := Eval vm_compute in $"noheader".
Definition S_noheaders : str := Eval vm_compute in $"noheaders".
(* ------------------------------------------------------------------ python_string_escape_column_name *)
(* str.replace with a one-character pattern *)
Definition replace_ch (c : ch) (r : str) (s : str) : str :=
  flat_map (fun x => if N.eqb x c then r else [x]) s.
Definition escape_column_name (qc : ch) (name : str) : str :=
  let s1 := replace_ch BSL [BSL; BSL] name in
  let s2 := replace_ch LF [BSL; 110] s1 in
  let s3 := replace_ch CR [BSL; 114] s2 in
  let s4 := replace_ch TAB [BSL; 116] s3 in
  replace_ch qc [BSL; qc] s4.

(* ------------------------------------------------------------------ Python's value of a string literal *)
(* a non-raw, non-f, non-triple-quoted, single-line literal Q body Q with Q one of the two quote characters.
   None = not such a literal (unterminated, an unescaped Q inside, a raw LF / CR / NUL, a bad \x escape) or
   one of the escapes this model leaves out: \N{..}, \u, \U, backslash-newline. *)
Definition is_oct (c : ch) : bool := in_range 48 55 c.
Definition hex_val (c : ch) : option N :=
  if is_digit c then Some (c - 48) else if in_range 97 102 c then Some (c - 87)
  else if in_range 65 70 c then Some (c - 55) else None.
Definition simple_escape (e : ch) : option ch :=
  if N.eqb e BSL then Some BSL else if N.eqb e APOS then Some APOS else if N.eqb e QT then Some QT
  else if N.eqb e 110 then Some LF else if N.eqb e 114 then Some CR else if N.eqb e 116 then Some TAB
  else if N.eqb e 97 then Some 7 else if N.eqb e 98 then Some 8 else if N.eqb e 102 then Some 12
  else if N.eqb e 118 then Some 11 else None.
Definition unsupported_escape (e : ch) : bool :=
  N.eqb e 78 || N.eqb e 117 || N.eqb e 85 || N.eqb e LF || N.eqb e CR || N.eqb e 0.
Definition consopt (c : ch) (o : option str) : option str := option_map (cons c) o.
Fixpoint lit_body (q : ch) (s : str) : option str :=
  match s with
  | [] => None
  | c :: t =>
      if N.eqb c q then match t with [] => Some [] | _ :: _ => None end
      else if N.eqb c LF || N.eqb c CR || N.eqb c 0 then None
      else if N.eqb c BSL then
        match t with
        | [] => None
        | e :: t1 =>
            match simple_escape e with
            | Some v => consopt v (lit_body q t1)
            | None =>
                if is_oct e then
                  match t1 with
                  | d2 :: t2 =>
                      if is_oct d2 then
                        match t2 with
                        | d3 :: t3 =>
                            if is_oct d3 then consopt (((e - 48) * 8 + (d2 - 48)) * 8 + (d3 - 48)) (lit_body q t3)
                            else consopt ((e - 48) * 8 + (d2 - 48)) (lit_body q t2)
                        | [] => None
                        end
                      else consopt (e - 48) (lit_body q t1)
                  | [] => None
                  end
                else if N.eqb e 120 then
                  match t1 with
                  | h1 :: h2 :: t2 =>
                      match hex_val h1, hex_val h2 with
                      | Some a, Some b => consopt (a * 16 + b) (lit_body q t2)
                      | _, _ => None
                      end
                  | _ => None
                  end
                else if unsupported_escape e then None
                else consopt BSL (consopt e (lit_body q t1))     (* unknown escape: both characters stay *)
            end
        end
      else consopt c (lit_body q t)
  end.
Definition py_literal_value (s : str) : option str :=
  match s with
  | q :: t => if N.eqb q QT || N.eqb q APOS then lit_body q t else None
  | [] => None
  end.

(* ------------------------------------------------------------------ variable maps *)
Definition vinfo := (bool * N)%type.             (* VariableInfo(initialize, index) *)
Definition vmap := list (str * vinfo).
Fixpoint map_set (k : str) (v : vinfo) (m : vmap) : vmap :=
  match m with
  | [] => [(k, v)]
  | (k', v') :: r => if str_eqb k' k then (k', v) :: r else (k', v') :: map_set k v r
  end.
Fixpoint map_get (k : str) (m : vmap) : option vinfo :=
  match m with
  | [] => None
  | (k', v') :: r => if str_eqb k' k then Some v' else map_get k r
  end.

Inductive verr := V_attr_not_found | V_bad_direct_name | V_len_mismatch.
Inductive vres (T : Type) := VOk (v : T) | VErr (e : verr).
Arguments VOk {T} v.
Arguments VErr {T} e.

(* '(?:^|[^_a-zA-Z0-9])' BODY : BODY at the start of the text, or after one consumed non-word character *)
Definition ctx_start {I : Type} (body : str -> option (nat * I)) (prev : option ch) (s : str) : option (nat * I) :=
  match (match prev with None => body s | Some _ => None end) with
  | Some x => Some x
  | None => match s with
            | c :: t => if is_word c then None
                        else match body t with Some (n, i) => Some (S n, i) | None => None end
            | [] => None
            end
  end.
Definition is_digit19 (c : ch) : bool := in_range 49 57 c.
Definition not_word_next (s : str) : bool := match s with [] => true | c :: _ => negb (is_word c) end.
(* a([1-9][0-9]* )(?:$|(?=[^_a-zA-Z0-9])) *)
Definition basic_body (prefix : ch) (s : str) : option (nat * N) :=
  match s with
  | p :: d :: r =>
      if N.eqb p prefix && is_digit19 d then
        let (ds, r2) := span_by is_digit r in
        if not_word_next r2 then Some ((2 + length ds)%nat, N_of_digits (d :: ds)) else None
      else None
  | _ => None
  end.
(* a\[([1-9][0-9]* )\] *)
Definition array_body (prefix : ch) (s : str) : option (nat * N) :=
  match s with
  | p :: b :: d :: r =>
      if N.eqb p prefix && N.eqb b LBR && is_digit19 d then
        let (ds, r2) := span_by is_digit r in
        match r2 with
        | e :: _ => if N.eqb e RBR then Some ((4 + length ds)%nat, N_of_digits (d :: ds)) else None
        | [] => None
        end
      else None
  | _ => None
  end.
Definition infos {I : Type} (l : list (nat * nat * I)) : list I := map snd l.
Definition parse_basic_variables (query : str) (prefix : ch) (m : vmap) : vmap :=
  fold_left (fun acc n => map_set (prefix :: dec_of_N n) (true, n - 1) acc)
            (infos (find_all (ctx_start (basic_body prefix)) query)) m.
Definition parse_array_variables (query : str) (prefix : ch) (m : vmap) : vmap :=
  fold_left (fun acc n => map_set (prefix :: LBR :: dec_of_N n ++ [RBR]) (true, n - 1) acc)
            (infos (find_all (ctx_start (array_body prefix)) query)) m.

(* query_probably_has_dictionary_variable: every maximal run of [-a-zA-Z0-9_:;+=!.,()%^#@&* ] of the column
   name occurs in the query *)
Definition dict_class (c : ch) : bool :=
  is_alpha c || is_digit c || existsb (N.eqb c) [45; 95; 58; 59; 43; 61; 33; 46; 44; 40; 41; 37; 94; 35; 64; 38; 42; 32].
Fixpoint segments (s : str) (cur : str) : list str :=
  match s with
  | [] => match cur with [] => [] | _ => [rev cur] end
  | c :: t => if dict_class c then segments t (c :: cur)
              else match cur with [] => segments t [] | _ => rev cur :: segments t [] end
  end.
Definition query_probably_has_dictionary_variable (query name : str) : bool :=
  forallb (fun seg => contains seg query) (segments name []).
(* re.search('(?:^|[^_a-zA-Z0-9])a\[') *)
Definition dict_prefilter_body (prefix : ch) (s : str) : option (nat * unit) :=
  match s with
  | p :: b :: _ => if N.eqb p prefix && N.eqb b LBR then Some (2%nat, tt) else None
  | _ => None
  end.
Definition has_bracket_access (query : str) (prefix : ch) : bool :=
  match find_all (ctx_start (dict_prefilter_body prefix)) query with [] => false | _ => true end.
Definition dict_var (prefix qc : ch) (name : str) : str :=
  prefix :: LBR :: qc :: escape_column_name qc name ++ [qc; RBR].
Fixpoint dict_vars_from (k : nat) (query : str) (prefix : ch) (names : list str) (m : vmap) : vmap :=
  match names with
  | [] => m
  | n :: r =>
      let m' := if query_probably_has_dictionary_variable query n then
                  map_set (dict_var prefix APOS n) (false, N.of_nat k) (map_set (dict_var prefix QT n) (true, N.of_nat k) m)
                else m in
      dict_vars_from (S k) query prefix r m'
  end.
Definition parse_dictionary_variables (query : str) (prefix : ch) (names : list str) (m : vmap) : vmap :=
  if has_bracket_access query prefix then dict_vars_from 0 query prefix names m else m.

(* {v: i for i, v in enumerate(column_names)}.get(x) : the LAST index of x *)
Fixpoint last_index_from (k : nat) (names : list str) (x : str) : option nat :=
  match names with
  | [] => None
  | n :: r => match last_index_from (S k) r x with
              | Some i => Some i
              | None => if str_eqb n x then Some k else None
              end
  end.
(* a\.([_a-zA-Z][_a-zA-Z0-9]* ) *)
Definition attr_body (prefix : ch) (s : str) : option (nat * str) :=
  match s with
  | p :: d :: c :: r =>
      if N.eqb p prefix && N.eqb d DOT && is_ident_start c then
        let (w, _) := span_by is_word r in Some ((3 + length w)%nat, c :: w)
      else None
  | _ => None
  end.
(* the scan runs over the literal-free format expression (separate_string_literals(query_text)[0]):
   text inside string literals is not a variable (fix e1c769f of finding D12) *)
Definition attr_idents (query : str) (prefix : ch) : list str :=
  infos (find_all (ctx_start (attr_body prefix)) (fst (separate_string_literals LPy query))).
Fixpoint attr_vars (prefix : ch) (names : list str) (ids : list str) (m : vmap) : vres vmap :=
  match ids with
  | [] => VOk m
  | x :: r => match last_index_from 0 names x with
              | Some i => attr_vars prefix names r (map_set (prefix :: DOT :: x) (true, N.of_nat i) m)
              | None => VErr V_attr_not_found
              end
  end.
Definition parse_attribute_variables (query : str) (prefix : ch) (names : list str) (m : vmap) : vres vmap :=
  attr_vars prefix names (attr_idents query prefix) m.

(* re.match('^[_a-zA-Z][_a-zA-Z0-9]*$', name): '$' also matches before a final LF *)
Definition is_identifier (s : str) : bool :=
  match s with c :: r => is_ident_start c && forallb is_word r | [] => false end.
Definition direct_name_ok (s : str) : bool :=
  is_identifier s || match rev s with c :: r => N.eqb c LF && is_identifier (rev r) | [] => false end.
Fixpoint direct_vars_from (k : nat) (query : str) (names : list str) (m : vmap) : vres vmap :=
  match names with
  | [] => VOk m
  | n :: r =>
      if direct_name_ok n then
        direct_vars_from (S k) query r (if contains n query then map_set n (true, N.of_nat k) m else m)
      else VErr V_bad_direct_name
  end.
Definition map_variables_directly (query : str) (names : list str) (m : vmap) : vres vmap :=
  direct_vars_from 0 query names m.

(* get_variables_map of TableIterator (normalize_column_names or not) and of CSVRecordIterator.
   [names] = column_names / the header record when the iterator has one; [first_len] = len(table[0]) for a
   non-empty list table *)
Inductive source := SrcTable (normalize : bool) | SrcCsv.
Definition get_variables_map (src : source) (query : str) (prefix : ch) (names : option (list str))
           (first_len : option nat) : vres vmap :=
  let m0 := parse_array_variables query prefix (parse_basic_variables query prefix []) in
  match names with
  | None => VOk m0
  | Some ns =>
      match src with
      | SrcTable normalize =>
          if match first_len with Some l => negb (Nat.eqb l (length ns)) | None => false end then VErr V_len_mismatch
          else if normalize then parse_attribute_variables query prefix ns (parse_dictionary_variables query prefix ns m0)
          else map_variables_directly query ns m0
      | SrcCsv =>
          match parse_attribute_variables query prefix ns m0 with
          | VOk m1 => VOk (parse_dictionary_variables query prefix ns m1)
          | VErr e => VErr e
          end
      end
  end.

(* ------------------------------------------------------------------ init code *)
Definition common_init (fmt : str) (prefix : ch) : list str :=
  [prefix :: S_eq_record]
  ++ (if contains (prefix :: S_dotNR) fmt then [prefix :: S_dotNR_eq ++ (if N.eqb prefix 97 then S_NR else S_bNR)] else [])
  ++ (if N.eqb prefix 97 && contains S_aNR fmt then [S_aNR_eq_NR] else []).
Definition init_line_a (e : str * vinfo) : list str :=
  let '(k, (ini, i)) := e in if ini then [k ++ S_get_a ++ dec_of_N i ++ S_rpar] else [].
Definition init_line_b (e : str * vinfo) : list str :=
  let '(k, (ini, i)) := e in
  if ini then [k ++ S_get_b ++ dec_of_N i ++ S_get_b_tail] else [].
(* generate_init_statements: an EMPTY join map is falsy, so its common init code is skipped as well *)
Definition init_lines (fmt : str) (m : vmap) (jm : option vmap) : list str :=
  common_init fmt 97 ++ flat_map init_line_a m
  ++ match jm with
     | Some (e :: r) => common_init fmt 98 ++ flat_map init_line_b (e :: r)
     | _ => []
     end.
Definition variables_init_code (fmt : str) (m : vmap) (jm : option vmap) (lits : list str) : str :=
  combine_string_literals (join [LF] (init_lines fmt m jm)) lits.

(* RBQLRecord: the init line  a["..."] = safe_get(record_a, i)  stores index i under the Python value of the
   literal; a later line with an equal key overwrites it *)
Definition dict_key_of_var (prefix : ch) (v : str) : option str :=
  match v with
  | p :: b :: r =>
      if N.eqb p prefix && N.eqb b LBR then
        match rev r with
        | e :: lr => if N.eqb e RBR then py_literal_value (rev lr) else None
        | [] => None
        end
      else None
  | _ => None
  end.
Definition record_storage (prefix : ch) (m : vmap) : list (str * N) :=
  flat_map (fun e : str * vinfo =>
              let '(k, (ini, i)) := e in
              if ini then match dict_key_of_var prefix k with Some key => [(key, i)] | None => [] end else []) m.
Fixpoint storage_get (key : str) (st : list (str * N)) : option N :=
  match st with
  | [] => None
  | (k, i) :: r => match storage_get key r with
                   | Some j => Some j
                   | None => if str_eqb k key then Some i else None
                   end
  end.
(* what the expression  a[<literal>]  evaluates to an index of: RBQLRecord.__getitem__(value of the literal) *)
Definition eval_bracket_access (prefix : ch) (m : vmap) (lit : str) : option N :=
  match py_literal_value lit with
  | Some key => storage_get key (record_storage prefix m)
  | None => None
  end.

(* ------------------------------------------------------------------ header logic (CSVRecordIterator) *)
Record hstate := mkH { has_header : bool; emit_first : bool }.
(* __init__: the first record is always pre-read; it is replayed as data iff there is no header *)
Definition h_init (flag : bool) : hstate := mkH flag (negb flag).
Definition M_HEADER : list str := [S_header; S_headers].
Definition M_NOHEADER : list str := [S_noheader; S_noheaders].
Definition handle_query_modifier (modifier : str) (st : hstate) : hstate :=
  let st1 := if existsb (str_eqb modifier) M_HEADER then mkH true false else st in
  if existsb (str_eqb modifier) M_NOHEADER then mkH false true else st1.
Definition effective (flag : bool) (w : option str) : hstate :=
  match w with Some modifier => handle_query_modifier modifier (h_init flag) | None => h_init flag end.
Section Records.
  Context {R : Type}.
  (* the records get_record() hands to the engine, in order; the engine numbers them NR = 1, 2, ... *)
  Definition csv_records (st : hstate) (all_records : list R) : list R :=
    if emit_first st then all_records else tl all_records.
  Definition csv_header (st : hstate) (all_records : list R) : option R :=
    if has_header st then hd_error all_records else None.
  Definition numbered (l : list R) : list (nat * R) := combine (seq 1 (length l)) l.
End Records.
(* TableIterator: the header is the column_names argument, the table is all data, modifiers are ignored *)
