(* Join_Proofs.v — HashJoinMap.build / get_join_records = the key-equal B records in B order (C04) *)
From RBQL Require Import Base Value Value_Proofs Expr Join.

Lemma key_eqb_refl k : key_eqb k k = true.
Proof. apply atoms_eqb_refl. Qed.
Lemma key_eqb_sym a b : key_eqb a b = key_eqb b a.
Proof. apply atoms_eqb_sym. Qed.
Lemma key_eqb_trans a b c : key_eqb a b = true -> key_eqb b c = true -> key_eqb a c = true.
Proof. apply atoms_eqb_trans. Qed.

Lemma key_eqb_congr a b c : key_eqb a b = true -> key_eqb a c = key_eqb b c.
Proof.
  intros H. destruct (key_eqb b c) eqn:E.
  - eapply key_eqb_trans; eassumption.
  - destruct (key_eqb a c) eqn:E2; [|reflexivity].
    rewrite key_eqb_sym in H. rewrite (key_eqb_trans _ _ _ H E2) in E. discriminate.
Qed.

Lemma bucket_add_get kn e : forall l k,
  get_join_records (bucket_add kn e l) k = get_join_records l k ++ (if key_eqb k kn then [e] else []).
Proof.
  induction l as [|[k' es] l IH]; intros k.
  - cbn. destruct (key_eqb k kn); reflexivity.
  - cbn [bucket_add]. destruct (key_eqb kn k') eqn:E.
    + cbn [get_join_records]. destruct (key_eqb k k') eqn:E2.
      * assert (H : key_eqb k kn = true).
        { rewrite key_eqb_sym in E. eapply key_eqb_trans; eassumption. }
        rewrite H. reflexivity.
      * assert (H : key_eqb k kn = false).
        { destruct (key_eqb k kn) eqn:E3; [|reflexivity]. rewrite (key_eqb_trans _ _ _ E3 E) in E2. discriminate. }
        rewrite H, app_nil_r. reflexivity.
    + cbn [get_join_records]. destruct (key_eqb k k') eqn:E2.
      * assert (H : key_eqb k kn = false).
        { destruct (key_eqb k kn) eqn:E3; [|reflexivity]. rewrite key_eqb_sym in E3.
          rewrite (key_eqb_trans _ _ _ E3 E2) in E. discriminate. }
        rewrite H, app_nil_r. reflexivity.
      * apply IH.
Qed.

(* the B records (numbered from nr+1) whose key equals k *)
Definition matches_from (ks : list rkey) (nr : nat) (B : list rec) (k : key) : list bentry :=
  flat_map (fun '(n, f) => match rhs_key ks n f with
                           | Ok k' => if key_eqb k k' then [(n, length f, f)] else []
                           | Err _ => []
                           end) (number_from nr B).

Lemma build_from_spec ks : forall B nr m m',
  build_from ks B nr m = inl m' ->
  (forall k, get_join_records (m_buckets m') k = get_join_records (m_buckets m) k ++ matches_from ks nr B k)
  /\ m_maxlen m' = fold_left (fun acc f => Nat.max acc (length f)) B (m_maxlen m).
Proof.
  induction B as [|f B IH]; intros nr m m' H.
  - cbn in H. injection H as <-. split; [intros k; cbn; rewrite app_nil_r; reflexivity | reflexivity].
  - cbn [build_from] in H. destruct (rhs_key ks (S nr) f) as [kf|e] eqn:Ek; [|discriminate].
    apply IH in H. destruct H as [H1 H2]. split.
    + intros k. rewrite H1. cbn [m_buckets]. rewrite bucket_add_get. unfold matches_from. cbn [number_from flat_map].
      rewrite Ek. rewrite <- app_assoc. reflexivity.
    + rewrite H2. reflexivity.
Qed.

Theorem build_matches ks B m k :
  build ks B = inl m -> get_join_records (m_buckets m) k = matches_spec ks B k.
Proof.
  intros H. unfold build in H. apply build_from_spec in H. destruct H as [H _]. rewrite H. reflexivity.
Qed.

Theorem build_maxlen ks B m :
  build ks B = inl m -> m_maxlen m = fold_left (fun acc f => Nat.max acc (length f)) B 0.
Proof. intros H. unfold build in H. apply build_from_spec in H. destruct H as [_ H]. exact H. Qed.

(* the widest B record *)
Definition widest (B : list rec) : nat := fold_left (fun acc f => Nat.max acc (length f)) B 0.

Lemma fold_max_ge : forall (B : list rec) n, n <= fold_left (fun acc f => Nat.max acc (length f)) B n.
Proof. induction B as [|f B IH]; intros n; cbn [fold_left]; [lia|]. specialize (IH (Nat.max n (length f))). lia. Qed.

Lemma fold_max_bound : forall (B : list rec) n w, n <= w -> Forall (fun f => length f <= w) B ->
  fold_left (fun acc f => Nat.max acc (length f)) B n <= w.
Proof.
  induction B as [|f B IH]; intros n w Hn HB; cbn [fold_left]; [exact Hn|].
  inversion HB as [|x l Hx Hl]; subst. apply IH; [lia | assumption].
Qed.

Lemma widest_rect (B : list rec) w : Forall (fun f => length f = w) B -> widest B <= w.
Proof.
  intros H. apply fold_max_bound; [lia|]. eapply Forall_impl; [|exact H]. cbn beta. intros f Hf. lia.
Qed.

(* the adjustment of shallow_parse_input_query after build(): buckets untouched, the null-record width raised to the header's *)
Lemma widen_buckets jh m : m_buckets (widen jh m) = m_buckets m.
Proof. destruct jh; reflexivity. Qed.

Lemma widen_maxlen jh m :
  m_maxlen (widen jh m) = Nat.max (m_maxlen m) (match jh with Some n => n | None => 0 end).
Proof. destruct jh as [n|]; cbn; [reflexivity | lia]. Qed.

Lemma widen_none m : widen None m = m.
Proof. reflexivity. Qed.

Theorem widen_build_maxlen ks B m jh :
  build ks B = inl m -> m_maxlen (widen jh m) = Nat.max (widest B) (match jh with Some n => n | None => 0 end).
Proof. intros H. rewrite widen_maxlen, (build_maxlen ks B m H). reflexivity. Qed.

(* build fails exactly at the first B record lacking a key field, and names it *)
Lemma build_from_error ks : forall B nr m bnr,
  build_from ks B nr m = inr bnr ->
  exists pre f post, B = pre ++ f :: post /\ bnr = nr + S (length pre)
                     /\ (exists e, rhs_key ks bnr f = Err e)
                     /\ Forall (fun '(n, g) => exists k, rhs_key ks n g = Ok k) (number_from nr pre).
Proof.
  induction B as [|f B IH]; intros nr m bnr H; [discriminate|].
  cbn [build_from] in H. destruct (rhs_key ks (S nr) f) as [kf|e] eqn:Ek.
  - apply IH in H. destruct H as [pre [g [post [-> [-> [He Hp]]]]]].
    exists (f :: pre), g, post. split; [reflexivity|]. split; [cbn; lia|]. split; [assumption|].
    cbn [number_from]. constructor; [eexists; eassumption | assumption].
  - injection H as <-. exists [], f, B. split; [reflexivity|]. split; [cbn; lia|]. split; [eexists; eassumption | constructor].
Qed.

(* the three joiners *)
Theorem get_rhs_inner m k : get_rhs JInner m k = Ok (map binfo_of (get_join_records (m_buckets m) k)).
Proof. reflexivity. Qed.

Theorem get_rhs_left m k :
  get_rhs JLeft m k = Ok (match get_join_records (m_buckets m) k with
                          | [] => [BRec None (m_maxlen m) (repeat ANone (m_maxlen m))]
                          | ms => map binfo_of ms
                          end).
Proof. unfold get_rhs. destruct (get_join_records (m_buckets m) k); reflexivity. Qed.

Theorem get_rhs_strict m k :
  (length (get_join_records (m_buckets m) k) = 1 ->
     get_rhs JStrict m k = Ok (map binfo_of (get_join_records (m_buckets m) k)))
  /\ (length (get_join_records (m_buckets m) k) <> 1 -> get_rhs JStrict m k = Err (XRuntime 3)).
Proof.
  unfold get_rhs. destruct (get_join_records (m_buckets m) k) as [|x [|y l]]; cbn; split; intros H; try reflexivity; try lia; congruence.
Qed.

(* LEFT JOIN over the map the engine works with (build, then the header adjustment): the matches, or one all-None
   record as wide as the widest of: the B records, the join header *)
Theorem get_rhs_left_widened ks B m jh k :
  build ks B = inl m ->
  get_rhs JLeft (widen jh m) k =
    Ok (match get_join_records (m_buckets m) k with
        | [] => let n := Nat.max (widest B) (match jh with Some n => n | None => 0 end) in [BRec None n (repeat ANone n)]
        | ms => map binfo_of ms
        end).
Proof.
  intros H. rewrite get_rhs_left, widen_buckets, (widen_build_maxlen ks B m jh H). reflexivity.
Qed.

(* the widening changes nothing for INNER and STRICT LEFT *)
Theorem get_rhs_widen_other jk jh m k : jk <> JLeft -> get_rhs jk (widen jh m) k = get_rhs jk m k.
Proof. intros H. destruct jk; [| congruence |]; unfold get_rhs; rewrite widen_buckets; reflexivity. Qed.

(* ... and for LEFT JOIN whenever the key has a partner, or no header is wider than every B record *)
Theorem get_rhs_widen_matched jh m k :
  get_join_records (m_buckets m) k <> [] -> get_rhs JLeft (widen jh m) k = get_rhs JLeft m k.
Proof.
  intros H. rewrite !get_rhs_left, widen_buckets. destruct (get_join_records (m_buckets m) k); [congruence | reflexivity].
Qed.

Theorem widen_only_null_record jh m k :
  m_buckets (widen jh m) = m_buckets m
  /\ (forall jk, jk <> JLeft -> get_rhs jk (widen jh m) k = get_rhs jk m k)
  /\ (get_join_records (m_buckets m) k <> [] -> get_rhs JLeft (widen jh m) k = get_rhs JLeft m k)
  /\ widen None m = m.
Proof.
  split; [apply widen_buckets|]. split; [intros jk H; apply get_rhs_widen_other; exact H|].
  split; [apply get_rhs_widen_matched | reflexivity].
Qed.

(* every bucket entry of a built map is a B record with its own field count *)
Lemma matches_from_in ks : forall B nr k e, In e (matches_from ks nr B k) -> exists f, In f B /\ snd e = f.
Proof.
  induction B as [|f B IH]; intros nr k e H; [destruct H|].
  unfold matches_from in H. cbn [number_from flat_map] in H. apply in_app_or in H. destruct H as [H|H].
  - destruct (rhs_key ks (S nr) f) as [k'|x]; [|destruct H]. destruct (key_eqb k k'); [|destruct H].
    destruct H as [<-|[]]. exists f. split; [left; reflexivity | reflexivity].
  - destruct (IH (S nr) k e H) as [g [Hg He]]. exists g. split; [right; assumption | assumption].
Qed.

Lemma build_bucket_in ks B m k e :
  build ks B = inl m -> In e (get_join_records (m_buckets m) k) -> exists f, In f B /\ snd e = f.
Proof. intros H Hin. rewrite (build_matches ks B m k H) in Hin. exact (matches_from_in ks B 0 k e Hin). Qed.

(* LEFT JOIN against a RECTANGULAR join table whose records are as wide as its header (this includes the join table
   with a header and NO records): every b-side an A record is paired with - a matching B record or the all-None
   record - has exactly one field per name of the join header; and there is at least one b-side *)
Theorem left_join_rect_width ks B m w k bs :
  build ks B = inl m -> Forall (fun f => length f = w) B ->
  get_rhs JLeft (widen (Some w) m) k = Ok bs ->
  bs <> [] /\ Forall (fun b => match b with BRec _ nf r => nf = w /\ length r = w | _ => False end) bs.
Proof.
  intros H HB Hg. rewrite (get_rhs_left_widened ks B m (Some w) k H) in Hg. injection Hg as <-.
  destruct (get_join_records (m_buckets m) k) as [|e ms] eqn:E.
  - cbn zeta. pose proof (widest_rect B w HB) as Hw. replace (Nat.max (widest B) w) with w by lia.
    split; [discriminate|]. constructor; [|constructor]. split; [reflexivity | apply repeat_length].
  - split; [discriminate|]. rewrite Forall_forall. intros b Hb. change (In b (map binfo_of (e :: ms))) in Hb. apply in_map_iff in Hb. destruct Hb as [e' [<- Hin]].
    rewrite <- E in Hin. pose proof Hin as Hin2. rewrite (build_matches ks B m k H) in Hin2.
    destruct (build_bucket_in ks B m k e' H Hin) as [f [Hf He]].
    rewrite Forall_forall in HB. specialize (HB f Hf).
    (* the entry is (nr, length f, f) *)
    assert (Hshape : exists nr, e' = (nr, length f, f)).
    { clear -Hin2 He. unfold matches_spec in Hin2. apply in_flat_map in Hin2. destruct Hin2 as [[n g] [_ Hx]].
      destruct (rhs_key ks n g) as [k'|x]; [|destruct Hx]. destruct (key_eqb k k'); [|destruct Hx].
      destruct Hx as [<-|[]]. cbn in He. subst g. exists n. reflexivity. }
    destruct Hshape as [nr ->]. cbn. split; assumption.
Qed.
