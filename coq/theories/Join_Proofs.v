(* Join_Proofs.v — HashJoinMap.build / get_join_records = the key-equal B records in B order (C04) *)
From RBQL Require Import Base Value Value_Proofs Expr Join.

Lemma key_eqb_refl k : key_eqb k k = true.
Proof. apply atoms_eqb_refl. Qed.
Lemma key_eqb_sym a b : key_eqb a b = key_eqb b a.
Proof. apply atoms_eqb_sym. Qed.
Lemma key_eqb_trans a b c : key_eqb a b = true -> key_eqb b c = true -> key_eqb a c = true.
Proof. apply atoms_eqb_trans. Qed.

Lemma key_eqb_congr a b c : key_eqb a b = true -> key_eqb a c = key_eqb b c.
Proof.
  intros H. destruct (key_eqb b c) eqn:E.
  - eapply key_eqb_trans; eassumption.
  - destruct (key_eqb a c) eqn:E2; [|reflexivity].
    rewrite key_eqb_sym in H. rewrite (key_eqb_trans _ _ _ H E2) in E. discriminate.
Qed.

Lemma bucket_add_get kn e : forall l k,
  get_join_records (bucket_add kn e l) k = get_join_records l k ++ (if key_eqb k kn then [e] else []).
Proof.
  induction l as [|[k' es] l IH]; intros k.
  - cbn. destruct (key_eqb k kn); reflexivity.
  - cbn [bucket_add]. destruct (key_eqb kn k') eqn:E.
    + cbn [get_join_records]. destruct (key_eqb k k') eqn:E2.
      * assert (H : key_eqb k kn = true).
        { rewrite key_eqb_sym in E. eapply key_eqb_trans; eassumption. }
        rewrite H. reflexivity.
      * assert (H : key_eqb k kn = false).
        { destruct (key_eqb k kn) eqn:E3; [|reflexivity]. rewrite (key_eqb_trans _ _ _ E3 E) in E2. discriminate. }
        rewrite H, app_nil_r. reflexivity.
    + cbn [get_join_records]. destruct (key_eqb k k') eqn:E2.
      * assert (H : key_eqb k kn = false).
        { destruct (key_eqb k kn) eqn:E3; [|reflexivity]. rewrite key_eqb_sym in E3.
          rewrite (key_eqb_trans _ _ _ E3 E2) in E. discriminate. }
        rewrite H, app_nil_r. reflexivity.
      * apply IH.
Qed.

(* the B records (numbered from nr+1) whose key equals k *)
Definition matches_from (ks : list rkey) (nr : nat) (B : list rec) (k : key) : list bentry :=
  flat_map (fun '(n, f) => match rhs_key ks n f with
                           | Ok k' => if key_eqb k k' then [(n, length f, f)] else []
                           | Err _ => []
                           end) (number_from nr B).

Lemma build_from_spec ks : forall B nr m m',
  build_from ks B nr m = inl m' ->
  (forall k, get_join_records (m_buckets m') k = get_join_records (m_buckets m) k ++ matches_from ks nr B k)
  /\ m_maxlen m' = fold_left (fun acc f => Nat.max acc (length f)) B (m_maxlen m).
Proof.
  induction B as [|f B IH]; intros nr m m' H.
  - cbn in H. injection H as <-. split; [intros k; cbn; rewrite app_nil_r; reflexivity | reflexivity].
  - cbn [build_from] in H. destruct (rhs_key ks (S nr) f) as [kf|e] eqn:Ek; [|discriminate].
    apply IH in H. destruct H as [H1 H2]. split.
    + intros k. rewrite H1. cbn [m_buckets]. rewrite bucket_add_get. unfold matches_from. cbn [number_from flat_map].
      rewrite Ek. rewrite <- app_assoc. reflexivity.
    + rewrite H2. reflexivity.
Qed.

Theorem build_matches ks B m k :
  build ks B = inl m -> get_join_records (m_buckets m) k = matches_spec ks B k.
Proof.
  intros H. unfold build in H. apply build_from_spec in H. destruct H as [H _]. rewrite H. reflexivity.
Qed.

Theorem build_maxlen ks B m :
  build ks B = inl m -> m_maxlen m = fold_left (fun acc f => Nat.max acc (length f)) B 0.
Proof. intros H. unfold build in H. apply build_from_spec in H. destruct H as [_ H]. exact H. Qed.

(* build fails exactly at the first B record lacking a key field, and names it *)
Lemma build_from_error ks : forall B nr m bnr,
  build_from ks B nr m = inr bnr ->
  exists pre f post, B = pre ++ f :: post /\ bnr = nr + S (length pre)
                     /\ (exists e, rhs_key ks bnr f = Err e)
                     /\ Forall (fun '(n, g) => exists k, rhs_key ks n g = Ok k) (number_from nr pre).
Proof.
  induction B as [|f B IH]; intros nr m bnr H; [discriminate|].
  cbn [build_from] in H. destruct (rhs_key ks (S nr) f) as [kf|e] eqn:Ek.
  - apply IH in H. destruct H as [pre [g [post [-> [-> [He Hp]]]]]].
    exists (f :: pre), g, post. split; [reflexivity|]. split; [cbn; lia|]. split; [assumption|].
    cbn [number_from]. constructor; [eexists; eassumption | assumption].
  - injection H as <-. exists [], f, B. split; [reflexivity|]. split; [cbn; lia|]. split; [eexists; eassumption | constructor].
Qed.

(* the three joiners *)
Theorem get_rhs_inner m k : get_rhs JInner m k = Ok (map binfo_of (get_join_records (m_buckets m) k)).
Proof. reflexivity. Qed.

Theorem get_rhs_left m k :
  get_rhs JLeft m k = Ok (match get_join_records (m_buckets m) k with
                          | [] => [BRec None (m_maxlen m) (repeat ANone (m_maxlen m))]
                          | ms => map binfo_of ms
                          end).
Proof. unfold get_rhs. destruct (get_join_records (m_buckets m) k); reflexivity. Qed.

Theorem get_rhs_strict m k :
  (length (get_join_records (m_buckets m) k) = 1 ->
     get_rhs JStrict m k = Ok (map binfo_of (get_join_records (m_buckets m) k)))
  /\ (length (get_join_records (m_buckets m) k) <> 1 -> get_rhs JStrict m k = Err (XRuntime 3)).
Proof.
  unfold get_rhs. destruct (get_join_records (m_buckets m) k) as [|x [|y l]]; cbn; split; intros H; try reflexivity; try lia; congruence.
Qed.
