(* EntryTable.v — entry points that combine the reader specification with the real line splitter (codes 250-259).
   250 records_of_text with smart_split     L [cfg; pol; dlm; text]  -> result (as EntryReader.sx_of_result)
   251 write_table then records_of_text     L [lang; pol; dlm; sep; cfg; opt header; rows] -> L [written text; result]
       (sep: the line separator string; the text is every written line followed by sep; None when a write failed) *)
From RBQL Require Import Base Sx Lines Csv CsvWriter Reader EntryCsv EntryReader.

Definition ep_read_text (x : sx) : sx :=
  match x with
  | L [c; p; d; t] =>
      match cfg_of_sx c, pol_of_sx p, str_of_sx d, str_of_sx t with
      | Some c', Some pol, Some dlm, Some text => sx_of_result (records_of_text (smart_split pol dlm false) c' text)
      | _, _, _, _ => ERR
      end
  | _ => ERR
  end.

Definition ep_write_read (x : sx) : sx :=
  match x with
  | L [fl; p; d; s; c; h; rows] =>
      match lang_of_sx fl, pol_of_sx p, str_of_sx d, str_of_sx s, cfg_of_sx c,
            option_of_sx (list_of_sx cell_of_sx) h, list_of_sx (list_of_sx cell_of_sx) rows with
      | Some fl', Some pol, Some dlm, Some sep, Some c', Some header, Some rs =>
          let '(lines, e, _, _) := write_table fl' pol dlm header rs in
          match e with
          | Some _ => L []
          | None =>
              let text := concat (map (fun l => l ++ sep) lines) in
              L [sx_of_str text; sx_of_result (records_of_text (smart_split pol dlm false) c' text)]
          end
      | _, _, _, _, _, _, _ => ERR
      end
  | _ => ERR
  end.

Definition dispatch_table (code : N) (x : sx) : option sx :=
  match code with
  | 250%N => Some (ep_read_text x)
  | 251%N => Some (ep_write_read x)
  | _ => None
  end.
