From RBQL Require Import Base Frontends Isolation.

(* ---- CLI ---- *)
Lemma starts_with_app : forall p s, starts_with p (p ++ s) = true.
Proof. induction p as [|c p IHp]; intros s; cbn [starts_with app]; [reflexivity|]. rewrite N.eqb_refl. apply IHp. Qed.

Theorem cli_success table warns :
  let o := cli_outcome (QOk table warns) in
  exit_code o = 0 /\ stdout_lines o = table /\ Forall (fun l => starts_with WARN_PFX l = true) (stderr_lines o).
Proof.
  unfold cli_outcome. cbn [exit_code stdout_lines stderr_lines]. repeat split.
  induction warns as [|w ws IH]; cbn [map]; constructor; [apply starts_with_app | exact IH].
Qed.

Theorem cli_failure c msg emitted :
  let o := cli_outcome (QFail c msg emitted) in
  exit_code o <> 0 /\ stdout_lines o = emitted /\ exists l, stderr_lines o = [l] /\ starts_with ERROR_PFX l = true.
Proof.
  unfold cli_outcome. cbn [exit_code stdout_lines stderr_lines]. split; [discriminate|]. split; [reflexivity|].
  eexists. split; [reflexivity|]. apply starts_with_app.
Qed.

(* ---- resources: on every path every stream that was opened is closed, exactly once, and nothing else is closed ---- *)
Theorem query_csv_resources has_join p r :
  count_res r (opened_of (query_csv_events has_join p)) = count_res r (closed_of (query_csv_events has_join p))
  /\ count_res r (opened_of (query_csv_events has_join p)) <= 1.
Proof. destruct has_join, p, r; cbn; split; try reflexivity; lia. Qed.

(* ---- isolation ---- *)
Section Iso.
Variables G S1 S2 : Type.
Variable step1 : G -> S1 -> S1.
Variable step2 : G -> S2 -> S2.

Lemma iter_succ {T} n (f : T -> T) x : iter (S n) f x = iter n f (f x).
Proof. reflexivity. Qed.

(* every interleaving of the two machines leaves each of them in the state of its solo run *)
Theorem interleaving_is_solo : forall sched g s,
  run_interleaved G S1 S2 step1 step2 sched g s =
  (iter (count_true sched) (step1 g) (fst s), iter (count_false sched) (step2 g) (snd s)).
Proof.
  induction sched as [|b sched IH]; intros g [s1 s2]; [reflexivity|].
  destruct b; cbn [run_interleaved]; rewrite IH; cbn [fst snd]; unfold count_true, count_false; cbn; reflexivity.
Qed.
End Iso.

(* a history of queries: each result is the result of running that query alone with the same global *)
Theorem history_is_solo {G Q R} (run_query : G -> Q -> R) g qs :
  run_seq G Q R run_query g qs = map (run_query g) qs.
Proof. induction qs as [|q qs IH]; cbn; [reflexivity | rewrite IH; reflexivity]. Qed.
