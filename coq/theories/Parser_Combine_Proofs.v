(* Parser_Combine_Proofs.v — combine_string_literals puts every literal back verbatim (C08_combine_verbatim).
   The proof is a combinatorics-on-words argument about the sequential str.replace of the code:
   every occurrence of the core marker RBQL_STRING_LITERAL in a partially substituted text sits inside a
   placeholder (the marker is unbordered, contains no quote character and no two consecutive underscores), and
   the decimal numerals of two placeholders cannot be prefixes of one another before the closing underscores. *)
From RBQL Require Import Base Parser Parser_Proofs.
From Coq Require Import NArithRing.
Local Open Scope N_scope.

(* ------------------------------------------------------------------ starts_with / skipn algebra *)
Lemma sw_length : forall p s, starts_with p s = true -> (length p <= length s)%nat.
Proof.
  induction p as [|c p IH]; intros s H; [cbn; lia|]. destruct s as [|d s]; [discriminate|].
  cbn [starts_with] in H. apply andb_true_iff in H. destruct H as [_ H]. apply IH in H. cbn [length]. lia.
Qed.

Lemma sw_long : forall p u t, (length p <= length u)%nat -> starts_with p (u ++ t) = starts_with p u.
Proof.
  induction p as [|c p IH]; intros u t H; [reflexivity|]. destruct u as [|d u]; [cbn in H; lia|].
  cbn [app starts_with]. rewrite IH by (cbn [length] in H; lia). reflexivity.
Qed.

Lemma sw_app_split : forall p u t, starts_with p (u ++ t) = true -> (length u < length p)%nat ->
  u = firstn (length u) p /\ starts_with (skipn (length u) p) t = true.
Proof.
  induction p as [|c p IH]; intros u t H Hl; [cbn in Hl; lia|]. destruct u as [|d u].
  - cbn [length firstn skipn app] in *. split; [reflexivity | exact H].
  - cbn [app starts_with] in H. apply andb_true_iff in H. destruct H as [H1 H2]. apply N.eqb_eq in H1. subst d.
    cbn [length] in Hl. destruct (IH u t H2) as [E1 E2]; [lia|]. cbn [length firstn skipn]. split; [f_equal; exact E1 | exact E2].
Qed.

Lemma sw_prefix_self : forall p n, starts_with (firstn n p) p = true.
Proof.
  induction p as [|c p IH]; intro n; [destruct n; reflexivity|]. destruct n; [reflexivity|].
  cbn [firstn starts_with]. rewrite N.eqb_refl. apply IH.
Qed.

Lemma skipn_app_lt : forall (x y : str) i, (i <= length x)%nat -> skipn i (x ++ y) = skipn i x ++ y.
Proof.
  intros x y i H. rewrite skipn_app. replace (i - length x)%nat with 0%nat by lia. reflexivity.
Qed.

Lemma skipn_app_ge : forall (x y : str) i, (length x <= i)%nat -> skipn i (x ++ y) = skipn (i - length x) y.
Proof.
  intros x y i H. rewrite skipn_app. rewrite skipn_all2 by exact H. reflexivity.
Qed.

Lemma skipn_nonempty : forall (x : str) i, (i < length x)%nat -> exists c r, skipn i x = c :: r /\ In c x.
Proof.
  induction x as [|d x IH]; intros i H; [cbn in H; lia|]. destruct i as [|i].
  - exists d, x. split; [reflexivity | left; reflexivity].
  - cbn [length] in H. destruct (IH i) as [c [r [E Hi]]]; [lia|]. exists c, r. split; [exact E | right; exact Hi].
Qed.

Lemma firstn_In : forall (l : str) n x, In x (firstn n l) -> In x l.
Proof. intros l n x H. rewrite <- (firstn_skipn n l). apply in_or_app. left. exact H. Qed.

Definition no_occ (p s : str) : Prop := forall i, starts_with p (skipn i s) = false.

(* ------------------------------------------------------------------ find / split / replace *)
Lemma find_bound : forall p s i, find p s = Some i -> (i + length p <= length s)%nat.
Proof.
  intros p s. induction s as [|c s IH]; intros i H.
  - cbn [find] in H. destruct (starts_with p []) eqn:E; [|discriminate]. injection H as <-. apply sw_length in E. lia.
  - cbn [find] in H. destruct (starts_with p (c :: s)) eqn:E.
    + injection H as <-. apply sw_length in E. lia.
    + destruct (find p s) as [j|] eqn:F; [|discriminate]. injection H as <-. specialize (IH j eq_refl). cbn [length]. lia.
Qed.

Lemma split_fuel_nonempty : forall f d s, split_fuel f d s <> [].
Proof. intros [|f] d s; cbn [split_fuel]; [discriminate|]. destruct (find d s); discriminate. Qed.

Lemma split_fuel_enough : forall d, d <> [] -> forall f s f', (length s < f)%nat -> (length s < f')%nat ->
  split_fuel f d s = split_fuel f' d s.
Proof.
  intros d Hd. induction f as [|f IH]; intros s f' H H'; [lia|]. destruct f' as [|f']; [lia|].
  cbn [split_fuel]. destruct (find d s) as [i|] eqn:E; [|reflexivity]. f_equal.
  pose proof (find_bound d s i E) as B. assert (Hl : (1 <= length d)%nat) by (destruct d; [contradiction | cbn; lia]).
  apply IH; rewrite skipn_length; lia.
Qed.

Lemma find_skip_prefix : forall a x y,
  (forall i, (i < length x)%nat -> starts_with a (skipn i (x ++ y)) = false) ->
  find a (x ++ y) = option_map (Nat.add (length x)) (find a y).
Proof.
  intros a x y. induction x as [|c x IH]; intro H.
  - cbn [app length]. destruct (find a y); reflexivity.
  - cbn [app find]. pose proof (H 0%nat ltac:(cbn; lia)) as H0. cbn [skipn app] in H0. rewrite H0.
    rewrite IH by (intros i Hi; apply (H (S i)); cbn [length]; lia). destruct (find a y); reflexivity.
Qed.

Lemma skipn_len_app : forall (x y : str) n, skipn (length x + n) (x ++ y) = skipn n y.
Proof. induction x as [|c x IH]; intros y n; [reflexivity|]. cbn [length app Nat.add skipn]. apply IH. Qed.

Lemma join_head_app : forall b x h T, join b ((x ++ h) :: T) = x ++ join b (h :: T).
Proof. intros b x h [|t T]; cbn [join]; [reflexivity|]. rewrite <- app_assoc. reflexivity. Qed.

Lemma replace_skip_prefix : forall a b x y, a <> [] ->
  (forall i, (i < length x)%nat -> starts_with a (skipn i (x ++ y)) = false) ->
  replace a b (x ++ y) = x ++ replace a b y.
Proof.
  intros a b x y Ha H. unfold replace, split. cbn [split_fuel]. rewrite (find_skip_prefix a x y H).
  destruct (find a y) as [i|] eqn:F; cbn [option_map].
  - rewrite firstn_app_2. replace (length x + i + length a)%nat with (length x + (i + length a))%nat by lia.
    rewrite skipn_len_app. rewrite join_head_app. f_equal. f_equal. f_equal.
    pose proof (find_bound a y i F) as B. assert (Hl : (1 <= length a)%nat) by (destruct a; [contradiction | cbn; lia]).
    apply split_fuel_enough; [exact Ha | |]; rewrite skipn_length; rewrite ?app_length; lia.
  - cbn [join]. reflexivity.
Qed.

Lemma replace_hit : forall a b y, a <> [] -> replace a b (a ++ y) = b ++ replace a b y.
Proof.
  intros a b y Ha. unfold replace, split.
  assert (F : find a (a ++ y) = Some 0%nat).
  { pose proof (starts_with_refl_app a y) as S. destruct a as [|c a]; [contradiction|]. cbn [app find] in *. rewrite S. reflexivity. }
  remember (split_fuel (S (length y)) a y) as R eqn:ER.
  cbn [split_fuel]. rewrite F. cbn [firstn Nat.add].
  assert (Sk : skipn (length a) (a ++ y) = y) by (pose proof (skipn_len_app a y 0) as Z; rewrite Nat.add_0_r in Z; exact Z).
  rewrite Sk.
  assert (Hl : (1 <= length a)%nat) by (destruct a; [contradiction | cbn; lia]).
  rewrite (split_fuel_enough a Ha (length (a ++ y)) y (S (length y))) by (rewrite ?app_length; lia).
  rewrite <- ER. destruct R as [|t T]; [exfalso; symmetry in ER; exact (split_fuel_nonempty _ _ _ ER)|].
  cbn [join app]. reflexivity.
Qed.

Lemma no_occ_find : forall a s, no_occ a s -> find a s = None.
Proof.
  intros a s. induction s as [|c s IH]; intro H.
  - cbn [find]. pose proof (H 0%nat) as H0. cbn [skipn] in H0. rewrite H0. reflexivity.
  - cbn [find]. pose proof (H 0%nat) as H0. cbn [skipn] in H0. rewrite H0.
    rewrite IH; [reflexivity|]. intro i. exact (H (S i)).
Qed.

Lemma replace_none : forall a b s, no_occ a s -> replace a b s = s.
Proof. intros a b s H. unfold replace, split. cbn [split_fuel]. rewrite (no_occ_find a s H). reflexivity. Qed.

(* ------------------------------------------------------------------ decimal numerals *)
Lemma nod_acc : forall s a, N_of_digits_acc a s = a * 10 ^ N.of_nat (length s) + N_of_digits_acc 0 s.
Proof.
  induction s as [|c s IH]; intro a.
  - cbn [N_of_digits_acc length]. change (N.of_nat 0) with 0. rewrite N.pow_0_r. lia.
  - cbn [N_of_digits_acc length]. rewrite (IH (a * 10 + (c - 48))), (IH (0 * 10 + (c - 48))).
    rewrite Nat2N.inj_succ, N.pow_succ_r'. generalize (c - 48), (10 ^ N.of_nat (length s)), (N_of_digits_acc 0 s). intros d P V. nia.
Qed.

Lemma dec_val : forall f n acc, n < 2 ^ N.of_nat f ->
  N_of_digits (dec_fuel f n acc) = n * 10 ^ N.of_nat (length acc) + N_of_digits acc.
Proof.
  induction f as [|f IH]; intros n acc H.
  - change (N.of_nat 0) with 0 in H. rewrite N.pow_0_r in H. assert (n = 0) by lia. subst n. cbn [dec_fuel]. lia.
  - cbn [dec_fuel]. destruct (N.ltb_spec n 10) as [L|L].
    + rewrite (N.mod_small n 10 L). unfold N_of_digits. cbn [N_of_digits_acc]. rewrite N.add_sub. change (0 * 10) with 0. rewrite N.add_0_l.
      rewrite nod_acc. reflexivity.
    + rewrite Nat2N.inj_succ, N.pow_succ_r' in H.
      assert (Hq : n / 10 < 2 ^ N.of_nat f) by (apply N.div_lt_upper_bound; lia).
      rewrite (IH (n / 10) _ Hq). cbn [length]. rewrite Nat2N.inj_succ, N.pow_succ_r'.
      unfold N_of_digits at 1. cbn [N_of_digits_acc]. rewrite N.add_sub. change (0 * 10) with 0. rewrite N.add_0_l. rewrite nod_acc. fold (N_of_digits acc).
      pose proof (N.div_mod n 10 ltac:(lia)) as D. generalize dependent (n / 10). generalize dependent (n mod 10). intros r q _ D. subst n.
      generalize (10 ^ N.of_nat (length acc)), (N_of_digits acc). intros P V. nia.
Qed.

Lemma pos_size_bound : forall p, N.pos p < 2 ^ N.of_nat (Pos.size_nat p).
Proof.
  induction p as [p IH|p IH|]; cbn [Pos.size_nat].
  - rewrite Nat2N.inj_succ, N.pow_succ_r'. lia.
  - rewrite Nat2N.inj_succ, N.pow_succ_r'. lia.
  - reflexivity.
Qed.

Lemma dec_of_N_val : forall n, N_of_digits (dec_of_N n) = n.
Proof.
  intro n. unfold dec_of_N. rewrite dec_val.
  - cbn [length]. change (N.of_nat 0) with 0. rewrite N.pow_0_r. unfold N_of_digits. cbn [N_of_digits_acc]. lia.
  - rewrite Nat2N.inj_succ, N.pow_succ_r'. destruct n as [|p]; [cbn; lia|]. cbn [N.size_nat].
    pose proof (pos_size_bound p). lia.
Qed.

Lemma dec_of_nat_inj : forall j k, dec_of_nat j = dec_of_nat k -> j = k.
Proof.
  intros j k E. unfold dec_of_nat in E. apply (f_equal N_of_digits) in E. rewrite !dec_of_N_val in E. lia.
Qed.

Lemma dec_fuel_digits : forall f n acc, Forall (fun c => 48 <= c <= 57) acc -> Forall (fun c => 48 <= c <= 57) (dec_fuel f n acc).
Proof.
  induction f as [|f IH]; intros n acc H; [exact H|]. cbn [dec_fuel].
  assert (H' : Forall (fun c => 48 <= c <= 57) ((n mod 10 + 48) :: acc)).
  { constructor; [|exact H]. pose proof (N.mod_lt n 10 ltac:(lia)) as M. revert M. generalize (n mod 10). intros r M. lia. }
  destruct (N.ltb n 10); [exact H' | apply IH; exact H'].
Qed.

Lemma dec_digits : forall k, Forall (fun c => 48 <= c <= 57) (dec_of_nat k).
Proof. intro k. unfold dec_of_nat, dec_of_N. apply dec_fuel_digits. constructor. Qed.

(* two numerals followed by an underscore: one is a prefix of the other's text only when they are equal *)
Lemma numeral_prefix : forall u v s1 s2, Forall (fun c => c <> 95) u -> Forall (fun c => c <> 95) v ->
  starts_with (u ++ 95 :: s1) (v ++ 95 :: s2) = true -> u = v.
Proof.
  induction u as [|c u IH]; intros v s1 s2 Hu Hv H.
  - destruct v as [|d v]; [reflexivity|]. cbn [app starts_with] in H. inversion Hv as [|? ? Hd _]; subst.
    apply andb_true_iff in H. destruct H as [H _]. apply N.eqb_eq in H. exfalso. apply Hd. symmetry. exact H.
  - inversion Hu as [|? ? Hc Hu']; subst. destruct v as [|d v].
    + cbn [app starts_with] in H. apply andb_true_iff in H. destruct H as [H _]. apply N.eqb_eq in H. contradiction.
    + inversion Hv as [|? ? Hd Hv']; subst. cbn [app starts_with] in H. apply andb_true_iff in H. destruct H as [H1 H2].
      apply N.eqb_eq in H1. subst d. f_equal. exact (IH v s1 s2 Hu' Hv' H2).
Qed.

(* ------------------------------------------------------------------ the marker *)
Definition US3 : str := [95; 95; 95].
Definition PH_CORE : str := Eval vm_compute in skipn 3 PH_PREFIX.     (* RBQL_STRING_LITERAL *)
Lemma placeholder_shape : forall k, placeholder k = US3 ++ PH_CORE ++ dec_of_nat k ++ US3.
Proof. reflexivity. Qed.

Lemma core_length : length PH_CORE = 19%nat. Proof. reflexivity. Qed.
Lemma core_no_quote : Forall (fun c => c <> QT /\ c <> APOS) PH_CORE.
Proof. unfold PH_CORE. repeat constructor; discriminate. Qed.
Lemma core_head : exists r, PH_CORE = 82 :: r. Proof. eexists. reflexivity. Qed.
(* no proper suffix of the marker is a prefix of it (unbordered) *)
Lemma core_unbordered : forall m, (1 <= m < 19)%nat -> starts_with (skipn m PH_CORE) PH_CORE = false.
Proof.
  assert (E : forallb (fun m => negb (starts_with (skipn m PH_CORE) PH_CORE)) (seq 1 18) = true) by (vm_compute; reflexivity).
  intros m Hm. rewrite forallb_forall in E. specialize (E m). rewrite in_seq in E. apply negb_true_iff. apply E. lia.
Qed.
(* after any proper non-empty prefix the marker does not continue with two underscores (nor end on one) *)
Lemma core_no_us2 : forall m, (1 <= m < 19)%nat -> starts_with (firstn 2 (skipn m PH_CORE)) [95; 95] = false.
Proof.
  assert (E : forallb (fun m => negb (starts_with (firstn 2 (skipn m PH_CORE)) [95; 95])) (seq 1 18) = true) by (vm_compute; reflexivity).
  intros m Hm. rewrite forallb_forall in E. specialize (E m). rewrite in_seq in E. apply negb_true_iff. apply E. lia.
Qed.

Lemma sw_us2 : forall w t, w <> [] -> starts_with w (95 :: 95 :: t) = true -> starts_with (firstn 2 w) [95; 95] = true.
Proof.
  intros w t Hw H. destruct w as [|a [|b w]]; [contradiction| |].
  - cbn [starts_with firstn] in *. rewrite andb_true_r in H. rewrite H. reflexivity.
  - cbn [starts_with firstn] in *. apply andb_true_iff in H. destruct H as [H1 H2]. apply andb_true_iff in H2. destruct H2 as [H2 _].
    rewrite H1, H2. reflexivity.
Qed.

(* ------------------------------------------------------------------ pieces of a partially substituted text *)
Inductive piece := PCode (c : str) | PLit (t : str) | PPh (j : nat).
Definition piece_text (p : piece) : str := match p with PCode c => c | PLit t => t | PPh j => placeholder j end.
Definition ptext (ps : list piece) : str := concat (map piece_text ps).
Definition quoted (t : str) : Prop := exists q m, (q = QT \/ q = APOS) /\ t = q :: m ++ [q].
Definition is_code (p : piece) : bool := match p with PCode _ => true | _ => false end.

Inductive okp : list piece -> Prop :=
| okp_nil : okp []
| okp_code : forall c r, no_occ PH_CORE c -> (match r with p :: _ => is_code p = false | [] => True end) -> okp r -> okp (PCode c :: r)
| okp_lit : forall t r, quoted t -> no_occ PH_CORE t -> okp r -> okp (PLit t :: r)
| okp_ph : forall j r, okp r -> okp (PPh j :: r).

Lemma ptext_cons : forall p r, ptext (p :: r) = piece_text p ++ ptext r. Proof. reflexivity. Qed.
Lemma ptext_app : forall a b, ptext (a ++ b) = ptext a ++ ptext b.
Proof. intros a b. unfold ptext. rewrite map_app, concat_app. reflexivity. Qed.

(* what a text that follows a code piece starts with *)
Definition after_code (T : str) : Prop :=
  T = [] \/ (exists q r, (q = QT \/ q = APOS) /\ T = q :: r) \/ (exists r, T = 95 :: 95 :: r).

Lemma after_code_ok : forall r, okp r -> (match r with p :: _ => is_code p = false | [] => True end) -> after_code (ptext r).
Proof.
  intros r H Hn. destruct H as [|c r Hc Ha Hr | t r [q [m [Hq ->]]] Ht Hr | j r Hr].
  - left. reflexivity.
  - discriminate Hn.
  - right. left. exists q, ((m ++ [q]) ++ ptext r). split; [exact Hq | reflexivity].
  - right. right. rewrite ptext_cons. cbn [piece_text]. rewrite placeholder_shape. eexists. reflexivity.
Qed.

Lemma occ_in_code : forall c T p, no_occ PH_CORE c -> after_code T -> (p < length c)%nat ->
  starts_with PH_CORE (skipn p (c ++ T)) = false.
Proof.
  intros c T p Hc HT Hp. destruct (starts_with PH_CORE (skipn p (c ++ T))) eqn:E; [exfalso|reflexivity].
  rewrite skipn_app_lt in E by lia. set (u := skipn p c) in *.
  assert (Hu : (1 <= length u)%nat) by (unfold u; rewrite skipn_length; lia).
  destruct (Nat.le_gt_cases (length PH_CORE) (length u)) as [L|L].
  - rewrite sw_long in E by exact L. unfold u in E. rewrite (Hc p) in E. discriminate.
  - destruct (sw_app_split PH_CORE u T E L) as [_ E2]. rewrite core_length in L.
    set (m := length u) in *. destruct HT as [->|[[q [r [Hq ->]]]|[r ->]]].
    + assert (Hne : (1 <= length (skipn m PH_CORE))%nat) by (rewrite skipn_length, core_length; lia).
      destruct (skipn m PH_CORE); [cbn in Hne; lia | discriminate E2].
    + destruct (skipn_nonempty PH_CORE m ltac:(rewrite core_length; lia)) as [x [w [Ew Hin]]]. rewrite Ew in E2.
      cbn [starts_with] in E2. apply andb_true_iff in E2. destruct E2 as [E2 _]. apply N.eqb_eq in E2. subst x.
      pose proof core_no_quote as Q. rewrite Forall_forall in Q. destruct (Q q Hin) as [Q1 Q2]. destruct Hq; contradiction.
    + assert (Hne : skipn m PH_CORE <> []).
      { intro Z. apply (f_equal (@length ch)) in Z. rewrite skipn_length, core_length in Z. cbn [length] in Z. lia. }
      pose proof (sw_us2 _ _ Hne E2) as Z. rewrite core_no_us2 in Z by lia. discriminate.
Qed.

Lemma occ_in_lit : forall t T p, quoted t -> no_occ PH_CORE t -> (p < length t)%nat ->
  starts_with PH_CORE (skipn p (t ++ T)) = false.
Proof.
  intros t T p [q [m [Hq ->]]] Ht Hp. destruct (starts_with PH_CORE (skipn p ((q :: m ++ [q]) ++ T))) eqn:E; [exfalso|reflexivity].
  rewrite skipn_app_lt in E by lia. set (t := q :: m ++ [q]) in *. set (u := skipn p t) in *.
  destruct (Nat.le_gt_cases (length PH_CORE) (length u)) as [L|L].
  - rewrite sw_long in E by exact L. unfold u in E. rewrite (Ht p) in E. discriminate.
  - destruct (sw_app_split PH_CORE u T E L) as [E1 _].
    (* u ends with the closing quote, and u is a prefix of the marker *)
    assert (Hu : exists u', u = u' ++ [q]).
    { unfold u, t. unfold t in Hp. change (q :: m ++ [q]) with ((q :: m) ++ [q]) in *. rewrite app_length in Hp. cbn [length] in Hp.
      rewrite skipn_app_lt by (cbn [length]; lia). eexists. reflexivity. }
    destruct Hu as [u' Hu]. assert (Hin : In q PH_CORE).
    { assert (Hi : In q u) by (rewrite Hu; apply in_or_app; right; left; reflexivity).
      rewrite E1 in Hi. exact (firstn_In PH_CORE _ q Hi). }
    pose proof core_no_quote as Q. rewrite Forall_forall in Q. destruct (Q q Hin) as [Q1 Q2]. destruct Hq; contradiction.
Qed.


Lemma dec_us3_no_R : forall j, Forall (fun c => c <> 82) (dec_of_nat j ++ US3).
Proof.
  intro j. apply Forall_app. split.
  - eapply Forall_impl; [|apply dec_digits]. intros c Hc E. subst. lia.
  - unfold US3. repeat constructor; discriminate.
Qed.

Lemma sw_core_head : forall c r, c <> 82 -> starts_with PH_CORE (c :: r) = false.
Proof.
  intros c r H. destruct core_head as [t ->]. cbn [starts_with].
  rewrite (proj2 (N.eqb_neq 82 c)); [reflexivity|]. intro E. apply H. symmetry. exact E.
Qed.

Lemma occ_in_ph : forall j T p, (p < length (placeholder j))%nat ->
  starts_with PH_CORE (skipn p (placeholder j ++ T)) = true -> p = 3%nat.
Proof.
  intros j T p Hp H. rewrite placeholder_shape in *. rewrite <- !app_assoc in H.
  destruct p as [|[|[|p]]].
  - cbn [US3 app skipn] in H. rewrite sw_core_head in H by discriminate. discriminate.
  - cbn [US3 app skipn] in H. rewrite sw_core_head in H by discriminate. discriminate.
  - cbn [US3 app skipn] in H. rewrite sw_core_head in H by discriminate. discriminate.
  - change (S (S (S p))) with (length US3 + p)%nat in H. rewrite skipn_len_app in H. destruct p as [|p]; [reflexivity|]. exfalso.
    rewrite !app_length in Hp. rewrite core_length in Hp. cbn [US3 length] in Hp.
    destruct (Nat.lt_ge_cases (S p) 19) as [L|L].
    + rewrite skipn_app_lt in H by (rewrite core_length; lia).
      assert (Hl : (length (skipn (S p) PH_CORE) < length PH_CORE)%nat) by (rewrite skipn_length, core_length; lia).
      destruct (sw_app_split PH_CORE _ _ H Hl) as [E _].
      pose proof (sw_prefix_self PH_CORE (length (skipn (S p) PH_CORE))) as Z. rewrite <- E in Z.
      rewrite core_unbordered in Z by lia. discriminate.
    + rewrite skipn_app_ge in H by (rewrite core_length; lia). rewrite core_length in H.
      rewrite app_assoc in H. rewrite skipn_app_lt in H by (rewrite app_length; cbn [US3 length]; lia).
      destruct (skipn_nonempty (dec_of_nat j ++ US3) (S p - 19)) as [c [r [E Hin]]]; [rewrite app_length; cbn [US3 length]; lia|].
      rewrite E in H. cbn [app] in H. pose proof (dec_us3_no_R j) as F. rewrite Forall_forall in F.
      rewrite sw_core_head in H by (apply F; exact Hin). discriminate.
Qed.

Lemma occ_positions : forall ps, okp ps -> forall p, starts_with PH_CORE (skipn p (ptext ps)) = true ->
  exists A j B, ps = A ++ PPh j :: B /\ p = (length (ptext A) + 3)%nat.
Proof.
  intros ps H. induction H as [|c r Hc Ha Hr IH | t r Hq Ht Hr IH | j r Hr IH]; intros p Hp.
  - exfalso. unfold ptext in Hp. cbn [map concat] in Hp. rewrite skipn_nil in Hp. vm_compute in Hp. discriminate.
  - rewrite ptext_cons in Hp. cbn [piece_text] in Hp. destruct (Nat.lt_ge_cases p (length c)) as [L|L].
    + rewrite (occ_in_code c (ptext r) p Hc (after_code_ok r Hr Ha) L) in Hp. discriminate.
    + rewrite skipn_app_ge in Hp by exact L. destruct (IH _ Hp) as [A [j [B [-> E]]]].
      exists (PCode c :: A), j, B. split; [reflexivity|]. rewrite ptext_cons, app_length. cbn [piece_text]. lia.
  - rewrite ptext_cons in Hp. cbn [piece_text] in Hp. destruct (Nat.lt_ge_cases p (length t)) as [L|L].
    + rewrite (occ_in_lit t (ptext r) p Hq Ht L) in Hp. discriminate.
    + rewrite skipn_app_ge in Hp by exact L. destruct (IH _ Hp) as [A [j' [B [-> E]]]].
      exists (PLit t :: A), j', B. split; [reflexivity|]. rewrite ptext_cons, app_length. cbn [piece_text]. lia.
  - rewrite ptext_cons in Hp. cbn [piece_text] in Hp. destruct (Nat.lt_ge_cases p (length (placeholder j))) as [L|L].
    + rewrite (occ_in_ph j (ptext r) p L Hp). exists [], j, r. split; reflexivity.
    + rewrite skipn_app_ge in Hp by exact L. destruct (IH _ Hp) as [A [j' [B [-> E]]]].
      exists (PPh j :: A), j', B. split; [reflexivity|]. rewrite ptext_cons, app_length. cbn [piece_text]. lia.
Qed.

Lemma sw_app_l : forall a b s, starts_with (a ++ b) s = true ->
  starts_with a s = true /\ starts_with b (skipn (length a) s) = true.
Proof.
  induction a as [|c a IH]; intros b s H; [split; [reflexivity | exact H]|].
  destruct s as [|d s]; [discriminate|]. cbn [app starts_with length skipn] in *.
  apply andb_true_iff in H. destruct H as [H1 H2]. destruct (IH b s H2) as [E1 E2]. rewrite H1, E1. split; [reflexivity | exact E2].
Qed.

Lemma sw_app_same : forall a b c, starts_with (a ++ b) (a ++ c) = starts_with b c.
Proof. induction a as [|x a IH]; intros b c; [reflexivity|]. cbn [app starts_with]. rewrite N.eqb_refl. apply IH. Qed.

Lemma skipn_exact : forall (x y : str), skipn (length x) (x ++ y) = y.
Proof. intros x y. pose proof (skipn_len_app x y 0) as Z. rewrite Nat.add_0_r in Z. exact Z. Qed.

Lemma skipn_skipn' : forall (l : str) a b, skipn a (skipn b l) = skipn (b + a) l.
Proof.
  intros l a b. revert l. induction b as [|b IH]; intro l; [reflexivity|]. destruct l as [|x l]; [rewrite !skipn_nil; reflexivity|].
  cbn [skipn Nat.add]. apply IH.
Qed.

Lemma ph_occ : forall ps k i, okp ps -> starts_with (placeholder k) (skipn i (ptext ps)) = true ->
  exists A B, ps = A ++ PPh k :: B /\ i = length (ptext A).
Proof.
  intros ps k i Hok H. pose proof H as H0. rewrite placeholder_shape in H.
  destruct (sw_app_l US3 _ _ H) as [_ H1]. destruct (sw_app_l PH_CORE _ _ H1) as [H2 _].
  rewrite skipn_skipn' in H2. cbn [US3 length] in H2.
  destruct (occ_positions ps Hok _ H2) as [A [j [B [-> E]]]].
  assert (Ei : i = length (ptext A)) by lia. subst i.
  rewrite ptext_app, ptext_cons in H0. cbn [piece_text] in H0. rewrite skipn_exact in H0.
  rewrite !placeholder_shape in H0. rewrite <- !app_assoc in H0. rewrite !sw_app_same in H0.
  cbn [US3 app] in H0.
  assert (Ed : dec_of_nat k = dec_of_nat j).
  { apply (numeral_prefix _ _ _ _) with (3 := H0); eapply Forall_impl; try apply dec_digits; intros c Hc Z; subst; lia. }
  apply dec_of_nat_inj in Ed. subst j. exists A, B. split; reflexivity.
Qed.

Lemma okp_suffix : forall A C, okp (A ++ C) -> okp C.
Proof. induction A as [|x A IH]; intros C H; [exact H|]. cbn [app] in H. inversion H; subst; apply IH; assumption. Qed.

Lemma split_unique : forall (A B A' B' : list piece) x, A ++ x :: B = A' ++ x :: B' -> ~ In x A -> ~ In x B -> A' = A.
Proof.
  induction A as [|a A IH]; intros B A' B' x E HA HB.
  - destruct A' as [|y A']; [reflexivity|]. cbn [app] in E. injection E as <- E. exfalso. apply HB. rewrite E. apply in_or_app. right. left. reflexivity.
  - destruct A' as [|y A'].
    + cbn [app] in E. injection E as E _. exfalso. apply HA. left. exact E.
    + cbn [app] in E. injection E as <- E. f_equal. apply (IH B A' B' x E); [intro Hi; apply HA; right; exact Hi | exact HB].
Qed.

Lemma placeholder_ne : forall k, placeholder k <> [].
Proof. intro k. rewrite placeholder_shape. discriminate. Qed.

Lemma replace_ph : forall A B k b, okp (A ++ PPh k :: B) -> ~ In (PPh k) A -> ~ In (PPh k) B ->
  replace (placeholder k) b (ptext (A ++ PPh k :: B)) = ptext A ++ b ++ ptext B.
Proof.
  intros A B k b Hok HA HB. rewrite ptext_app, ptext_cons. cbn [piece_text].
  rewrite replace_skip_prefix; [|apply placeholder_ne|].
  - rewrite replace_hit by apply placeholder_ne. rewrite replace_none; [reflexivity|].
    intro i. destruct (starts_with (placeholder k) (skipn i (ptext B))) eqn:E; [exfalso|reflexivity].
    destruct (ph_occ B k i (okp_suffix (A ++ [PPh k]) B ltac:(rewrite <- app_assoc; exact Hok)) E) as [A' [B' [-> _]]].
    apply HB. apply in_or_app. right. left. reflexivity.
  - intros i Hi. destruct (starts_with (placeholder k) (skipn i (ptext A ++ placeholder k ++ ptext B))) eqn:E; [exfalso|reflexivity].
    assert (E' : starts_with (placeholder k) (skipn i (ptext (A ++ PPh k :: B))) = true) by (rewrite ptext_app, ptext_cons; exact E).
    destruct (ph_occ _ k i Hok E') as [A' [B' [E1 E2]]].
    pose proof (split_unique A B A' B' (PPh k) E1 HA HB) as Z. subst A'. lia.
Qed.

(* ------------------------------------------------------------------ from segments to pieces *)
Fixpoint pieces (k j : nat) (segs : list seg) : list piece :=
  match segs with
  | [] => []
  | Code c :: r => PCode (map tabfix c) :: pieces k j r
  | Lit q0 tri b :: r => (if Nat.ltb j k then PLit (lit_text q0 tri b) else PPh j) :: pieces k (S j) r
  end.
Definition render_fixed (segs : list seg) : str :=
  concat (map (fun s => match s with Code c => map tabfix c | Lit q0 tri b => lit_text q0 tri b end) segs).

Lemma pieces_zero : forall segs j, ptext (pieces 0 j segs) = placeholders j segs.
Proof.
  induction segs as [|[c|q0 tri b] r IH]; intro j; [reflexivity| |].
  - cbn [pieces placeholders]. rewrite ptext_cons, IH. reflexivity.
  - cbn [pieces placeholders]. rewrite ptext_cons, IH. reflexivity.
Qed.

Lemma pieces_all : forall segs j k, (j + length (literals segs) <= k)%nat -> ptext (pieces k j segs) = render_fixed segs.
Proof.
  induction segs as [|[c|q0 tri b] r IH]; intros j k H; [reflexivity| |].
  - cbn [pieces]. rewrite ptext_cons. unfold render_fixed. cbn [map concat]. fold (render_fixed r). rewrite (IH j k H). reflexivity.
  - cbn [literals flat_map app length] in H. fold (literals r) in H. cbn [pieces]. rewrite ptext_cons.
    assert (L : Nat.ltb j k = true) by (apply Nat.ltb_lt; lia). rewrite L.
    unfold render_fixed. cbn [map concat]. fold (render_fixed r). rewrite (IH (S j) k) by lia. reflexivity.
Qed.

Lemma pieces_beyond : forall segs j k, (k < j)%nat -> pieces k j segs = pieces (S k) j segs /\ ~ In (PPh k) (pieces k j segs).
Proof.
  induction segs as [|[c|q0 tri b] r IH]; intros j k H.
  - split; [reflexivity | intros []].
  - destruct (IH j k H) as [E N]. cbn [pieces]. split; [rewrite E; reflexivity|]. intros [Z|Z]; [discriminate | exact (N Z)].
  - destruct (IH (S j) k ltac:(lia)) as [E N]. cbn [pieces].
    assert (L1 : Nat.ltb j k = false) by (apply Nat.ltb_ge; lia). assert (L2 : Nat.ltb j (S k) = false) by (apply Nat.ltb_ge; lia).
    rewrite L1, L2. split; [rewrite E; reflexivity|]. intros [Z|Z]; [injection Z as Z; lia | exact (N Z)].
Qed.

Lemma pieces_split : forall segs j k b, (j <= k)%nat -> nth_error (literals segs) (k - j) = Some b ->
  exists A B, pieces k j segs = A ++ PPh k :: B /\ pieces (S k) j segs = A ++ PLit b :: B /\
              ~ In (PPh k) A /\ ~ In (PPh k) B.
Proof.
  induction segs as [|[c|q0 tri b0] r IH]; intros j k b Hj Hn.
  - cbn [literals flat_map] in Hn. destruct (k - j)%nat; discriminate.
  - cbn [literals flat_map app] in Hn. fold (literals r) in Hn. destruct (IH j k b Hj Hn) as [A [B [E1 [E2 [N1 N2]]]]].
    exists (PCode (map tabfix c) :: A), B. cbn [pieces]. rewrite E1, E2. split; [reflexivity|]. split; [reflexivity|].
    split; [intros [Z|Z]; [discriminate | exact (N1 Z)] | exact N2].
  - cbn [literals flat_map app] in Hn. fold (literals r) in Hn. destruct (Nat.eq_dec j k) as [->|Hne].
    + rewrite Nat.sub_diag in Hn. cbn [nth_error] in Hn. injection Hn as <-.
      destruct (pieces_beyond r (S k) k ltac:(lia)) as [E N].
      exists [], (pieces k (S k) r). cbn [pieces app]. rewrite Nat.ltb_irrefl.
      assert (L : Nat.ltb k (S k) = true) by (apply Nat.ltb_lt; lia). rewrite L, <- E.
      split; [reflexivity|]. split; [reflexivity|]. split; [intros [] | exact N].
    + replace (k - j)%nat with (S (k - S j)) in Hn by lia. cbn [nth_error] in Hn.
      destruct (IH (S j) k b ltac:(lia) Hn) as [A [B [E1 [E2 [N1 N2]]]]].
      assert (L1 : Nat.ltb j k = true) by (apply Nat.ltb_lt; lia). assert (L2 : Nat.ltb j (S k) = true) by (apply Nat.ltb_lt; lia).
      exists (PLit (lit_text q0 tri b0) :: A), B. cbn [pieces]. rewrite L1, L2, E1, E2.
      split; [reflexivity|]. split; [reflexivity|]. split; [intros [Z|Z]; [discriminate | exact (N1 Z)] | exact N2].
Qed.

(* precondition of combine_verbatim: code and literals alternate (no two code segments in a row), every literal is
   delimited by quote characters, and neither code nor literal text contains the marker RBQL_STRING_LITERAL *)
Inductive cv_segs : list seg -> Prop :=
| cv_nil : cv_segs []
| cv_code : forall c r, no_occ PH_CORE c -> (match r with Code _ :: _ => False | _ => True end) -> cv_segs r -> cv_segs (Code c :: r)
| cv_lit : forall q0 tri b r, q0 = QT \/ q0 = APOS -> no_occ PH_CORE (lit_text q0 tri b) -> cv_segs r -> cv_segs (Lit q0 tri b :: r).

Lemma sw_tabfix : forall p s, Forall (fun c => c <> SP) p -> starts_with p (map tabfix s) = true -> starts_with p s = true.
Proof.
  induction p as [|c p IH]; intros s Hp H; [reflexivity|]. destruct s as [|x s]; [discriminate|].
  inversion Hp as [|? ? Hc Hp']; subst. cbn [map starts_with] in *. apply andb_true_iff in H. destruct H as [H1 H2].
  apply N.eqb_eq in H1. rewrite (IH s Hp' H2). unfold tabfix in H1. destruct (N.eqb x TAB).
  - exfalso. apply Hc. exact H1.
  - subst x. rewrite N.eqb_refl. reflexivity.
Qed.

Lemma core_no_sp : Forall (fun c => c <> SP) PH_CORE.
Proof. unfold PH_CORE. repeat constructor; discriminate. Qed.

Lemma no_occ_tabfix : forall c, no_occ PH_CORE c -> no_occ PH_CORE (map tabfix c).
Proof.
  intros c H i. destruct (starts_with PH_CORE (skipn i (map tabfix c))) eqn:E; [|reflexivity].
  rewrite skipn_map in E. apply (sw_tabfix _ _ core_no_sp) in E. rewrite (H i) in E. discriminate.
Qed.

Lemma quoted_lit_text : forall q0 tri b, q0 = QT \/ q0 = APOS -> quoted (lit_text q0 tri b).
Proof.
  intros q0 tri b Hq. unfold lit_text. destruct tri; cbn [quote_of].
  - exists q0, ([q0; q0] ++ b ++ [q0; q0]). split; [exact Hq|]. cbn [app]. rewrite <- !app_assoc. reflexivity.
  - exists q0, b. split; [exact Hq | reflexivity].
Qed.

Lemma pieces_okp : forall segs, cv_segs segs -> forall k j, okp (pieces k j segs).
Proof.
  intros segs H. induction H as [|c r Hc Ha Hr IH | q0 tri b r Hq Hl Hr IH]; intros k j.
  - constructor.
  - cbn [pieces]. apply okp_code; [apply no_occ_tabfix; exact Hc | | apply IH].
    destruct r as [|[c2|q2 t2 b2] r2]; [exact I | contradiction | cbn [pieces]; destruct (Nat.ltb j k); reflexivity].
  - cbn [pieces]. destruct (Nat.ltb j k).
    + apply okp_lit; [apply quoted_lit_text; exact Hq | exact Hl | apply IH].
    + apply okp_ph. apply IH.
Qed.

Lemma skipn_nth_cons : forall (l : list str) k b, nth_error l k = Some b -> skipn k l = b :: skipn (S k) l.
Proof.
  induction l as [|x l IH]; intros k b H; [destruct k; discriminate|]. destruct k as [|k].
  - cbn in H. injection H as ->. reflexivity.
  - cbn [nth_error] in H. cbn [skipn]. apply IH. exact H.
Qed.

Lemma combine_from_stage : forall segs, cv_segs segs -> forall n k, length (literals segs) = (k + n)%nat ->
  combine_from k (ptext (pieces k 0 segs)) (skipn k (literals segs)) = render_fixed segs.
Proof.
  intros segs H. induction n as [|n IH]; intros k Hl.
  - rewrite skipn_all2 by lia. cbn [combine_from]. apply pieces_all. lia.
  - assert (Hk : (k < length (literals segs))%nat) by lia.
    destruct (nth_error (literals segs) k) as [b|] eqn:Eb; [|apply nth_error_None in Eb; lia].
    rewrite (skipn_nth_cons _ k b Eb). cbn [combine_from].
    destruct (pieces_split segs 0 k b ltac:(lia) ltac:(rewrite Nat.sub_0_r; exact Eb)) as [A [B [E1 [E2 [N1 N2]]]]].
    rewrite E1. rewrite replace_ph; [| rewrite <- E1; apply pieces_okp; exact H | exact N1 | exact N2].
    assert (E3 : ptext A ++ b ++ ptext B = ptext (pieces (S k) 0 segs)) by (rewrite E2, ptext_app, ptext_cons; reflexivity).
    rewrite E3. apply IH. lia.
Qed.

Theorem combine_verbatim : forall segs, cv_segs segs ->
  combine_string_literals (placeholders 0 segs) (literals segs) = render_fixed segs.
Proof.
  intros segs H. unfold combine_string_literals. rewrite <- pieces_zero.
  exact (combine_from_stage segs H (length (literals segs)) 0 eq_refl).
Qed.

(* separating and re-combining gives the text back (TABs of the code turned into spaces) *)
Corollary separate_then_combine : forall segs, wf_segs segs -> cv_segs segs ->
  combine_string_literals (fst (separate_string_literals LPy (render segs))) (snd (separate_string_literals LPy (render segs)))
  = render_fixed segs.
Proof. intros segs H1 H2. rewrite (literals_opaque segs H1). cbn [fst snd]. exact (combine_verbatim segs H2). Qed.

(* deciding no_occ for a concrete text *)
Lemma no_occ_check : forall p s, p <> [] ->
  forallb (fun i => negb (starts_with p (skipn i s))) (seq 0 (S (length s))) = true -> no_occ p s.
Proof.
  intros p s Hp H i. rewrite forallb_forall in H. destruct (Nat.le_gt_cases i (length s)) as [L|L].
  - apply negb_true_iff. apply H. apply in_seq. lia.
  - rewrite skipn_all2 by lia. destruct p; [contradiction | reflexivity].
Qed.

Example combine_verbatim_example : wf_segs ex_segs /\ cv_segs ex_segs /\
  combine_string_literals (placeholders 0 ex_segs) (literals ex_segs) = render_fixed ex_segs /\
  render_fixed ex_segs <> render ex_segs.
Proof.
  split; [exact (proj1 literals_opaque_example)|]. split; [|split; [vm_compute; reflexivity | vm_compute; discriminate]].
  unfold ex_segs.
  apply cv_code; [apply no_occ_check; [discriminate | vm_compute; reflexivity] | exact I |].
  apply cv_lit; [left; reflexivity | apply no_occ_check; [discriminate | vm_compute; reflexivity] |].
  apply cv_code; [apply no_occ_check; [discriminate | vm_compute; reflexivity] | exact I |].
  apply cv_lit; [right; reflexivity | apply no_occ_check; [discriminate | vm_compute; reflexivity] |].
  apply cv_code; [apply no_occ_check; [discriminate | vm_compute; reflexivity] | exact I |].
  apply cv_lit; [left; reflexivity | apply no_occ_check; [discriminate | vm_compute; reflexivity] |].
  apply cv_code; [apply no_occ_check; [discriminate | vm_compute; reflexivity] | exact I |].
  apply cv_nil.
Qed.
