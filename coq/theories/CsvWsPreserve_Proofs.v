(* CsvWsPreserve_Proofs.v — split_whitespace_separated_str in the whitespace-preserving mode: the pieces
   (matches of  sp* nonspace+ sp*  with the last character of all but the last one removed) re-join with one
   space to the original line, for every line that contains a non-space character. *)
From RBQL Require Import Base Csv CsvSpec CsvStr_Proofs Csv_Proofs CsvRoundtrip_Proofs.

Lemma ws_tokens_S f s :
  ws_tokens (S f) s =
  (let '(sp1, r1) := skip_sp s in
   let '(w, r2) := take_nsp r1 in
   match w with
   | [] => []
   | _ :: _ => let '(sp2, r3) := skip_sp r2 in (sp1 ++ w ++ sp2) :: ws_tokens f r3
   end).
Proof. reflexivity. Qed.

Lemma take_nsp_nonempty c r : c <> SP -> fst (take_nsp (c :: r)) <> [].
Proof. intros H. cbn [take_nsp]. rewrite (neqb_neq _ _ H). destruct (take_nsp r). discriminate. Qed.

Lemma skip_sp_self r : not_sp_head r -> skip_sp r = ([], r).
Proof. intros H. apply (skip_sp_app [] r); [constructor|exact H]. Qed.

(* the matches tile the line, except for a line of spaces only, which has no match *)
Lemma ws_tokens_concat : forall fuel s, (length s < fuel)%nat ->
  (snd (skip_sp s) = [] -> ws_tokens fuel s = []) /\ (snd (skip_sp s) <> [] -> concat (ws_tokens fuel s) = s).
Proof.
  induction fuel as [|fuel IH]; intros s Hl; [lia|]. rewrite ws_tokens_S.
  destruct (skip_sp s) as [sp1 r1] eqn:S1. destruct (skip_sp_spec _ _ _ S1) as [Es [Hsp1 Hr1]]. cbn [snd].
  destruct r1 as [|c r1'].
  - cbn [take_nsp]. split; [reflexivity|congruence].
  - split; [discriminate|]. intros _. cbn in Hr1.
    pose proof (take_nsp_nonempty c r1' Hr1) as Hw.
    destruct (take_nsp (c :: r1')) as [w r2] eqn:T. destruct (take_nsp_spec _ _ _ T) as [Er1 [Hwsp Hr2]]. cbn [fst] in Hw.
    destruct w as [|w0 w']; [congruence|].
    destruct (skip_sp r2) as [sp2 r3] eqn:S2. destruct (skip_sp_spec _ _ _ S2) as [Er2 [Hsp2 Hr3]].
    cbn [concat]. assert (concat (ws_tokens fuel r3) = r3) as Hc.
    { assert (length r3 < fuel)%nat as Hl3.
      { rewrite Es, Er1, Er2 in Hl. rewrite !app_length in Hl. cbn [length] in Hl. lia. }
      destruct (IH r3 Hl3) as [A B]. rewrite (skip_sp_self r3 Hr3) in A, B. cbn [snd] in A, B.
      destruct r3 as [|x r3']; [rewrite A by reflexivity; reflexivity|apply B; discriminate]. }
    rewrite Hc. rewrite Es, Er1, Er2. rewrite <- !app_assoc. reflexivity.
Qed.

Definition ends_sp (t : str) : Prop := exists t', t = t' ++ [SP].

Inductive AllButLast (P : str -> Prop) : list str -> Prop :=
| ABL_nil : AllButLast P []
| ABL_one x : AllButLast P [x]
| ABL_cons x y r : P x -> AllButLast P (y :: r) -> AllButLast P (x :: y :: r).

Lemma spaces_ends_sp c l : spaces (c :: l) -> ends_sp (c :: l).
Proof.
  intros H. destruct (exists_last (l := c :: l) ltac:(discriminate)) as [l' [a E]]. exists l'. rewrite E.
  assert (In a (c :: l)) as Hin by (rewrite E; apply in_or_app; right; left; reflexivity).
  unfold spaces in H. rewrite Forall_forall in H. rewrite (H a Hin). reflexivity.
Qed.

Lemma ws_tokens_nil_input f : ws_tokens f [] = [].
Proof. destruct f; reflexivity. Qed.

(* every match that is followed by another one ends with a space *)
Lemma ws_tokens_end_sp : forall fuel s, AllButLast ends_sp (ws_tokens fuel s).
Proof.
  induction fuel as [|fuel IH]; intros s; [apply ABL_nil|]. rewrite ws_tokens_S.
  destruct (skip_sp s) as [sp1 r1]. destruct (take_nsp r1) as [w r2] eqn:T. destruct (take_nsp_spec _ _ _ T) as [_ [_ Hr2]].
  destruct w as [|w0 w']; [apply ABL_nil|].
  destruct (skip_sp r2) as [sp2 r3] eqn:S2. destruct (skip_sp_spec _ _ _ S2) as [Er2 [Hsp2 Hr3]].
  specialize (IH r3). destruct (ws_tokens fuel r3) as [|y r] eqn:W; [apply ABL_one|].
  apply ABL_cons; [|exact IH].
  destruct sp2 as [|x sp2'].
  - exfalso. cbn [app] in Er2. subst r3. destruct Hr2 as [->|[r' ->]].
    + rewrite ws_tokens_nil_input in W. discriminate.
    + cbn in Hr3. congruence.
  - destruct (spaces_ends_sp x sp2' Hsp2) as [t' E]. exists (sp1 ++ (w0 :: w') ++ t'). rewrite E. rewrite <- !app_assoc. reflexivity.
Qed.

Lemma chop_nonempty x r : chop_all_but_last (x :: r) <> [].
Proof. destruct r; discriminate. Qed.

Lemma chop_join toks : AllButLast ends_sp toks -> join [SP] (chop_all_but_last toks) = concat toks.
Proof.
  induction 1 as [|x|x y r [t' Hx] Hr IH]; [reflexivity|cbn; rewrite app_nil_r; reflexivity|].
  change (chop_all_but_last (x :: y :: r)) with (removelast x :: chop_all_but_last (y :: r)).
  rewrite join_cons by apply chop_nonempty. rewrite IH. rewrite Hx, removelast_last. cbn [concat]. rewrite <- app_assoc. reflexivity.
Qed.

Definition has_nonspace (s : str) : bool := existsb (fun c => negb (N.eqb c SP)) s.

Lemma skip_sp_nonspace s : has_nonspace s = true -> snd (skip_sp s) <> [].
Proof.
  induction s as [|c s IH]; [discriminate|]. unfold has_nonspace. cbn [existsb skip_sp].
  destruct (N.eqb c SP); [|discriminate]. cbn [negb orb]. intros H. specialize (IH H). destruct (skip_sp s). exact IH.
Qed.

Theorem ws_preserve_rejoin line : has_nonspace line = true ->
  join [SP] (split_whitespace_separated_str true line) = line.
Proof.
  intros H. unfold split_whitespace_separated_str. rewrite (chop_join _ (ws_tokens_end_sp _ _)).
  apply (ws_tokens_concat (S (length line)) line (Nat.lt_succ_diag_r _)). apply skip_sp_nonspace. exact H.
Qed.

(* a line of spaces only has no match at all and does not re-join *)
Lemma ws_preserve_spaces_only_refuted :
  exists line, split_whitespace_separated_str true line = [] /\ join [SP] (split_whitespace_separated_str true line) <> line.
Proof. exists [SP; SP]. split; [reflexivity|vm_compute; discriminate]. Qed.
