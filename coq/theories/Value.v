(* Value.v — cells and values of the engine model, with the Python semantics of equality, ordering,
   truthiness and numeric parsing that the modelled fragment relies on. *)
From RBQL Require Import Base.
From Coq Require Import QArith.

Inductive atom := ANone | ABool (b : bool) | AInt (z : Z) | AStr (s : str) | AFlt (q : Q).
(* AFlt: an exactly represented rational standing for a Python float (only produced by aggregates
   and by NumHandler's float() on decimal strings); compared with the implementation's floats as
   described in DESIGN 3.4 *)
Inductive val := VA (a : atom) | VL (l : list atom).
Definition row := list val.
Definition rec := list atom.          (* an input record: cells *)

Definition VNone := VA ANone.
Definition VStr s := VA (AStr s).
Definition VInt z := VA (AInt z).
Definition VBool b := VA (ABool b).

Definition Z_of_bool (b : bool) : Z := if b then 1%Z else 0%Z.

(* numeric view of an atom: Python's int/bool/float tower *)
Definition num_of (a : atom) : option Q :=
  match a with
  | ABool b => Some (inject_Z (Z_of_bool b))
  | AInt z => Some (inject_Z z)
  | AFlt q => Some q
  | _ => None
  end.

Fixpoint str_ltb (a b : str) : bool :=      (* code point order, as Python 3 *)
  match a, b with
  | [], [] => false
  | [], _ :: _ => true
  | _ :: _, [] => false
  | x :: a', y :: b' => N.ltb x y || (N.eqb x y && str_ltb a' b')
  end.

(* Python == on atoms *)
Definition atom_eqb (a b : atom) : bool :=
  match a, b with
  | ANone, ANone => true
  | AStr s, AStr t => str_eqb s t
  | _, _ => match num_of a, num_of b with
            | Some x, Some y => Qeq_bool x y
            | _, _ => false
            end
  end.

(* Python < on atoms: defined for numbers and for two strings, TypeError (None) otherwise *)
Definition atom_ltb (a b : atom) : option bool :=
  match a, b with
  | AStr s, AStr t => Some (str_ltb s t)
  | _, _ => match num_of a, num_of b with
            | Some x, Some y => Some (negb (Qle_bool y x))
            | _, _ => None
            end
  end.

Fixpoint atoms_eqb (a b : list atom) : bool :=
  match a, b with
  | [], [] => true
  | x :: a', y :: b' => atom_eqb x y && atoms_eqb a' b'
  | _, _ => false
  end.

Definition val_eqb (a b : val) : bool :=
  match a, b with
  | VA x, VA y => atom_eqb x y
  | VL x, VL y => atoms_eqb x y
  | _, _ => false
  end.

Fixpoint row_eqb (a b : row) : bool :=
  match a, b with
  | [], [] => true
  | x :: a', y :: b' => val_eqb x y && row_eqb a' b'
  | _, _ => false
  end.

Definition truthy_atom (a : atom) : bool :=
  match a with
  | ANone => false
  | ABool b => b
  | AInt z => negb (Z.eqb z 0)
  | AStr s => match s with [] => false | _ => true end
  | AFlt q => negb (Qeq_bool q 0)
  end.
Definition truthy (v : val) : bool :=
  match v with VA a => truthy_atom a | VL l => match l with [] => false | _ => true end end.

(* ---- keys (sort keys, group keys, join keys): tuples of atoms under Python's tuple order ---- *)
Definition key := list atom.

(* a total extension of Python's order, used only on homogeneous keys (numbers with numbers,
   strings with strings); kinds are ranked None < numbers < strings so that the function is total *)
Definition kind_rank (a : atom) : nat :=
  match a with ANone => 0 | AStr _ => 2 | _ => 1 end%nat.
Definition atom_leb (a b : atom) : bool :=
  match atom_ltb a b with
  | Some lt => lt || atom_eqb a b
  | None => Nat.leb (kind_rank a) (kind_rank b)
  end.
Fixpoint key_leb (a b : key) : bool :=
  match a, b with
  | [], _ => true
  | _ :: _, [] => false
  | x :: a', y :: b' => if atom_eqb x y then key_leb a' b' else atom_leb x y
  end.
Definition key_eqb (a b : key) : bool := atoms_eqb a b.

(* keys on which Python's comparison is defined and which the theorems about ordering quantify over:
   every component is a string, or every component is an integer *)
Definition str_key (k : key) : bool := forallb (fun a => match a with AStr _ => true | _ => false end) k.
Definition int_key (k : key) : bool := forallb (fun a => match a with AInt _ => true | _ => false end) k.

(* ---- decimal parsing: Python int(s) / float(s) on the modelled domain ---- *)
Definition digit_of (c : ch) : option Z :=
  if (N.leb 48 c && N.leb c 57)%bool then Some (Z.of_N (c - 48)) else None.

Fixpoint parse_digits (s : str) (acc : Z) : option Z :=
  match s with
  | [] => Some acc
  | c :: t => match digit_of c with Some d => parse_digits t (acc * 10 + d)%Z | None => None end
  end.

Definition split_sign (s : str) : bool * str :=
  match s with
  | c :: t => if N.eqb c 45 then (true, t) else if N.eqb c 43 then (false, t) else (false, s)
  | [] => (false, [])
  end.

(* int(s) for s = [+-]digits+ ; None models ValueError. Strings Python accepts beyond this
   (surrounding blanks, underscores, non-ASCII digits) are outside the model (DESIGN 3.4). *)
Definition parse_int (s : str) : option Z :=
  let '(neg, d) := split_sign s in
  match d with
  | [] => None
  | _ => match parse_digits d 0 with
         | Some z => Some (if neg then Z.opp z else z)
         | None => None
         end
  end.

Fixpoint split_dot (s : str) : str * option str :=
  match s with
  | [] => ([], None)
  | c :: t => if N.eqb c 46 then ([], Some t)
              else let '(a, b) := split_dot t in (c :: a, b)
  end.

Definition pow10 (n : nat) : positive := Pos.pow 10 (Pos.of_nat n).

(* float(s) for s = [+-]digits+[.digits+] ; exact rational value *)
Definition parse_float (s : str) : option Q :=
  let '(neg, d) := split_sign s in
  let '(ip, fp) := split_dot d in
  match ip, fp with
  | [], _ => None
  | _, None => match parse_digits ip 0 with
               | Some z => Some (inject_Z (if neg then Z.opp z else z))
               | None => None
               end
  | _, Some [] => None
  | _, Some f =>
      match parse_digits ip 0, parse_digits f 0 with
      | Some zi, Some zf =>
          let den := pow10 (length f) in
          let n := (zi * Zpos den + zf)%Z in
          Some (Qred (Qmake (if neg then Z.opp n else n) den))
      | _, _ => None
      end
  end.
