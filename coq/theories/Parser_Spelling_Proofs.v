(* Parser_Spelling_Proofs.v — towards C08_token_spelling: the statements located in a query do not depend on the
   ASCII letter case of ANY letter of the text (keywords included): locate_statements returns the same statements at
   the same positions for two texts that differ only in ASCII letter case. *)
From RBQL Require Import Base Parser.
Local Open Scope N_scope.

(* c and c' are the same character up to ASCII letter case *)
Definition case_eq (c c' : ch) : Prop := c = c' \/ (is_alpha c = true /\ is_alpha c' = true /\ to_lower c = to_lower c').
Definition case_rel : str -> str -> Prop := Forall2 case_eq.

Lemma case_eq_refl : forall c, case_eq c c. Proof. intro c. left. reflexivity. Qed.
Lemma case_rel_refl : forall s, case_rel s s.
Proof. induction s; constructor; [apply case_eq_refl | assumption]. Qed.

Lemma alpha_not_sp : forall c, is_alpha c = true -> is_sp c = false.
Proof.
  intros c H. unfold is_sp. destruct (N.eqb_spec c 32) as [->|]; [discriminate H | reflexivity].
Qed.

Lemma case_eq_sp : forall c c', case_eq c c' -> is_sp c = is_sp c'.
Proof. intros c c' [->|[H1 [H2 _]]]; [reflexivity|]. rewrite (alpha_not_sp c H1), (alpha_not_sp c' H2). reflexivity. Qed.

Lemma alpha_ascii : forall c, is_alpha c = true -> c < 128.
Proof.
  intros c H. unfold is_alpha, is_upper, is_lower, in_range in H.
  apply orb_true_iff in H. destruct H as [H|H]; apply andb_true_iff in H; destruct H as [_ H]; apply N.leb_le in H; lia.
Qed.

Lemma fold_extra_ascii : forall k c, c < 128 -> py_fold_extra k c = false.
Proof.
  intros k c H. unfold py_fold_extra.
  rewrite (proj2 (N.eqb_neq c 383)) by lia. rewrite (proj2 (N.eqb_neq c 304)) by lia.
  rewrite (proj2 (N.eqb_neq c 305)) by lia. rewrite (proj2 (N.eqb_neq c 8490)) by lia.
  rewrite !andb_false_r. reflexivity.
Qed.

Lemma case_eq_ci : forall fl k c c', case_eq c c' -> ci_eq fl k c = ci_eq fl k c'.
Proof.
  intros fl k c c' [->|[H1 [H2 E]]]; [reflexivity|]. unfold ci_eq. rewrite E.
  destruct fl; [|reflexivity]. rewrite (fold_extra_ascii _ c (alpha_ascii c H1)), (fold_extra_ascii _ c' (alpha_ascii c' H2)). reflexivity.
Qed.

(* a prefix scanner result on related texts: both fail, or both succeed leaving related rests of equal length *)
Definition rel_opt (o o' : option str) : Prop :=
  match o, o' with None, None => True | Some r, Some r' => case_rel r r' | _, _ => False end.

Lemma case_rel_length : forall s s', case_rel s s' -> length s = length s'.
Proof. intros s s' H. induction H; [reflexivity | cbn [length]; congruence]. Qed.

Lemma drop_sp_rel : forall s s', case_rel s s' -> case_rel (drop_sp s) (drop_sp s').
Proof.
  intros s s' H. induction H as [|c c' s s' Hc Hs IH]; [constructor|]. unfold drop_sp in *. cbn [lstrip_by].
  rewrite <- (case_eq_sp c c' Hc). destruct (is_sp c); [exact IH | constructor; assumption].
Qed.

Lemma eat_ci_rel : forall fl kw s s', case_rel s s' -> rel_opt (eat_ci fl kw s) (eat_ci fl kw s').
Proof.
  intros fl kw. induction kw as [|k kw IH]; intros s s' H; [exact H|].
  destruct H as [|c c' s s' Hc Hs]; cbn [eat_ci]; [exact I|].
  rewrite <- (case_eq_ci fl k c c' Hc). destruct (ci_eq fl k c); [apply IH; exact Hs | exact I].
Qed.

Lemma eat_words_rel : forall fl wl s s', case_rel s s' -> rel_opt (eat_words fl wl s) (eat_words fl wl s').
Proof.
  intros fl wl. induction wl as [|w wl IH]; intros s s' H; [exact H|]. cbn [eat_words].
  destruct wl as [|w2 wl]; [apply eat_ci_rel; exact H|].
  pose proof (eat_ci_rel fl w s s' H) as E. unfold rel_opt in E.
  destruct (eat_ci fl w s) as [r|], (eat_ci fl w s') as [r'|]; try contradiction; [|exact I].
  apply IH. apply drop_sp_rel. exact E.
Qed.

Lemma kw_at_rel : forall fl wl s s', case_rel s s' -> kw_at fl wl s = kw_at fl wl s'.
Proof.
  intros fl wl s s' H. unfold kw_at. pose proof (eat_words_rel fl wl s s' H) as E. unfold rel_opt in E.
  destruct (eat_words fl wl s) as [r|], (eat_words fl wl s') as [r'|]; try contradiction; [|reflexivity].
  destruct E as [|c c' r r' Hc Hr]; [reflexivity|]. rewrite <- (case_eq_sp c c' Hc). destruct (is_sp c); [|reflexivity].
  unfold consumed. cbn [length]. rewrite (case_rel_length s s' H), (case_rel_length r r' Hr). reflexivity.
Qed.

Definition prev_rel (p p' : option ch) : Prop :=
  match p, p' with None, None => True | Some _, Some _ => True | _, _ => False end.

Lemma kw_match_rel : forall fl wl p p' s s', prev_rel p p' -> case_rel s s' -> kw_match fl wl p s = kw_match fl wl p' s'.
Proof.
  intros fl wl p p' s s' Hp H. unfold kw_match.
  assert (E1 : match p with None => kw_at fl wl s | Some _ => None end = match p' with None => kw_at fl wl s' | Some _ => None end).
  { destruct p, p'; try contradiction; [reflexivity | apply kw_at_rel; exact H]. }
  rewrite E1. destruct (match p' with None => kw_at fl wl s' | Some _ => None end); [reflexivity|].
  destruct H as [|c c' s s' Hc Hs]; [reflexivity|]. rewrite <- (case_eq_sp c c' Hc). destruct (is_sp c); [|reflexivity].
  rewrite (kw_at_rel fl wl s s' Hs). reflexivity.
Qed.

Lemma find_all_rel : forall fl wl s s', case_rel s s' -> forall p p' pos skip, prev_rel p p' ->
  find_all_from (kw_match fl wl) s p pos skip = find_all_from (kw_match fl wl) s' p' pos skip.
Proof.
  intros fl wl s s' H. induction H as [|c c' s s' Hc Hs IH]; intros p p' pos skip Hp; [reflexivity|].
  cbn [find_all_from]. destruct skip as [|k]; [|apply IH; exact I].
  rewrite (kw_match_rel fl wl p p' (c :: s) (c' :: s') Hp (Forall2_cons _ _ Hc Hs)).
  destruct (kw_match fl wl p' (c' :: s')) as [[n i]|]; [f_equal|]; apply IH; exact I.
Qed.

Theorem locate_case_invariant : forall fl wf s s', case_rel s s' ->
  locate_statements fl wf s = locate_statements fl wf s'.
Proof.
  intros fl wf s s' H. unfold locate_statements.
  assert (G : forall g, locate_group fl g s = locate_group fl g s').
  { induction g as [|st g IH]; [reflexivity|]. cbn [locate_group]. unfold find_all.
    rewrite (find_all_rel fl (stmt_words st) s s' H None None 0%nat 0%nat I). rewrite IH. reflexivity. }
  assert (GS : forall gs, locate_groups fl gs s = locate_groups fl gs s').
  { induction gs as [|g gs IH]; [reflexivity|]. cbn [locate_groups]. rewrite (G g), IH. reflexivity. }
  rewrite GS. reflexivity.
Qed.

(* non-vacuity: two different case spellings of a query with four statements *)
From Coq Require String.
Import String.StringSyntax.
Definition ex_case1 : str := $"SELECT a1 WHERE a2 == b1 ORDER BY a1 LEFT JOIN b ON a1 == b1".
Definition ex_case2 : str := $"sElEcT A1 where a2 == B1 Order bY a1 left JOIN b on A1 == b1".
Example locate_case_example :
  case_rel ex_case1 ex_case2 /\ ex_case1 <> ex_case2 /\
  locate_statements LPy false ex_case2 = Ok [(0, 6, SELECT); (9, 15, WHERE); (24, 33, ORDER_BY); (36, 46, LEFT_JOIN)]%nat.
Proof.
  split; [|split; [vm_compute; discriminate | vm_compute; reflexivity]].
  unfold case_rel, ex_case1, ex_case2. vm_compute.
  repeat (constructor; [first [left; reflexivity | right; vm_compute; repeat split; reflexivity]|]). constructor.
Qed.

(* ================================================================== separate_actions under case respelling *)
Lemma case_rel_app : forall a a' b b', case_rel a a' -> case_rel b b' -> case_rel (a ++ b) (a' ++ b').
Proof. intros. apply Forall2_app; assumption. Qed.

Lemma case_rel_rev : forall s s', case_rel s s' -> case_rel (rev s) (rev s').
Proof.
  intros s s' H. induction H as [|c c' s s' Hc Hs IH]; [constructor|]. cbn [rev].
  apply case_rel_app; [exact IH | constructor; [exact Hc | constructor]].
Qed.

Lemma lstrip_rel : forall f, (forall c c', case_eq c c' -> f c = f c') ->
  forall s s', case_rel s s' -> case_rel (lstrip_by f s) (lstrip_by f s').
Proof.
  intros f Hf s s' H. induction H as [|c c' s s' Hc Hs IH]; [constructor|]. cbn [lstrip_by].
  rewrite <- (Hf c c' Hc). destruct (f c); [exact IH | constructor; assumption].
Qed.

Lemma strip_by_rel : forall f, (forall c c', case_eq c c' -> f c = f c') ->
  forall s s', case_rel s s' -> case_rel (strip_by f s) (strip_by f s').
Proof.
  intros f Hf s s' H. unfold strip_by, rstrip_by. apply case_rel_rev. apply lstrip_rel; [exact Hf|].
  apply case_rel_rev. apply lstrip_rel; assumption.
Qed.

Lemma alpha_not_ws : forall fl c, is_alpha c = true -> ws fl c = false.
Proof.
  intros fl c H. assert (B : 65 <= c /\ c < 128).
  { split; [|apply alpha_ascii; exact H]. unfold is_alpha, is_upper, is_lower, in_range in H.
    apply orb_true_iff in H. destruct H as [H|H]; apply andb_true_iff in H; destruct H as [H _]; apply N.leb_le in H; lia. }
  destruct B as [B1 B2].
  assert (R : forall lo hi, hi < 65 -> in_range lo hi c = false).
  { intros lo hi Hh. unfold in_range. rewrite (proj2 (N.leb_gt c hi)) by lia. apply andb_false_r. }
  assert (Q : forall x, x < 65 \/ 128 <= x -> N.eqb c x = false) by (intros x Hx; apply N.eqb_neq; lia).
  destruct fl; unfold ws, py_ws, js_ws; rewrite ?R by lia; rewrite ?Q by lia;
    unfold in_range; rewrite ?(proj2 (N.leb_gt 8192 c)) by lia; reflexivity.
Qed.

Lemma case_eq_ws : forall fl c c', case_eq c c' -> ws fl c = ws fl c'.
Proof. intros fl c c' [->|[H1 [H2 _]]]; [reflexivity|]. rewrite (alpha_not_ws fl c H1), (alpha_not_ws fl c' H2). reflexivity. Qed.

Lemma strip_sp_rel : forall s s', case_rel s s' -> case_rel (strip_sp s) (strip_sp s').
Proof. intros. apply strip_by_rel; [apply case_eq_sp | assumption]. Qed.

Lemma strip_txt_rel : forall fl s s', case_rel s s' -> case_rel (strip_txt fl s) (strip_txt fl s').
Proof.
  intros fl s s' H. destruct fl; cbn [strip_txt]; [|apply strip_sp_rel; exact H].
  apply strip_by_rel; [apply (case_eq_ws LPy) | exact H].
Qed.

Lemma firstn_rel : forall n s s', case_rel s s' -> case_rel (firstn n s) (firstn n s').
Proof. induction n as [|n IH]; intros s s' H; [constructor|]. destruct H; [constructor|]. cbn [firstn]. constructor; [assumption | apply IH; assumption]. Qed.
Lemma skipn_rel : forall n s s', case_rel s s' -> case_rel (skipn n s) (skipn n s').
Proof. induction n as [|n IH]; intros s s' H; [exact H|]. destruct H; [constructor|]. cbn [skipn]. apply IH. assumption. Qed.
Lemma slice_rel : forall a b s s', case_rel s s' -> case_rel (slice a b s) (slice a b s').
Proof. intros. unfold slice. apply firstn_rel. apply skipn_rel. assumption. Qed.

Lemma eat_one_sp_rel : forall s s', case_rel s s' -> rel_opt (eat_one_sp s) (eat_one_sp s').
Proof.
  intros s s' H. destruct H as [|c c' s s' Hc Hs]; [exact I|]. cbn [eat_one_sp]. rewrite <- (case_eq_sp c c' Hc).
  destruct (is_sp c); [exact Hs | exact I].
Qed.

Lemma alpha_not_digit : forall c, is_alpha c = true -> is_digit c = false.
Proof.
  intros c H. unfold is_digit, in_range. assert (B : 65 <= c).
  { unfold is_alpha, is_upper, is_lower, in_range in H. apply orb_true_iff in H.
    destruct H as [H|H]; apply andb_true_iff in H; destruct H as [H _]; apply N.leb_le in H; lia. }
  rewrite (proj2 (N.leb_gt c 57)) by lia. apply andb_false_r.
Qed.

Lemma span_digits_rel : forall s s', case_rel s s' ->
  fst (span_by is_digit s) = fst (span_by is_digit s') /\ case_rel (snd (span_by is_digit s)) (snd (span_by is_digit s')).
Proof.
  intros s s' H. induction H as [|c c' s s' Hc Hs IH]; [split; [reflexivity | constructor]|].
  cbn [span_by]. destruct Hc as [->|[H1 [H2 E]]].
  - destruct (is_digit c'); [|split; [reflexivity | constructor; [apply case_eq_refl | exact Hs]]].
    destruct (span_by is_digit s) as [a b], (span_by is_digit s') as [a' b']. cbn [fst snd] in *. destruct IH as [-> IH]. split; [reflexivity | exact IH].
  - rewrite (alpha_not_digit c H1), (alpha_not_digit c' H2). split; [reflexivity|]. cbn [snd].
    constructor; [right; repeat split; assumption | exact Hs].
Qed.

Definition rel_opt_pair {T : Type} (o o' : option (T * str)) : Prop :=
  match o, o' with None, None => True | Some (x, r), Some (x', r') => x = x' /\ case_rel r r' | _, _ => False end.

Lemma parse_top_rel : forall fl s s', case_rel s s' -> rel_opt_pair (parse_top fl s) (parse_top fl s').
Proof.
  intros fl s s' H. unfold parse_top. pose proof (eat_ci_rel fl K_TOP _ _ (drop_sp_rel s s' H)) as E. unfold rel_opt in E.
  destruct (eat_ci fl K_TOP (drop_sp s)) as [r|], (eat_ci fl K_TOP (drop_sp s')) as [r'|]; try contradiction; [|exact I].
  destruct (span_digits_rel _ _ (drop_sp_rel r r' E)) as [E1 E2].
  destruct (span_by is_digit (drop_sp r)) as [ds r2], (span_by is_digit (drop_sp r')) as [ds' r2']. cbn [fst snd] in *. subst ds'.
  pose proof (eat_one_sp_rel r2 r2' E2) as E3. unfold rel_opt in E3.
  destruct ds; [destruct (eat_one_sp r2), (eat_one_sp r2'); exact I|].
  destruct (eat_one_sp r2), (eat_one_sp r2'); try contradiction; [split; [reflexivity | exact E3] | exact I].
Qed.

Lemma parse_distinct_rel : forall fl s s', case_rel s s' -> rel_opt_pair (parse_distinct fl s) (parse_distinct fl s').
Proof.
  intros fl s s' H. unfold parse_distinct. pose proof (eat_ci_rel fl K_DISTINCT _ _ (drop_sp_rel s s' H)) as E. unfold rel_opt in E.
  destruct (eat_ci fl K_DISTINCT (drop_sp s)) as [r|], (eat_ci fl K_DISTINCT (drop_sp s')) as [r'|]; try contradiction; [|exact I].
  pose proof (drop_sp_rel r r' E) as E1.
  assert (EC : rel_opt (match eat_ci fl K_COUNT (drop_sp r) with Some r2 => eat_one_sp r2 | None => None end)
                       (match eat_ci fl K_COUNT (drop_sp r') with Some r2 => eat_one_sp r2 | None => None end)).
  { pose proof (eat_ci_rel fl K_COUNT _ _ E1) as E2. unfold rel_opt in E2.
    destruct (eat_ci fl K_COUNT (drop_sp r)), (eat_ci fl K_COUNT (drop_sp r')); try contradiction; [|exact I]. apply eat_one_sp_rel. exact E2. }
  unfold rel_opt in EC.
  destruct (match eat_ci fl K_COUNT (drop_sp r) with Some r2 => eat_one_sp r2 | None => None end),
           (match eat_ci fl K_COUNT (drop_sp r') with Some r2 => eat_one_sp r2 | None => None end); try contradiction.
  - split; [reflexivity | exact EC].
  - pose proof (eat_one_sp_rel r r' E) as E3. unfold rel_opt in E3.
    destruct (eat_one_sp r), (eat_one_sp r'); try contradiction; [split; [reflexivity | exact E1] | exact I].
Qed.

Lemma strip_tail_kw_rel : forall fl kw s s', case_rel s s' -> rel_opt (strip_tail_kw fl kw s) (strip_tail_kw fl kw s').
Proof.
  intros fl kw s s' H. unfold strip_tail_kw.
  pose proof (eat_ci_rel fl (rev kw) _ _ (drop_sp_rel _ _ (case_rel_rev s s' H))) as E. unfold rel_opt in E.
  destruct (eat_ci fl (rev kw) (drop_sp (rev s))) as [r|], (eat_ci fl (rev kw) (drop_sp (rev s'))) as [r'|]; try contradiction; [|exact I].
  pose proof (eat_one_sp_rel r r' E) as E2. unfold rel_opt in E2.
  destruct (eat_one_sp r), (eat_one_sp r'); try contradiction; [apply case_rel_rev; exact E2 | exact I].
Qed.

Lemma strip_set_rel : forall fl s s', case_rel s s' -> case_rel (strip_set fl s) (strip_set fl s').
Proof.
  intros fl s s' H. unfold strip_set. pose proof (eat_ci_rel fl K_SET _ _ (drop_sp_rel s s' H)) as E. unfold rel_opt in E.
  destruct (eat_ci fl K_SET (drop_sp s)) as [r|], (eat_ci fl K_SET (drop_sp s')) as [r'|]; try contradiction; [|exact H].
  destruct fl; [|exact E]. pose proof (eat_one_sp_rel r r' E) as E2. unfold rel_opt in E2.
  destruct (eat_one_sp r), (eat_one_sp r'); try contradiction; [exact E2 | exact H].
Qed.

(* two action records with the same structure (statements present, TOP value, DISTINCT [COUNT], reverse flag,
   join spelling) whose clause texts are equal up to ASCII letter case *)
Definition orel {T : Type} (R : T -> T -> Prop) (o o' : option T) : Prop :=
  match o, o' with None, None => True | Some x, Some y => R x y | _, _ => False end.
Definition act_rel (a a' : actions) : Prop :=
  orel case_rel (a_with a) (a_with a') /\ orel case_rel (a_select a) (a_select a') /\ a_top a = a_top a' /\
  a_distinct a = a_distinct a' /\ a_distinct_count a = a_distinct_count a' /\
  orel case_rel (a_update a) (a_update a') /\ orel case_rel (a_where a) (a_where a') /\
  orel (fun p p' => case_rel (fst p) (fst p') /\ snd p = snd p') (a_order a) (a_order a') /\
  orel case_rel (a_group a) (a_group a') /\ orel case_rel (a_limit a) (a_limit a') /\
  orel case_rel (a_except a) (a_except a') /\
  orel (fun p p' => fst p = fst p' /\ case_rel (snd p) (snd p')) (a_join a) (a_join a') /\
  orel case_rel (a_from a) (a_from a').
Definition res_rel (r r' : res actions) : Prop :=
  match r, r' with Ok a, Ok a' => act_rel a a' | Err e, Err e' => e = e' | _, _ => False end.

Lemma apply_statement_rel : forall fl st start span span' acc acc', case_rel span span' -> act_rel acc acc' ->
  res_rel (apply_statement fl st start span acc) (apply_statement fl st start span' acc').
Proof.
  intros fl st start span span' acc acc' Hs Ha.
  destruct Ha as [A1 [A2 [A3 [A4 [A5 [A6 [A7 [A8 [A9 [A10 [A11 [A12 A13]]]]]]]]]]]].
  pose proof (strip_txt_rel fl) as T.
  destruct st; cbn [apply_statement]; try (cbn [res_rel]; unfold act_rel; cbn; repeat split; try assumption; try (apply T; assumption); reflexivity).
  - (* SELECT *)
    destruct (Nat.eqb start 0); [|reflexivity].
    pose proof (parse_top_rel fl span span' Hs) as P. unfold rel_opt_pair in P.
    destruct (parse_top fl span) as [[n r]|], (parse_top fl span') as [[n' r']|]; try contradiction.
    + destruct P as [-> P]. pose proof (parse_distinct_rel fl r r' P) as D. unfold rel_opt_pair in D.
      destruct (parse_distinct fl r) as [[c2 r2]|], (parse_distinct fl r') as [[c2' r2']|]; try contradiction.
      * destruct D as [-> D]. cbn [res_rel]. unfold act_rel. cbn. repeat split; try assumption. apply T. exact D.
      * cbn [res_rel]. unfold act_rel. cbn. repeat split; try assumption. apply T. exact P.
    + pose proof (parse_distinct_rel fl span span' Hs) as D. unfold rel_opt_pair in D.
      destruct (parse_distinct fl span) as [[c2 r2]|], (parse_distinct fl span') as [[c2' r2']|]; try contradiction.
      * destruct D as [-> D]. cbn [res_rel]. unfold act_rel. cbn. repeat split; try assumption. apply T. exact D.
      * cbn [res_rel]. unfold act_rel. cbn. repeat split; try assumption. apply T. exact Hs.
  - (* ORDER BY *)
    pose proof (strip_tail_kw_rel fl K_ASC span span' Hs) as E1. unfold rel_opt in E1.
    assert (R1 : case_rel (match strip_tail_kw fl K_ASC span with Some x => x | None => span end)
                          (match strip_tail_kw fl K_ASC span' with Some x => x | None => span' end)).
    { destruct (strip_tail_kw fl K_ASC span), (strip_tail_kw fl K_ASC span'); try contradiction; assumption. }
    pose proof (strip_tail_kw_rel fl K_DESC _ _ R1) as E2. unfold rel_opt in E2.
    destruct (strip_tail_kw fl K_DESC (match strip_tail_kw fl K_ASC span with Some x => x | None => span end)),
             (strip_tail_kw fl K_DESC (match strip_tail_kw fl K_ASC span' with Some x => x | None => span' end)); try contradiction;
      cbn [res_rel]; unfold act_rel; cbn; repeat split; try assumption; apply T; assumption.
  - (* UPDATE *)
    destruct (Nat.eqb start 0); [|reflexivity]. cbn [res_rel]. unfold act_rel. cbn. repeat split; try assumption.
    apply T. apply strip_set_rel. exact Hs.
Qed.

Lemma process_statements_rel : forall fl s s' l acc acc', case_rel s s' -> act_rel acc acc' ->
  res_rel (process_statements fl s l acc) (process_statements fl s' l acc').
Proof.
  intros fl s s' l. induction l as [|[[a b] st] l IH]; intros acc acc' Hs Ha; [exact Ha|].
  cbn [process_statements]. rewrite <- (case_rel_length s s' Hs).
  pose proof (apply_statement_rel fl st a _ _ acc acc'
               (slice_rel b (match l with (x, _, _) :: _ => x | [] => length s end) s s' Hs) Ha) as E.
  unfold res_rel in E.
  destruct (apply_statement fl st a (slice b (match l with (x, _, _) :: _ => x | [] => length s end) s) acc),
           (apply_statement fl st a (slice b (match l with (x, _, _) :: _ => x | [] => length s end) s') acc'); try contradiction.
  - apply IH; assumption.
  - exact E.
Qed.

(* C08_case_spelling (partial form of C08_token_spelling): for two texts equal up to the ASCII case of ANY letters
   (every keyword letter included), in which the WITH regex does not match (the modifier name is matched
   case-sensitively by the code, [a-z]), separate_actions gives the same error, or action records of the same
   structure whose clause texts are equal up to the same letter case. *)
Theorem separate_actions_case : forall fl wf s s', case_rel s s' ->
  with_match fl (strip_sp s) = None -> with_match fl (strip_sp s') = None ->
  res_rel (separate_actions fl wf s) (separate_actions fl wf s').
Proof.
  intros fl wf s s' H W W'. unfold separate_actions. rewrite W, W'.
  pose proof (strip_sp_rel s s' H) as Hs. rewrite (locate_case_invariant fl wf _ _ Hs).
  destruct (locate_statements fl wf (strip_sp s')) as [l|e]; [|reflexivity].
  set (acc0 := mkActions None None None false false None None None None None None None None).
  assert (A0 : act_rel acc0 acc0) by (unfold act_rel, acc0; cbn; repeat split).
  pose proof (process_statements_rel fl _ _ l acc0 acc0 Hs A0) as E. unfold res_rel in E.
  destruct (process_statements fl (strip_sp s) l acc0) as [a|e]; destruct (process_statements fl (strip_sp s') l acc0) as [a'|e'];
    try contradiction; [|exact E].
  pose proof E as E0. destruct E as [A1 [A2 [A3 [A4 [A5 [A6 R]]]]]]. unfold orel in A2, A6.
  destruct (a_select a), (a_select a'); try contradiction; destruct (a_update a), (a_update a'); try contradiction;
    cbn [res_rel]; try reflexivity; exact E0.
Qed.

Example separate_actions_case_example :
  case_rel ex_case1 ex_case2 /\ with_match LPy (strip_sp ex_case1) = None /\ with_match LPy (strip_sp ex_case2) = None /\
  exists a a', separate_actions LPy false ex_case1 = Ok a /\ separate_actions LPy false ex_case2 = Ok a' /\
               a_join a = Some (LEFT_JOIN, $"b ON a1 == b1") /\ a_join a' = Some (LEFT_JOIN, $"b on A1 == b1").
Proof.
  split; [exact (proj1 locate_case_example)|]. split; [vm_compute; reflexivity|]. split; [vm_compute; reflexivity|].
  eexists. eexists. split; [vm_compute; reflexivity|]. split; [vm_compute; reflexivity|]. split; vm_compute; reflexivity.
Qed.
