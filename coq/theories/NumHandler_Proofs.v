(* NumHandler_Proofs.v — "numeric strings being converted to numbers" (C03), over the NumHandler model of Agg.v:
   what a column of an int-start aggregate (MIN / MAX / SUM / MEDIAN) or a float-start aggregate (AVG / VARIANCE) actually
   accumulates, as a function of the column's values.
     - a column that starts with a non-string passes every value through unchanged (no conversion at all);
     - a string column of an int-start aggregate: integers as long as every string so far parsed as an integer; from the
       first string that does not, every value is converted as a float;
     - a string column of a float-start aggregate: every value as a float. *)
From RBQL Require Import Base Value Expr Agg Agg_Proofs.
From Coq Require Import QArith.

Definition started_str (start_int : bool) : numh := {| h_is_int := start_int; h_done := true; h_is_str := true |}.
Definition started_raw (start_int : bool) : numh := {| h_is_int := start_int; h_done := true; h_is_str := false |}.

(* the first value fixes whether the column converts at all *)
Lemma numh_first start_int v :
  snd (numh_parse (numh_init start_int) v) =
  if is_str_atom v then
    (if start_int then match v with AStr s => match parse_int s with Some _ => started_str true | None => started_str false end | _ => started_str true end
     else started_str false)
  else started_raw start_int.
Proof.
  unfold numh_parse, numh_init. cbn [h_done h_is_int h_is_str].
  destruct v as [|b|z|s|q]; cbn [is_str_atom negb]; try reflexivity.
  destruct start_int; cbn [h_is_str h_is_int negb snd]; [|reflexivity].
  destruct (parse_int s); reflexivity.
Qed.

(* a column that did not start with a string: nothing is ever converted *)
Lemma numh_raw_id start_int v : numh_parse (started_raw start_int) v = (Ok v, started_raw start_int).
Proof. reflexivity. Qed.

(* float mode (a float-start aggregate over strings, or an int-start one after its first non-integer string) *)
Lemma numh_float_mode v : numh_parse (started_str false) v = (to_float v, started_str false).
Proof. reflexivity. Qed.

(* integer mode over an integer-looking string: the integer, mode kept *)
Lemma numh_int_mode_int s z : parse_int s = Some z -> numh_parse (started_str true) (AStr s) = (Ok (AInt z), started_str true).
Proof. intros H. unfold numh_parse. cbn [h_done h_is_str h_is_int negb started_str]. rewrite H. reflexivity. Qed.

(* integer mode over a string that is not an integer: converted as a float, and the column switches to float mode for good *)
Lemma numh_int_mode_switch s : parse_int s = None -> numh_parse (started_str true) (AStr s) = (to_float (AStr s), started_str false).
Proof. intros H. unfold numh_parse. cbn [h_done h_is_str h_is_int negb started_str]. rewrite H. reflexivity. Qed.

(* ---- whole columns *)

Definition ints_of (ss : list str) : option (list Z) :=
  fold_right (fun s acc => match parse_int s, acc with Some z, Some l => Some (z :: l) | _, _ => None end) (Some []) ss.
Definition floats_of (ss : list str) : option (list Q) :=
  fold_right (fun s acc => match parse_float s, acc with Some q, Some l => Some (q :: l) | _, _ => None end) (Some []) ss.

Lemma conv_numh ak b : uses_numh ak = Some b -> forall h a, conv ak h a = numh_parse h a.
Proof. intros H h a. unfold conv. rewrite H. reflexivity. Qed.

Lemma eff_one_numh ak b h a : uses_numh ak = Some b -> ak <> KCount ->
  eff_one ak h (VA a) = (let '(pa, h') := numh_parse h a in do a' <- pa; Ok (a', h')).
Proof.
  intros H Hc. unfold eff_one. destruct ak; try contradiction; try discriminate; cbn [atom_of_val bind]; rewrite (conv_numh _ b H); reflexivity.
Qed.

(* an all-integer string column of an int-start aggregate accumulates exactly the integers *)
Theorem column_of_int_strings ak ss zs :
  uses_numh ak = Some true -> ss <> [] -> ints_of ss = Some zs ->
  eff_vals ak (numh_init true) (map (fun s => VA (AStr s)) ss) = Ok (map AInt zs, started_str true).
Proof.
  intros Hk Hne Hz. assert (Hc : ak <> KCount) by (intros ->; discriminate).
  destruct ss as [|s0 ss]; [contradiction|]. cbn [ints_of fold_right] in Hz.
  destruct (parse_int s0) as [z0|] eqn:E0; [|discriminate].
  fold (ints_of ss) in Hz. destruct (ints_of ss) as [zt|] eqn:Et; [|discriminate]. injection Hz as <-.
  cbn [map eff_vals]. rewrite (eff_one_numh ak true _ _ Hk Hc).
  unfold numh_parse at 1. cbn [numh_init h_done h_is_int h_is_str is_str_atom negb]. rewrite E0. cbn [bind fst snd].
  change {| h_is_int := true; h_done := true; h_is_str := true |} with (started_str true).
  assert (G : forall l zl, ints_of l = Some zl ->
             eff_vals ak (started_str true) (map (fun s => VA (AStr s)) l) = Ok (map AInt zl, started_str true)).
  { induction l as [|s l IH]; intros zl Hl.
    - injection Hl as <-. reflexivity.
    - cbn [ints_of fold_right] in Hl. destruct (parse_int s) as [z|] eqn:E; [|discriminate].
      fold (ints_of l) in Hl. destruct (ints_of l) as [zr|] eqn:Er; [|discriminate]. injection Hl as <-.
      cbn [map eff_vals]. rewrite (eff_one_numh ak true _ _ Hk Hc), (numh_int_mode_int s z E). cbn [bind fst snd].
      rewrite (IH zr eq_refl). reflexivity. }
  rewrite (G ss zt Et). reflexivity.
Qed.

(* a string column of a float-start aggregate (AVG, VARIANCE) accumulates the values as floats *)
Theorem column_of_float_strings ak ss qs :
  uses_numh ak = Some false -> ss <> [] -> floats_of ss = Some qs ->
  eff_vals ak (numh_init false) (map (fun s => VA (AStr s)) ss) = Ok (map AFlt qs, started_str false).
Proof.
  intros Hk Hne Hq. assert (Hc : ak <> KCount) by (intros ->; discriminate).
  assert (G : forall l ql, floats_of l = Some ql ->
             eff_vals ak (started_str false) (map (fun s => VA (AStr s)) l) = Ok (map AFlt ql, started_str false)).
  { induction l as [|s l IH]; intros ql Hl.
    - injection Hl as <-. reflexivity.
    - cbn [floats_of fold_right] in Hl. destruct (parse_float s) as [q|] eqn:E; [|discriminate].
      fold (floats_of l) in Hl. destruct (floats_of l) as [qr|] eqn:Er; [|discriminate]. injection Hl as <-.
      cbn [map eff_vals]. rewrite (eff_one_numh ak false _ _ Hk Hc), numh_float_mode. cbn [to_float]. rewrite E. cbn [bind fst snd].
      rewrite (IH qr eq_refl). reflexivity. }
  destruct ss as [|s0 ss]; [contradiction|]. cbn [floats_of fold_right] in Hq.
  destruct (parse_float s0) as [q0|] eqn:E0; [|discriminate].
  fold (floats_of ss) in Hq. destruct (floats_of ss) as [qt|] eqn:Et; [|discriminate]. injection Hq as <-.
  cbn [map eff_vals]. rewrite (eff_one_numh ak false _ _ Hk Hc).
  unfold numh_parse at 1. cbn [numh_init h_done h_is_int h_is_str is_str_atom negb to_float]. rewrite E0. cbn [bind fst snd].
  change {| h_is_int := false; h_done := true; h_is_str := true |} with (started_str false).
  rewrite (G ss qt Et). reflexivity.
Qed.

(* a column of native integers is accumulated as it is, whatever the aggregate *)
Theorem column_of_native_ints ak b zs :
  uses_numh ak = Some b -> zs <> [] ->
  eff_vals ak (numh_init b) (map (fun z => VA (AInt z)) zs) = Ok (map AInt zs, started_raw b).
Proof.
  intros Hk Hne. assert (Hc : ak <> KCount) by (intros ->; discriminate).
  assert (G : forall l, eff_vals ak (started_raw b) (map (fun z => VA (AInt z)) l) = Ok (map AInt l, started_raw b)).
  { induction l as [|z l IH]; [reflexivity|]. cbn [map eff_vals]. rewrite (eff_one_numh ak b _ _ Hk Hc), numh_raw_id. cbn [bind fst snd]. rewrite IH. reflexivity. }
  destruct zs as [|z0 zs]; [contradiction|]. cbn [map eff_vals]. rewrite (eff_one_numh ak b _ _ Hk Hc).
  unfold numh_parse at 1. cbn [numh_init h_done h_is_int h_is_str is_str_atom negb bind fst snd].
  change {| h_is_int := b; h_done := true; h_is_str := false |} with (started_raw b). rewrite G. reflexivity.
Qed.
