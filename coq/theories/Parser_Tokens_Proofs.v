(* Parser_Tokens_Proofs.v — C08_token_spelling, part 1: the generic layer.
   A query text is a head  SELECT|UPDATE sp+ T0  followed by clauses  sp+ KW sp+ T  (KW = the words of a statement
   glued by sp+).  This file characterises locate_statements / process_statements on such a text: every statement is
   found exactly where it was rendered and nowhere else, provided the clause texts are [quiet].
   Parser_Tokens2_Proofs.v builds the abstract query, the spelling choice and the C08 corollaries on top. *)
From RBQL Require Import Base Parser Parser_Spelling_Proofs.
Local Open Scope N_scope.

(* ------------------------------------------------------------------ spaces *)
Definition sps (n : nat) : str := repeat SP n.

Lemma drop_sp_sps : forall n r, drop_sp (sps n ++ r) = drop_sp r.
Proof. induction n as [|n IH]; intro r; [reflexivity|]. exact (IH r). Qed.

Lemma drop_sp_nonsp : forall c r, is_sp c = false -> drop_sp (c :: r) = c :: r.
Proof. intros c r H. unfold drop_sp. cbn [lstrip_by]. rewrite H. reflexivity. Qed.

Lemma drop_sp_app_nonsp : forall u r, forallb is_sp u = false -> drop_sp (u ++ r) = drop_sp u ++ r.
Proof.
  induction u as [|c u IH]; intros r H; [discriminate H|]. unfold drop_sp in *. cbn [app lstrip_by forallb] in *.
  destruct (is_sp c); [apply IH; exact H | reflexivity].
Qed.

Lemma drop_sp_app_allsp : forall u r, forallb is_sp u = true -> drop_sp (u ++ r) = drop_sp r.
Proof.
  induction u as [|c u IH]; intros r H; [reflexivity|]. unfold drop_sp in *. cbn [app lstrip_by forallb] in *.
  apply andb_true_iff in H. destruct H as [H1 H2]. rewrite H1. apply IH. exact H2.
Qed.

(* ------------------------------------------------------------------ keyword words: ASCII letters only *)
Definition letters (w : str) : bool := forallb is_alpha w.

Lemma alpha_bounds : forall k, is_alpha k = true -> 65 <= k /\ k <= 122.
Proof.
  intros k H. unfold is_alpha, is_upper, is_lower, in_range in H. apply orb_true_iff in H.
  destruct H as [H|H]; apply andb_true_iff in H; destruct H as [H1 H2]; apply N.leb_le in H1; apply N.leb_le in H2; lia.
Qed.

Lemma to_lower_alpha : forall k, is_alpha k = true -> 97 <= to_lower k /\ to_lower k <= 122.
Proof.
  intros k H. unfold to_lower. destruct (is_upper k) eqn:U.
  - unfold is_upper, in_range in U. apply andb_true_iff in U. destruct U as [U1 U2]. apply N.leb_le in U1. apply N.leb_le in U2. lia.
  - unfold is_alpha in H. rewrite U in H. cbn [orb] in H. unfold is_lower, in_range in H.
    apply andb_true_iff in H. destruct H as [H1 H2]. apply N.leb_le in H1. apply N.leb_le in H2. lia.
Qed.

Lemma ci_alpha_sp : forall fl k, is_alpha k = true -> ci_eq fl k SP = false.
Proof.
  intros fl k H. pose proof (to_lower_alpha k H) as B. unfold ci_eq.
  replace (to_lower SP) with 32 by reflexivity. rewrite (proj2 (N.eqb_neq (to_lower k) 32)) by lia.
  destruct fl; [|reflexivity]. apply fold_extra_ascii. reflexivity.
Qed.

Lemma eat_ci_app_sp : forall fl kw u rest, letters kw = true ->
  eat_ci fl kw (u ++ SP :: rest) = option_map (fun r => r ++ SP :: rest) (eat_ci fl kw u).
Proof.
  intros fl kw. induction kw as [|k kw IH]; intros u rest L; [reflexivity|].
  unfold letters in L. cbn [forallb] in L. apply andb_true_iff in L. destruct L as [L1 L2].
  destruct u as [|c u]; cbn [app eat_ci option_map].
  - rewrite (ci_alpha_sp fl k L1). reflexivity.
  - destruct (ci_eq fl k c); [apply IH; exact L2 | reflexivity].
Qed.

Lemma eat_ci_length : forall fl kw s r, eat_ci fl kw s = Some r -> length s = (length kw + length r)%nat.
Proof.
  intros fl kw. induction kw as [|k kw IH]; intros s r H; [injection H as <-; reflexivity|].
  destruct s as [|c s]; [discriminate H|]. cbn [eat_ci] in H. destruct (ci_eq fl k c); [|discriminate H].
  cbn [length]. rewrite (IH s r H). reflexivity.
Qed.

(* ------------------------------------------------------------------ locality of the keyword scanner *)
Definition all_letters (wl : list str) : bool := forallb letters wl.

(* the words w1 .. wi (i < n) of the statement cover the text u exactly up to its end: the scanner would go on
   reading the text after u (a statement straddling the end of a clause text) *)
Fixpoint straddle (fl : lang) (wl : list str) (u : str) : bool :=
  match wl with
  | [] => false
  | [w] => false
  | w :: r => match eat_ci fl w u with
              | Some u' => if forallb is_sp u' then true else straddle fl r (drop_sp u')
              | None => false
              end
  end.

Lemma eat_words_app_sp : forall fl wl u rest, all_letters wl = true -> straddle fl wl u = false ->
  eat_words fl wl (u ++ SP :: rest) = option_map (fun r => r ++ SP :: rest) (eat_words fl wl u).
Proof.
  intros fl wl. induction wl as [|w wl IH]; intros u rest L S; [reflexivity|].
  unfold all_letters in L. cbn [forallb] in L. apply andb_true_iff in L. destruct L as [L1 L2].
  destruct wl as [|w2 wl]; [cbn [eat_words]; apply eat_ci_app_sp; exact L1|].
  cbn [eat_words]. cbn [straddle] in S. rewrite (eat_ci_app_sp fl w u rest L1).
  destruct (eat_ci fl w u) as [u'|]; [|reflexivity]. cbn [option_map].
  destruct (forallb is_sp u') eqn:A; [discriminate S|].
  rewrite (drop_sp_app_nonsp u' (SP :: rest) A). apply IH; [exact L2 | exact S].
Qed.

Lemma kw_at_app_sp : forall fl wl u rest, all_letters wl = true -> straddle fl wl u = false ->
  kw_at fl wl (u ++ SP :: rest) = kw_at fl wl (u ++ [SP]).
Proof.
  intros fl wl u rest L S. unfold kw_at. rewrite (eat_words_app_sp fl wl u rest L S), (eat_words_app_sp fl wl u [] L S).
  destruct (eat_words fl wl u) as [x|]; [|reflexivity]. cbn [option_map].
  destruct x as [|c x]; cbn [app].
  - change (is_sp SP) with true. cbv iota. unfold consumed. rewrite !app_length. cbn [length]. f_equal. lia.
  - destruct (is_sp c); [|reflexivity]. unfold consumed. cbn [length]. rewrite !app_length. cbn [length]. f_equal. lia.
Qed.

(* no statement [wl] starts at the beginning of u, whatever follows u ++ [SP] *)
Definition safe (fl : lang) (wl : list str) (u : str) : bool :=
  match kw_at fl wl (u ++ [SP]) with Some _ => false | None => negb (straddle fl wl u) end.

Lemma safe_kw_at : forall fl wl u rest, all_letters wl = true -> safe fl wl u = true -> kw_at fl wl (u ++ SP :: rest) = None.
Proof.
  intros fl wl u rest L S. unfold safe in S. destruct (kw_at fl wl (u ++ [SP])) eqn:K; [discriminate S|].
  apply negb_true_iff in S. rewrite (kw_at_app_sp fl wl u rest L S). exact K.
Qed.

(* no statement [wl] starts after any space of s, whatever follows s ++ [SP] *)
Fixpoint quiet (fl : lang) (wl : list str) (s : str) : bool :=
  match s with
  | [] => true
  | c :: t => (if is_sp c then safe fl wl t else true) && quiet fl wl t
  end.

Lemma find_all_prev : forall fl wl s p p' pos k,
  find_all_from (kw_match fl wl) s (Some p) pos k = find_all_from (kw_match fl wl) s (Some p') pos k.
Proof. intros. apply find_all_rel; [apply case_rel_refl | exact I]. Qed.

Lemma quiet_find_all : forall fl wl X, all_letters wl = true -> quiet fl wl X = true -> forall p pos rest,
  find_all_from (kw_match fl wl) (X ++ SP :: rest) (Some p) pos 0
  = find_all_from (kw_match fl wl) (SP :: rest) (Some SP) (pos + length X) 0.
Proof.
  intros fl wl X L. induction X as [|c t IH]; intros Q p pos rest.
  - cbn [app length]. rewrite Nat.add_0_r. apply find_all_prev.
  - cbn [quiet] in Q. apply andb_true_iff in Q. destruct Q as [Q1 Q2].
    cbn [app find_all_from].
    assert (M : kw_match fl wl (Some p) (c :: t ++ SP :: rest) = None).
    { unfold kw_match. destruct (is_sp c); [|reflexivity]. rewrite (safe_kw_at fl wl t rest L Q1). reflexivity. }
    rewrite M. rewrite (IH Q2 c (S pos) rest). cbn [length].
    replace (S pos + length t)%nat with (pos + S (length t))%nat by lia. reflexivity.
Qed.

(* ------------------------------------------------------------------ a rendered keyword: words glued by >= 1 spaces *)
Fixpoint kwtext (ws : list str) (gs : list nat) : str :=
  match ws with
  | [] => []
  | [w] => w
  | w :: r => w ++ sps (S (hd O gs)) ++ kwtext r (tl gs)
  end.

Definition word_ok (w : str) : bool := nonempty w && letters w.
Definition words_ok (ws : list str) : bool := forallb word_ok ws.

Lemma alpha_is_sp : forall c, is_alpha c = true -> is_sp c = false.
Proof. exact alpha_not_sp. Qed.

Lemma kwtext_cons2 : forall w w2 r gs rest,
  kwtext (w :: w2 :: r) gs ++ SP :: rest = w ++ SP :: (sps (hd O gs) ++ kwtext (w2 :: r) (tl gs) ++ SP :: rest).
Proof.
  intros. change (kwtext (w :: w2 :: r) gs) with (w ++ sps (S (hd O gs)) ++ kwtext (w2 :: r) (tl gs)).
  change (sps (S (hd O gs))) with (SP :: sps (hd O gs)). rewrite <- app_assoc. cbn [app]. rewrite <- app_assoc. reflexivity.
Qed.

Lemma kwtext_head_nonsp : forall w r gs rest, words_ok (w :: r) = true ->
  exists c t, kwtext (w :: r) gs ++ rest = c :: t /\ is_sp c = false.
Proof.
  intros w r gs rest H. cbn [words_ok forallb] in H. apply andb_true_iff in H. destruct H as [H _].
  unfold word_ok in H. apply andb_true_iff in H. destruct H as [H1 H2]. destruct w as [|c w]; [discriminate H1|].
  unfold letters in H2. cbn [forallb] in H2. apply andb_true_iff in H2. destruct H2 as [H2 _].
  destruct r as [|w2 r]; cbn [kwtext app]; eexists; eexists; (split; [reflexivity | apply alpha_is_sp; exact H2]).
Qed.

Lemma kwtext_drop : forall w r gs rest, words_ok (w :: r) = true ->
  drop_sp (kwtext (w :: r) gs ++ rest) = kwtext (w :: r) gs ++ rest.
Proof.
  intros w r gs rest H. destruct (kwtext_head_nonsp w r gs rest H) as [c [t [E N]]]. rewrite E. apply drop_sp_nonsp. exact N.
Qed.

(* comparison of a statement's word list with the words of a rendered keyword: Some true = the statement matches
   exactly these words, Some false = it fails inside them, None = other cases (they do not occur between the
   statements of the language, by computation) *)
Fixpoint tok_cmp (fl : lang) (wl ws : list str) : option bool :=
  match wl, ws with
  | w' :: wl', W :: ws' =>
      match eat_ci fl w' W with
      | None => Some false
      | Some [] => match wl', ws' with
                   | [], [] => Some true
                   | _ :: _, _ :: _ => tok_cmp fl wl' ws'
                   | _, _ => None
                   end
      | Some _ => None
      end
  | _, _ => None
  end.

Lemma eat_words_head_none : forall fl w' wl' s, eat_ci fl w' s = None -> eat_words fl (w' :: wl') s = None.
Proof. intros fl w' wl' s H. cbn [eat_words]. rewrite H. destruct wl'; reflexivity. Qed.

Lemma eat_words_kwtext : forall fl wl ws gs rest b, all_letters wl = true -> words_ok ws = true ->
  tok_cmp fl wl ws = Some b ->
  eat_words fl wl (kwtext ws gs ++ SP :: rest) = if b then Some (SP :: rest) else None.
Proof.
  intros fl wl. induction wl as [|w' wl' IH]; intros ws gs rest b L WO T; [discriminate T|].
  destruct ws as [|W ws']; [discriminate T|]. cbn [tok_cmp] in T.
  unfold all_letters in L. cbn [forallb] in L. apply andb_true_iff in L. destruct L as [L1 L2].
  assert (WO' : words_ok ws' = true) by (cbn [words_ok forallb] in WO; apply andb_true_iff in WO; exact (proj2 WO)).
  assert (SH : exists r', kwtext (W :: ws') gs ++ SP :: rest = W ++ SP :: r').
  { destruct ws' as [|W2 ws'']; [exists rest; reflexivity|]. eexists. apply kwtext_cons2. }
  destruct (eat_ci fl w' W) as [[|x xs]|] eqn:E; [| discriminate T |].
  - destruct wl' as [|w2' wl'']; destruct ws' as [|W2 ws'']; try discriminate T.
    + injection T as <-. cbn [kwtext eat_words]. rewrite (eat_ci_app_sp fl w' W rest L1), E. reflexivity.
    + rewrite kwtext_cons2. cbn [eat_words]. rewrite (eat_ci_app_sp fl w' W _ L1), E. cbn [option_map app].
      change (SP :: sps (hd O gs) ++ kwtext (W2 :: ws'') (tl gs) ++ SP :: rest)
        with (sps (S (hd O gs)) ++ kwtext (W2 :: ws'') (tl gs) ++ SP :: rest).
      rewrite drop_sp_sps. rewrite (kwtext_drop W2 ws'' (tl gs) (SP :: rest) WO').
      apply (IH (W2 :: ws'') (tl gs) rest b L2 WO' T).
  - injection T as <-. destruct SH as [r' SH]. rewrite SH. apply eat_words_head_none.
    rewrite (eat_ci_app_sp fl w' W r' L1), E. reflexivity.
Qed.

Lemma kw_at_kwtext : forall fl wl ws gs rest b, all_letters wl = true -> words_ok ws = true ->
  tok_cmp fl wl ws = Some b ->
  kw_at fl wl (kwtext ws gs ++ SP :: rest) = if b then Some (length (kwtext ws gs)) else None.
Proof.
  intros fl wl ws gs rest b L WO T. unfold kw_at. rewrite (eat_words_kwtext fl wl ws gs rest b L WO T).
  destruct b; [|reflexivity]. change (is_sp SP) with true. cbv iota. unfold consumed. rewrite app_length. f_equal. lia.
Qed.

(* ------------------------------------------------------------------ stepping lemmas for the finditer loop *)
Lemma words_ok_letters : forall ws, words_ok ws = true -> all_letters ws = true.
Proof.
  induction ws as [|w ws IH]; intro H; [reflexivity|]. cbn [words_ok forallb] in H. apply andb_true_iff in H.
  destruct H as [H1 H2]. unfold word_ok in H1. apply andb_true_iff in H1. unfold all_letters. cbn [forallb].
  rewrite (proj2 H1). exact (IH H2).
Qed.

Lemma kw_at_sp_head : forall fl wl s, words_ok wl = true -> wl <> [] -> kw_at fl wl (SP :: s) = None.
Proof.
  intros fl wl s H N. destruct wl as [|w wl]; [contradiction|]. cbn [words_ok forallb] in H. apply andb_true_iff in H.
  destruct H as [H _]. unfold word_ok in H. apply andb_true_iff in H. destruct H as [H1 H2].
  destruct w as [|k w]; [discriminate H1|]. unfold letters in H2. cbn [forallb] in H2. apply andb_true_iff in H2.
  unfold kw_at. rewrite eat_words_head_none; [reflexivity|]. cbn [eat_ci]. rewrite (ci_alpha_sp fl k (proj1 H2)). reflexivity.
Qed.

Section Steps.
  Variable fl : lang.
  Variable wl : list str.
  Hypothesis WL : words_ok wl = true.
  Hypothesis WN : wl <> [].
  Let m := kw_match fl wl.

  Lemma fa_sp_none : forall s p pos, kw_at fl wl s = None ->
    find_all_from m (SP :: s) (Some p) pos 0 = find_all_from m s (Some SP) (S pos) 0.
  Proof.
    intros s p pos H. cbn [find_all_from]. unfold m at 1. unfold kw_match. change (is_sp SP) with true. cbv iota.
    rewrite H. reflexivity.
  Qed.

  Lemma fa_sp_hit : forall s p pos n, kw_at fl wl s = Some n ->
    find_all_from m (SP :: s) (Some p) pos 0 = (pos, (pos + S n)%nat, tt) :: find_all_from m s (Some SP) (S pos) n.
  Proof.
    intros s p pos n H. cbn [find_all_from]. unfold m at 1. unfold kw_match. change (is_sp SP) with true. cbv iota.
    rewrite H. cbn [Nat.sub]. rewrite Nat.sub_0_r. reflexivity.
  Qed.

  Lemma fa_skip : forall a s p pos, 
    find_all_from m (a ++ s) (Some p) pos (length a) = find_all_from m s (Some SP) (pos + length a)%nat 0.
  Proof.
    induction a as [|c a IH]; intros s p pos.
    - cbn [app length]. rewrite Nat.add_0_r. apply find_all_prev.
    - cbn [app length find_all_from]. rewrite IH. replace (S pos + length a)%nat with (pos + S (length a))%nat by lia. reflexivity.
  Qed.

  Definition nosp (a : str) : bool := forallb (fun c => negb (is_sp c)) a.

  Lemma fa_nonsp : forall a s p pos, nosp a = true ->
    find_all_from m (a ++ s) (Some p) pos 0 = find_all_from m s (Some SP) (pos + length a)%nat 0.
  Proof.
    induction a as [|c a IH]; intros s p pos H.
    - cbn [app length]. rewrite Nat.add_0_r. apply find_all_prev.
    - unfold nosp in H. cbn [forallb] in H. apply andb_true_iff in H. destruct H as [H1 H2]. apply negb_true_iff in H1.
      cbn [app length find_all_from]. unfold m at 1. unfold kw_match. rewrite H1.
      rewrite (IH s c (S pos) H2). replace (S pos + length a)%nat with (pos + S (length a))%nat by lia. reflexivity.
  Qed.

  Lemma fa_sps : forall j s p pos,
    find_all_from m (sps j ++ SP :: s) (Some p) pos 0 = find_all_from m (SP :: s) (Some SP) (pos + j)%nat 0.
  Proof.
    induction j as [|j IH]; intros s p pos.
    - cbn [sps repeat app]. rewrite Nat.add_0_r. apply find_all_prev.
    - change (sps (S j) ++ SP :: s) with (SP :: (sps j ++ SP :: s)). rewrite fa_sp_none.
      + rewrite IH. replace (S pos + j)%nat with (pos + S j)%nat by lia. reflexivity.
      + destruct j; apply kw_at_sp_head; assumption.
  Qed.
End Steps.

Lemma letters_nosp : forall w, letters w = true -> nosp w = true.
Proof.
  induction w as [|c w IH]; intro H; [reflexivity|]. unfold letters in H. cbn [forallb] in H. apply andb_true_iff in H.
  destruct H as [H1 H2]. unfold nosp. cbn [forallb]. rewrite (alpha_is_sp c H1). exact (IH H2).
Qed.

Lemma sps_comm : forall g (x : str), SP :: sps g ++ x = sps g ++ SP :: x.
Proof. induction g as [|g IH]; intro x; [reflexivity|]. cbn [sps repeat app] in *. rewrite <- IH. reflexivity. Qed.

Lemma sps_length : forall n, length (sps n) = n.
Proof. intro n. apply repeat_length. Qed.

Lemma kwtext_length2 : forall w w2 r gs,
  length (kwtext (w :: w2 :: r) gs) = (length w + S (hd O gs) + length (kwtext (w2 :: r) (tl gs)))%nat.
Proof.
  intros. change (kwtext (w :: w2 :: r) gs) with (w ++ sps (S (hd O gs)) ++ kwtext (w2 :: r) (tl gs)).
  rewrite !app_length, sps_length. lia.
Qed.

(* the statement wl matches at no word of the rendered keyword ws *)
Fixpoint nohit (fl : lang) (wl ws : list str) : bool :=
  match ws with
  | [] => true
  | _ :: r => match tok_cmp fl wl ws with Some false => nohit fl wl r | _ => false end
  end.

Section Regions.
  Variable fl : lang.
  Variable wl : list str.
  Hypothesis WL : words_ok wl = true.
  Hypothesis WN : wl <> [].
  Let m := kw_match fl wl.
  Let AL := words_ok_letters wl WL.

  Lemma region_nohit : forall ws, words_ok ws = true -> ws <> [] -> nohit fl wl ws = true ->
    forall j gs rest p pos,
    find_all_from m (sps j ++ SP :: kwtext ws gs ++ SP :: rest) (Some p) pos 0
    = find_all_from m (SP :: rest) (Some SP) (pos + j + 1 + length (kwtext ws gs))%nat 0.
  Proof.
    induction ws as [|W ws' IH]; intros WO NE NH j gs rest p pos; [contradiction|].
    cbn [nohit] in NH. destruct (tok_cmp fl wl (W :: ws')) as [[|]|] eqn:T; try discriminate NH.
    unfold m. rewrite (fa_sps fl wl WL WN). rewrite (fa_sp_none fl wl).
    2:{ rewrite (kw_at_kwtext fl wl (W :: ws') gs rest false AL WO T). reflexivity. }
    assert (LW : nosp W = true).
    { apply letters_nosp. cbn [words_ok forallb] in WO. apply andb_true_iff in WO. destruct WO as [WO _].
      unfold word_ok in WO. apply andb_true_iff in WO. exact (proj2 WO). }
    destruct ws' as [|W2 ws''].
    - cbn [kwtext]. rewrite (fa_nonsp fl wl W _ _ _ LW). f_equal. lia.
    - rewrite kwtext_cons2. rewrite (fa_nonsp fl wl W _ _ _ LW). rewrite sps_comm.
      assert (WO' : words_ok (W2 :: ws'') = true) by (cbn [words_ok forallb] in WO; apply andb_true_iff in WO; exact (proj2 WO)).
      fold m. rewrite (IH WO' ltac:(discriminate) NH). rewrite kwtext_length2. f_equal. lia.
  Qed.

  Lemma region_hit : forall ws, words_ok ws = true -> tok_cmp fl wl ws = Some true ->
    forall j gs rest p pos,
    find_all_from m (sps j ++ SP :: kwtext ws gs ++ SP :: rest) (Some p) pos 0
    = ((pos + j)%nat, (pos + j + S (length (kwtext ws gs)))%nat, tt)
      :: find_all_from m (SP :: rest) (Some SP) (pos + j + 1 + length (kwtext ws gs))%nat 0.
  Proof.
    intros ws WO T j gs rest p pos. unfold m. rewrite (fa_sps fl wl WL WN).
    rewrite (fa_sp_hit fl wl _ _ _ (length (kwtext ws gs))).
    2:{ rewrite (kw_at_kwtext fl wl ws gs rest true AL WO T). reflexivity. }
    rewrite (fa_skip fl wl). f_equal. f_equal. lia.
  Qed.
End Regions.

(* ------------------------------------------------------------------ the end of the text *)
Lemma safe_kw_at_end : forall fl wl u, all_letters wl = true -> safe fl wl u = true -> kw_at fl wl u = None.
Proof.
  intros fl wl u L S. unfold safe in S. destruct (kw_at fl wl (u ++ [SP])) eqn:K; [discriminate S|].
  apply negb_true_iff in S. unfold kw_at in *. rewrite (eat_words_app_sp fl wl u [] L S) in K.
  destruct (eat_words fl wl u) as [[|c x]|]; try reflexivity. cbn [option_map app] in K.
  destruct (is_sp c); [discriminate K | reflexivity].
Qed.

Lemma quiet_find_all_end : forall fl wl X, all_letters wl = true -> quiet fl wl X = true -> forall p pos,
  find_all_from (kw_match fl wl) X (Some p) pos 0 = [].
Proof.
  intros fl wl X L. induction X as [|c t IH]; intros Q p pos; [reflexivity|].
  cbn [quiet] in Q. apply andb_true_iff in Q. destruct Q as [Q1 Q2]. cbn [find_all_from].
  assert (M : kw_match fl wl (Some p) (c :: t) = None).
  { unfold kw_match. destruct (is_sp c); [|reflexivity]. rewrite (safe_kw_at_end fl wl t L Q1). reflexivity. }
  rewrite M. apply IH. exact Q2.
Qed.

(* a tail is the end of the text or starts with a space *)
Definition is_tail (t : str) : Prop := t = [] \/ exists r, t = SP :: r.

Lemma quiet_find_all_tail : forall fl wl X tail, all_letters wl = true -> quiet fl wl X = true -> is_tail tail ->
  forall p pos,
  find_all_from (kw_match fl wl) (X ++ tail) (Some p) pos 0
  = find_all_from (kw_match fl wl) tail (Some SP) (pos + length X) 0.
Proof.
  intros fl wl X tail L Q [->|[r ->]] p pos.
  - rewrite app_nil_r. apply quiet_find_all_end; assumption.
  - apply quiet_find_all; assumption.
Qed.

(* ------------------------------------------------------------------ the head: one word at the start of the text *)
Section Head.
  Variable fl : lang.
  Variable wl : list str.
  Hypothesis WL : words_ok wl = true.
  Hypothesis WN : wl <> [].
  Let m := kw_match fl wl.
  Let AL := words_ok_letters wl WL.

  Lemma head_hit : forall W rest, word_ok W = true -> tok_cmp fl wl [W] = Some true ->
    find_all m (W ++ SP :: rest) = (0%nat, length W, tt) :: find_all_from m (SP :: rest) (Some SP) (length W) 0.
  Proof.
    intros W rest WO T. assert (WO1 : words_ok [W] = true) by (cbn [words_ok forallb]; rewrite WO; reflexivity).
    pose proof (kw_at_kwtext fl wl [W] [] rest true AL WO1 T) as K. cbn [kwtext] in K.
    destruct W as [|c W]; [discriminate WO|]. unfold find_all. cbn [app find_all_from] in *.
    unfold m at 1. unfold kw_match. rewrite K. cbn [length Nat.sub Nat.add]. rewrite Nat.sub_0_r.
    unfold m. rewrite (fa_skip fl wl). reflexivity.
  Qed.

  Lemma head_nohit : forall W rest, word_ok W = true -> tok_cmp fl wl [W] = Some false ->
    find_all m (W ++ SP :: rest) = find_all_from m (SP :: rest) (Some SP) (length W) 0.
  Proof.
    intros W rest WO T. assert (WO1 : words_ok [W] = true) by (cbn [words_ok forallb]; rewrite WO; reflexivity).
    pose proof (kw_at_kwtext fl wl [W] [] rest false AL WO1 T) as K. cbn [kwtext] in K.
    unfold word_ok in WO. apply andb_true_iff in WO. destruct WO as [W1 W2]. pose proof (letters_nosp W W2) as NS.
    destruct W as [|c W]; [discriminate W1|]. unfold find_all. cbn [app find_all_from] in *.
    unfold m at 1. unfold kw_match. rewrite K. unfold nosp in NS. cbn [forallb] in NS. apply andb_true_iff in NS.
    destruct NS as [N1 N2]. apply negb_true_iff in N1. rewrite N1.
    unfold m. rewrite (fa_nonsp fl wl W _ _ _ N2). reflexivity.
  Qed.
End Head.
