(* Reader_Proofs.v — proofs about Reader.v (Python pull reader).
   Part 1: the raw line layer delivers exactly split_lines of the text, for every partition and chunk size (C12_lines).
   Part 2: the iterator code is generic in the raw line source: simulation between two sources delivering the same lines,
           hence run_py = the same iterator over the list of physical lines (C12_records, first half).
   Part 3: the iterator over a list of lines = the declarative spec records_of_lines (C12_records, second half; C12_rfc_balance). *)
From RBQL Require Import Base Lines Reader.

(* ------------------------------------------------------------------ Part 1: raw layer *)

Definition sep_tail (sp : sep) (a : str) : Prop := ~ (sp = SCR /\ a = []).

Lemma extract_app_some b sp a buf m :
  extract buf = Some (b, sp, a) -> sep_tail sp a -> extract (buf ++ m) = Some (b, sp, a ++ m).
Proof.
  revert b sp a. induction buf as [|c t IH]; intros b sp a H Hn; cbn in *; [discriminate|].
  destruct (N.eqb c LF) eqn:E1.
  - inversion H; subst. reflexivity.
  - destruct (N.eqb c CR) eqn:E2.
    + destruct t as [|c2 t2].
      * inversion H; subst. exfalso. apply Hn. split; reflexivity.
      * cbn. destruct (N.eqb c2 LF); inversion H; subst; reflexivity.
    + destruct (extract t) as [[[b' s'] a']|] eqn:Et; [|discriminate].
      inversion H; subst. rewrite (IH _ _ _ eq_refl Hn). reflexivity.
Qed.

Lemma extract_app_cr b buf m :
  extract buf = Some (b, SCR, []) ->
  extract (buf ++ m) = match m with
                       | c :: m' => if N.eqb c LF then Some (b, SCRLF, m') else Some (b, SCR, m)
                       | [] => Some (b, SCR, [])
                       end.
Proof.
  revert b. induction buf as [|c t IH]; intros b H; cbn in *; [discriminate|].
  destruct (N.eqb c LF) eqn:E1.
  - inversion H.
  - destruct (N.eqb c CR) eqn:E2.
    + destruct t as [|c2 t2].
      * inversion H; subst. cbn. destruct m as [|c0 m']; reflexivity.
      * destruct (N.eqb c2 LF); inversion H.
    + destruct (extract t) as [[[b' s'] a']|] eqn:Et; [|discriminate].
      inversion H; subst. rewrite (IH _ eq_refl). destruct m as [|c0 m']; [reflexivity|].
      destruct (N.eqb c0 LF); reflexivity.
Qed.

Lemma extract_app_none buf m :
  extract buf = None ->
  extract (buf ++ m) = match extract m with Some (b, sp, a) => Some (buf ++ b, sp, a) | None => None end.
Proof.
  induction buf as [|c t IH]; intros H; cbn in *.
  - destruct (extract m) as [[[b s] a]|]; reflexivity.
  - destruct (N.eqb c LF); [discriminate|]. destruct (N.eqb c CR).
    + destruct t as [|c2 t2]; [discriminate|]. destruct (N.eqb c2 LF); discriminate.
    + destruct (extract t) as [[[b' s'] a']|] eqn:Et; [discriminate|].
      rewrite (IH eq_refl). destruct (extract m) as [[[b s] a]|]; reflexivity.
Qed.

Lemma has_newline_extract d : has_newline d = false <-> extract d = None.
Proof.
  induction d as [|c t IH]; cbn; [tauto|].
  destruct (N.eqb c LF); cbn; [split; discriminate|].
  destruct (N.eqb c CR); cbn.
  - split; [discriminate|]. destruct t as [|c2 t2]; [discriminate|]. destruct (N.eqb c2 LF); discriminate.
  - rewrite IH. destruct (extract t) as [[[b s] a]|]; split; congruence.
Qed.

Lemma has_newline_app x y : has_newline (x ++ y) = has_newline x || has_newline y.
Proof. unfold has_newline. apply existsb_app. Qed.

Lemma extract_shorter t : forall b sp a, extract t = Some (b, sp, a) -> (length a < length t)%nat.
Proof.
  induction t as [|c t IH]; intros b sp a E; cbn in E; [discriminate|].
  destruct (N.eqb c LF); [inversion E; subst; cbn; lia|].
  destruct (N.eqb c CR).
  - destruct t as [|c2 t2]; [inversion E; subst; cbn; lia|].
    destruct (N.eqb c2 LF); inversion E; subst; cbn; lia.
  - destruct (extract t) as [[[b' s'] a']|] eqn:Et; [|discriminate]. inversion E; subst.
    specialize (IH _ _ _ eq_refl). cbn. lia.
Qed.

(* one step of the declarative line splitting *)
Definition next (t : str) : option (str * str) :=
  match extract t with
  | Some (b, _, a) => Some (b, a)
  | None => match t with [] => None | _ => Some (t, []) end
  end.

Lemma next_shorter t b rest : next t = Some (b, rest) -> (length rest < length t)%nat.
Proof.
  unfold next. destruct (extract t) as [[[b' s] a]|] eqn:E.
  - intros H; inversion H; subst. eapply extract_shorter; eassumption.
  - destruct t; [discriminate|]. intros H; inversion H; subst. cbn. lia.
Qed.

Lemma split_lines_fuel_next f t :
  split_lines_fuel (S f) t = match next t with None => [] | Some (b, rest) => b :: split_lines_fuel f rest end.
Proof.
  cbn. unfold next. destruct (extract t) as [[[b s] a]|]; [reflexivity|].
  destruct t; [reflexivity|]. destruct f; reflexivity.
Qed.

Lemma split_lines_fuel_enough : forall f1 f2 t,
  (length t < f1)%nat -> (length t < f2)%nat -> split_lines_fuel f1 t = split_lines_fuel f2 t.
Proof.
  induction f1 as [|f1 IH]; intros f2 t H1 H2; [lia|].
  destruct f2 as [|f2]; [lia|]. rewrite !split_lines_fuel_next.
  destruct (next t) as [[b rest]|] eqn:N; [|reflexivity].
  pose proof (next_shorter _ _ _ N). f_equal. apply IH; lia.
Qed.

Lemma split_lines_next t :
  split_lines t = match next t with None => [] | Some (b, rest) => b :: split_lines rest end.
Proof.
  unfold split_lines. rewrite split_lines_fuel_next.
  destruct (next t) as [[b rest]|] eqn:N; [|reflexivity].
  pose proof (next_shorter _ _ _ N). f_equal. apply split_lines_fuel_enough; lia.
Qed.

Lemma split_lines_nil : split_lines [] = [].
Proof. reflexivity. Qed.

Definition text (s : pyraw) : str := buffer s ++ concat (pieces s).
Definition nonempty (p : str) : Prop := p <> [].
Definition Inv (s : pyraw) : Prop := Forall nonempty (pieces s) /\ (exhausted s = true -> pieces s = []).

Lemma read_spec cs ps chunk ps' :
  (1 <= cs)%nat -> Forall nonempty ps -> read cs ps = (chunk, ps') ->
  chunk ++ concat ps' = concat ps /\ Forall nonempty ps' /\ (chunk = [] -> ps = [] /\ ps' = []) /\
  (length chunk <= cs)%nat.
Proof.
  intros Hcs Hne H. destruct ps as [|p r]; cbn in H.
  - inversion H; subst. cbn. split; [reflexivity|]. split; [constructor|]. split; [intros _; split; reflexivity|lia].
  - inversion Hne as [|? ? Hp Hr]; subst.
    destruct (length p <=? cs)%nat eqn:E.
    + inversion H; subst. cbn. apply Nat.leb_le in E.
      split; [reflexivity|]. split; [exact Hr|]. split; [|exact E].
      intros Hc. exfalso. apply Hp. exact Hc.
    + inversion H; subst. cbn. apply Nat.leb_gt in E. rewrite app_assoc, firstn_skipn.
      split; [reflexivity|]. split; [|split].
      * constructor; [|exact Hr]. intros C. apply (f_equal (@length _)) in C. rewrite skipn_length in C. cbn in C. lia.
      * intros C. apply (f_equal (@length _)) in C. rewrite firstn_length in C. cbn in C. lia.
      * rewrite firstn_length. lia.
Qed.

Lemma read_until_spec fuel : forall cs acc ps more ex ps',
  (1 <= cs)%nat -> Forall nonempty ps -> (length (concat ps) < fuel)%nat -> has_newline acc = false ->
  read_until fuel cs acc ps = (more, ex, ps') ->
  more ++ concat ps' = acc ++ concat ps /\ Forall nonempty ps' /\
  (ex = true -> ps' = [] /\ has_newline more = false) /\ (ex = false -> has_newline more = true).
Proof.
  induction fuel as [|f IH]; intros cs acc ps more ex ps' Hcs Hne Hf Hacc H; [lia|].
  cbn in H. destruct (read cs ps) as [chunk ps1] eqn:Er.
  destruct (read_spec _ _ _ _ Hcs Hne Er) as (Hcat & Hne1 & Hemp & _).
  destruct chunk as [|c ct].
  - inversion H; subst. destruct (Hemp eq_refl) as [-> ->]. cbn.
    split; [reflexivity|]. split; [constructor|]. split; [intros _; split; [reflexivity|exact Hacc]|discriminate].
  - destruct (has_newline (c :: ct)) eqn:Enl.
    + inversion H; subst. rewrite <- Hcat, app_assoc.
      split; [reflexivity|]. split; [exact Hne1|]. split; [discriminate|].
      intros _. rewrite has_newline_app, Enl. apply orb_true_r.
    + assert (Hlen : (length (concat ps1) < f)%nat).
      { apply (f_equal (@length _)) in Hcat. rewrite app_length in Hcat. cbn in Hcat. lia. }
      assert (Hacc' : has_newline (acc ++ c :: ct) = false) by (rewrite has_newline_app, Hacc, Enl; reflexivity).
      destruct (IH _ _ _ _ _ _ Hcs Hne1 Hlen Hacc' H) as (A & B & C & D).
      split; [rewrite A, <- Hcat, app_assoc; reflexivity|]. split; [exact B|]. split; [exact C|exact D].
Qed.

Lemma from_buffer_none s : extract (buffer s) = None -> get_row_from_buffer s = None.
Proof. unfold get_row_from_buffer. intros ->. reflexivity. Qed.

Lemma from_buffer_some s b sp a :
  Inv s -> extract (buffer s) = Some (b, sp, a) ->
  exists s', get_row_from_buffer s = Some (b, s') /\ next (text s) = Some (b, text s') /\ Inv s'.
Proof.
  intros [Hne Hex] E. unfold get_row_from_buffer. rewrite E.
  assert (Hgen : sep_tail sp a ->
     exists s', Some (b, {| buffer := a; exhausted := exhausted s; detected_line_separator := sp; pieces := pieces s |}) = Some (b, s') /\
                next (text s) = Some (b, text s') /\ Inv s').
  { intros Ht. eexists. split; [reflexivity|]. split.
    - unfold next, text. cbn. rewrite (extract_app_some _ _ _ _ _ E Ht). reflexivity.
    - split; assumption. }
  destruct sp; try (apply Hgen; intros [C _]; discriminate).
  destruct a as [|a0 a']; [|apply Hgen; intros [_ C]; discriminate].
  clear Hgen. destruct (read 1 (pieces s)) as [one ps'] eqn:Er.
  destruct (read_spec 1 _ _ _ (le_n 1) Hne Er) as (Hcat & Hne' & Hemp & Hlen).
  assert (Hinv : forall bf sp', Inv {| buffer := bf; exhausted := exhausted s; detected_line_separator := sp'; pieces := ps' |}).
  { intros bf sp'. split; [exact Hne'|]. cbn. intros Hx. specialize (Hex Hx). rewrite Hex in Er. cbn in Er. inversion Er. reflexivity. }
  assert (Hnext : next (text s) = match one ++ concat ps' with
                                  | c :: m' => if N.eqb c LF then Some (b, m') else Some (b, one ++ concat ps')
                                  | [] => Some (b, []) end).
  { unfold next, text. rewrite <- Hcat, (extract_app_cr _ _ _ E).
    destruct (one ++ concat ps') as [|c m']; [reflexivity|]. destruct (N.eqb c LF); reflexivity. }
  destruct one as [|c [|c' ct]].
  - destruct (Hemp eq_refl) as [_ ->]. eexists. split; [reflexivity|]. split; [|apply Hinv].
    rewrite Hnext. reflexivity.
  - destruct (N.eqb c LF) eqn:Ec.
    + eexists. split; [reflexivity|]. split; [|apply Hinv]. rewrite Hnext. cbn. rewrite Ec. reflexivity.
    + eexists. split; [reflexivity|]. split; [|apply Hinv]. rewrite Hnext. cbn. rewrite Ec. reflexivity.
  - cbn in Hlen. lia.
Qed.

(* the raw layer delivers the next physical line of the undelivered text; at the end it says None and stays at the end *)
Lemma raw_row_py_spec cs s :
  (1 <= cs)%nat -> Inv s ->
  exists s', Inv s' /\
  match next (text s) with
  | None => raw_row_py cs s = (None, s') /\ text s' = []
  | Some (b, rest) => raw_row_py cs s = (Some b, s') /\ text s' = rest
  end.
Proof.
  intros Hcs HI. unfold raw_row_py.
  destruct (extract (buffer s)) as [[[b sp] a]|] eqn:E.
  - destruct (from_buffer_some _ _ _ _ HI E) as (s' & G & N & I'). rewrite G, N. exists s'. auto.
  - rewrite (from_buffer_none _ E).
    assert (Hfinal : forall s1, Inv s1 -> text s1 = text s -> pieces s1 = [] -> extract (buffer s1) = None ->
       exists s', Inv s' /\
       match next (text s) with
       | None => match buffer s1 with [] => (None, s1)
                 | _ => (Some (buffer s1), {| buffer := []; exhausted := exhausted s1; detected_line_separator := detected_line_separator s1; pieces := pieces s1 |}) end = (None, s')
                 /\ text s' = []
       | Some (b, rest) => match buffer s1 with [] => (None, s1)
                 | _ => (Some (buffer s1), {| buffer := []; exhausted := exhausted s1; detected_line_separator := detected_line_separator s1; pieces := pieces s1 |}) end = (Some b, s')
                 /\ text s' = rest
       end).
    { intros s1 I1 Ht Hp E1.
      assert (Hts : text s1 = buffer s1) by (unfold text; rewrite Hp; cbn; apply app_nil_r).
      rewrite <- Ht, Hts. unfold next. rewrite E1. destruct (buffer s1) as [|c0 t0] eqn:Eb.
      - exists s1. split; [exact I1|]. split; [reflexivity|]. exact Hts.
      - eexists. split; [|split; [reflexivity|unfold text; cbn; rewrite Hp; reflexivity]].
        split; cbn; rewrite Hp; [constructor|reflexivity]. }
    unfold read_until_found. destruct (exhausted s) eqn:Ex.
    + rewrite (from_buffer_none _ E). destruct HI as [Hne Hex]. apply Hfinal; auto. split; auto.
    + destruct (read_until (S (length (concat (pieces s)))) cs [] (pieces s)) as [[more ex] ps'] eqn:Eru.
      destruct HI as [Hne Hex].
      destruct (read_until_spec _ cs [] _ _ _ _ Hcs Hne (Nat.lt_succ_diag_r _) (eq_refl : has_newline [] = false) Eru) as (Hcat & Hne' & Htrue & Hfalse).
      cbn [app] in Hcat.
      set (s1 := {| buffer := buffer s ++ more; exhausted := ex; detected_line_separator := detected_line_separator s; pieces := ps' |}).
      assert (I1 : Inv s1). { split; [exact Hne'|]. cbn. intros ->. apply Htrue. reflexivity. }
      assert (T1 : text s1 = text s). { unfold text, s1. cbn. rewrite <- app_assoc, Hcat. reflexivity. }
      destruct ex.
      * destruct (Htrue eq_refl) as [Hps Hnl]. apply has_newline_extract in Hnl.
        assert (E1 : extract (buffer s1) = None). { cbn. rewrite (extract_app_none _ _ E), Hnl. reflexivity. }
        rewrite (from_buffer_none _ E1). apply Hfinal; auto.
      * specialize (Hfalse eq_refl). destruct (extract more) as [[[b0 sp0] a0]|] eqn:Em.
        2:{ apply has_newline_extract in Em. congruence. }
        assert (E1 : extract (buffer s1) = Some (buffer s ++ b0, sp0, a0)). { cbn. rewrite (extract_app_none _ _ E), Em. reflexivity. }
        destruct (from_buffer_some _ _ _ _ I1 E1) as (s' & G & N & I'). rewrite G. rewrite T1 in N. rewrite N. exists s'. auto.
Qed.

Lemma raw_rows_py_spec cs : forall f1 s,
  (1 <= cs)%nat -> Inv s -> (length (text s) < f1)%nat ->
  raw_rows_py f1 cs s = split_lines (text s).
Proof.
  induction f1 as [|f1 IH]; intros s Hcs HI H1; [lia|].
  rewrite split_lines_next. cbn [raw_rows_py].
  destruct (raw_row_py_spec cs s Hcs HI) as (s' & I' & G).
  destruct (next (text s)) as [[b rest]|] eqn:N.
  - destruct G as [-> <-]. f_equal. pose proof (next_shorter _ _ _ N). apply IH; auto; lia.
  - destruct G as [-> _]. reflexivity.
Qed.

Lemma Inv_mk ps : Forall nonempty ps -> Inv (mk_pyraw ps).
Proof. intros H. split; [exact H|discriminate]. Qed.

Theorem raw_lines cs ps :
  (1 <= cs)%nat -> Forall nonempty ps -> raw_rows_py (py_fuel ps) cs (mk_pyraw ps) = split_lines (concat ps).
Proof.
  intros Hcs Hne. apply (raw_rows_py_spec cs (py_fuel ps) (mk_pyraw ps) Hcs (Inv_mk _ Hne)).
  unfold text, py_fuel. cbn. lia.
Qed.

(* ------------------------------------------------------------------ Part 2: the iterator does not care where its lines come from *)

Definition meta {R} (s : st R) :=
  (NL s, NR s, utf8_bom_removed s, first_defective_line s, fields_info s, has_header s, first_record s,
   first_record_should_be_emitted s).

Section Sim.
  Variables R1 R2 : Type.
  Variable rr1 : R1 -> option str * R1.
  Variable rr2 : R2 -> option str * R2.
  Variable split : str -> list str * bool.
  Variable rel : R1 -> R2 -> Prop.
  Hypothesis rel_step : forall r1 r2, rel r1 r2 ->
    fst (rr1 r1) = fst (rr2 r2) /\ rel (snd (rr1 r1)) (snd (rr2 r2)).

  Definition srel (s1 : st R1) (s2 : st R2) : Prop := rel (raw s1) (raw s2) /\ meta s1 = meta s2.
  Definition sim2 {A} (x : A * st R1) (y : A * st R2) : Prop := fst x = fst y /\ srel (snd x) (snd y).

  Ltac open_srel H :=
    let Hr := fresh "Hr" in let Hm := fresh "Hm" in
    destruct H as [Hr Hm]; unfold meta in Hm; cbn in Hm.

  Lemma sim_get_row_simple c s1 s2 :
    srel s1 s2 -> sim2 (get_row_simple R1 rr1 c s1) (get_row_simple R2 rr2 c s2).
  Proof.
    intros H. destruct s1 as [r1 nl1 nr1 b1 f1 i1 h1 fr1 e1], s2 as [r2 nl2 nr2 b2 f2 i2 h2 fr2 e2].
    destruct H as [Hr Hm]. unfold meta in Hm. cbn in Hr, Hm. inversion Hm; subst. clear Hm.
    unfold get_row_simple. cbn [raw NL utf8_bom_removed].
    destruct (rel_step _ _ Hr) as [Ho Hr'].
    destruct (rr1 r1) as [o1 r1'], (rr2 r2) as [o2 r2']. cbn in Ho, Hr'. subst o2.
    destruct o1 as [row|].
    - destruct (Nat.eqb (S nl2) 1).
      + destruct (str_eqb (remove_utf8_bom row (c_enc c)) row); (split; [reflexivity|split; [exact Hr'|reflexivity]]).
      + split; [reflexivity|split; [exact Hr'|reflexivity]].
    - split; [reflexivity|split; [exact Hr'|reflexivity]].
  Qed.

  Lemma sim_rfc_loop c : forall fuel s1 s2 rb,
    srel s1 s2 -> sim2 (rfc_loop R1 rr1 fuel c s1 rb) (rfc_loop R2 rr2 fuel c s2 rb).
  Proof.
    induction fuel as [|f IH]; intros s1 s2 rb H; cbn [rfc_loop].
    - split; [reflexivity|exact H].
    - destruct (sim_get_row_simple c _ _ H) as [Ho Hs].
      destruct (get_row_simple R1 rr1 c s1) as [o1 s1'], (get_row_simple R2 rr2 c s2) as [o2 s2']. cbn in Ho, Hs. subst o2.
      destruct o1 as [row|].
      + destruct (quotes_odd row); [split; [reflexivity|exact Hs]|apply IH; exact Hs].
      + split; [reflexivity|exact Hs].
  Qed.

  Lemma sim_get_row_rfc c fuel s1 s2 :
    srel s1 s2 -> sim2 (get_row_rfc R1 rr1 fuel c s1) (get_row_rfc R2 rr2 fuel c s2).
  Proof.
    intros H. unfold get_row_rfc.
    destruct (sim_get_row_simple c _ _ H) as [Ho Hs].
    destruct (get_row_simple R1 rr1 c s1) as [o1 s1'], (get_row_simple R2 rr2 c s2) as [o2 s2']. cbn in Ho, Hs. subst o2.
    destruct o1 as [row|]; [|split; [reflexivity|exact Hs]].
    destruct (is_comment c row); [split; [reflexivity|exact Hs]|].
    destruct (negb (quotes_odd row)); [split; [reflexivity|exact Hs]|].
    destruct (sim_rfc_loop c fuel _ _ [row] Hs) as [Ho2 Hs2].
    destruct (rfc_loop R1 rr1 fuel c s1' [row]) as [x1 t1], (rfc_loop R2 rr2 fuel c s2' [row]) as [x2 t2]. cbn in Ho2, Hs2. subst x2.
    split; [reflexivity|exact Hs2].
  Qed.

  Lemma sim_get_row c fuel s1 s2 :
    srel s1 s2 -> sim2 (get_row R1 rr1 fuel c s1) (get_row R2 rr2 fuel c s2).
  Proof.
    intros H. unfold get_row. destruct (c_rfc c); [apply sim_get_row_rfc|apply sim_get_row_simple]; exact H.
  Qed.

  Lemma sim_skip_loop c g : forall fuel s1 s2,
    srel s1 s2 -> sim2 (skip_loop R1 rr1 fuel g c s1) (skip_loop R2 rr2 fuel g c s2).
  Proof.
    induction fuel as [|f IH]; intros s1 s2 H; cbn [skip_loop].
    - split; [reflexivity|exact H].
    - destruct (sim_get_row c g _ _ H) as [Ho Hs].
      destruct (get_row R1 rr1 g c s1) as [o1 s1'], (get_row R2 rr2 g c s2) as [o2 s2']. cbn in Ho, Hs. subst o2.
      destruct o1 as [line|]; [|split; [reflexivity|exact Hs]].
      destruct (is_comment c line); [apply IH; exact Hs|split; [reflexivity|exact Hs]].
  Qed.

  Lemma srel_set_hdr s1 s2 hh fr em : srel s1 s2 -> srel (set_hdr R1 s1 hh fr em) (set_hdr R2 s2 hh fr em).
  Proof.
    intros [Hr Hm]. split; [exact Hr|]. unfold meta in *. cbn. inversion Hm. reflexivity.
  Qed.

  Lemma srel_set_rec s1 s2 nr fdl fi : srel s1 s2 -> srel (set_rec R1 s1 nr fdl fi) (set_rec R2 s2 nr fdl fi).
  Proof.
    intros [Hr Hm]. split; [exact Hr|]. unfold meta in *. cbn. inversion Hm. reflexivity.
  Qed.

  Lemma sim_get_record c fuel s1 s2 :
    srel s1 s2 -> sim2 (get_record R1 rr1 split fuel c s1) (get_record R2 rr2 split fuel c s2).
  Proof.
    intros H. unfold get_record.
    assert (Hm := proj2 H). unfold meta in Hm. inversion Hm as [[E1 E2 E3 E4 E5 E6 E7 E8]].
    rewrite E8. destruct (first_record_should_be_emitted s2).
    - rewrite E7, E6. split; [reflexivity|]. cbn [snd]. apply srel_set_hdr. exact H.
    - destruct (sim_skip_loop c fuel fuel _ _ H) as [Ho Hs].
      destruct (skip_loop R1 rr1 fuel fuel c s1) as [o1 s1'], (skip_loop R2 rr2 fuel fuel c s2) as [o2 s2']. cbn in Ho, Hs. subst o2.
      destruct o1 as [line|]; [|split; [reflexivity|exact Hs]].
      assert (Hm' := proj2 Hs). unfold meta in Hm'. inversion Hm' as [[F1 F2 F3 F4 F5 F6 F7 F8]].
      rewrite F1, F2, F4, F5. destruct (split line) as [record warning].
      destruct (warning && match first_defective_line s2' with Some _ => false | None => true end && c_rfc c).
      + split; [reflexivity|]. cbn [snd]. apply srel_set_rec. exact Hs.
      + split; [reflexivity|]. cbn [snd]. apply srel_set_rec. exact Hs.
  Qed.

  Lemma sim_all_records c fuel : forall n s1 s2 acc,
    srel s1 s2 -> sim2 (all_records R1 rr1 split n fuel c s1 acc) (all_records R2 rr2 split n fuel c s2 acc).
  Proof.
    induction n as [|n IH]; intros s1 s2 acc H; cbn [all_records].
    - split; [reflexivity|exact H].
    - destruct (sim_get_record c fuel _ _ H) as [Ho Hs].
      destruct (get_record R1 rr1 split fuel c s1) as [o1 s1'], (get_record R2 rr2 split fuel c s2) as [o2 s2']. cbn in Ho, Hs. subst o2.
      destruct o1 as [|r|nr nl]; [split; [reflexivity|exact Hs]|apply IH; exact Hs|split; [reflexivity|exact Hs]].
  Qed.

  Lemma sim_all_rows_loop c fuel : forall n s1 s2,
    srel s1 s2 -> sim2 (all_rows_loop R1 rr1 n fuel c s1) (all_rows_loop R2 rr2 n fuel c s2).
  Proof.
    induction n as [|n IH]; intros s1 s2 H; cbn [all_rows_loop].
    - split; [reflexivity|exact H].
    - destruct (sim_get_row c fuel _ _ H) as [Ho Hs].
      destruct (get_row R1 rr1 fuel c s1) as [o1 s1'], (get_row R2 rr2 fuel c s2) as [o2 s2']. cbn in Ho, Hs. subst o2.
      destruct o1 as [row|]; [|split; [reflexivity|exact Hs]].
      destruct (IH _ _ Hs) as [Ho2 Hs2].
      destruct (all_rows_loop R1 rr1 n fuel c s1') as [x1 t1], (all_rows_loop R2 rr2 n fuel c s2') as [x2 t2]. cbn in Ho2, Hs2. subst x2.
      split; [reflexivity|exact Hs2].
  Qed.

  Lemma srel_init c r1 r2 : rel r1 r2 -> srel (init_state R1 c r1) (init_state R2 c r2).
  Proof. intros H. split; [exact H|reflexivity]. Qed.

  Theorem sim_run_iterator fuel c r1 r2 :
    rel r1 r2 -> run_iterator R1 rr1 split fuel c r1 = run_iterator R2 rr2 split fuel c r2.
  Proof.
    intros H. unfold run_iterator, construct.
    destruct (sim_get_record c fuel _ _ (srel_init c _ _ H)) as [Ho Hs].
    destruct (get_record R1 rr1 split fuel c (init_state R1 c r1)) as [o1 s1'],
             (get_record R2 rr2 split fuel c (init_state R2 c r2)) as [o2 s2']. cbn in Ho, Hs. subst o2.
    assert (F6 : has_header s1' = has_header s2') by (pose proof (proj2 Hs) as Hm; unfold meta in Hm; congruence).
    assert (Hgo : forall fr,
       match all_records R1 rr1 split (S fuel) fuel c (handle_query_modifier R1 (c_modifier c) (set_hdr R1 s1' (has_header s1') fr (negb (has_header s1')))) [] with
       | (inr (nr, nl), _) => RErr nr nl
       | (inl recs, s2) => ROk recs (get_header R1 s2) (get_warnings R1 s2) (NL s2) (NR s2)
       end =
       match all_records R2 rr2 split (S fuel) fuel c (handle_query_modifier R2 (c_modifier c) (set_hdr R2 s2' (has_header s2') fr (negb (has_header s2')))) [] with
       | (inr (nr, nl), _) => RErr nr nl
       | (inl recs, s2) => ROk recs (get_header R2 s2) (get_warnings R2 s2) (NL s2) (NR s2)
       end).
    { intros fr. rewrite F6.
      assert (Hs0 : srel (handle_query_modifier R1 (c_modifier c) (set_hdr R1 s1' (has_header s2') fr (negb (has_header s2'))))
                         (handle_query_modifier R2 (c_modifier c) (set_hdr R2 s2' (has_header s2') fr (negb (has_header s2'))))).
      { unfold handle_query_modifier. destruct (c_modifier c) as [[|]|].
        - cbn [first_record set_hdr]. apply srel_set_hdr. apply srel_set_hdr. exact Hs.
        - cbn [first_record set_hdr]. apply srel_set_hdr. apply srel_set_hdr. exact Hs.
        - apply srel_set_hdr. exact Hs. }
      destruct (sim_all_records c fuel (S fuel) _ _ [] Hs0) as [Ho2 Hs2].
      destruct (all_records R1 rr1 split (S fuel) fuel c _ []) as [x1 t1], (all_records R2 rr2 split (S fuel) fuel c _ []) as [x2 t2].
      cbn in Ho2, Hs2. subst x2. destruct x1 as [recs|[nr nl]]; [|reflexivity].
      assert (Hm2 := proj2 Hs2). unfold meta in Hm2. inversion Hm2 as [[G1 G2 G3 G4 G5 G6 G7 G8]].
      unfold get_header, get_warnings. rewrite G1, G2, G3, G4, G5, G6, G7. reflexivity. }
    destruct o1 as [|r|nr nl]; [apply Hgo|apply Hgo|reflexivity].
  Qed.

  Theorem sim_run_rows fuel c r1 r2 :
    rel r1 r2 -> run_rows R1 rr1 fuel c r1 = run_rows R2 rr2 fuel c r2.
  Proof.
    intros H. unfold run_rows.
    destruct (sim_all_rows_loop c fuel (S fuel) _ _ (srel_init c _ _ H)) as [Ho Hs].
    destruct (all_rows_loop R1 rr1 (S fuel) fuel c (init_state R1 c r1)) as [x1 t1],
             (all_rows_loop R2 rr2 (S fuel) fuel c (init_state R2 c r2)) as [x2 t2]. cbn in Ho, Hs. subst x2.
    assert (Hm := proj2 Hs). unfold meta in Hm. inversion Hm as [[F1 F2 F3 F4 F5 F6 F7 F8]].
    rewrite F1, F3. reflexivity.
  Qed.
End Sim.

(* the Python stream layer and the list of physical lines deliver the same lines *)
Definition py_list_rel (r : pyraw) (l : list str) : Prop := Inv r /\ l = split_lines (text r).

Lemma py_list_step cs : (1 <= cs)%nat -> forall r l, py_list_rel r l ->
  fst (raw_row_py cs r) = fst (raw_row_list l) /\ py_list_rel (snd (raw_row_py cs r)) (snd (raw_row_list l)).
Proof.
  intros Hcs r l [HI ->]. rewrite split_lines_next.
  destruct (raw_row_py_spec cs r Hcs HI) as (s' & I' & G).
  destruct (next (text r)) as [[b rest]|].
  - destruct G as [-> <-]. cbn. split; [reflexivity|]. split; [exact I'|reflexivity].
  - destruct G as [-> T]. cbn. split; [reflexivity|]. split; [exact I'|]. rewrite T. reflexivity.
Qed.

Theorem run_py_is_run_lines split c cs ps :
  (1 <= cs)%nat -> Forall nonempty ps ->
  run_py split c cs ps = run_lines_fuel split (py_fuel ps) c (split_lines (concat ps)).
Proof.
  intros Hcs Hne. unfold run_py, run_lines_fuel.
  apply (sim_run_iterator pyraw (list str) (raw_row_py cs) raw_row_list split py_list_rel (py_list_step cs Hcs)).
  split; [apply Inv_mk; exact Hne|]. unfold text. reflexivity.
Qed.

Theorem rows_py_is_rows_lines c cs ps :
  (1 <= cs)%nat -> Forall nonempty ps ->
  rows_py c cs ps = rows_lines_fuel (py_fuel ps) c (split_lines (concat ps)).
Proof.
  intros Hcs Hne. unfold rows_py, rows_lines_fuel.
  apply (sim_run_rows pyraw (list str) (raw_row_py cs) raw_row_list py_list_rel (py_list_step cs Hcs)).
  split; [apply Inv_mk; exact Hne|]. unfold text. reflexivity.
Qed.

(* ------------------------------------------------------------------ Part 3: the iterator over a list of lines = the declarative spec *)

Notation lst := (st (list str)).
Notation lget_row_simple := (get_row_simple (list str) raw_row_list).
Notation lrfc_loop := (rfc_loop (list str) raw_row_list).
Notation lget_row_rfc := (get_row_rfc (list str) raw_row_list).
Notation lget_row := (get_row (list str) raw_row_list).
Notation lskip_loop := (skip_loop (list str) raw_row_list).

(* the lines still to come, with the BOM of the very first one already taken off, and the final value of the BOM flag *)
Definition nlines (e : enc) (s : lst) : list str :=
  if Nat.eqb (NL s) 0 then fst (strip_bom_first e (raw s)) else raw s.
Definition bomf (e : enc) (s : lst) : bool :=
  if Nat.eqb (NL s) 0 then utf8_bom_removed s || snd (strip_bom_first e (raw s)) else utf8_bom_removed s.
Definition rest_meta (s : lst) :=
  (NR s, first_defective_line s, fields_info s, has_header s, first_record s, first_record_should_be_emitted s).

(* s' is s after [k] more physical lines were taken, nothing else touched *)
Definition frame (e : enc) (s s' : lst) (k : nat) : Prop :=
  NL s' = (NL s + k)%nat /\ bomf e s' = bomf e s /\ rest_meta s' = rest_meta s /\
  length (nlines e s) = (k + length (nlines e s'))%nat.

Lemma frame_refl e s : frame e s s 0.
Proof. unfold frame. repeat split; lia. Qed.

Lemma frame_trans e s1 s2 s3 k1 k2 : frame e s1 s2 k1 -> frame e s2 s3 k2 -> frame e s1 s3 (k1 + k2).
Proof.
  intros (A1 & B1 & C1 & D1) (A2 & B2 & C2 & D2). unfold frame.
  split; [lia|]. split; [congruence|]. split; [congruence|lia].
Qed.

Lemma lget_row_simple_spec c s :
  match nlines (c_enc c) s with
  | [] => exists s', lget_row_simple c s = (None, s') /\ nlines (c_enc c) s' = [] /\ frame (c_enc c) s s' 0
  | l :: r => exists s', lget_row_simple c s = (Some l, s') /\ nlines (c_enc c) s' = r /\ frame (c_enc c) s s' 1
  end.
Proof.
  destruct s as [r nl nr b f i h fr e]. unfold nlines, bomf, get_row_simple, frame, rest_meta. cbn [raw NL utf8_bom_removed].
  destruct r as [|l r]; cbn [raw_row_list].
  - destruct nl as [|nl]; cbn; (eexists; split; [reflexivity|]; cbn; repeat split; lia).
  - destruct nl as [|nl]; cbn.
    + destruct (str_eqb (remove_utf8_bom l (c_enc c)) l) eqn:E; cbn.
      * eexists. split; [reflexivity|]. cbn. rewrite orb_false_r. repeat split; lia.
      * eexists. split; [reflexivity|]. cbn. rewrite orb_true_r. repeat split; lia.
    + eexists. split; [reflexivity|]. cbn. repeat split; lia.
Qed.

(* logical rows starting at line number n *)
Definition rows (c : cfg) (n : nat) (L : list str) : list (str * nat) :=
  if c_rfc c then group_rfc c [] n L else number_from n L.

Lemma group_rfc_open c o os n L :
  group_rfc c (o :: os) n L =
  match L with
  | [] => [(join [LF] (o :: os), n)]
  | l :: r => if quotes_odd l then (join [LF] ((o :: os) ++ [l]), S n) :: group_rfc c [] (S n) r
              else group_rfc c ((o :: os) ++ [l]) (S n) r
  end.
Proof. destruct L; reflexivity. Qed.

Lemma lrfc_loop_spec c : forall fuel s o os,
  (length (nlines (c_enc c) s) < fuel)%nat ->
  exists row s' k, lrfc_loop fuel c s (o :: os) = (row, s') /\
    group_rfc c (o :: os) (NL s) (nlines (c_enc c) s) = (row, NL s') :: group_rfc c [] (NL s') (nlines (c_enc c) s') /\
    frame (c_enc c) s s' k.
Proof.
  induction fuel as [|f IH]; intros s o os Hf; [lia|].
  cbn [rfc_loop]. pose proof (lget_row_simple_spec c s) as G. rewrite group_rfc_open.
  destruct (nlines (c_enc c) s) as [|l r] eqn:EL.
  - destruct G as (s' & -> & En & Fr). exists (join [LF] (o :: os)), s', 0%nat.
    split; [reflexivity|]. pose proof Fr as (A & _). rewrite En, A, Nat.add_0_r. split; [reflexivity|exact Fr].
  - destruct G as (s' & -> & En & Fr). pose proof Fr as (A & _). destruct (quotes_odd l).
    + exists (join [LF] ((o :: os) ++ [l])), s', 1%nat. split; [reflexivity|].
      rewrite En, A, Nat.add_1_r. split; [reflexivity|exact Fr].
    + cbn in Hf. assert (Hf' : (length (nlines (c_enc c) s') < f)%nat) by (rewrite En; lia).
      destruct (IH s' o (os ++ [l]) Hf') as (row & s2 & k & E2 & G2 & F2).
      exists row, s2, (1 + k)%nat. cbn [app] in *. rewrite E2. split; [reflexivity|].
      rewrite A, Nat.add_1_r, En in G2. split; [exact G2|].
      apply (frame_trans _ s s' s2 1 k); [exact Fr|exact F2].
Qed.

Lemma group_rfc_nonempty c : forall L op n, (op <> [] \/ L <> []) -> group_rfc c op n L <> [].
Proof.
  induction L as [|x r IH]; intros op n H.
  - destruct op as [|o os]; [destruct H as [H|H]; congruence|cbn; discriminate].
  - destruct op as [|o os].
    + cbn. destruct (is_comment c x); [discriminate|]. destruct (quotes_odd x); [|discriminate].
      apply IH. left. discriminate.
    + rewrite group_rfc_open. destruct (quotes_odd x); [discriminate|]. apply IH. left. discriminate.
Qed.

Lemma group_rfc_nil_inv c n L : group_rfc c [] n L = [] -> L = [].
Proof.
  intros H. destruct L as [|l r]; [reflexivity|]. exfalso. revert H. apply group_rfc_nonempty. right. discriminate.
Qed.

Lemma lget_row_spec c fuel s :
  (length (nlines (c_enc c) s) < fuel)%nat ->
  match rows c (NL s) (nlines (c_enc c) s) with
  | [] => exists s', lget_row fuel c s = (None, s') /\ nlines (c_enc c) s' = [] /\ frame (c_enc c) s s' 0
  | (row, n') :: rest =>
      exists s' k, lget_row fuel c s = (Some row, s') /\ NL s' = n' /\ rows c n' (nlines (c_enc c) s') = rest /\
                   frame (c_enc c) s s' (S k)
  end.
Proof.
  intros Hf. unfold rows, get_row. pose proof (lget_row_simple_spec c s) as G.
  destruct (c_rfc c) eqn:Erfc.
  - unfold get_row_rfc. destruct (nlines (c_enc c) s) as [|l r] eqn:EL.
    + destruct G as (s' & -> & En & Fr). cbn. exists s'. auto.
    + destruct G as (s' & -> & En & Fr). pose proof Fr as (A & _). cbn [group_rfc].
      destruct (is_comment c l).
      * exists s', 0%nat. rewrite A, Nat.add_1_r, En. auto.
      * destruct (quotes_odd l); cbn [negb].
        -- assert (Hf' : (length (nlines (c_enc c) s') < fuel)%nat) by (rewrite En; cbn in Hf; lia).
           destruct (lrfc_loop_spec c fuel s' l [] Hf') as (row & s2 & k & E2 & G2 & F2).
           rewrite A, Nat.add_1_r, En in G2. rewrite G2, E2.
           exists s2, k. split; [reflexivity|]. split; [reflexivity|]. split; [reflexivity|].
           apply (frame_trans _ s s' s2 1 k); assumption.
        -- exists s', 0%nat. rewrite A, Nat.add_1_r, En. auto.
  - destruct (nlines (c_enc c) s) as [|l r] eqn:EL.
    + destruct G as (s' & -> & En & Fr). cbn. exists s'. auto.
    + destruct G as (s' & -> & En & Fr). pose proof Fr as (A & _). cbn [number_from].
      exists s', 0%nat. rewrite A, Nat.add_1_r, En. auto.
Qed.

Definition nc (c : cfg) (r : str * nat) : bool := negb (is_comment c (fst r)).

Lemma lskip_loop_spec c g : forall fuel s,
  (length (nlines (c_enc c) s) < fuel)%nat -> (length (nlines (c_enc c) s) < g)%nat ->
  match filter (nc c) (rows c (NL s) (nlines (c_enc c) s)) with
  | [] => exists s' k, lskip_loop fuel g c s = (None, s') /\ nlines (c_enc c) s' = [] /\ frame (c_enc c) s s' k
  | (row, n') :: rest =>
      exists s' k, lskip_loop fuel g c s = (Some row, s') /\ NL s' = n' /\
                   filter (nc c) (rows c n' (nlines (c_enc c) s')) = rest /\ frame (c_enc c) s s' (S k)
  end.
Proof.
  induction fuel as [|f IH]; intros s Hf Hg; [lia|].
  cbn [skip_loop]. pose proof (lget_row_spec c g s Hg) as G.
  destruct (rows c (NL s) (nlines (c_enc c) s)) as [|[row n'] rest] eqn:ER.
  - destruct G as (s' & -> & En & Fr). cbn. exists s', 0%nat. auto.
  - destruct G as (s' & k & -> & En & Er & Fr). cbn [filter]. unfold nc at 1. cbn [fst].
    destruct (is_comment c row); cbn [negb].
    + pose proof Fr as (_ & _ & _ & D).
      assert (Hf' : (length (nlines (c_enc c) s') < f)%nat) by lia.
      assert (Hg' : (length (nlines (c_enc c) s') < g)%nat) by lia.
      specialize (IH s' Hf' Hg'). rewrite En, Er in IH.
      destruct (filter (nc c) rest) as [|[row2 n2] rest2].
      * destruct IH as (s2 & k2 & E2 & En2 & F2). exists s2, (S k + k2)%nat. split; [exact E2|]. split; [exact En2|].
        apply (frame_trans _ s s' s2); assumption.
      * destruct IH as (s2 & k2 & E2 & En2 & Er2 & F2). exists s2, (k + S k2)%nat. split; [exact E2|]. split; [exact En2|].
        split; [exact Er2|]. replace (S (k + S k2)) with (S k + S k2)%nat by lia.
        apply (frame_trans _ s s' s2); assumption.
    + exists s', k. rewrite Er. auto.
Qed.

Section ListSpec.
  Variable split : str -> list str * bool.
  Notation lget_record := (get_record (list str) raw_row_list split).
  Notation lall_records := (all_records (list str) raw_row_list split).

  Lemma lget_record_spec c fuel s :
    first_record_should_be_emitted s = false -> (length (nlines (c_enc c) s) < fuel)%nat ->
    match filter (nc c) (rows c (NL s) (nlines (c_enc c) s)) with
    | [] => exists s' k, lget_record fuel c s = (RecNone, s') /\ nlines (c_enc c) s' = [] /\ frame (c_enc c) s s' k
    | (line, nl) :: rest =>
        let first := match first_defective_line s with None => true | Some _ => false end in
        if snd (split line) && first && c_rfc c
        then fst (lget_record fuel c s) = RecErr (S (NR s)) nl
        else exists s' k, lget_record fuel c s = (Rec (fst (split line)), s') /\ NL s' = nl /\
               filter (nc c) (rows c nl (nlines (c_enc c) s')) = rest /\
               NR s' = S (NR s) /\
               first_defective_line s' = (if snd (split line) && first then Some nl else first_defective_line s) /\
               fields_info s' = fields_info_add (fields_info s) (length (fst (split line))) (S (NR s)) /\
               has_header s' = has_header s /\ first_record s' = first_record s /\
               first_record_should_be_emitted s' = false /\ bomf (c_enc c) s' = bomf (c_enc c) s /\
               NL s' = (NL s + S k)%nat /\ length (nlines (c_enc c) s) = (S k + length (nlines (c_enc c) s'))%nat
    end.
  Proof.
    intros Hem Hf. unfold get_record. rewrite Hem.
    pose proof (lskip_loop_spec c fuel fuel s Hf Hf) as G.
    destruct (filter (nc c) (rows c (NL s) (nlines (c_enc c) s))) as [|[line nl] rest].
    - destruct G as (s' & k & -> & En & Fr). exists s', k. auto.
    - destruct G as (s' & k & -> & En & Er & Fr). destruct Fr as (A & B & C & D).
      unfold rest_meta in C.
      assert (C1 : NR s' = NR s) by congruence. assert (C2 : first_defective_line s' = first_defective_line s) by congruence.
      assert (C3 : fields_info s' = fields_info s) by congruence. assert (C4 : has_header s' = has_header s) by congruence.
      assert (C5 : first_record s' = first_record s) by congruence.
      assert (C6 : first_record_should_be_emitted s' = false) by congruence. clear C.
      destruct (split line) as [record warning]. cbn [fst snd]. rewrite En, C1, C2, C3.
      destruct (first_defective_line s) as [x|] eqn:Efd; cbn [andb].
      + rewrite andb_false_r. cbn [andb]. exists (set_rec (list str) s' (S (NR s)) (if warning then Some x else Some x) (fields_info_add (fields_info s) (length record) (S (NR s)))), k.
        split; [destruct warning; reflexivity|]. cbn [set_rec NL NR first_defective_line fields_info has_header first_record first_record_should_be_emitted].
        split; [exact En|]. split; [destruct s'; exact Er|]. split; [reflexivity|]. split; [destruct warning; reflexivity|].
        split; [reflexivity|]. split; [exact C4|]. split; [exact C5|]. split; [exact C6|].
        split; [destruct s'; exact B|]. split; [exact A|]. destruct s'; exact D.
      + rewrite andb_true_r. destruct (warning && c_rfc c) eqn:Ew.
        * reflexivity.
        * exists (set_rec (list str) s' (S (NR s)) (if warning then Some nl else None) (fields_info_add (fields_info s) (length record) (S (NR s)))), k.
          split; [reflexivity|]. cbn [set_rec NL NR first_defective_line fields_info has_header first_record first_record_should_be_emitted].
          split; [exact En|]. split; [destruct s'; exact Er|]. split; [reflexivity|]. split; [destruct warning; reflexivity|].
          split; [reflexivity|]. split; [exact C4|]. split; [exact C5|]. split; [exact C6|].
          split; [destruct s'; exact B|]. split; [exact A|]. destruct s'; exact D.
  Qed.

  Lemma lall_records_spec c fuel : forall n s acc,
    first_record_should_be_emitted s = false ->
    (length (nlines (c_enc c) s) < n)%nat -> (length (nlines (c_enc c) s) < fuel)%nat ->
    match parse_rows split c (NR s) (first_defective_line s) (fields_info s)
                     (filter (nc c) (rows c (NL s) (nlines (c_enc c) s))) with
    | inr (nr, nl) => fst (lall_records n fuel c s acc) = inr (nr, nl)
    | inl (recs, (nr, fdl, finfo)) =>
        exists s', lall_records n fuel c s acc = (inl (acc ++ recs), s') /\ NR s' = nr /\ first_defective_line s' = fdl /\
                   fields_info s' = finfo /\ NL s' = (NL s + length (nlines (c_enc c) s))%nat /\ nlines (c_enc c) s' = [] /\
                   bomf (c_enc c) s' = bomf (c_enc c) s /\ has_header s' = has_header s /\ first_record s' = first_record s
    end.
  Proof.
    induction n as [|n IH]; intros s acc Hem Hn Hf; [lia|].
    cbn [all_records]. pose proof (lget_record_spec c fuel s Hem Hf) as G.
    destruct (filter (nc c) (rows c (NL s) (nlines (c_enc c) s))) as [|[line nl] rest].
    - destruct G as (s' & k & -> & En & (A & B & C & D)). cbn [parse_rows].
      unfold rest_meta in C. exists s'. rewrite app_nil_r. split; [reflexivity|].
      rewrite En in D. cbn in D. rewrite Nat.add_0_r in D.
      repeat split; try congruence; lia.
    - cbn [parse_rows]. cbn zeta in G. destruct (split line) as [record warning]. cbn [fst snd] in G.
      destruct (warning && match first_defective_line s with Some _ => false | None => true end && c_rfc c).
      + destruct (lget_record fuel c s) as [o s']. cbn in G. subst o. reflexivity.
      + destruct G as (s' & k & -> & E1 & E2 & E3 & E4 & E5 & E6 & E7 & E8 & E9 & E10 & E11).
        assert (Hn' : (length (nlines (c_enc c) s') < n)%nat) by lia.
        assert (Hf' : (length (nlines (c_enc c) s') < fuel)%nat) by lia.
        specialize (IH s' (acc ++ [record]) E8 Hn' Hf'). rewrite E1, E2, E3, E4, E5 in IH.
        destruct (parse_rows split c (S (NR s)) _ _ rest) as [[recs [[nr fdl] finfo]]|[nr nl']].
        * destruct IH as (s2 & -> & F1 & F2 & F3 & F4 & F5 & F6 & F7 & F8). exists s2.
          rewrite <- app_assoc. split; [reflexivity|]. repeat split; try congruence. lia.
        * exact IH.
  Qed.

  Lemma strip_bom_first_length e lines : length (fst (strip_bom_first e lines)) = length lines.
  Proof.
    destruct lines as [|l r]; [reflexivity|]. cbn. destruct (str_eqb (remove_utf8_bom l e) l); reflexivity.
  Qed.

  Lemma bomf_at_end e (s : lst) : nlines e s = [] -> bomf e s = utf8_bom_removed s.
  Proof.
    unfold nlines, bomf. destruct (Nat.eqb (NL s) 0); [|reflexivity].
    destruct (raw s) as [|l r]; [intros _; apply orb_false_r|].
    cbn. destruct (str_eqb (remove_utf8_bom l e) l); discriminate.
  Qed.

  Lemma nlines_set_hdr e (s : lst) hh fr em : nlines e (set_hdr (list str) s hh fr em) = nlines e s.
  Proof. destruct s; reflexivity. Qed.
  Lemma bomf_set_hdr e (s : lst) hh fr em : bomf e (set_hdr (list str) s hh fr em) = bomf e s.
  Proof. destruct s; reflexivity. Qed.

  Lemma modifier_state c (s : lst) fr :
    c_header c = has_header s ->
    exists s', handle_query_modifier (list str) (c_modifier c) (set_hdr (list str) s (has_header s) fr (negb (has_header s))) = s' /\
      has_header s' = effective_header c /\ first_record s' = fr /\
      first_record_should_be_emitted s' = negb (effective_header c) /\
      raw s' = raw s /\ NL s' = NL s /\ NR s' = NR s /\ utf8_bom_removed s' = utf8_bom_removed s /\
      first_defective_line s' = first_defective_line s /\ fields_info s' = fields_info s.
  Proof.
    intros Hh. eexists. split; [reflexivity|]. unfold effective_header, handle_query_modifier.
    destruct (c_modifier c) as [[|]|]; destruct s; cbn in *; subst; repeat split; reflexivity.
  Qed.

  (* C12_records, second half: the Python iterator code over a list of physical lines computes the declarative spec *)
  Theorem run_lines_fuel_spec c fuel lines :
    (length lines < fuel)%nat -> run_lines_fuel split fuel c lines = records_of_lines split c lines.
  Proof.
    intros Hfuel. unfold run_lines_fuel, run_iterator, construct, records_of_lines.
    set (e := c_enc c). set (s0 := init_state (list str) c lines).
    assert (Hn0 : nlines e s0 = fst (strip_bom_first e lines)) by reflexivity.
    assert (Hb0 : bomf e s0 = snd (strip_bom_first e lines)) by reflexivity.
    assert (Hlen : length (nlines e s0) = length lines) by (rewrite Hn0; apply strip_bom_first_length).
    assert (Hf0 : (length (nlines e s0) < fuel)%nat) by lia.
    pose proof (lget_record_spec c fuel s0 eq_refl Hf0) as G. fold e in G.
    destruct (strip_bom_first e lines) as [lines1 bom] eqn:Es. cbn [fst snd] in Hn0, Hb0.
    assert (Hl1 : length lines1 = length lines) by (rewrite <- Hn0; exact Hlen).
    change (NL s0) with 0%nat in G. rewrite Hn0 in G.
    change (rows c 0 lines1) with (logical_rows c lines1) in G.
    change (fun r : str * nat => negb (is_comment c (fst r))) with (nc c).
    destruct (filter (nc c) (logical_rows c lines1)) as [|[line nl] rest].
    - (* no record at all *)
      destruct G as (s1 & k & -> & En & (A & B & C & D)). cbn [parse_rows].
      unfold rest_meta in C.
      assert (Hh : c_header c = has_header s1) by (change (c_header c) with (has_header s0); congruence).
      destruct (modifier_state c s1 None Hh) as (s2 & -> & M1 & M2 & M3 & M4 & M5 & M6 & M7 & M8 & M9).
      assert (En2 : nlines e s2 = []). { unfold nlines in *. rewrite M4, M5. exact En. }
      assert (Hres : forall s3, NL s3 = NL s2 -> NR s3 = NR s2 -> utf8_bom_removed s3 = utf8_bom_removed s2 ->
                first_defective_line s3 = first_defective_line s2 -> fields_info s3 = fields_info s2 ->
                has_header s3 = has_header s2 -> first_record s3 = first_record s2 ->
                ROk [] (get_header (list str) s3) (get_warnings (list str) s3) (NL s3) (NR s3) =
                ROk (if effective_header c then tl [] else []) (if effective_header c then hd_error [] else None)
                    (mk_warnings bom None []) (length lines) 0).
      { intros s3 H1 H2 H3 H4 H5 H6 H7. unfold get_header, get_warnings. rewrite H1, H2, H3, H4, H5, H6, H7.
        rewrite M1, M2, M5, M6, M7, M8, M9.
        assert (Hb1 : utf8_bom_removed s1 = bom). { rewrite <- (bomf_at_end e s1 En), B. exact Hb0. }
        rewrite Hb1. replace (NL s1) with (length lines) by (rewrite En, Hlen in D; cbn [length] in D; change (NL s0) with 0%nat in A; lia).
        replace (NR s1) with 0%nat by (change 0%nat with (NR s0); congruence).
        replace (first_defective_line s1) with (@None nat) by (change (@None nat) with (first_defective_line s0); congruence).
        replace (fields_info s1) with (@nil (nat * nat)) by (change (@nil (nat * nat)) with (fields_info s0); congruence).
        destruct (effective_header c); reflexivity. }
      cbn [all_records]. unfold get_record. rewrite M3, M2.
      destruct (effective_header c) eqn:Eh; cbn [negb].
      + assert (Hf2 : (length (nlines e s2) < fuel)%nat) by (rewrite En2; cbn; lia).
        pose proof (lskip_loop_spec c fuel fuel s2 Hf2 Hf2) as G2. fold e in G2. rewrite En2 in G2.
        assert (Er : rows c (NL s2) [] = []) by (unfold rows; destruct (c_rfc c); reflexivity).
        rewrite Er in G2. cbn [filter] in G2. destruct G2 as (s3 & k3 & -> & _ & (A3 & B3 & C3 & D3)).
        unfold rest_meta in C3. apply Hres; try congruence.
        * rewrite En2 in D3. cbn in D3. lia.
        * assert (En3 : nlines e s3 = []) by (destruct (nlines e s3); [reflexivity|rewrite En2 in D3; cbn in D3; lia]).
          rewrite <- (bomf_at_end e s3 En3), <- (bomf_at_end e s2 En2). exact B3.
      + apply Hres; cbn; congruence.
    - cbn [parse_rows]. cbn zeta in G. destruct (split line) as [record warning]. cbn [fst snd] in G.
      change (first_defective_line s0) with (@None nat) in G. change (NR s0) with 0%nat in G. change (fields_info s0) with (@nil (nat * nat)) in G.
      cbn [andb]. rewrite andb_true_r in *.
      destruct (warning && c_rfc c) eqn:Ew.
      + destruct (lget_record fuel c s0) as [o s1]. cbn in G. subst o. reflexivity.
      + destruct G as (s1 & k & -> & E1 & E2 & E3 & E4 & E5 & E6 & E7 & E8 & E9 & E10 & E11).
        assert (Hh : c_header c = has_header s1) by (rewrite E6; reflexivity).
        destruct (modifier_state c s1 (Some record) Hh) as (s2 & -> & M1 & M2 & M3 & M4 & M5 & M6 & M7 & M8 & M9).
        assert (En2 : nlines e s2 = nlines e s1). { unfold nlines. rewrite M4, M5. reflexivity. }
        assert (Eb2 : bomf e s2 = bomf e s1). { unfold bomf. rewrite M4, M5, M7. reflexivity. }
        assert (Hl2 : (length (nlines e s2) < fuel)%nat) by (rewrite En2; fold e in E11; lia).
        (* what get_all_records returns from a state that no longer owes the first record *)
        assert (Hrest : forall s3 acc, first_record_should_be_emitted s3 = false ->
                   raw s3 = raw s2 -> NL s3 = NL s2 -> NR s3 = NR s2 -> utf8_bom_removed s3 = utf8_bom_removed s2 ->
                   first_defective_line s3 = first_defective_line s2 -> fields_info s3 = fields_info s2 ->
                   has_header s3 = has_header s2 -> first_record s3 = first_record s2 ->
                   forall n, (length (nlines e s2) < n)%nat ->
                   match lall_records n fuel c s3 acc with
                   | (inr (nr, nl0), _) => RErr nr nl0
                   | (inl recs, s4) => ROk recs (get_header (list str) s4) (get_warnings (list str) s4) (NL s4) (NR s4)
                   end =
                   match parse_rows split c 1 (if warning then Some nl else None) (fields_info_add [] (length record) 1) rest with
                   | inl (recs, fin) =>
                       let '(nr, fdl, finfo) := fin in
                       ROk (acc ++ recs) (if effective_header c then Some record else None) (mk_warnings bom fdl finfo) (length lines) nr
                   | inr (nr, nl0) => RErr nr nl0
                   end).
        { intros s3 acc H0 H1 H2 H3 H4 H5 H6 H7 H8 n Hn.
          assert (En3 : nlines e s3 = nlines e s2) by (unfold nlines; rewrite H1, H2; reflexivity).
          assert (Eb3 : bomf e s3 = bomf e s2) by (unfold bomf; rewrite H1, H2, H4; reflexivity).
          assert (Hn3 : (length (nlines e s3) < n)%nat) by (rewrite En3; exact Hn).
          assert (Hf3 : (length (nlines e s3) < fuel)%nat) by (rewrite En3; exact Hl2).
          pose proof (lall_records_spec c fuel n s3 acc H0 Hn3 Hf3) as GA. fold e in GA.
          rewrite H3, H5, H6, H2, En3, M5, M6, M8, M9, En2, E1, E2, E3, E4, E5 in GA.
          destruct (parse_rows split c 1 _ _ rest) as [[recs [[nr fdl] finfo]]|[nr nl0]].
          - destruct GA as (s4 & -> & F1 & F2 & F3 & F4 & F5 & F6 & F7 & F8).
            unfold get_header, get_warnings. rewrite F1, F2, F3, F7, F8, H7, H8, M1, M2.
            rewrite <- (bomf_at_end e s4 F5), F6, Eb3, Eb2, E9, Hb0.
            replace (NL s4) with (length lines).
            2:{ rewrite F4. fold e in E11. rewrite E10 in E1. change (NL s0) with 0%nat in E10. lia. }
            reflexivity.
          - destruct (lall_records n fuel c s3 acc) as [o s4]. cbn in GA. subst o. reflexivity. }
        destruct (effective_header c) eqn:Eh; cbn [negb] in M3.
        * (* header: the first record is not emitted *)
          rewrite (Hrest s2 [] M3); try reflexivity; [|lia].
          destruct (parse_rows split c 1 _ _ rest) as [[recs [[nr fdl] finfo]]|[nr nl0]]; reflexivity.
        * cbn [all_records]. unfold get_record at 1. rewrite M3, M2. cbn [app].
          rewrite (Hrest (set_hdr (list str) s2 (has_header s2) (Some record) false) [record]); try (cbn; congruence); try exact Hl2.
          destruct (parse_rows split c 1 _ _ rest) as [[recs [[nr fdl] finfo]]|[nr nl0]]; reflexivity.
  Qed.
End ListSpec.

Lemma lall_rows_loop_spec c fuel : forall n s,
  (length (nlines (c_enc c) s) < n)%nat -> (length (nlines (c_enc c) s) < fuel)%nat ->
  exists s', all_rows_loop (list str) raw_row_list n fuel c s = (map fst (rows c (NL s) (nlines (c_enc c) s)), s') /\
             NL s' = (NL s + length (nlines (c_enc c) s))%nat /\ nlines (c_enc c) s' = [] /\
             bomf (c_enc c) s' = bomf (c_enc c) s.
Proof.
  induction n as [|n IH]; intros s Hn Hf; [lia|].
  cbn [all_rows_loop]. pose proof (lget_row_spec c fuel s Hf) as G.
  destruct (rows c (NL s) (nlines (c_enc c) s)) as [|[row n'] rest].
  - destruct G as (s' & -> & En & (A & B & C & D)). exists s'. split; [reflexivity|].
    rewrite En in D. cbn in D. split; [lia|]. split; [exact En|exact B].
  - destruct G as (s' & k & -> & En & Er & (A & B & C & D)).
    assert (Hn' : (length (nlines (c_enc c) s') < n)%nat) by lia.
    assert (Hf' : (length (nlines (c_enc c) s') < fuel)%nat) by lia.
    destruct (IH s' Hn' Hf') as (s2 & -> & A2 & En2 & B2). rewrite En, Er. exists s2.
    split; [reflexivity|]. split; [lia|]. split; [exact En2|congruence].
Qed.

Theorem rows_lines_fuel_spec c fuel lines :
  (length lines < fuel)%nat -> rows_lines_fuel fuel c lines = rows_of_lines c lines.
Proof.
  intros Hf. unfold rows_lines_fuel, run_rows, rows_of_lines.
  set (s0 := init_state (list str) c lines).
  assert (Hn0 : nlines (c_enc c) s0 = fst (strip_bom_first (c_enc c) lines)) by reflexivity.
  assert (Hb0 : bomf (c_enc c) s0 = snd (strip_bom_first (c_enc c) lines)) by reflexivity.
  assert (Hlen : length (nlines (c_enc c) s0) = length lines) by (rewrite Hn0; apply strip_bom_first_length).
  assert (H1 : (length (nlines (c_enc c) s0) < S fuel)%nat) by lia.
  assert (H2 : (length (nlines (c_enc c) s0) < fuel)%nat) by lia.
  destruct (lall_rows_loop_spec c fuel (S fuel) s0 H1 H2) as (s' & -> & A & En & B).
  rewrite <- (bomf_at_end _ s' En), B, Hb0, A, Hlen, Hn0.
  destruct (strip_bom_first (c_enc c) lines) as [lines1 bom]. reflexivity.
Qed.

Lemma split_lines_length : forall n t, (length t < n)%nat -> (length (split_lines t) <= length t)%nat.
Proof.
  induction n as [|n IH]; intros t Hn; [lia|].
  rewrite split_lines_next. destruct (next t) as [[b rest]|] eqn:N; [|cbn; lia].
  pose proof (next_shorter _ _ _ N). cbn [length]. specialize (IH rest). lia.
Qed.

Lemma py_fuel_enough ps : (length (split_lines (concat ps)) < py_fuel ps)%nat.
Proof.
  unfold py_fuel. pose proof (split_lines_length (S (length (concat ps))) (concat ps) (Nat.lt_succ_diag_r _)). lia.
Qed.

(* C12_records: whatever the pieces and the chunk size, the reader computes the spec of the text *)
Theorem py_records split c cs ps :
  (1 <= cs)%nat -> Forall nonempty ps -> run_py split c cs ps = records_of_text split c (concat ps).
Proof.
  intros Hcs Hne. rewrite (run_py_is_run_lines split c cs ps Hcs Hne). unfold records_of_text.
  apply run_lines_fuel_spec. apply py_fuel_enough.
Qed.

Theorem py_rows c cs ps :
  (1 <= cs)%nat -> Forall nonempty ps -> rows_py c cs ps = rows_of_lines c (split_lines (concat ps)).
Proof.
  intros Hcs Hne. rewrite (rows_py_is_rows_lines c cs ps Hcs Hne). apply rows_lines_fuel_spec. apply py_fuel_enough.
Qed.

Lemma map_fst_number_from : forall L n, map fst (number_from n L) = L.
Proof. induction L as [|l r IH]; intros n; cbn; [reflexivity|]. rewrite IH. reflexivity. Qed.

Lemma strip_bom_none lines : strip_bom_first EncNone lines = (lines, false).
Proof.
  destruct lines as [|l r]; [reflexivity|]. cbn.
  assert (E : str_eqb l l = true) by (induction l as [|x l IH]; cbn; [reflexivity|rewrite N.eqb_refl, IH; reflexivity]).
  rewrite E. reflexivity.
Qed.

(* C12_lines *)
Theorem py_lines c cs ps :
  (1 <= cs)%nat -> Forall nonempty ps -> c_rfc c = false -> c_enc c = EncNone ->
  rows_py c cs ps = (split_lines (concat ps), (length (split_lines (concat ps)), false)).
Proof.
  intros Hcs Hne Hr He. rewrite (py_rows c cs ps Hcs Hne). unfold rows_of_lines, logical_rows.
  rewrite He, Hr, strip_bom_none, map_fst_number_from. reflexivity.
Qed.

(* the partition and the chunk size do not matter *)
Corollary py_partition_invariant split c cs1 cs2 ps1 ps2 :
  (1 <= cs1)%nat -> (1 <= cs2)%nat -> Forall nonempty ps1 -> Forall nonempty ps2 -> concat ps1 = concat ps2 ->
  run_py split c cs1 ps1 = run_py split c cs2 ps2.
Proof.
  intros H1 H2 N1 N2 E. rewrite (py_records split c cs1 ps1 H1 N1), (py_records split c cs2 ps2 H2 N2), E. reflexivity.
Qed.

(* ------------------------------------------------------------------ C12_rfc_balance *)

Definition total_quotes (run : list str) : nat := fold_right (fun l n => (count_ch QT l + n)%nat) 0%nat run.

Lemma total_quotes_app a b : total_quotes (a ++ b) = (total_quotes a + total_quotes b)%nat.
Proof. unfold total_quotes. induction a as [|x a IH]; cbn [app fold_right]; [reflexivity|]. rewrite IH. lia. Qed.

Lemma total_quotes_single l : total_quotes [l] = count_ch QT l.
Proof. unfold total_quotes. cbn [fold_right]. lia. Qed.

Lemma firstn_app_le {T} (k : nat) (a b : list T) : (k <= length a)%nat -> firstn k (a ++ b) = firstn k a.
Proof.
  intros H. rewrite firstn_app. replace (k - length a)%nat with 0%nat by lia. cbn. apply app_nil_r.
Qed.

(* every non-empty prefix has an odd number of quotes *)
Definition all_prefixes_odd (upto : nat) (run : list str) : Prop :=
  forall k, (0 < k <= upto)%nat -> Nat.odd (total_quotes (firstn k run)) = true.

Lemma rfc_open c : forall L open n,
  open <> [] -> all_prefixes_odd (length open) open ->
  exists run rest, L = run ++ rest /\
    group_rfc c open n L = (join [LF] (open ++ run), n + length run)%nat :: group_rfc c [] (n + length run) rest /\
    (Nat.even (total_quotes (open ++ run)) = true \/ rest = []) /\
    all_prefixes_odd (length (open ++ run) - 1) (open ++ run).
Proof.
  induction L as [|l r IH]; intros open n Hne HP.
  - exists [], []. split; [reflexivity|]. rewrite app_nil_r, Nat.add_0_r.
    destruct open as [|o os]; [congruence|]. split; [reflexivity|]. split; [right; reflexivity|].
    intros k Hk. apply HP. lia.
  - destruct open as [|o os]; [congruence|]. rewrite group_rfc_open.
    assert (Hodd : Nat.odd (total_quotes (o :: os)) = true).
    { specialize (HP (length (o :: os))). rewrite firstn_all in HP. apply HP. cbn. lia. }
    destruct (quotes_odd l) eqn:El.
    + exists [l], r. split; [reflexivity|]. cbn [length]. rewrite Nat.add_1_r. split; [reflexivity|]. split.
      * left. rewrite total_quotes_app, total_quotes_single, Nat.even_add.
        unfold quotes_odd in El. rewrite <- !Nat.negb_odd, Hodd, El. reflexivity.
      * intros k Hk. rewrite app_length in Hk. cbn [length] in Hk. rewrite firstn_app_le by (cbn [length]; lia). apply HP. cbn [length]. lia.
    + assert (HP' : all_prefixes_odd (length ((o :: os) ++ [l])) ((o :: os) ++ [l])).
      { intros k Hk. rewrite app_length in Hk. cbn [length] in Hk.
        destruct (Nat.eq_dec k (length (o :: os) + 1)) as [->|Hneq].
        - replace (length (o :: os) + 1)%nat with (length ((o :: os) ++ [l])) by (rewrite app_length; reflexivity).
          rewrite firstn_all, total_quotes_app, total_quotes_single.
          rewrite Nat.odd_add, Hodd. unfold quotes_odd in El. rewrite El. reflexivity.
        - rewrite firstn_app_le by (cbn [length] in *; lia). apply HP. cbn [length] in *. lia. }
      assert (Hne' : (o :: os) ++ [l] <> []) by discriminate.
      destruct (IH ((o :: os) ++ [l]) (S n) Hne' HP') as (run & rest & -> & G & E & P).
      exists (l :: run), rest. split; [reflexivity|].
      replace ((o :: os) ++ l :: run) with (((o :: os) ++ [l]) ++ run) by (rewrite <- app_assoc; reflexivity).
      cbn [length]. replace (n + S (length run))%nat with (S n + length run)%nat by lia.
      split; [exact G|]. split; [exact E|exact P].
Qed.

(* a quoted_rfc record is the shortest run of physical lines whose total quote count is even (or that runs to the end of
   the input), joined with LF; comment lines are only recognised at a record start and are a row of their own *)
Theorem rfc_balance c L n row n' rest_rows :
  group_rfc c [] n L = (row, n') :: rest_rows ->
  exists run rest, L = run ++ rest /\ run <> [] /\ row = join [LF] run /\ n' = (n + length run)%nat /\
    rest_rows = group_rfc c [] n' rest /\
    ((exists l, run = [l] /\ is_comment c l = true) \/
     (is_comment c (hd [] run) = false /\
      (Nat.even (total_quotes run) = true \/ rest = []) /\
      all_prefixes_odd (length run - 1) run)).
Proof.
  destruct L as [|l r]; [discriminate|]. cbn [group_rfc].
  destruct (is_comment c l) eqn:Ec.
  - intros H. injection H as E1 E2 E3. subst row n' rest_rows. exists [l], r. rewrite Nat.add_1_r.
    repeat split; try reflexivity; [discriminate|]. left. exists l. auto.
  - destruct (quotes_odd l) eqn:El.
    + assert (HP : all_prefixes_odd (length [l]) [l]).
      { intros k Hk. cbn [length] in Hk. replace k with 1%nat by lia. cbn [firstn]. rewrite total_quotes_single. exact El. }
      destruct (rfc_open c r [l] (S n) ltac:(discriminate) HP) as (run & rest & -> & G & E & P).
      rewrite G. intros H. injection H as E1 E2 E3. subst row n' rest_rows. exists (l :: run), rest.
      split; [reflexivity|]. split; [discriminate|]. split; [reflexivity|]. cbn [length].
      split; [lia|]. split; [f_equal; lia|]. right. split; [exact Ec|]. split; [exact E|exact P].
    + intros H. injection H as E1 E2 E3. subst row n' rest_rows. exists [l], r. rewrite Nat.add_1_r.
      repeat split; try reflexivity; [discriminate|]. right. split; [exact Ec|]. split.
      * left. rewrite total_quotes_single, <- Nat.negb_odd. unfold quotes_odd in El. rewrite El. reflexivity.
      * intros k Hk. cbn in Hk. lia.
Qed.
