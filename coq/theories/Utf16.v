(* Utf16.v - strings as JavaScript sees them (model, no proofs).
   A JavaScript string is a sequence of UTF-16 code units and  a < b,  Array.prototype.sort with stable_compare, === compare
   code units; a Python 3 string is a sequence of code points and < compares code points (Value.str_ltb).
   Utf16_Proofs.v: the two orders agree unless a code point of U+E000..U+FFFF meets an astral one. *)
From RBQL Require Import Base.
Local Open Scope N_scope.

(* a Unicode scalar value: a code point that is not a surrogate *)
Definition scalar (c : N) : bool := N.ltb c 55296 || (N.leb 57344 c && N.ltb c 1114112).
(* ... and not in U+E000..U+FFFF: below the surrogates or astral *)
Definition low_or_astral (c : N) : bool := N.ltb c 55296 || (N.leb 65536 c && N.ltb c 1114112).
Definition bmp (c : N) : bool := N.ltb c 65536.

Definition utf16_units (c : N) : list N :=
  if N.ltb c 65536 then [c]
  else [55296 + (c - 65536) / 1024; 56320 + (c - 65536) mod 1024].

Definition utf16_encode (s : list N) : list N := flat_map utf16_units s.

(* lexicographic order on code units:  a < b  of two JavaScript strings (IsLessThan on strings) *)
Fixpoint units_ltb (a b : list N) : bool :=
  match a, b with
  | [], [] => false
  | [], _ :: _ => true
  | _ :: _, [] => false
  | x :: a', y :: b' => N.ltb x y || (N.eqb x y && units_ltb a' b')
  end.
