(* Join.v — HashJoinMap and the three joiners of rbql_engine.py *)
From RBQL Require Import Base Value Expr.

Inductive jkind := JInner | JLeft | JStrict.
Inductive lkey := LNR | LFld (i : nat).        (* NR / aNR / a.NR, or safe_join_get(record_a, i) *)
Inductive rkey := RNR | RFld (j : nat).        (* bNR / b.NR (index -1), or fields[j] *)

(* j_bhdr: the number of names in the header of the join table (None = the join table has no header); the only thing
   the relational skeleton needs of that header is its width (fix c71773a, finding D27) *)
Record join_spec := { j_kind : jkind; j_lhs : list lkey; j_rhs : list rkey; j_bhdr : option nat }.

(* a bucket entry (nr, nf, fields) *)
Definition bentry := (nat * nat * rec)%type.

(* HashJoinMap.get_single_key / get_multi_key: the key is the atom itself for one key pair and the
   tuple for several; both are represented as the list of components, which preserves equality *)
Fixpoint rhs_key (ks : list rkey) (nr : nat) (fields : rec) : res key :=
  match ks with
  | [] => Ok []
  | RNR :: t => do r <- rhs_key t nr fields; Ok (AInt (Z.of_nat nr) :: r)
  | RFld j :: t =>
      match nth_error fields j with
      | None => Err (XRuntime 5)          (* 'No field with index j+1 at record nr in "B" table' *)
      | Some a => do r <- rhs_key t nr fields; Ok (a :: r)
      end
  end.

Record jmap := { m_buckets : list (key * list bentry); m_maxlen : nat }.

Fixpoint bucket_add (k : key) (e : bentry) (l : list (key * list bentry)) : list (key * list bentry) :=
  match l with
  | [] => [(k, [e])]
  | (k', es) :: t => if key_eqb k k' then (k', es ++ [e]) :: t else (k', es) :: bucket_add k e t
  end.

(* HashJoinMap.build: returns the map, or the runtime error with the number of the offending B record *)
Fixpoint build_from (ks : list rkey) (B : list rec) (nr : nat) (m : jmap) : jmap + nat :=
  match B with
  | [] => inl m
  | f :: t =>
      let nr' := S nr in
      let mx := Nat.max (m_maxlen m) (length f) in
      match rhs_key ks nr' f with
      | Err _ => inr nr'
      | Ok k => build_from ks t nr' {| m_buckets := bucket_add k (nr', length f, f) (m_buckets m); m_maxlen := mx |}
      end
  end.
Definition build (ks : list rkey) (B : list rec) : jmap + nat :=
  build_from ks B 0 {| m_buckets := []; m_maxlen := 0 |}.

(* shallow_parse_input_query, right after join_map_impl.build():
     if join_header is not None: max_record_len = max(max_record_len, len(join_header))
   so the all-None record of LEFT JOIN has one field per join column also when no join record is that wide
   (a join table with a header and no records: before c71773a the null record had 0 fields, D27) *)
Definition widen (jh : option nat) (m : jmap) : jmap :=
  match jh with
  | None => m
  | Some n => {| m_buckets := m_buckets m; m_maxlen := Nat.max (m_maxlen m) n |}
  end.

Fixpoint get_join_records (bs : list (key * list bentry)) (k : key) : list bentry :=
  match bs with
  | [] => []
  | (k', es) :: t => if key_eqb k k' then es else get_join_records t k
  end.

(* lhs key: NR or safe_join_get(record_a, i) *)
Fixpoint lhs_key (ks : list lkey) (nr : nat) (a : rec) : res key :=
  match ks with
  | [] => Ok []
  | LNR :: t => do r <- lhs_key t nr a; Ok (AInt (Z.of_nat nr) :: r)
  | LFld i :: t =>
      match nth_error a i with
      | None => Err (XBadField i)
      | Some v => do r <- lhs_key t nr a; Ok (v :: r)
      end
  end.

Definition binfo_of (e : bentry) : binfo := let '(nr, nf, f) := e in BRec (Some nr) nf f.

(* joiner.get_rhs *)
Definition get_rhs (jk : jkind) (m : jmap) (k : key) : res (list binfo) :=
  let ms := get_join_records (m_buckets m) k in
  match jk with
  | JInner => Ok (map binfo_of ms)
  | JLeft => match ms with
             | [] => Ok [BRec None (m_maxlen m) (repeat ANone (m_maxlen m))]
             | _ => Ok (map binfo_of ms)
             end
  | JStrict => match ms with
               | [_] => Ok (map binfo_of ms)
               | _ => Err (XRuntime 3)
               end
  end.

(* specification: the B records whose key equals k, in B order *)
Fixpoint number_from {T} (n : nat) (l : list T) : list (nat * T) :=
  match l with [] => [] | x :: t => (S n, x) :: number_from (S n) t end.
Definition matches_spec (ks : list rkey) (B : list rec) (k : key) : list bentry :=
  flat_map (fun '(nr, f) => match rhs_key ks nr f with
                            | Ok k' => if key_eqb k k' then [(nr, length f, f)] else []
                            | Err _ => []
                            end) (number_from 0 B).
