(* CsvLossy_Proofs.v — lossy output is never silent (C10): Python's leftmost non-overlapping str.count is at
   least the size of any family of pairwise disjoint occurrences, hence a delimiter inside a simple / whitespace
   field always raises delim_in_simple_output; None always raises none_in_output. *)
From RBQL Require Import Base Csv CsvWriter CsvSpec CsvStr_Proofs Csv_Proofs.

(* Occs d s n : s contains n pairwise disjoint occurrences of d *)
Inductive Occs (d : str) : str -> nat -> Prop :=
| Occs_nil s : Occs d s 0
| Occs_skip c s n : Occs d s n -> Occs d (c :: s) n
| Occs_take s n : Occs d s n -> Occs d (d ++ s) (S n).

Lemma Occs_app_l d a s n : Occs d s n -> Occs d (a ++ s) n.
Proof. intros H. induction a as [|c a IH]; [exact H|]. cbn [app]. apply Occs_skip. exact IH. Qed.

Lemma Occs_app d a b n m : Occs d a n -> Occs d b m -> Occs d (a ++ b) (n + m).
Proof.
  intros Ha Hb. induction Ha as [s|c s n Ha IH|s n Ha IH].
  - cbn [plus]. apply Occs_app_l. exact Hb.
  - cbn [app]. apply Occs_skip. exact IH.
  - rewrite <- app_assoc. cbn [plus]. apply Occs_take. exact IH.
Qed.

Lemma Occs_inv d s n : Occs d s (S n) -> exists pre s', s = pre ++ d ++ s' /\ Occs d s' n.
Proof.
  intros H. remember (S n) as m eqn:Em. induction H as [s|c s k H IH|s k H IH]; [discriminate| |].
  - destruct (IH Em) as [pre [s' [-> Ho]]]. exists (c :: pre), s'. split; [reflexivity|exact Ho].
  - injection Em as ->. exists [], s. split; [reflexivity|exact H].
Qed.

(* count_greedy_max, the half that is needed: greedy >= any disjoint family *)
Lemma count_ge_occs d : d <> [] -> forall s n, Occs d s n -> (n <= count d s)%nat.
Proof.
  intros Hd. pose proof (dlm_len_pos d Hd) as Hdl.
  intros s. remember (length s) as k eqn:Hk. revert s Hk. induction k as [k IH] using lt_wf_ind. intros s Hk n Ho.
  destruct n as [|n]; [lia|]. destruct (Occs_inv d s n Ho) as [pre [s' [Es Ho']]].
  destruct (find_least d pre s') as [i [F Hi]]. rewrite <- Es in F.
  rewrite (count_some d s i Hd F). apply le_n_S.
  pose proof (find_some_len _ _ _ F) as Hlen.
  apply (IH (length (skipn (i + length d) s))); [rewrite skipn_length; lia|reflexivity|].
  rewrite Es. rewrite app_assoc. rewrite skipn_app.
  replace (i + length d - length (pre ++ d))%nat with O by (rewrite app_length; lia). cbn [skipn].
  apply Occs_app_l. exact Ho'.
Qed.

(* the separators of a joined record, plus one occurrence inside a field *)
Lemma Occs_join d fs : Occs d (join d fs) (length fs - 1).
Proof.
  induction fs as [|f fs IH]; [apply Occs_nil|]. destruct fs as [|g fs]; [apply Occs_nil|].
  rewrite join_cons by discriminate. apply Occs_app_l.
  replace (length (f :: g :: fs) - 1)%nat with (S (length (g :: fs) - 1)) by (cbn [length]; lia).
  apply Occs_take. exact IH.
Qed.

Lemma Occs_join_inside d fs : (exists f, In f fs /\ contains d f = true) -> Occs d (join d fs) (length fs).
Proof.
  induction fs as [|f fs IH]; intros [f0 [Hin Hc]]; [destruct Hin|].
  destruct Hin as [<-|Hin].
  - apply contains_true_occ in Hc. destruct Hc as [a [b Ef]].
    assert (Occs d f 1) as H1. { rewrite Ef. apply Occs_app_l. apply Occs_take. apply Occs_nil. }
    destruct fs as [|g fs]; [exact H1|].
    rewrite join_cons by discriminate.
    replace (length (f :: g :: fs)) with (1 + S (length (g :: fs) - 1))%nat by (cbn [length]; lia).
    apply Occs_app; [exact H1|]. apply Occs_take. apply Occs_join.
  - assert (fs <> []) as Hne by (destruct fs; [destruct Hin|discriminate]).
    rewrite join_cons by exact Hne. apply Occs_app_l. cbn [length]. apply Occs_take. apply IH. exists f0. split; assumption.
Qed.

(* (b) Python: check_separator_in_fields_after_join fires whenever a field contains the delimiter *)
Theorem delim_flag_py_complete dlm fs : dlm <> [] -> (exists f, In f fs /\ contains dlm f = true) ->
  delim_flag_py dlm fs (join dlm fs) = true.
Proof.
  intros Hd H. unfold delim_flag_py. apply negb_true_iff. apply Nat.eqb_neq.
  pose proof (count_ge_occs dlm Hd _ _ (Occs_join_inside dlm fs H)). lia.
Qed.

(* (b) JS: fields.join('').indexOf(delim) != -1 *)
Theorem delim_flag_js_complete dlm fs : (exists f, In f fs /\ contains dlm f = true) -> delim_flag_js dlm fs = true.
Proof.
  intros [f [Hin Hc]]. unfold delim_flag_js. apply contains_true_occ in Hc. destruct Hc as [a [b ->]].
  apply in_split in Hin. destruct Hin as [l1 [l2 ->]]. rewrite concat_app. cbn [concat].
  rewrite <- !app_assoc. rewrite app_assoc. apply occ_contains.
Qed.

(* ---------------------------------------------------------------- one-character delimiters: the converse *)

Lemma find_single_cons c x s :
  find [c] (x :: s) = if N.eqb c x then Some O else option_map S (find [c] s).
Proof. rewrite find_unfold. cbn [starts_with]. rewrite andb_true_r. reflexivity. Qed.

Lemma count_single_cons c x s : count [c] (x :: s) = ((if N.eqb c x then 1 else 0) + count [c] s)%nat.
Proof.
  assert ([c] <> []) as Hd by discriminate.
  destruct (find [c] (x :: s)) as [i|] eqn:F.
  - rewrite (count_some [c] _ i Hd F). rewrite find_single_cons in F. destruct (N.eqb c x).
    + injection F as <-. reflexivity.
    + destruct (find [c] s) as [j|] eqn:F2; [|discriminate]. cbn in F. injection F as <-.
      rewrite (count_some [c] s j Hd F2). reflexivity.
  - rewrite (count_none _ _ F). rewrite find_single_cons in F. destruct (N.eqb c x); [discriminate|].
    destruct (find [c] s) as [j|] eqn:F2; [discriminate|]. rewrite (count_none _ _ F2). reflexivity.
Qed.

Lemma count_single c s : count [c] s = count_ch c s.
Proof.
  induction s as [|x s IH]; [reflexivity|]. rewrite count_single_cons, IH. unfold count_ch. cbn [filter].
  destruct (N.eqb c x); reflexivity.
Qed.

Lemma count_ch_app c a b : count_ch c (a ++ b) = (count_ch c a + count_ch c b)%nat.
Proof. unfold count_ch. rewrite filter_app, app_length. reflexivity. Qed.

Lemma count_ch_zero c s : has c s = false -> count_ch c s = O.
Proof.
  induction s as [|x s IH]; intros H; [reflexivity|]. apply has_cons_false in H. destruct H as [Hx Hs].
  unfold count_ch. cbn [filter]. rewrite (neqb_neq c x) by congruence. apply IH. exact Hs.
Qed.

Lemma contains_single c s : contains [c] s = has c s.
Proof.
  induction s as [|x s IH]; [reflexivity|]. unfold contains in *. rewrite find_single_cons, has_cons.
  destruct (N.eqb c x); [reflexivity|]. cbn [orb]. rewrite <- IH. destruct (find [c] s); reflexivity.
Qed.

Lemma count_join_clean c fs : fs <> [] -> (forall f, In f fs -> has c f = false) ->
  count_ch c (join [c] fs) = (length fs - 1)%nat.
Proof.
  induction fs as [|f fs IH]; intros Hne H; [congruence|]. destruct fs as [|g fs].
  - cbn [join length]. apply count_ch_zero. apply H. left. reflexivity.
  - rewrite join_cons by discriminate. rewrite !count_ch_app. rewrite (count_ch_zero c f) by (apply H; left; reflexivity).
    rewrite IH; [|discriminate|intros f0 Hf0; apply H; right; exact Hf0].
    unfold count_ch at 1. cbn [filter]. rewrite N.eqb_refl. cbn [length]. lia.
Qed.

Theorem delim_flag_py_sound_single c fs : fs <> [] -> delim_flag_py [c] fs (join [c] fs) = true ->
  exists f, In f fs /\ contains [c] f = true.
Proof.
  intros Hne H.
  destruct (existsb (has c) fs) eqn:E.
  - apply existsb_exists in E. destruct E as [f [Hin Hf]]. exists f. split; [exact Hin|]. rewrite contains_single. exact Hf.
  - exfalso. unfold delim_flag_py in H. apply negb_true_iff in H. apply Nat.eqb_neq in H. apply H.
    rewrite count_single. rewrite count_join_clean; [destruct fs; [congruence|cbn [length]; lia]|exact Hne|].
    intros f Hin. destruct (has c f) eqn:Hf; [|reflexivity].
    assert (existsb (has c) fs = true) by (apply existsb_exists; exists f; split; assumption). congruence.
Qed.

(* ---------------------------------------------------------------- the writer *)

Fixpoint has_none (c : cell) : bool :=
  match c with
  | CNone => true
  | CList l => existsb has_none l
  | _ => false
  end.

Lemma norm_cell_none sub : forall c, snd (norm_cell sub c) = has_none c.
Proof.
  fix IH 1. intros c. destruct c as [s| |z|l]; try reflexivity.
  cbn [norm_cell has_none snd]. induction l as [|a l IHl]; [reflexivity|].
  cbn [map existsb]. rewrite IH, IHl. reflexivity.
Qed.

Lemma normalize_fields_none dlm row : snd (normalize_fields dlm row) = existsb has_none row.
Proof.
  unfold normalize_fields. cbn [snd]. induction row as [|c row IH]; [reflexivity|].
  cbn [map existsb]. rewrite norm_cell_none, IH. reflexivity.
Qed.

Definition lossy_policy (pol : policy) : bool := match pol with Simple | Whitespace => true | _ => false end.

Definition delim_flag_complete_stmt (fl : lang) (dlm : str) (fs : list str) : Prop :=
  (exists f, In f fs /\ contains dlm f = true) ->
  match fl with LPy => delim_flag_py dlm fs (join dlm fs) | LJs => delim_flag_js dlm fs end = true.

Lemma delim_flag_complete fl dlm fs : dlm <> [] -> delim_flag_complete_stmt fl dlm fs.
Proof. intros Hd H. destruct fl; [apply delim_flag_py_complete; assumption|apply delim_flag_js_complete; assumption]. Qed.

(* one write() call *)
Lemma write_row_flags fl pol dlm hl st row st' : write_row fl pol dlm hl st row = (st', None) ->
  (w_none st = true -> w_none st' = true) /\ (w_delim st = true -> w_delim st' = true) /\
  (existsb has_none row = true -> w_none st' = true) /\
  (lossy_policy pol = true -> dlm <> [] ->
   (exists f, In f (fst (normalize_fields dlm row)) /\ contains dlm f = true) -> w_delim st' = true).
Proof.
  unfold write_row. intros H.
  destruct (match hl with Some n => negb (Nat.eqb (length row) n) | None => false end); [discriminate|].
  pose proof (normalize_fields_none dlm row) as Hn.
  destruct (normalize_fields dlm row) as [fs nn] eqn:N. cbn [snd fst] in *.
  destruct pol.
  - injection H as <-. cbn [w_none w_delim]. repeat split.
    + intros ->. reflexivity.
    + intros ->. reflexivity.
    + intros E. rewrite <- Hn in E. rewrite E. apply orb_true_r.
    + intros _ Hd Hc. cbn [delim_flag join_line_fl quote_fields]. pose proof (delim_flag_complete fl dlm fs Hd Hc) as D.
      destruct fl; rewrite D; apply orb_true_r.
  - injection H as <-. cbn [w_none w_delim delim_flag]. repeat split; try discriminate.
    + intros ->. reflexivity.
    + intros ->. reflexivity.
    + intros E. rewrite <- Hn in E. rewrite E. apply orb_true_r.
  - injection H as <-. cbn [w_none w_delim delim_flag]. repeat split; try discriminate.
    + intros ->. reflexivity.
    + intros ->. reflexivity.
    + intros E. rewrite <- Hn in E. rewrite E. apply orb_true_r.
  - injection H as <-. cbn [w_none w_delim]. repeat split.
    + intros ->. reflexivity.
    + intros ->. reflexivity.
    + intros E. rewrite <- Hn in E. rewrite E. apply orb_true_r.
    + intros _ Hd Hc. cbn [delim_flag join_line_fl quote_fields]. pose proof (delim_flag_complete fl dlm fs Hd Hc) as D.
      destruct fl; rewrite D; apply orb_true_r.
  - destruct fs as [|f [|g fs]]; try discriminate.
    injection H as <-. cbn [w_none w_delim]. repeat split; try discriminate.
    + intros ->. reflexivity.
    + intros E. exact E.
    + intros E. rewrite <- Hn in E. rewrite E. apply orb_true_r.
Qed.

Lemma write_rows_flags fl pol dlm hl : forall rows st idx st', write_rows fl pol dlm hl st idx rows = (st', None) ->
  (w_none st = true -> w_none st' = true) /\ (w_delim st = true -> w_delim st' = true) /\
  forall row, In row rows ->
    (existsb has_none row = true -> w_none st' = true) /\
    (lossy_policy pol = true -> dlm <> [] ->
     (exists f, In f (fst (normalize_fields dlm row)) /\ contains dlm f = true) -> w_delim st' = true).
Proof.
  induction rows as [|r rows IH]; intros st idx st' H.
  - cbn [write_rows] in H. injection H as <-. split; [auto|]. split; [auto|]. intros row [].
  - cbn [write_rows] in H. destruct (write_row fl pol dlm hl st r) as [st1 [e|]] eqn:W; [discriminate|].
    destruct (write_row_flags _ _ _ _ _ _ _ W) as [A1 [A2 [A3 A4]]].
    destruct (IH _ _ _ H) as [B1 [B2 B3]].
    split; [auto|]. split; [auto|]. intros row [<-|Hin].
    + split; [auto|]. intros P D C. apply B2. apply A4; assumption.
    + apply B3. exact Hin.
Qed.

(* C10_lossy_never_silent at the level of a whole writer run that raised no error *)
Theorem lossy_never_silent fl pol dlm header rows lines nf df :
  write_table fl pol dlm header rows = (lines, None, nf, df) ->
  forall row, In row (match header with Some h => h :: rows | None => rows end) ->
    (existsb has_none row = true -> nf = true) /\
    (lossy_policy pol = true -> dlm <> [] ->
     (exists f, In f (fst (normalize_fields dlm row)) /\ contains dlm f = true) -> df = true).
Proof.
  unfold write_table. intros H row Hin.
  destruct header as [h|].
  - destruct (write_rows fl pol dlm (Some (length h)) {| w_lines := []; w_none := false; w_delim := false |} 0 (h :: rows)) as [st e] eqn:W.
    injection H as _ -> <- <-. destruct (write_rows_flags _ _ _ _ _ _ _ _ W) as [_ [_ B]]. apply B. exact Hin.
  - destruct (write_rows fl pol dlm None {| w_lines := []; w_none := false; w_delim := false |} 0 rows) as [st e] eqn:W.
    injection H as _ -> <- <-. destruct (write_rows_flags _ _ _ _ _ _ _ _ W) as [_ [_ B]]. apply B. exact Hin.
Qed.
