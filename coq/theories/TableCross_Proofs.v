(* TableCross_Proofs.v — the table written by EITHER port's writer is read back by EITHER port's stream reader, however the text
   is delivered, as the same table: Table_Proofs (writer -> text -> reader specification) composed with the refinement of
   both stream readers to that specification (Reader_Proofs.py_records, ReaderJs_Proofs.js_decoded_spec / js_bulk_spec). *)
From RBQL Require Import Base Lines Utf8 Csv CsvSpec CsvWriter Reader ReaderJs Reader_Proofs ReaderJs_Proofs TableLines_Proofs Table_Proofs.

Section Cross.
  Variables (writer : lang) (pol : policy) (dlm ls : str) (c : cfg) (rows : list (list str)).
  Hypothesis Hrfc : c_rfc c = is_rfc pol.
  Hypothesis Hls : line_sep ls.
  Hypothesis Hg : good_dlm pol dlm = true.
  Hypothesis Hd : dlm_nl_free pol dlm = true.
  Hypothesis Hok : table_ok pol dlm (enc_code (c_enc c)) rows = true.
  Hypothesis Hcm : no_comment_rows c (written writer pol dlm rows) = true.

  Let text := emit ls (written writer pol dlm rows).
  Let expected := ok_result c (map (map nl_norm) rows) (physical_lines (written writer pol dlm rows)).

  (* Python reader: any read size, any short reads *)
  Lemma cross_py cs pieces :
    (1 <= cs)%nat -> Forall (fun p => p <> []) pieces -> concat pieces = text ->
    run_py (smart_split pol dlm false) c cs pieces = expected.
  Proof.
    intros Hcs Hne Hp. rewrite (py_records _ c cs pieces Hcs Hne), Hp.
    apply table_roundtrip_any; assumption.
  Qed.

  (* JavaScript reader over decoded chunks: any chunks, any event-loop schedule *)
  Lemma cross_js b0 chunks :
    comment_ok c -> js_chunks_ok false false (map fst chunks) -> concat (map fst chunks) = text ->
    run_js_decoded (smart_split pol dlm false) c b0 chunks = jresult_of_result expected.
  Proof.
    intros Hc Hch Hp. rewrite (js_decoded_spec _ c b0 chunks Hc Hch), Hp. f_equal.
    apply table_roundtrip_any; assumption.
  Qed.

  (* JavaScript reader over the UTF-8 bytes of the text: any partition into non-empty chunks, any schedule *)
  Lemma cross_js_bytes b0 chunks :
    comment_ok c -> c_enc c = EncUtf8 -> Forall (fun x => x <> []) (map fst chunks) ->
    decode_whole (concat (map fst chunks)) = Some text ->
    run_js_stream (smart_split pol dlm false) c b0 chunks = jresult_of_result expected.
  Proof.
    intros Hc He Hne Hdec.
    rewrite (js_stream_is_bulk _ c b0 chunks He (ex_intro _ text Hdec) Hne).
    rewrite (js_bulk_spec _ c _ text Hc) by (rewrite He; exact Hdec). f_equal.
    apply table_roundtrip_any; assumption.
  Qed.
End Cross.

(* one statement: whichever port writes and whichever port reads, in whatever pieces, the table comes back *)
Theorem table_cross_roundtrip (writer : lang) pol dlm ls c rows cs pieces b0 chunks :
  c_rfc c = is_rfc pol -> line_sep ls -> good_dlm pol dlm = true -> dlm_nl_free pol dlm = true ->
  table_ok pol dlm (enc_code (c_enc c)) rows = true ->
  no_comment_rows c (written writer pol dlm rows) = true -> comment_ok c ->
  (1 <= cs)%nat -> Forall (fun p => p <> []) pieces -> concat pieces = emit ls (written writer pol dlm rows) ->
  js_chunks_ok false false (map fst chunks) -> concat (map fst chunks) = emit ls (written writer pol dlm rows) ->
  let expected := ok_result c (map (map nl_norm) rows) (physical_lines (written writer pol dlm rows)) in
  run_py (smart_split pol dlm false) c cs pieces = expected /\
  run_js_decoded (smart_split pol dlm false) c b0 chunks = jresult_of_result expected /\
  written LJs pol dlm rows = written LPy pol dlm rows.
Proof.
  intros Hrfc Hls Hg Hd Hok Hcm Hc Hcs Hne Hp Hch Hq expected. split; [|split].
  - apply (cross_py writer pol dlm ls c rows Hrfc Hls Hg Hd Hok Hcm cs pieces Hcs Hne Hp).
  - apply (cross_js writer pol dlm ls c rows Hrfc Hls Hg Hd Hok Hcm b0 chunks Hc Hch Hq).
  - unfold written. apply map_ext. intros r. apply CsvRoundtrip_Proofs.join_line_lang.
Qed.
