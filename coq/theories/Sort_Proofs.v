(* Sort_Proofs.v — stable_sort (the model of sorted(entries, key=...)) is a permutation, sorted, and stable;
   key_leb is a total preorder on homogeneous integer keys and on homogeneous string keys. *)
From RBQL Require Import Base Value Value_Proofs Writers.
From Coq Require Import Permutation Sorted QArith.

Definition kle (a b : key * row) : Prop := key_leb (fst a) (fst b) = true.
Definition key_eqv (a b : key) : bool := key_leb a b && key_leb b a.

Lemma insert_perm e l : Permutation (insert_sorted e l) (e :: l).
Proof.
  induction l as [|h t IH]; cbn; [reflexivity|].
  destruct (key_leb (fst e) (fst h)); [reflexivity|].
  rewrite IH. apply perm_swap.
Qed.

Theorem stable_sort_perm l : Permutation (stable_sort l) l.
Proof.
  induction l as [|e l IH]; cbn; [reflexivity|].
  rewrite insert_perm. constructor. assumption.
Qed.

Section Order.
(* the keys of the list lie in a domain on which key_leb is total and transitive *)
Variable D : key -> Prop.
Hypothesis total : forall a b, D a -> D b -> key_leb a b = true \/ key_leb b a = true.
Hypothesis trans : forall a b c, D a -> D b -> D c -> key_leb a b = true -> key_leb b c = true -> key_leb a c = true.

Definition in_dom (l : list (key * row)) : Prop := Forall (fun e => D (fst e)) l.

Lemma insert_in_dom e l : D (fst e) -> in_dom l -> in_dom (insert_sorted e l).
Proof.
  intros He Hl. unfold in_dom. eapply Permutation_Forall; [symmetry; apply insert_perm|]. constructor; assumption.
Qed.

Lemma sort_in_dom l : in_dom l -> in_dom (stable_sort l).
Proof.
  intros H. unfold in_dom. eapply Permutation_Forall; [symmetry; apply stable_sort_perm | assumption].
Qed.

Lemma insert_sorted_sorted e l :
  D (fst e) -> in_dom l -> StronglySorted kle l -> StronglySorted kle (insert_sorted e l).
Proof.
  intros He Hd Hs. induction Hs as [|h t Hs IH Hh]; cbn.
  - constructor; constructor.
  - inversion Hd as [|? ? Dh Dt]; subst. destruct (key_leb (fst e) (fst h)) eqn:E.
    + constructor; [constructor; assumption|]. constructor; [exact E|].
      rewrite Forall_forall in *. intros x Hx. unfold kle in *.
      apply (trans (fst e) (fst h) (fst x)); auto.
    + constructor; [apply IH; assumption|].
      eapply Permutation_Forall; [symmetry; apply insert_perm|]. constructor; [|assumption].
      unfold kle. destruct (total (fst e) (fst h) He Dh) as [T|T]; [congruence | assumption].
Qed.

Theorem stable_sort_sorted l : in_dom l -> StronglySorted kle (stable_sort l).
Proof.
  induction l as [|e l IH]; intros H; cbn; [constructor|].
  inversion H; subst. apply insert_sorted_sorted; [assumption | apply sort_in_dom; assumption | apply IH; assumption].
Qed.

(* stability: the elements whose key is equivalent to k come out in input order *)
Lemma insert_filter k e l : D k -> D (fst e) -> in_dom l ->
  filter (fun x => key_eqv k (fst x)) (insert_sorted e l) =
  (if key_eqv k (fst e) then [e] else []) ++ filter (fun x => key_eqv k (fst x)) l.
Proof.
  intros Dk De Dl. induction l as [|h t IH]; cbn; [destruct (key_eqv k (fst e)); reflexivity|].
  inversion Dl as [|? ? Dh Dt]; subst. destruct (key_leb (fst e) (fst h)) eqn:E.
  - cbn. destruct (key_eqv k (fst e)); reflexivity.
  - cbn. rewrite (IH Dt). destruct (key_eqv k (fst h)) eqn:Eh; [|reflexivity].
    destruct (key_eqv k (fst e)) eqn:Ee; [|reflexivity]. exfalso.
    unfold key_eqv in *. apply andb_true_iff in Eh. apply andb_true_iff in Ee. destruct Eh as [H1 H2], Ee as [H3 H4].
    rewrite (trans (fst e) k (fst h)) in E; auto. discriminate.
Qed.

Theorem stable_sort_stable l k : D k -> in_dom l ->
  filter (fun x => key_eqv k (fst x)) (stable_sort l) = filter (fun x => key_eqv k (fst x)) l.
Proof.
  intros Dk. induction l as [|e l IH]; intros H; [reflexivity|]. inversion H; subst. cbn [stable_sort fold_right].
  change (fold_right insert_sorted [] l) with (stable_sort l).
  rewrite insert_filter; [|assumption|assumption|apply sort_in_dom; assumption]. rewrite IH by assumption.
  cbn. destruct (key_eqv k (fst e)); reflexivity.
Qed.
(* uniqueness: a sorted list is determined by its key classes' subsequences; hence ANY stable sorting algorithm
   (Python's sorted, documented stable) returns exactly what the model's insertion sort returns *)
Lemma sorted_unique : forall l1 l2,
  in_dom l1 -> in_dom l2 -> StronglySorted kle l1 -> StronglySorted kle l2 ->
  (forall k, D k -> filter (fun x => key_eqv k (fst x)) l1 = filter (fun x => key_eqv k (fst x)) l2) ->
  l1 = l2.
Proof.
  induction l1 as [|x t1 IH]; intros l2 D1 D2 S1 S2 HF.
  - destruct l2 as [|y t2]; [reflexivity|]. inversion D2 as [|? ? Dy Dt]; subst.
    specialize (HF (fst y) Dy). cbn in HF. unfold key_eqv in HF at 1.
    assert (R : key_leb (fst y) (fst y) = true) by (destruct (total (fst y) (fst y) Dy Dy); assumption).
    rewrite R in HF. discriminate.
  - inversion D1 as [|? ? Dx Dt1]; subst. inversion S1 as [|? ? S1t Hx]; subst.
    assert (Rx : key_leb (fst x) (fst x) = true) by (destruct (total (fst x) (fst x) Dx Dx); assumption).
    destruct l2 as [|y t2].
    + specialize (HF (fst x) Dx). cbn in HF. unfold key_eqv in HF at 1. rewrite Rx in HF. discriminate.
    + inversion D2 as [|? ? Dy Dt2]; subst. inversion S2 as [|? ? S2t Hy]; subst.
      assert (Ry : key_leb (fst y) (fst y) = true) by (destruct (total (fst y) (fst y) Dy Dy); assumption).
      (* y occurs in x :: t1 and x occurs in y :: t2 *)
      assert (Iy : In y (x :: t1)).
      { pose proof (HF (fst y) Dy) as E. assert (In y (filter (fun z => key_eqv (fst y) (fst z)) (y :: t2))).
        { apply filter_In. split; [left; reflexivity|]. unfold key_eqv. rewrite Ry. reflexivity. }
        rewrite <- E in H. apply filter_In in H. apply H. }
      assert (Ix : In x (y :: t2)).
      { pose proof (HF (fst x) Dx) as E. assert (In x (filter (fun z => key_eqv (fst x) (fst z)) (x :: t1))).
        { apply filter_In. split; [left; reflexivity|]. unfold key_eqv. rewrite Rx. reflexivity. }
        rewrite E in H. apply filter_In in H. apply H. }
      assert (Lxy : key_leb (fst x) (fst y) = true).
      { destruct Iy as [<- | Iy]; [exact Rx|]. rewrite Forall_forall in Hx. apply Hx. exact Iy. }
      assert (Lyx : key_leb (fst y) (fst x) = true).
      { destruct Ix as [<- | Ix]; [exact Ry|]. rewrite Forall_forall in Hy. apply Hy. exact Ix. }
      assert (Exy : x = y).
      { pose proof (HF (fst x) Dx) as E. cbn [filter] in E.
        assert (E1 : key_eqv (fst x) (fst x) = true) by (unfold key_eqv; rewrite Rx; reflexivity).
        assert (E2 : key_eqv (fst x) (fst y) = true) by (unfold key_eqv; rewrite Lxy, Lyx; reflexivity).
        rewrite E1, E2 in E. injection E as E _. exact E. }
      subst y. f_equal. apply IH; try assumption.
      intros k Dk. pose proof (HF k Dk) as E. cbn [filter] in E.
      destruct (key_eqv k (fst x)); [injection E as E; exact E | exact E].
Qed.

Theorem sort_stable_unique l l' :
  in_dom l -> in_dom l' -> StronglySorted kle l' ->
  (forall k, D k -> filter (fun x => key_eqv k (fst x)) l' = filter (fun x => key_eqv k (fst x)) l) ->
  l' = stable_sort l.
Proof.
  intros Dl Dl' S HF. apply sorted_unique; try assumption.
  - apply sort_in_dom. assumption.
  - apply stable_sort_sorted. assumption.
  - intros k Dk. rewrite (HF k Dk). symmetry. apply stable_sort_stable; assumption.
Qed.
End Order.

(* ---------- integer keys ---------- *)
Lemma atom_eqb_int x y : atom_eqb (AInt x) (AInt y) = Z.eqb x y.
Proof. cbn. unfold Qeq_bool, Zeq_bool. cbn. rewrite !Z.mul_1_r. destruct (Z.compare_spec x y); subst.
  - rewrite Z.eqb_refl. reflexivity.
  - symmetry. apply Z.eqb_neq. lia.
  - symmetry. apply Z.eqb_neq. lia.
Qed.

Lemma atom_leb_int x y : atom_leb (AInt x) (AInt y) = Z.leb x y.
Proof.
  unfold atom_leb. cbn [atom_ltb num_of]. rewrite atom_eqb_int. unfold Qle_bool. cbn. rewrite !Z.mul_1_r.
  destruct (Z.leb_spec y x), (Z.eqb_spec x y), (Z.leb_spec x y); cbn; try reflexivity; lia.
Qed.

Fixpoint zkey (k : key) : option (list Z) :=
  match k with
  | [] => Some []
  | AInt z :: t => match zkey t with Some r => Some (z :: r) | None => None end
  | _ => None
  end.

Fixpoint zlex (a b : list Z) : bool :=
  match a, b with
  | [], _ => true
  | _ :: _, [] => false
  | x :: a', y :: b' => if Z.eqb x y then zlex a' b' else Z.leb x y
  end.

Lemma int_key_zkey k : int_key k = true -> exists l, zkey k = Some l.
Proof.
  induction k as [|a k IH]; cbn; intros H; [eexists; reflexivity|].
  apply andb_true_iff in H. destruct H as [H1 H2]. destruct a; try discriminate.
  destruct (IH H2) as [l ->]. eexists; reflexivity.
Qed.

Lemma key_leb_zlex : forall a b la lb, zkey a = Some la -> zkey b = Some lb -> key_leb a b = zlex la lb.
Proof.
  induction a as [|x a IH]; intros b la lb Ha Hb.
  - cbn in Ha. injection Ha as <-. reflexivity.
  - cbn in Ha. destruct x; try discriminate. destruct (zkey a) as [ra|] eqn:Ea; [|discriminate]. injection Ha as <-.
    destruct b as [|y b]; cbn in Hb.
    + injection Hb as <-. reflexivity.
    + destruct y; try discriminate. destruct (zkey b) as [rb|] eqn:Eb; [|discriminate]. injection Hb as <-.
      cbn [key_leb zlex]. rewrite atom_eqb_int, atom_leb_int. rewrite (IH b ra rb eq_refl Eb). reflexivity.
Qed.

Lemma zlex_total : forall a b, zlex a b = true \/ zlex b a = true.
Proof.
  induction a as [|x a IH]; intros [|y b]; cbn; auto.
  destruct (Z.eqb_spec x y), (Z.eqb_spec y x); subst; try congruence; [apply IH|].
  destruct (Z.leb_spec x y), (Z.leb_spec y x); auto; lia.
Qed.

Lemma zlex_trans : forall a b c, zlex a b = true -> zlex b c = true -> zlex a c = true.
Proof.
  induction a as [|x a IH]; intros [|y b] [|z c]; cbn; intros H1 H2; try reflexivity; try discriminate.
  destruct (Z.eqb_spec x y), (Z.eqb_spec y z), (Z.eqb_spec x z); subst; try congruence; try lia;
    try (eapply IH; eassumption);
    try (apply Z.leb_le in H1; apply Z.leb_le in H2; try apply Z.leb_le; lia).
Qed.

Definition IntKey (k : key) : Prop := int_key k = true.

Lemma int_key_total a b : IntKey a -> IntKey b -> key_leb a b = true \/ key_leb b a = true.
Proof.
  intros Ha Hb. destruct (int_key_zkey a Ha) as [la Ea]. destruct (int_key_zkey b Hb) as [lb Eb].
  rewrite (key_leb_zlex a b la lb Ea Eb), (key_leb_zlex b a lb la Eb Ea). apply zlex_total.
Qed.

Lemma int_key_trans a b c : IntKey a -> IntKey b -> IntKey c -> key_leb a b = true -> key_leb b c = true -> key_leb a c = true.
Proof.
  intros Ha Hb Hc. destruct (int_key_zkey a Ha) as [la Ea]. destruct (int_key_zkey b Hb) as [lb Eb]. destruct (int_key_zkey c Hc) as [lc Ec].
  rewrite (key_leb_zlex a b la lb Ea Eb), (key_leb_zlex b c lb lc Eb Ec), (key_leb_zlex a c la lc Ea Ec). apply zlex_trans.
Qed.

(* ---------- string keys ---------- *)
Lemma str_ltb_irrefl s : str_ltb s s = false.
Proof. induction s as [|c s IH]; cbn; [reflexivity|]. rewrite N.ltb_irrefl, N.eqb_refl, IH. reflexivity. Qed.

Lemma str_trichotomy : forall a b, str_ltb a b = true \/ a = b \/ str_ltb b a = true.
Proof.
  induction a as [|x a IH]; intros [|y b]; cbn; auto.
  destruct (N.compare_spec x y) as [E|E|E].
  - subst. rewrite N.ltb_irrefl, N.eqb_refl. cbn. destruct (IH b) as [H|[H|H]]; auto. subst. auto.
  - left. apply N.ltb_lt in E. rewrite E. reflexivity.
  - right. right. apply N.ltb_lt in E. rewrite E. reflexivity.
Qed.

Lemma str_ltb_trans : forall a b c, str_ltb a b = true -> str_ltb b c = true -> str_ltb a c = true.
Proof.
  induction a as [|x a IH]; intros [|y b] [|z c]; cbn; intros H1 H2; try reflexivity; try discriminate.
  apply orb_true_iff in H1. apply orb_true_iff in H2. apply orb_true_iff.
  destruct H1 as [H1|H1], H2 as [H2|H2].
  - left. apply N.ltb_lt in H1. apply N.ltb_lt in H2. apply N.ltb_lt. lia.
  - apply andb_true_iff in H2. destruct H2 as [E _]. apply N.eqb_eq in E. subst. left. assumption.
  - apply andb_true_iff in H1. destruct H1 as [E _]. apply N.eqb_eq in E. subst. left. assumption.
  - apply andb_true_iff in H1. apply andb_true_iff in H2. destruct H1 as [E1 L1], H2 as [E2 L2].
    apply N.eqb_eq in E1. apply N.eqb_eq in E2. subst. right. rewrite N.eqb_refl. cbn. eapply IH; eassumption.
Qed.

Lemma str_ltb_asym a b : str_ltb a b = true -> str_ltb b a = false.
Proof.
  intros H. destruct (str_ltb b a) eqn:E; [|reflexivity].
  rewrite <- (str_ltb_irrefl a). symmetry. eapply str_ltb_trans; eassumption.
Qed.

Lemma atom_eqb_str s t : atom_eqb (AStr s) (AStr t) = str_eqb s t.
Proof. reflexivity. Qed.
Lemma atom_leb_str s t : atom_leb (AStr s) (AStr t) = str_ltb s t || str_eqb s t.
Proof. reflexivity. Qed.

Fixpoint skey (k : key) : option (list str) :=
  match k with
  | [] => Some []
  | AStr s :: t => match skey t with Some r => Some (s :: r) | None => None end
  | _ => None
  end.

Fixpoint slex (a b : list str) : bool :=
  match a, b with
  | [], _ => true
  | _ :: _, [] => false
  | x :: a', y :: b' => if str_eqb x y then slex a' b' else str_ltb x y
  end.

Lemma str_key_skey k : str_key k = true -> exists l, skey k = Some l.
Proof.
  induction k as [|a k IH]; cbn; intros H; [eexists; reflexivity|].
  apply andb_true_iff in H. destruct H as [H1 H2]. destruct a; try discriminate.
  destruct (IH H2) as [l ->]. eexists; reflexivity.
Qed.

Lemma key_leb_slex : forall a b la lb, skey a = Some la -> skey b = Some lb -> key_leb a b = slex la lb.
Proof.
  induction a as [|x a IH]; intros b la lb Ha Hb.
  - cbn in Ha. injection Ha as <-. reflexivity.
  - cbn in Ha. destruct x; try discriminate. destruct (skey a) as [ra|] eqn:Ea; [|discriminate]. injection Ha as <-.
    destruct b as [|y b]; cbn in Hb.
    + injection Hb as <-. reflexivity.
    + destruct y; try discriminate. destruct (skey b) as [rb|] eqn:Eb; [|discriminate]. injection Hb as <-.
      cbn [key_leb slex]. rewrite atom_eqb_str, atom_leb_str. rewrite (IH b ra rb eq_refl Eb).
      destruct (str_eqb s s0) eqn:E; [reflexivity|]. rewrite orb_false_r. reflexivity.
Qed.

Lemma slex_total : forall a b, slex a b = true \/ slex b a = true.
Proof.
  induction a as [|x a IH]; intros [|y b]; cbn; auto.
  destruct (str_eqb x y) eqn:E.
  - apply str_eqb_true in E. subst. rewrite str_eqb_refl. apply IH.
  - destruct (str_eqb y x) eqn:E2; [apply str_eqb_true in E2; subst; rewrite str_eqb_refl in E; discriminate|].
    destruct (str_trichotomy x y) as [H|[H|H]]; auto. subst. rewrite str_eqb_refl in E. discriminate.
Qed.

Lemma slex_trans : forall a b c, slex a b = true -> slex b c = true -> slex a c = true.
Proof.
  induction a as [|x a IH]; intros [|y b] [|z c]; cbn; intros H1 H2; try reflexivity; try discriminate.
  destruct (str_eqb x y) eqn:E1.
  - apply str_eqb_true in E1. subst y. destruct (str_eqb x z) eqn:E2; [eapply IH; eassumption | assumption].
  - destruct (str_eqb y z) eqn:E2.
    + apply str_eqb_true in E2. subst z. rewrite E1. assumption.
    + destruct (str_eqb x z) eqn:E3.
      * apply str_eqb_true in E3. subst z. rewrite (str_ltb_asym _ _ H1) in H2. discriminate.
      * eapply str_ltb_trans; eassumption.
Qed.

Definition StrKey (k : key) : Prop := str_key k = true.

Lemma str_key_total a b : StrKey a -> StrKey b -> key_leb a b = true \/ key_leb b a = true.
Proof.
  intros Ha Hb. destruct (str_key_skey a Ha) as [la Ea]. destruct (str_key_skey b Hb) as [lb Eb].
  rewrite (key_leb_slex a b la lb Ea Eb), (key_leb_slex b a lb la Eb Ea). apply slex_total.
Qed.

Lemma str_key_trans a b c : StrKey a -> StrKey b -> StrKey c -> key_leb a b = true -> key_leb b c = true -> key_leb a c = true.
Proof.
  intros Ha Hb Hc. destruct (str_key_skey a Ha) as [la Ea]. destruct (str_key_skey b Hb) as [lb Eb]. destruct (str_key_skey c Hc) as [lc Ec].
  rewrite (key_leb_slex a b la lb Ea Eb), (key_leb_slex b c lb lc Eb Ec), (key_leb_slex a c la lc Ea Ec). apply slex_trans.
Qed.
