(* CsvRelabel_Proofs.v — split_relabel (DESIGN 3.1): the splitter only distinguishes the double quote, the space and
   the characters of the delimiter. Any injective relabelling of characters that fixes the quote and the space
   commutes with smart_split (the delimiter is relabelled along). This is what licenses the class-alphabet
   enumerations of the C11 / C18 correspondence runs. *)
From RBQL Require Import Base Csv CsvStr_Proofs Csv_Proofs.

Section Relabel.
  Variable g : ch -> ch.
  Hypothesis g_inj : forall a b, g a = g b -> a = b.
  Hypothesis g_qt : g QT = QT.
  Hypothesis g_sp : g SP = SP.

  Local Notation m := (map g).

  Lemma g_eqb a b : N.eqb (g a) (g b) = N.eqb a b.
  Proof.
    destruct (N.eqb a b) eqn:E.
    - apply N.eqb_eq in E. subst b. apply N.eqb_refl.
    - apply N.eqb_neq. intros H. apply g_inj in H. apply N.eqb_neq in E. contradiction.
  Qed.
  Lemma g_eqb_qt a : N.eqb (g a) QT = N.eqb a QT.
  Proof. rewrite <- g_qt at 1. apply g_eqb. Qed.
  Lemma g_eqb_sp a : N.eqb (g a) SP = N.eqb a SP.
  Proof. rewrite <- g_sp at 1. apply g_eqb. Qed.

  Lemma has_map c s : has (g c) (m s) = has c s.
  Proof. induction s as [|x s IH]; [reflexivity|]. cbn [map]. rewrite !has_cons, g_eqb, IH. reflexivity. Qed.
  Lemma has_qt_map s : has QT (m s) = has QT s.
  Proof. rewrite <- g_qt at 1. apply has_map. Qed.

  Lemma starts_with_map p s : starts_with (m p) (m s) = starts_with p s.
  Proof.
    revert s. induction p as [|c p IH]; intros s; [reflexivity|]. destruct s as [|d s]; [reflexivity|].
    cbn [map starts_with]. rewrite g_eqb, IH. reflexivity.
  Qed.

  Lemma strip_prefix_map p s : strip_prefix (m p) (m s) = option_map m (strip_prefix p s).
  Proof.
    revert s. induction p as [|c p IH]; intros s; [reflexivity|]. destruct s as [|d s]; [reflexivity|].
    cbn [map strip_prefix]. rewrite g_eqb. destruct (N.eqb c d); [apply IH|reflexivity].
  Qed.

  Lemma find_map p s : find (m p) (m s) = find p s.
  Proof.
    induction s as [|c s IH].
    - rewrite !find_unfold. change [] with (m []) at 1. rewrite starts_with_map. reflexivity.
    - rewrite (find_unfold (m p)), (find_unfold p). change (m (c :: s)) with (g c :: m s).
      change (g c :: m s) with (m (c :: s)) at 1. rewrite starts_with_map. rewrite IH. reflexivity.
  Qed.

  Lemma contains_map p s : contains (m p) (m s) = contains p s.
  Proof. unfold contains. rewrite find_map. reflexivity. Qed.

  Lemma str_eqb_map a b : str_eqb (m a) (m b) = str_eqb a b.
  Proof.
    revert b. induction a as [|x a IH]; intros [|y b]; try reflexivity. cbn [map str_eqb]. rewrite g_eqb, IH. reflexivity.
  Qed.

  Lemma dlm_is_space_map dlm : dlm_is_space (m dlm) = dlm_is_space dlm.
  Proof. unfold dlm_is_space. transitivity (str_eqb (m dlm) (m [SP])); [cbn [map]; rewrite g_sp; reflexivity|apply str_eqb_map]. Qed.

  Lemma skip_sp_map s : skip_sp (m s) = (m (fst (skip_sp s)), m (snd (skip_sp s))).
  Proof.
    induction s as [|c s IH]; [reflexivity|]. cbn [map skip_sp]. rewrite g_eqb_sp. destruct (N.eqb c SP); [|reflexivity].
    rewrite IH. destruct (skip_sp s). reflexivity.
  Qed.

  Lemma take_nsp_map s : take_nsp (m s) = (m (fst (take_nsp s)), m (snd (take_nsp s))).
  Proof.
    induction s as [|c s IH]; [reflexivity|]. cbn [map take_nsp]. rewrite g_eqb_sp. destruct (N.eqb c SP); [reflexivity|].
    rewrite IH. destruct (take_nsp s). reflexivity.
  Qed.

  Definition m2 (p : str * str) : str * str := (m (fst p), m (snd p)).

  Lemma qscan_map_n n : forall s, (length s <= n)%nat -> qscan (m s) = option_map m2 (qscan s).
  Proof.
    induction n as [|n IH]; intros s Hl.
    - destruct s; [reflexivity|cbn in Hl; lia].
    - destruct s as [|c t]; [reflexivity|]. cbn [map]. destruct (N.eqb c QT) eqn:E.
      + apply N.eqb_eq in E. subst c. rewrite g_qt. destruct t as [|c2 t2]; [reflexivity|]. cbn [map].
        destruct (N.eqb c2 QT) eqn:E2.
        * apply N.eqb_eq in E2. subst c2. rewrite g_qt. rewrite !qscan_qq. rewrite IH by (cbn [length] in *; lia).
          destruct (qscan t2) as [[b r]|]; unfold m2; cbn [option_map fst snd map]; rewrite ?g_qt; reflexivity.
        * apply N.eqb_neq in E2. assert (g c2 <> QT) as E3. { intros H. rewrite <- g_qt in H. apply g_inj in H. contradiction. }
          rewrite (qscan_q_nq _ _ E2), (qscan_q_nq _ _ E3). reflexivity.
      + apply N.eqb_neq in E. assert (g c <> QT) as E3. { intros H. rewrite <- g_qt in H. apply g_inj in H. contradiction. }
        rewrite (qscan_nq _ _ E), (qscan_nq _ _ E3). rewrite IH by (cbn [length] in *; lia).
        destruct (qscan t) as [[b r]|]; reflexivity.
  Qed.

  Lemma qscan_map s : qscan (m s) = option_map m2 (qscan s).
  Proof. apply (qscan_map_n (length s)). lia. Qed.

  Lemma undouble_cons2 a b t :
    undouble (a :: b :: t) = if N.eqb a QT && N.eqb b QT then QT :: undouble t else a :: undouble (b :: t).
  Proof. reflexivity. Qed.

  Lemma undouble_map_n n : forall s, (length s <= n)%nat -> undouble (m s) = m (undouble s).
  Proof.
    induction n as [|n IH]; intros s Hl.
    - destruct s; [reflexivity|cbn in Hl; lia].
    - destruct s as [|a [|b t]]; [reflexivity|reflexivity|]. change (m (a :: b :: t)) with (g a :: g b :: m t).
      rewrite !undouble_cons2, !g_eqb_qt.
      destruct (N.eqb a QT && N.eqb b QT).
      + cbn [map]. rewrite g_qt. rewrite IH by (cbn [length] in *; lia). reflexivity.
      + change (g b :: m t) with (m (b :: t)). rewrite IH by (cbn [length] in *; lia). reflexivity.
  Qed.

  Lemma undouble_map s : undouble (m s) = m (undouble s).
  Proof. apply (undouble_map_n (length s)). lia. Qed.

  Definition m3 (p : str * str * str) : str * str * str := (m (fst (fst p)), m (snd (fst p)), m (snd p)).

  Lemma qmatch_map ext s : qmatch ext (m s) = option_map m3 (qmatch ext s).
  Proof.
    unfold qmatch. destruct ext.
    - rewrite skip_sp_map. destruct (skip_sp s) as [sp1 s1]. cbn [fst snd]. destruct s1 as [|c t]; [reflexivity|].
      cbn [map]. rewrite g_eqb_qt. destruct (N.eqb c QT); [|reflexivity]. rewrite qscan_map.
      destruct (qscan t) as [[raw r]|]; [|reflexivity]. unfold m2. cbn [option_map fst snd]. rewrite skip_sp_map.
      destruct (skip_sp r) as [sp2 r2]. unfold m3. cbn [fst snd option_map]. rewrite !map_app. cbn [map]. rewrite !map_app. cbn [map]. rewrite g_qt. reflexivity.
    - destruct s as [|c t]; [reflexivity|]. cbn [map]. rewrite g_eqb_qt. destruct (N.eqb c QT); [|reflexivity]. rewrite qscan_map.
      destruct (qscan t) as [[raw r]|]; [|reflexivity]. unfold m2, m3. cbn [option_map fst snd app map]. rewrite !map_app. cbn [map]. rewrite g_qt. reflexivity.
  Qed.

  Definition mx (x : (bool * str) * bool * option str) : (bool * str) * bool * option str :=
    ((fst (fst (fst x)), m (snd (fst (fst x)))), snd (fst x), option_map m (snd x)).

  Lemma extract_map dlm pr ext s :
    extract_next_field (m dlm) pr ext (m s) = mx (extract_next_field dlm pr ext s).
  Proof.
    unfold extract_next_field. cbv zeta. rewrite qmatch_map, find_map, has_qt_map, map_length.
    assert (forall w0, match find dlm s with
                       | Some i => (false, firstn i (m s), w0 || has QT (firstn i (m s)), Some (skipn (i + length dlm) (m s)))
                       | None => (false, m s, w0 || has QT s, None)
                       end = mx match find dlm s with
                                | Some i => (false, firstn i s, w0 || has QT (firstn i s), Some (skipn (i + length dlm) s))
                                | None => (false, s, w0 || has QT s, None)
                                end) as Hf.
    { intros w0. destruct (find dlm s) as [i|]; [|reflexivity]. rewrite firstn_map, skipn_map, has_qt_map. reflexivity. }
    destruct (qmatch ext s) as [[[g0 raw] r]|]; [|apply Hf]. cbn [option_map m3 fst snd]. rewrite undouble_map.
    destruct r as [|c r']; [destruct pr; reflexivity|]. cbn [map]. change (g c :: m r') with (m (c :: r')).
    rewrite strip_prefix_map. destruct (strip_prefix dlm (c :: r')); [destruct pr; reflexivity|apply Hf].
  Qed.

  Definition mt (t : list (bool * str)) : list (bool * str) := map (fun x => (fst x, m (snd x))) t.

  Lemma sq_loop_map dlm pr ext : forall fuel s,
    sq_loop fuel (m dlm) pr ext (m s) = (mt (fst (sq_loop fuel dlm pr ext s)), snd (sq_loop fuel dlm pr ext s)).
  Proof.
    induction fuel as [|fuel IH]; intros s; [reflexivity|].
    destruct s as [|c0 s0]; [reflexivity|]. change (m (c0 :: s0)) with (g c0 :: m s0).
    cbn [sq_loop]. change (g c0 :: m s0) with (m (c0 :: s0)). rewrite extract_map.
    destruct (extract_next_field dlm pr ext (c0 :: s0)) as [[[tag f] w] [r|]]; cbn [mx fst snd option_map]; [|reflexivity].
    rewrite IH. destruct (sq_loop fuel dlm pr ext r) as [fs w']. reflexivity.
  Qed.

  Lemma split_fuel_map d : forall fuel s, split_fuel fuel (m d) (m s) = map m (split_fuel fuel d s).
  Proof.
    induction fuel as [|fuel IH]; intros s; [reflexivity|]. rewrite !split_fuel_S, find_map, map_length.
    destruct (find d s) as [i|]; [|reflexivity]. rewrite firstn_map, skipn_map, IH. reflexivity.
  Qed.

  Lemma split_map d s : split (m d) (m s) = map m (split d s).
  Proof. unfold split. rewrite map_length. apply split_fuel_map. Qed.

  Lemma split_quoted_str_map dlm pr s :
    split_quoted_str (m dlm) pr (m s) = (map m (fst (split_quoted_str dlm pr s)), snd (split_quoted_str dlm pr s)).
  Proof.
    unfold split_quoted_str, split_quoted_tagged. rewrite has_qt_map, dlm_is_space_map, map_length.
    destruct (negb (has QT s)).
    - rewrite split_map. cbn [fst snd]. rewrite !map_map. reflexivity.
    - rewrite sq_loop_map. destruct (sq_loop (S (length s)) dlm pr (negb (dlm_is_space dlm)) s) as [t w]. cbn [fst snd].
      unfold mt. rewrite !map_map. reflexivity.
  Qed.

  Lemma ws_split_map_n n : forall s, (length s <= n)%nat -> ws_split (m s) = map m (ws_split s).
  Proof.
    induction n as [|n IH]; intros s Hl.
    - destruct s; [reflexivity|cbn in Hl; lia].
    - destruct s as [|c t]; [reflexivity|]. cbn [map ws_split]. rewrite g_eqb_sp.
      destruct (N.eqb c SP); [apply IH; cbn in Hl; lia|].
      destruct t as [|d t']; [reflexivity|]. cbn [map]. rewrite g_eqb_sp. change (g d :: m t') with (m (d :: t')).
      rewrite IH by (cbn [length] in *; lia). destruct (N.eqb d SP); [reflexivity|].
      destruct (ws_split (d :: t')); reflexivity.
  Qed.

  Lemma ws_tokens_map : forall fuel s, ws_tokens fuel (m s) = map m (ws_tokens fuel s).
  Proof.
    induction fuel as [|fuel IH]; intros s; [reflexivity|]. cbn [ws_tokens]. rewrite skip_sp_map.
    destruct (skip_sp s) as [sp1 r1]. cbn [fst snd]. rewrite take_nsp_map. destruct (take_nsp r1) as [w r2]. cbn [fst snd].
    destruct w as [|c w]; [reflexivity|]. cbn [map]. rewrite skip_sp_map. destruct (skip_sp r2) as [sp2 r3]. cbn [fst snd].
    rewrite IH. cbn [map]. rewrite !map_app. reflexivity.
  Qed.

  Lemma removelast_map (l : str) : removelast (m l) = m (removelast l).
  Proof. induction l as [|a [|b l] IH]; [reflexivity|reflexivity|]. cbn [map removelast] in *. rewrite IH. reflexivity. Qed.

  Lemma chop_map l : chop_all_but_last (map m l) = map m (chop_all_but_last l).
  Proof.
    induction l as [|x [|y l] IH]; [reflexivity|reflexivity|]. cbn [map chop_all_but_last] in *. rewrite removelast_map, IH. reflexivity.
  Qed.

  (* split_relabel *)
  Theorem split_relabel pol dlm pr line :
    smart_split pol (m dlm) pr (m line) = (map m (fst (smart_split pol dlm pr line)), snd (smart_split pol dlm pr line)).
  Proof.
    destruct pol; cbn [smart_split fst snd].
    - rewrite split_map. reflexivity.
    - apply split_quoted_str_map.
    - apply split_quoted_str_map.
    - unfold split_whitespace_separated_str. rewrite map_length. destruct pr.
      + rewrite ws_tokens_map, chop_map. reflexivity.
      + rewrite (ws_split_map_n (length line)) by lia. reflexivity.
    - reflexivity.
  Qed.
End Relabel.
