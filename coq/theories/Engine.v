(* Engine.v — the main loop of rbql_engine.py (MAIN_LOOP_BODY with PROCESS_SELECT_SIMPLE/JOIN + PROCESS_SELECT_COMMON,
   PROCESS_UPDATE_SIMPLE/JOIN), select_simple / select_unnested / select_aggregated, and query():
   static checks, join-map build, loop, writer.finish().  Parametric in the expression language:
   [expr] and [eval] are section variables, so every theorem about the relational skeleton holds for
   every expression semantics; Expr.v is the instance the executable entry points use. *)
From RBQL Require Import Base Value Expr Writers Join Agg.

Inductive eclass := CParsing | CRuntime | CIO | COther | CUnmodelled.

Section Engine.
Variable expr : Type.
Variable eval : env -> expr -> res val.

Inductive item :=
| IExpr (e : expr)
| IStar | IStarA | IStarB
| IUnnest (e : expr)
| IAgg (k : agg_kind) (e : expr).

Inductive qkind :=
| QSelect (items : list item)
| QExcept (idxs : list nat)                 (* SELECT * EXCEPT ...: sorted 0-based column indices *)
| QUpdate (assigns : list (nat * expr)).    (* safe_set(up_fields, idx, rhs) in order *)

Record query := {
  q_kind : qkind;
  q_where : option expr;
  q_join : option join_spec;
  q_group : option (list expr);
  q_order : option (list expr * bool);
  q_distinct : dmode;
  q_top : option nat
}.

Definition cfg_of (q : query) : chain_cfg :=
  {| c_top := q_top q; c_distinct := q_distinct q;
     c_order := match q_order q with Some (_, rv) => Some rv | None => None end |}.

Definition is_update (q : query) : bool := match q_kind q with QUpdate _ => true | _ => false end.
Definition has_agg_item (q : query) : bool :=
  match q_kind q with
  | QSelect items => existsb (fun i => match i with IAgg _ _ => true | _ => false end) items
  | _ => false
  end.
(* aggregation_stage > 0 when the select list is first evaluated *)
Definition is_agg (q : query) : bool :=
  match q_group q with Some _ => true | None => has_agg_item q end.

(* ---- static checks of shallow_parse_input_query, in the code's order; all precede set_header ---- *)
Definition static_check (q : query) : option N :=
  if (match q_order q with Some _ => true | None => false end) && is_update q then Some 10%N
  else if (match q_group q with Some _ => true | None => false end)
          && ((match q_order q with Some _ => true | None => false end) || is_update q) then Some 11%N
  else match q_kind q, q_join q with
       | QExcept _, Some _ => Some 12%N
       | _, _ => None
       end.

(* ---- evaluation of the select list ---- *)
Inductive slot := SlVal (v : val) | SlUnnest.

Definition lift (r : rec) : list slot := map (fun a => SlVal (VA a)) r.

Definition star_fields (en : env) : res rec :=
  match e_b en with
  | BNoJoin => Ok (e_a en)
  | BRec _ _ rb => Ok (e_a en ++ rb)
  | BNull => Err XUnmodelled
  end.

Definition record_b (en : env) : res rec :=
  match e_b en with
  | BRec _ _ rb => Ok rb
  | _ => Err XUnmodelled
  end.

(* out_fields = [e1, ...] + star_fields + [...]: left to right; UNNEST(...) sets unnest_list *)
Fixpoint eval_items (en : env) (items : list item) (un : option val) : res (list slot * option val) :=
  match items with
  | [] => Ok ([], un)
  | it :: t =>
      match it with
      | IExpr e | IAgg _ e =>
          do v <- eval en e; do r <- eval_items en t un; Ok (SlVal v :: fst r, snd r)
      | IStar => do f <- star_fields en; do r <- eval_items en t un; Ok (lift f ++ fst r, snd r)
      | IStarA => do r <- eval_items en t un; Ok (lift (e_a en) ++ fst r, snd r)
      | IStarB => do f <- record_b en; do r <- eval_items en t un; Ok (lift f ++ fst r, snd r)
      | IUnnest e =>
          do v <- eval en e;
          match v, un with
          | VA ANone, _ => Err XUnmodelled      (* UNNEST(None) leaves unnest_list unset: outside the model *)
          | _, Some _ => Err (XParsing 1)
          | _, None => do r <- eval_items en t (Some v); Ok (SlUnnest :: fst r, snd r)
          end
      end
  end.

Fixpoint eval_list (en : env) (es : list expr) : res (list val) :=
  match es with
  | [] => Ok []
  | e :: t => do v <- eval en e; do r <- eval_list en t; Ok (v :: r)
  end.

Fixpoint atoms_of (vs : list val) : res (list atom) :=
  match vs with
  | [] => Ok []
  | VA a :: t => do r <- atoms_of t; Ok (a :: r)
  | VL _ :: _ => Err XUnmodelled
  end.

Definition eval_key (en : env) (es : option (list expr)) : res key :=
  match es with
  | None => Ok []
  | Some l => do vs <- eval_list en l; atoms_of vs
  end.

(* for v in query_context.unnest_list *)
Definition iter_unnest (v : val) : res (list val) :=
  match v with
  | VL l => Ok (map VA l)
  | VA (AStr s) => Ok (map (fun c => VA (AStr [c])) s)
  | VA ANone => Err XUnmodelled     (* UNNEST(None) leaves unnest_list unset: the marker object itself is emitted *)
  | VA _ => Err XType
  end.

Fixpoint subst_unnest (sl : list slot) (v : val) : row :=
  match sl with
  | [] => []
  | SlVal x :: t => x :: subst_unnest t v
  | SlUnnest :: t => v :: subst_unnest t v
  end.

Fixpoint plain_row (sl : list slot) : res row :=
  match sl with
  | [] => Ok []
  | SlVal x :: t => do r <- plain_row t; Ok (x :: r)
  | SlUnnest :: _ => Err XUnmodelled
  end.

Fixpoint select_except (r : rec) (idxs : list nat) (i : nat) : rec :=
  match r with
  | [] => []
  | a :: t => if existsb (Nat.eqb i) idxs then select_except t idxs (S i) else a :: select_except t idxs (S i)
  end.

Definition where_ok (q : query) (en : env) : res bool :=
  match q_where q with
  | None => Ok true
  | Some e => do v <- eval en e; Ok (truthy v)
  end.

(* one evaluation of PROCESS_SELECT_COMMON for a non-aggregate query: the rows offered to the writer, with their sort key *)
Definition select_rows (q : query) (en : env) : res (list (key * row)) :=
  do ok <- where_ok q en;
  if negb ok then Ok [] else
  match q_kind q with
  | QExcept idxs =>
      do k <- eval_key en (option_map fst (q_order q));
      Ok [(k, map VA (select_except (e_a en) idxs 0))]
  | QSelect items =>
      do r <- eval_items en items None;
      do k <- eval_key en (option_map fst (q_order q));
      match snd r with
      | None => do rw <- plain_row (fst r); Ok [(k, rw)]
      | Some u => do vs <- iter_unnest u; Ok (map (fun v => (k, subst_unnest (fst r) v)) vs)
      end
  | QUpdate _ => Err XUnmodelled
  end.

(* the same for an aggregate query: the group key and the transparent values *)
Definition agg_values (q : query) (en : env) : res (option (key * list val)) :=
  do ok <- where_ok q en;
  if negb ok then Ok None else
  match q_kind q with
  | QSelect items =>
      do r <- eval_items en items None;
      match snd r with
      | Some _ => Err XUnmodelled
      | None =>
          do k <- eval_key en (q_group q);
          do rw <- plain_row (fst r);
          Ok (Some (k, rw))
      end
  | _ => Err XUnmodelled
  end.

Definition col_kinds (q : query) : list col_kind :=
  match q_kind q with
  | QSelect items => map (fun i => match i with IAgg k _ => CAgg k | _ => CConst end) items
  | _ => []
  end.

(* ---- loop state ---- *)
Record lstate := {
  l_chain : chain_st;
  l_agg : option agg_st;       (* Some once the AggregateWriter has been created (stage 2) *)
  l_nu : nat
}.

Inductive flow := Continue | Stop | Fail (e : xerr).

Section Run.
Variable w : nat -> bool.
Variable q : query.

Let cfg := cfg_of q.

(* write all rows of one evaluation; stop at the first refusal *)
Definition write_rows (st : chain_st) (rs : list (key * row)) : chain_st * bool := chain_feed w cfg st rs.

(* select_aggregated *)
Definition aggregate_one (ls : lstate) (k : key) (vs : list val) : res lstate :=
  match l_agg ls with
  | None =>
      (* stage 1: the writer must not be a Sorted/Uniq/UniqCount writer *)
      match c_order cfg, c_distinct cfg with
      | None, DNo =>
          do cs <- cols_increment (map col_init (col_kinds q)) k vs;
          Ok {| l_chain := l_chain ls; l_agg := Some {| a_cols := cs; a_keys := keys_add [] k |}; l_nu := l_nu ls |}
      | _, _ => Err (XParsing 2)
      end
  | Some a =>
      do cs <- cols_increment (a_cols a) k vs;
      Ok {| l_chain := l_chain ls; l_agg := Some {| a_cols := cs; a_keys := keys_add (a_keys a) k |}; l_nu := l_nu ls |}
  end.

(* PROCESS_SELECT_COMMON for one (record, match) *)
Definition process_select (ls : lstate) (en : env) : lstate * flow :=
  if is_agg q then
    match agg_values q en with
    | Err e => (ls, Fail e)
    | Ok None => (ls, Continue)
    | Ok (Some (k, vs)) =>
        match aggregate_one ls k vs with
        | Err e => (ls, Fail e)
        | Ok ls' => (ls', Continue)
        end
    end
  else
    match select_rows q en with
    | Err e => (ls, Fail e)
    | Ok rs => let '(st', ok) := write_rows (l_chain ls) rs in
               ({| l_chain := st'; l_agg := l_agg ls; l_nu := l_nu ls |}, if ok then Continue else Stop)
    end.

(* for join_match in join_matches: ...; if stop_flag: break *)
Fixpoint process_matches (ls : lstate) (nr : nat) (a : rec) (ms : list binfo) : lstate * flow :=
  match ms with
  | [] => (ls, Continue)
  | b :: t =>
      let en := {| e_nr := nr; e_nf := length a; e_a := a; e_b := b; e_nu := l_nu ls |} in
      match process_select ls en with
      | (ls', Continue) => process_matches ls' nr a t
      | other => other
      end
  end.

Fixpoint set_nth (r : row) (i : nat) (v : val) : option row :=
  match r, i with
  | [], _ => None
  | _ :: t, O => Some (v :: t)
  | x :: t, S j => match set_nth t j v with Some t' => Some (x :: t') | None => None end
  end.

(* __RBQLMP__update_expressions: safe_set(up_fields, idx, rhs) in order, rhs over the ORIGINAL record *)
Fixpoint apply_assigns (en : env) (up : row) (asg : list (nat * expr)) : res row :=
  match asg with
  | [] => Ok up
  | (i, e) :: t =>
      do v <- eval en e;
      match set_nth up i v with
      | None => Err (XBadField i)
      | Some up' => apply_assigns en up' t
      end
  end.

(* PROCESS_UPDATE_SIMPLE / PROCESS_UPDATE_JOIN for one record; b = the (unique) match or BNull / BNoJoin *)
Definition process_update (ls : lstate) (nr : nat) (a : rec) (b : binfo) (matched : bool) (asg : list (nat * expr)) : lstate * flow :=
  let en := {| e_nr := nr; e_nf := length a; e_a := a; e_b := b; e_nu := l_nu ls |} in
  let up := map VA a in
  match (if matched then where_ok q en else Ok false) with
  | Err e => (ls, Fail e)
  | Ok false =>
      let '(st', ok) := chain_write w cfg (l_chain ls) [] up in
      ({| l_chain := st'; l_agg := l_agg ls; l_nu := l_nu ls |}, if ok then Continue else Stop)
  | Ok true =>
      let nu' := S (l_nu ls) in
      let en' := {| e_nr := nr; e_nf := length a; e_a := a; e_b := b; e_nu := nu' |} in
      match apply_assigns en' up asg with
      | Err e => ({| l_chain := l_chain ls; l_agg := l_agg ls; l_nu := nu' |}, Fail e)
      | Ok up' =>
          let '(st', ok) := chain_write w cfg (l_chain ls) [] up' in
          ({| l_chain := st'; l_agg := l_agg ls; l_nu := nu' |}, if ok then Continue else Stop)
      end
  end.

(* the body of the while loop for record number nr *)
Definition process_record (jm : option jmap) (ls : lstate) (nr : nat) (a : rec) : lstate * flow :=
  match q_kind q with
  | QUpdate asg =>
      match q_join q, jm with
      | Some js, Some m =>
          match (do k <- lhs_key (j_lhs js) nr a; get_rhs (j_kind js) m k) with
          | Err e => (ls, Fail e)
          | Ok [] => process_update ls nr a BNull false asg
          | Ok [b] => process_update ls nr a b true asg
          | Ok _ => (ls, Fail (XRuntime 4))
          end
      | _, _ => process_update ls nr a BNoJoin true asg
      end
  | _ =>
      match q_join q, jm with
      | Some js, Some m =>
          match (do k <- lhs_key (j_lhs js) nr a; get_rhs (j_kind js) m k) with
          | Err e => (ls, Fail e)
          | Ok ms => process_matches ls nr a ms
          end
      | _, _ => process_matches ls nr a [BNoJoin]
      end
  end.

Record outcome := {
  o_chain : chain_st;
  o_pulls : nat;                          (* records pulled from the input iterator (None at the end not counted) *)
  o_error : option (eclass * nat * xerr)  (* class, record number (0 = none), detail *)
}.

Definition classify (nr : nat) (e : xerr) : eclass * nat * xerr :=
  match e with
  | XParsing _ => (CParsing, 0%nat, e)
  | XUnmodelled => (CUnmodelled, nr, e)
  | _ => (CRuntime, nr, e)
  end.

(* while not stop_flag: record_a = get_record() ... *)
Fixpoint main_loop (jm : option jmap) (ls : lstate) (nr : nat) (A : list rec) : lstate * nat * option (eclass * nat * xerr) :=
  match A with
  | [] => (ls, nr, None)
  | a :: t =>
      let nr' := S nr in
      match process_record jm ls nr' a with
      | (ls', Continue) => main_loop jm ls' nr' t
      | (ls', Stop) => (ls', nr', None)
      | (ls', Fail e) => (ls', nr', Some (classify nr' e))
      end
  end.

(* query_context.writer.finish() *)
Definition finish (ls : lstate) : chain_st * option (eclass * nat * xerr) :=
  match l_agg ls with
  | None => (chain_finish w cfg (l_chain ls), None)
  | Some a =>
      match final_rows (a_cols a) (sort_keys (a_keys a)) with
      | Err e => (l_chain ls, Some (CUnmodelled, 0%nat, e))
      | Ok rows => (base_finish (feed (top_write w cfg) (l_chain ls) rows), None)
      end
  end.

Definition run (hdr : option (list str)) (A B : list rec) : outcome :=
  match static_check q with
  | Some t => {| o_chain := chain_init; o_pulls := 0; o_error := Some (CParsing, 0%nat, XParsing t) |}
  | None =>
      let jm := match q_join q with
                | None => inl None
                | Some js => match build (j_rhs js) B with inl m => inl (Some (widen (j_bhdr js) m)) | inr nr => inr nr end
                end in
      match jm with
      | inr bnr => {| o_chain := chain_init; o_pulls := 0; o_error := Some (CRuntime, bnr, XRuntime 5) |}
      | inl jm' =>
          let st0 := set_header chain_init hdr in
          let '(ls, pulls, err) := main_loop jm' {| l_chain := st0; l_agg := None; l_nu := 0 |} 0 A in
          match err with
          | Some e => {| o_chain := l_chain ls; o_pulls := pulls; o_error := Some e |}
          | None => let '(st, ferr) := finish ls in {| o_chain := st; o_pulls := pulls; o_error := ferr |}
          end
      end
  end.

End Run.
End Engine.

Arguments IExpr {expr} e.
Arguments IStar {expr}.
Arguments IStarA {expr}.
Arguments IStarB {expr}.
Arguments IUnnest {expr} e.
Arguments IAgg {expr} k e.
Arguments QSelect {expr} items.
Arguments QExcept {expr} idxs.
Arguments QUpdate {expr} assigns.
Arguments q_kind {expr} q.
Arguments q_where {expr} q.
Arguments q_join {expr} q.
Arguments q_group {expr} q.
Arguments q_order {expr} q.
Arguments q_distinct {expr} q.
Arguments q_top {expr} q.
Arguments cfg_of {expr} q.
Arguments is_update {expr} q.
Arguments has_agg_item {expr} q.
Arguments is_agg {expr} q.
Arguments static_check {expr} q.
Arguments col_kinds {expr} q.
Arguments eval_items {expr} eval en items un.
Arguments eval_list {expr} eval en es.
Arguments eval_key {expr} eval en es.
Arguments where_ok {expr} eval q en.
Arguments select_rows {expr} eval q en.
Arguments agg_values {expr} eval q en.
Arguments write_rows {expr} w q st rs.
Arguments aggregate_one {expr} q ls k vs.
Arguments process_select {expr} eval w q ls en.
Arguments process_matches {expr} eval w q ls nr a ms.
Arguments apply_assigns {expr} eval en up asg.
Arguments process_update {expr} eval w q ls nr a b matched asg.
Arguments process_record {expr} eval w q jm ls nr a.
Arguments main_loop {expr} eval w q jm ls nr A.
Arguments finish {expr} w q ls.
Arguments run {expr} eval w q hdr A B.
