(* Newline_Proofs.v — universal-newline translation is invisible to the readers.
   With an encoding, rbql-py wraps the byte stream in io.TextIOWrapper(stream, encoding=...) whose default newline mode
   translates CRLF and CR to LF before CSVRecordIterator sees the text (CsvSpec.nl_norm is that translation).
   The physical lines - hence everything the reader computes - are the same with and without it. *)
From RBQL Require Import Base Lines CsvSpec Reader Reader_Proofs.

Lemma extract_nl_norm : forall t,
  match extract t with
  | Some (b, _, a) => extract (nl_norm t) = Some (b, SLF, nl_norm a)
  | None => nl_norm t = t
  end.
Proof.
  induction t as [|c t IH]; [reflexivity|].
  cbn [extract]. destruct (N.eqb c LF) eqn:EL.
  - apply N.eqb_eq in EL. subst c. cbn [nl_norm]. replace (N.eqb LF CR) with false by reflexivity.
    cbn [extract]. rewrite N.eqb_refl. reflexivity.
  - destruct (N.eqb c CR) eqn:EC.
    + apply N.eqb_eq in EC. subst c. cbn [nl_norm]. rewrite N.eqb_refl.
      destruct t as [|d t2]; [reflexivity|].
      destruct (N.eqb d LF) eqn:ED; cbn [extract]; rewrite N.eqb_refl; reflexivity.
    + cbn [nl_norm]. rewrite EC. cbn [extract]. rewrite EL, EC.
      destruct (extract t) as [[[b s] a]|].
      * rewrite IH. reflexivity.
      * rewrite IH. reflexivity.
Qed.

Theorem split_lines_nl_norm t : split_lines (nl_norm t) = split_lines t.
Proof.
  remember (length t) as n eqn:Hn. revert t Hn. induction n as [n IH] using lt_wf_ind. intros t Hn.
  rewrite (split_lines_next t), (split_lines_next (nl_norm t)). unfold next.
  pose proof (extract_nl_norm t) as E.
  destruct (extract t) as [[[b s] a]|] eqn:Et.
  - rewrite E. f_equal. apply (IH (length a)); [|reflexivity].
    pose proof (extract_shorter _ _ _ _ Et). lia.
  - rewrite E, Et. reflexivity.
Qed.

Theorem records_of_text_nl_norm split c t : records_of_text split c (nl_norm t) = records_of_text split c t.
Proof. unfold records_of_text. rewrite split_lines_nl_norm. reflexivity. Qed.

(* the byte-level clause of C12 reduced to the runtime's contract: whatever pieces the text layer hands over, as long as
   they concatenate to the newline-translated (or untranslated) decoded text, the reader returns the records of the text *)
Theorem py_records_translated split c cs pieces text :
  (1 <= cs)%nat -> Forall nonempty pieces -> (concat pieces = nl_norm text \/ concat pieces = text) ->
  run_py split c cs pieces = records_of_text split c text.
Proof.
  intros Hcs Hne [Hp|Hp]; rewrite (py_records split c cs pieces Hcs Hne), Hp; [apply records_of_text_nl_norm|reflexivity].
Qed.
