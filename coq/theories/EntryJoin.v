(* EntryJoin.v — entry 530: resolve_join_variables.
   L [input map; join map; pairs]   maps: L [ L [name; index] ... ]   pairs: L [ L [v1; v2] ... ]
   -> L [A 0; L lhs; L rhs] (components: L [] = record number, L [A i] = field i) | L [A 1; kind; name] (1 ambiguous, 2 no input field, 3 no join field) *)
From RBQL Require Import Base Sx Parser ParserVars JoinVars.

Definition vmap_of_sx (x : sx) : option vmap :=
  list_of_sx (fun e => match e with
                       | L [k; A i] => option_map (fun k' => (k', (true, i))) (str_of_sx k)
                       | _ => None end) x.
Definition pairs_of_sx (x : sx) : option (list (str * str)) :=
  list_of_sx (fun e => match e with
                       | L [a; b] => match str_of_sx a, str_of_sx b with Some a', Some b' => Some (a', b') | _, _ => None end
                       | _ => None end) x.
Definition sx_of_comp (c : option N) : sx := match c with None => L [] | Some i => L [A i] end.

Definition ep_resolve_join (x : sx) : sx :=
  match x with
  | L [im; jm; ps] =>
      match vmap_of_sx im, vmap_of_sx jm, pairs_of_sx ps with
      | Some im', Some jm', Some ps' =>
          match resolve_join_variables im' jm' ps' with
          | JOk (ls, rs) => L [A 0; sx_of_list sx_of_comp ls; sx_of_list sx_of_comp rs]
          | JErr (J_ambiguous v) => L [A 1; A 1; sx_of_str v]
          | JErr (J_no_input_field v) => L [A 1; A 2; sx_of_str v]
          | JErr (J_no_join_field v) => L [A 1; A 3; sx_of_str v]
          end
      | _, _, _ => ERR
      end
  | _ => ERR
  end.

Definition dispatch_join (code : N) (x : sx) : option sx :=
  match code with 530%N => Some (ep_resolve_join x) | _ => None end.
