(* EntryEngine.v — entry points of the engine model (codes 300-499), instantiated with Expr.eval *)
From RBQL Require Import Base Sx Value Like Expr Writers Join Agg Engine EntryLike Warn Pipe.
From Coq Require Import QArith.

Definition omap {T U} (o : option T) (f : T -> option U) : option U := match o with Some x => f x | None => None end.

(* ---- decoders ---- *)
Definition atom_of_sx (x : sx) : option atom :=
  match x with
  | L [A 0%N] => Some ANone
  | L [A 1%N; A b] => Some (ABool (negb (N.eqb b 0)))
  | L [A 2%N; z] => omap (Z_of_sx z) (fun z => Some (AInt z))
  | L [A 3%N; s] => omap (str_of_sx s) (fun s => Some (AStr s))
  | L [A 4%N; n; A d] => omap (Z_of_sx n) (fun n => match d with Npos p => Some (AFlt (Qmake n p)) | N0 => None end)
  | _ => None
  end.

Definition tbl_of (n : N) : tbl := if N.eqb n 0 then TA else TB.

Fixpoint expr_of_sx (x : sx) : option expr :=
  match x with
  | L (A tag :: args) =>
      let un (k : expr -> expr) := match args with [a] => omap (expr_of_sx a) (fun a' => Some (k a')) | _ => None end in
      let bin (k : expr -> expr -> expr) :=
        match args with
        | [a; b] => omap (expr_of_sx a) (fun a' => omap (expr_of_sx b) (fun b' => Some (k a' b')))
        | _ => None
        end in
      match tag with
      | 0%N => match args with [A t; A i] => Some (EFld (tbl_of t) (N.to_nat i)) | _ => None end
      | 1%N => Some ENR | 2%N => Some ENF | 3%N => Some EBNR | 4%N => Some EBNF | 5%N => Some ENU
      | 6%N => match args with [a] => omap (atom_of_sx a) (fun a' => Some (ELit a')) | _ => None end
      | 7%N => bin EAdd | 8%N => bin EEq | 9%N => bin ENe | 10%N => bin ELt | 11%N => bin ELe
      | 12%N => bin EAnd | 13%N => bin EOr | 14%N => un ENot | 15%N => un ELen | 16%N => un EInt
      | 17%N => bin ELike
      | 18%N => match args with
                | [c; a; b] => omap (expr_of_sx c) (fun c' => omap (expr_of_sx a) (fun a' => omap (expr_of_sx b) (fun b' => Some (ECond c' a' b'))))
                | _ => None
                end
      | 19%N => match args with
                | [L l] =>
                    omap ((fix go (l : list sx) : option (list expr) :=
                             match l with
                             | [] => Some []
                             | h :: t => omap (expr_of_sx h) (fun h' => omap (go t) (fun t' => Some (h' :: t')))
                             end) l) (fun l' => Some (EList l'))
                | _ => None
                end
      | 20%N | 21%N =>
          match args with
          | [L l] =>
              omap ((fix go (l : list sx) : option (list expr) :=
                       match l with
                       | [] => Some []
                       | h :: t => omap (expr_of_sx h) (fun h' => omap (go t) (fun t' => Some (h' :: t')))
                       end) l) (fun l' => Some (EMinMax (N.eqb tag 20) l'))
          | _ => None
          end
      | 22%N => un (EMinMaxL true) | 23%N => un (EMinMaxL false) | 24%N => un ESumL
      | _ => None
      end
  | _ => None
  end.

Definition agg_of (n : N) : option agg_kind :=
  match n with
  | 0%N => Some KMin | 1%N => Some KMax | 2%N => Some KSum | 3%N => Some KAvg | 4%N => Some KVar
  | 5%N => Some KMedian | 6%N => Some KCount | 7%N => Some KArray | 8%N => Some KAny | _ => None
  end.

Definition item_of_sx (x : sx) : option (item expr) :=
  match x with
  | L [A 0%N; e] => omap (expr_of_sx e) (fun e' => Some (IExpr e'))
  | L [A 1%N] => Some IStar
  | L [A 2%N] => Some IStarA
  | L [A 3%N] => Some IStarB
  | L [A 4%N; e] => omap (expr_of_sx e) (fun e' => Some (IUnnest e'))
  | L [A 5%N; A k; e] => omap (agg_of k) (fun k' => omap (expr_of_sx e) (fun e' => Some (IAgg k' e')))
  | _ => None
  end.

Definition assign_of_sx (x : sx) : option (nat * expr) :=
  match x with
  | L [A i; e] => omap (expr_of_sx e) (fun e' => Some (N.to_nat i, e'))
  | _ => None
  end.

Definition qkind_of_sx (x : sx) : option (qkind expr) :=
  match x with
  | L [A 0%N; items] => omap (list_of_sx item_of_sx items) (fun l => Some (QSelect l))
  | L [A 1%N; idxs] => omap (list_of_sx nat_of_sx idxs) (fun l => Some (QExcept l))
  | L [A 2%N; asg] => omap (list_of_sx assign_of_sx asg) (fun l => Some (QUpdate l))
  | _ => None
  end.

Definition lkey_of_sx (x : sx) : option lkey :=
  match x with L [] => Some LNR | L [A i] => Some (LFld (N.to_nat i)) | _ => None end.
Definition rkey_of_sx (x : sx) : option rkey :=
  match x with L [] => Some RNR | L [A i] => Some (RFld (N.to_nat i)) | _ => None end.

(* (kind lhs rhs) = a join table without a header; (kind lhs rhs (n)) = its header has n names *)
Definition join_of_sx (x : sx) : option join_spec :=
  let mk k lhs rhs jh :=
      omap (list_of_sx lkey_of_sx lhs) (fun l => omap (list_of_sx rkey_of_sx rhs) (fun r =>
        Some {| j_kind := match k with 0%N => JInner | 1%N => JLeft | _ => JStrict end; j_lhs := l; j_rhs := r; j_bhdr := jh |})) in
  match x with
  | L [A k; lhs; rhs] => mk k lhs rhs None
  | L [A k; lhs; rhs; jh] => omap (option_of_sx nat_of_sx jh) (fun h => mk k lhs rhs h)
  | _ => None
  end.

Definition order_of_sx (x : sx) : option (list expr * bool) :=
  match x with
  | L [es; A r] => omap (list_of_sx expr_of_sx es) (fun l => Some (l, negb (N.eqb r 0)))
  | _ => None
  end.

Definition dmode_of (n : N) : dmode := match n with 0%N => DNo | 1%N => DDistinct | _ => DCount end.

Definition query_of_sx (x : sx) : option (query expr) :=
  match x with
  | L [k; wh; jn; gr; od; A dm; tp] =>
      omap (qkind_of_sx k) (fun k' =>
      omap (option_of_sx expr_of_sx wh) (fun wh' =>
      omap (option_of_sx join_of_sx jn) (fun jn' =>
      omap (option_of_sx (list_of_sx expr_of_sx) gr) (fun gr' =>
      omap (option_of_sx order_of_sx od) (fun od' =>
      omap (option_of_sx nat_of_sx tp) (fun tp' =>
        Some {| q_kind := k'; q_where := wh'; q_join := jn'; q_group := gr'; q_order := od';
                q_distinct := dmode_of dm; q_top := tp' |}))))))
  | _ => None
  end.

Definition table_of_sx (x : sx) : option (list rec) := list_of_sx (list_of_sx atom_of_sx) x.

Definition oracle_of_sx (x : sx) : option (nat -> bool) :=
  match x with L [] => Some yes | L [A k] => Some (fail_at (N.to_nat k)) | _ => None end.

(* ---- encoders ---- *)
Definition sx_of_atom (a : atom) : sx :=
  match a with
  | ANone => L [A 0]
  | ABool b => L [A 1; sx_of_bool b]
  | AInt z => L [A 2; sx_of_Z z]
  | AStr s => L [A 3; sx_of_str s]
  | AFlt q => let r := Qred q in L [A 4; sx_of_Z (Qnum r); A (Npos (Qden r))]
  end%N.
Definition sx_of_val (v : val) : sx :=
  match v with VA a => L [A 0%N; sx_of_atom a] | VL l => L [A 1%N; sx_of_list sx_of_atom l] end.
Definition sx_of_row (r : row) : sx := sx_of_list sx_of_val r.

Definition sx_of_xerr (e : xerr) : sx :=
  match e with
  | XType => L [A 0] | XValue => L [A 1] | XBadField i => L [A 2; sx_of_nat i]
  | XParsing t => L [A 3; A t] | XRuntime t => L [A 4; A t] | XUnmodelled => L [A 5]
  end%N.
Definition sx_of_eclass (c : eclass) : sx :=
  match c with CParsing => A 0 | CRuntime => A 1 | CIO => A 2 | COther => A 3 | CUnmodelled => A 4 end%N.

Definition sx_of_event (e : event) : sx :=
  match e with
  | EvHeader h => L [A 0%N; sx_of_option (sx_of_list sx_of_str) h]
  | EvWrite r ok => L [A 1%N; sx_of_row r; sx_of_bool ok]
  | EvFinish => L [A 2%N]
  end.

Definition sx_of_outcome (o : outcome) : sx :=
  L [ sx_of_list sx_of_event (rev (s_trace (o_chain o)));
      sx_of_nat (o_pulls o);
      sx_of_option (fun e => L [sx_of_eclass (fst (fst e)); sx_of_nat (snd (fst e)); sx_of_xerr (snd e)]) (o_error o) ].

(* 300: run   arg = L [fl; query; opt header; A; B; oracle] *)
Definition ep_run (x : sx) : sx :=
  match x with
  | L [f; q; h; ta; tb; orc] =>
      match fl_of_sx f, query_of_sx q, option_of_sx (list_of_sx str_of_sx) h, table_of_sx ta, table_of_sx tb, oracle_of_sx orc with
      | Some fl, Some q', Some h', Some a', Some b', Some w =>
          sx_of_outcome (run (eval fl) w q' h' a' b')
      | _, _, _, _, _, _ => ERR
      end
  | _ => ERR
  end.

(* 301: chain_spec on explicit (key, row) offers: arg = L [A top-opt..]  — the declarative side of C02 *)
Definition ep_chain_spec (x : sx) : sx :=
  match x with
  | L [tp; A dm; od; es] =>
      match option_of_sx nat_of_sx tp, option_of_sx bool_of_sx od,
            list_of_sx (fun e => match e with
                                 | L [k; r] => omap (list_of_sx atom_of_sx k) (fun k' =>
                                               omap (list_of_sx atom_of_sx r) (fun r' => Some (k', map VA r')))
                                 | _ => None end) es with
      | Some tp', Some od', Some es' =>
          sx_of_list sx_of_row (chain_spec {| c_top := tp'; c_distinct := dmode_of dm; c_order := od' |} es')
      | _, _, _ => ERR
      end
  | _ => ERR
  end.

(* 310: field_count_warning  arg = L [A len ...]  ->  option (n1, r1, n2, r2) *)
Definition ep_field_count (x : sx) : sx :=
  match list_of_sx nat_of_sx x with
  | Some lens => sx_of_option (fun '(n1, r1, n2, r2) => L [sx_of_nat n1; sx_of_nat r1; sx_of_nat n2; sx_of_nat r2]) (field_count_warning lens)
  | None => ERR
  end.

(* 320: CSVWriter over a stream that breaks at its k-th write: arg = L [A k; sep; opt header line; L lines; A close] ->
        L [L accepted texts; A number of stream ops (writes+flush/close); A broken] *)
Definition ep_pipe (x : sx) : sx :=
  match x with
  | L [A k; sp; hd; ls; A cl] =>
      match str_of_sx sp, option_of_sx str_of_sx hd, list_of_sx str_of_sx ls with
      | Some sep, Some hdr, Some lines =>
          let st := csv_run (breaks_at (N.to_nat k)) sep (negb (N.eqb cl 0)) hdr lines in
          L [sx_of_list sx_of_str (accepted st); sx_of_nat (length (p_ops st)); sx_of_bool (p_broken st)]
      | _, _, _ => ERR
      end
  | _ => ERR
  end.

Definition dispatch_engine (code : N) (x : sx) : option sx :=
  match code with
  | 300%N => Some (ep_run x)
  | 301%N => Some (ep_chain_spec x)
  | 310%N => Some (ep_field_count x)
  | 320%N => Some (ep_pipe x)
  | _ => None
  end.
