(* PyStrExamples_Proofs.v — the primitives of PyStr.v / JsStr.v on corner cases (negative, out-of-range and swapped
   positions, empty needles, patterns anchored at a position), with the values that CPython (3.11 and 3.12) and node 20 print for the
   same calls (taken from the two runtimes when this file was written; see notes/csvgen11.md).  By vm_compute. *)
From RBQL Require Import Base Csv PyStr JsStr.
(* a , b , , c  =  97 44 98 44 44 99 *)
Definition s6 : str := [97; 44; 98; 44; 44; 99]%N.
Example py_find_values :
  map (py_find s6 [44%N]) [(-9)%Z; (-2)%Z; 0%Z; 2%Z; 4%Z; 6%Z; 7%Z] = [1; 4; 1; 3; 4; -1; -1]%Z /\
  map (py_find s6 []) [5%Z; 6%Z; 7%Z] = [5; 6; -1]%Z.
Proof. vm_compute. split; reflexivity. Qed.
Example py_startswith_values :
  map (py_startswith s6 [44%N]) [1%Z; (-3)%Z; 6%Z; 7%Z] = [true; true; false; false] /\
  map (py_startswith s6 []) [6%Z; 7%Z] = [true; false].
Proof. vm_compute. split; reflexivity. Qed.
Example py_slice_values :
  py_slice s6 (Some 1%Z) (Some 3%Z) = [44; 98]%N /\ py_slice s6 (Some (-2)%Z) None = [44; 99]%N /\
  py_slice s6 None (Some (-1)%Z) = [97; 44; 98; 44; 44]%N /\ py_slice s6 (Some 4%Z) (Some 2%Z) = [] /\
  py_slice s6 (Some (-9)%Z) (Some 2%Z) = [97; 44]%N /\ py_slice s6 (Some 2%Z) (Some 99%Z) = [98; 44; 44; 99]%N.
Proof. vm_compute. repeat split. Qed.
(*  _ Q a Q Q b Q _ , x  *)
Example re_match_values :
  re_match RxFieldExt [32; 34; 97; 34; 34; 98; 34; 32; 44; 120]%N 0%Z
    = Some (mk_match 0%Z 8%Z [32; 34; 97; 34; 34; 98; 34; 32]%N [97; 34; 34; 98]%N) /\
  re_match RxField [120; 34; 97; 34]%N 1%Z = Some (mk_match 1%Z 4%Z [34; 97; 34]%N [97]%N) /\
  re_match RxField [120; 34; 97; 34]%N 0%Z = None /\
  re_match RxField [34; 97; 34]%N 5%Z = None /\
  option_map m_end (re_match RxField [34; 97; 34]%N (-5)%Z) = Some 3%Z.
Proof. vm_compute. repeat split. Qed.
Example re_finditer_values :
  re_finditer_g0 RxWsPreserve [32; 32; 97; 32; 98; 32; 32; 99; 32]%N = [[32; 32; 97; 32]; [98; 32; 32]; [99; 32]]%N /\
  re_finditer_g0 RxWs [32; 32; 97; 32; 98; 32; 32; 99; 32]%N = [[97]; [98]; [99]]%N.
Proof. vm_compute. split; reflexivity. Qed.
Example py_replace_split_values :
  py_replace [97; 34; 34; 98; 34]%N [34; 34]%N [34%N] = [97; 34; 98; 34]%N /\
  py_replace [97; 34; 98]%N [34%N] [34; 34]%N = [97; 34; 34; 98]%N /\
  py_split [97; 44; 98]%N [44%N] = [[97]; [98]]%N /\ py_split [] [44%N] = [[]].
Proof. vm_compute. repeat split. Qed.
Example js_values :
  map (js_indexof s6 [44%N]) [(-9)%Z; (-2)%Z; 0%Z; 2%Z; 4%Z; 6%Z; 7%Z] = [1; 1; 1; 3; 4; -1; -1]%Z /\
  map (js_indexof s6 []) [5%Z; 6%Z; 7%Z] = [5; 6; 6]%Z /\
  map (js_startswith s6 [44%N]) [1%Z; (-3)%Z; 6%Z; 7%Z] = [true; false; false; false] /\
  map (js_startswith s6 []) [6%Z; 7%Z] = [true; true] /\
  js_substring s6 1%Z (Some 3%Z) = [44; 98]%N /\ js_substring s6 3%Z (Some 1%Z) = [44; 98]%N /\
  js_substring s6 (-2)%Z (Some 2%Z) = [97; 44]%N /\ js_substring s6 2%Z (Some 99%Z) = [98; 44; 44; 99]%N /\
  js_substring s6 4%Z None = [44; 99]%N /\ py_slice s6 (Some 0%Z) (Some (-1)%Z) = [97; 44; 98; 44; 44]%N /\
  py_slice (@nil ch) (Some 0%Z) (Some (-1)%Z) = [].
Proof. vm_compute. repeat split. Qed.
