(* EntryTextLayer.v — entry points of the text-layer model (TextLayer.v), codes 230-239 of the reader range.
   230 text_layer_trace          L [codec; L [raw read ...]]                 -> L [ok; L [L [output; pendingcr; needed] ...]]
   231 text_layer_trace on ALL 2^(n-1) partitions of a byte string into non-empty raw reads
                                 L [codec; bytes]                            -> L [L [L [piece length ...]; <as 230>] ...]
   232 run_py_bytes              L [cfg; split; cs; codec; L [raw read ...]] -> result as EntryReader.sx_of_result | L [A 2] (IO-handling error)
   233 decode_bytes              L [codec; bytes]                            -> L [option decoded text; option nl_norm of it]
   234 nl_trace                  L [pendingcr; L [L [text piece; final] ...]] -> L [L [output; pendingcr] ...]
   codec: 1 = utf-8, 2 = latin-1 (the numbering of EntryReader.enc_of_sx). *)
From RBQL Require Import Base Sx Lines CsvSpec Utf8 Reader TextLayer EntryReader.

Definition codec_of_sx (x : sx) : option codec :=
  match x with
  | A 1%N => Some CUtf8
  | A 2%N => Some CLatin1
  | _ => None
  end.

Definition sx_of_obs (o : obs) : sx :=
  match o with (s, p, n) => L [sx_of_str s; sx_of_bool p; sx_of_nat n] end.

Definition sx_of_trace (t : list obs * bool) : sx := L [sx_of_bool (snd t); sx_of_list sx_of_obs (fst t)].

(* every way to cut a list into consecutive non-empty pieces *)
Fixpoint partitions {T} (l : list T) : list (list (list T)) :=
  match l with
  | [] => [[]]
  | x :: t =>
      match t with
      | [] => [[[x]]]
      | _ => flat_map (fun p => match p with
                                | [] => []
                                | h :: r => [(x :: h) :: r; [x] :: h :: r]
                                end) (partitions t)
      end
  end.

Definition ep_tl_trace (x : sx) : sx :=
  match x with
  | L [e; rs] =>
      match codec_of_sx e, strs_of_sx rs with
      | Some e', Some rs' => sx_of_trace (text_layer_trace e' rs')
      | _, _ => ERR
      end
  | _ => ERR
  end.

Definition ep_tl_all (x : sx) : sx :=
  match x with
  | L [e; b] =>
      match codec_of_sx e, str_of_sx b with
      | Some e', Some b' =>
          sx_of_list (fun raws : list bytes => L [sx_of_list (fun r : bytes => sx_of_nat (length r)) raws; sx_of_trace (text_layer_trace e' raws)])
                     (partitions b')
      | _, _ => ERR
      end
  | _ => ERR
  end.

Definition sx_of_bresult (r : bresult) : sx :=
  match r with
  | BRes r' => sx_of_result r'
  | BIOError => L [A 2]
  end.

Definition ep_py_bytes (x : sx) : sx :=
  match x with
  | L [c; sp; cs; e; rs] =>
      match cfg_of_sx c, split_of_sx sp, nat_of_sx cs, codec_of_sx e, strs_of_sx rs with
      | Some c', Some sp', Some cs', Some e', Some rs' => sx_of_bresult (run_py_bytes sp' c' cs' e' rs')
      | _, _, _, _, _ => ERR
      end
  | _ => ERR
  end.

Definition ep_decode_bytes (x : sx) : sx :=
  match x with
  | L [e; b] =>
      match codec_of_sx e, str_of_sx b with
      | Some e', Some b' =>
          let d := decode_bytes e' b' in L [sx_of_option sx_of_str d; sx_of_option sx_of_str (option_map nl_norm d)]
      | _, _ => ERR
      end
  | _ => ERR
  end.

Definition calls_of_sx (x : sx) : option (list (str * bool)) :=
  list_of_sx (fun e => match e with
                       | L [d; b] => match str_of_sx d, bool_of_sx b with Some d', Some b' => Some (d', b') | _, _ => None end
                       | _ => None end) x.

Definition ep_nl_trace (x : sx) : sx :=
  match x with
  | L [p; cl] =>
      match bool_of_sx p, calls_of_sx cl with
      | Some p', Some cl' => sx_of_list (fun o : str * bool => L [sx_of_str (fst o); sx_of_bool (snd o)]) (nl_trace p' cl')
      | _, _ => ERR
      end
  | _ => ERR
  end.

Definition dispatch_textlayer (code : N) (x : sx) : option sx :=
  match code with
  | 230%N => Some (ep_tl_trace x)
  | 231%N => Some (ep_tl_all x)
  | 232%N => Some (ep_py_bytes x)
  | 233%N => Some (ep_decode_bytes x)
  | 234%N => Some (ep_nl_trace x)
  | _ => None
  end.
