(* Spec.v — declarative semantics of the relational skeleton, against which Engine.run is proved *)
From RBQL Require Import Base Value Expr Writers Join Agg Engine.

Section Spec.
Variable expr : Type.
Variable eval : env -> expr -> res val.
Notation query := (query expr).

Definition env_of (nr : nat) (a : rec) (b : binfo) (nu : nat) : env :=
  {| e_nr := nr; e_nf := length a; e_a := a; e_b := b; e_nu := nu |}.

(* the b-sides an A record is paired with (C04 characterises get_rhs declaratively) *)
Definition matches_of (q : query) (jm : option jmap) (nr : nat) (a : rec) : res (list binfo) :=
  match q_join q, jm with
  | Some js, Some m => do k <- lhs_key (j_lhs js) nr a; get_rhs (j_kind js) m k
  | _, _ => Ok [BNoJoin]
  end.

(* rows (with sort keys) one A record contributes: the concatenation over its matches *)
Fixpoint offers_matches (q : query) (nr : nat) (a : rec) (ms : list binfo) : res (list (key * row)) :=
  match ms with
  | [] => Ok []
  | b :: t => do r <- select_rows eval q (env_of nr a b 0);
              do rs <- offers_matches q nr a t; Ok (r ++ rs)
  end.

(* all rows a non-aggregate SELECT offers to its writer chain, in order; Err if any evaluation fails *)
Fixpoint all_offers (q : query) (jm : option jmap) (nr : nat) (A : list rec) : res (list (key * row)) :=
  match A with
  | [] => Ok []
  | a :: t => do ms <- matches_of q jm (S nr) a;
              do r <- offers_matches q (S nr) a ms;
              do rs <- all_offers q jm (S nr) t; Ok (r ++ rs)
  end.

(* the evaluation of one record up to its first failing match: rows offered before the failure, and the failure *)
Fixpoint offers_until_error (q : query) (nr : nat) (a : rec) (ms : list binfo) : list (key * row) * option xerr :=
  match ms with
  | [] => ([], None)
  | b :: t => match select_rows eval q (env_of nr a b 0) with
              | Err e => ([], Some e)
              | Ok r => let '(rs, e) := offers_until_error q nr a t in (r ++ rs, e)
              end
  end.
Definition record_until_error (q : query) (jm : option jmap) (nr : nat) (a : rec) : list (key * row) * option xerr :=
  match matches_of q jm nr a with
  | Err e => ([], Some e)
  | Ok ms => offers_until_error q nr a ms
  end.

Definition rows_or_nil {T} (r : res (list T)) : list T := match r with Ok l => l | Err _ => [] end.

(* the same as one comprehension: for (nr, a) in enumerate(A, 1): for b in matches(a): rows(a, b) *)
Definition offers_comprehension (q : query) (jm : option jmap) (A : list rec) : list (key * row) :=
  flat_map (fun '(nr, a) =>
              flat_map (fun b => rows_or_nil (select_rows eval q (env_of nr a b 0)))
                       (rows_or_nil (matches_of q jm nr a)))
           (number_from 0 A).

Definition join_map_of (q : query) (B : list rec) : option (option jmap) :=
  match q_join q with
  | None => Some None
  | Some js => match build (j_rhs js) B with inl m => Some (Some (widen (j_bhdr js) m)) | inr _ => None end
  end.

Definition plain_select (q : query) : Prop :=
  is_agg q = false /\ is_update q = false.

End Spec.

(* ---------- UPDATE ---------- *)
Section UpdateSpec.
Variable expr : Type.
Variable eval : env -> expr -> res val.
Notation query := (query expr).

(* the b-side and the "has exactly one partner" flag of an UPDATE record *)
Definition update_partner (q : query) (jm : option jmap) (nr : nat) (a : rec) : res (binfo * bool) :=
  match q_join q, jm with
  | Some js, Some m =>
      do k <- lhs_key (j_lhs js) nr a;
      do ms <- get_rhs (j_kind js) m k;
      match ms with
      | [] => Ok (BNull, false)
      | [b] => Ok (b, true)
      | _ => Err (XRuntime 4)
      end
  | _, _ => Ok (BNoJoin, true)
  end.

(* the record emitted for input record a, and the new value of NU *)
Definition update_row (q : query) (asg : list (nat * expr)) (nr : nat) (a : rec) (b : binfo) (matched : bool) (nu : nat)
  : res (row * nat) :=
  do ok <- (if matched then where_ok eval q (env_of nr a b nu) else Ok false);
  if ok then do r <- apply_assigns eval (env_of nr a b (S nu)) (map VA a) asg; Ok (r, S nu)
  else Ok (map VA a, nu).

(* all emitted records, and the final value of NU *)
Fixpoint update_all_nu (q : query) (asg : list (nat * expr)) (jm : option jmap) (nr nu : nat) (A : list rec) : res (list row * nat) :=
  match A with
  | [] => Ok ([], nu)
  | a :: t =>
      do p <- update_partner q jm (S nr) a;
      do rn <- update_row q asg (S nr) a (fst p) (snd p) nu;
      do rs <- update_all_nu q asg jm (S nr) (snd rn) t;
      Ok (fst rn :: fst rs, snd rs)
  end.
Definition update_all (q : query) (asg : list (nat * expr)) (jm : option jmap) (nr nu : nat) (A : list rec) : res (list row) :=
  do r <- update_all_nu q asg jm nr nu A; Ok (fst r).

(* the failure of one record *)
Definition update_record_error (q : query) (asg : list (nat * expr)) (jm : option jmap) (nr nu : nat) (a : rec) : option xerr :=
  match update_partner q jm nr a with
  | Err e => Some e
  | Ok p => match update_row q asg nr a (fst p) (snd p) nu with Err e => Some e | Ok _ => None end
  end.

(* the value field i of the emitted record has after the assignments: the last assignment to i wins,
   every right-hand side evaluated in the same environment (the original record) *)
Fixpoint last_assign (en : env) (asg : list (nat * expr)) (i : nat) (cur : res val) : res val :=
  match asg with
  | [] => cur
  | (j, e) :: t => if Nat.eqb i j then last_assign en t i (eval en e) else last_assign en t i cur
  end.

End UpdateSpec.

(* ---------- aggregate queries ---------- *)
Section AggSpec.
Variable expr : Type.
Variable eval : env -> expr -> res val.
Notation query := (query expr).

(* the (group key, transparent values) tuples handed to select_aggregated, in order *)
Fixpoint agg_matches (q : query) (nr : nat) (a : rec) (ms : list binfo) : res (list (key * list val)) :=
  match ms with
  | [] => Ok []
  | b :: t => do kv <- agg_values eval q (env_of nr a b 0);
              do rs <- agg_matches q nr a t;
              Ok (match kv with Some x => x :: rs | None => rs end)
  end.

Fixpoint agg_inputs (q : query) (jm : option jmap) (nr : nat) (A : list rec) : res (list (key * list val)) :=
  match A with
  | [] => Ok []
  | a :: t => do ms <- matches_of expr q jm (S nr) a;
              do r <- agg_matches q (S nr) a ms;
              do rs <- agg_inputs q jm (S nr) t; Ok (r ++ rs)
  end.

(* all columns fed with all tuples *)
Fixpoint cols_feed (cs : list col) (inputs : list (key * list val)) : res (list col) :=
  match inputs with
  | [] => Ok cs
  | (k, vs) :: t => do cs' <- cols_increment cs k vs; cols_feed cs' t
  end.

Definition all_keys (inputs : list (key * list val)) : list key :=
  fold_left keys_add (map fst inputs) [].

(* one row per distinct key, in ascending key order: each column's final value for that key *)
Definition agg_rows (q : query) (inputs : list (key * list val)) : res (list row) :=
  match inputs with
  | [] => Ok []
  | _ => do cs <- cols_feed (map col_init (col_kinds q)) inputs;
         final_rows cs (sort_keys (all_keys inputs))
  end.

(* column i of the tuples *)
Definition column (i : nat) (inputs : list (key * list val)) : list (key * val) :=
  map (fun kv => (fst kv, nth i (snd kv) VNone)) inputs.

End AggSpec.
