(* Spec.v — declarative semantics of the relational skeleton, against which Engine.run is proved *)
From RBQL Require Import Base Value Expr Writers Join Agg Engine.

Section Spec.
Variable expr : Type.
Variable eval : env -> expr -> res val.
Notation query := (query expr).

Definition env_of (nr : nat) (a : rec) (b : binfo) (nu : nat) : env :=
  {| e_nr := nr; e_nf := length a; e_a := a; e_b := b; e_nu := nu |}.

(* the b-sides an A record is paired with (C04 characterises get_rhs declaratively) *)
Definition matches_of (q : query) (jm : option jmap) (nr : nat) (a : rec) : res (list binfo) :=
  match q_join q, jm with
  | Some js, Some m => do k <- lhs_key (j_lhs js) nr a; get_rhs (j_kind js) m k
  | _, _ => Ok [BNoJoin]
  end.

(* rows (with sort keys) one A record contributes: the concatenation over its matches *)
Fixpoint offers_matches (q : query) (nr : nat) (a : rec) (ms : list binfo) : res (list (key * row)) :=
  match ms with
  | [] => Ok []
  | b :: t => do r <- select_rows eval q (env_of nr a b 0);
              do rs <- offers_matches q nr a t; Ok (r ++ rs)
  end.

(* all rows a non-aggregate SELECT offers to its writer chain, in order; Err if any evaluation fails *)
Fixpoint all_offers (q : query) (jm : option jmap) (nr : nat) (A : list rec) : res (list (key * row)) :=
  match A with
  | [] => Ok []
  | a :: t => do ms <- matches_of q jm (S nr) a;
              do r <- offers_matches q (S nr) a ms;
              do rs <- all_offers q jm (S nr) t; Ok (r ++ rs)
  end.

Definition rows_or_nil {T} (r : res (list T)) : list T := match r with Ok l => l | Err _ => [] end.

(* the same as one comprehension: for (nr, a) in enumerate(A, 1): for b in matches(a): rows(a, b) *)
Definition offers_comprehension (q : query) (jm : option jmap) (A : list rec) : list (key * row) :=
  flat_map (fun '(nr, a) =>
              flat_map (fun b => rows_or_nil (select_rows eval q (env_of nr a b 0)))
                       (rows_or_nil (matches_of q jm nr a)))
           (number_from 0 A).

Definition join_map_of (q : query) (B : list rec) : option (option jmap) :=
  match q_join q with
  | None => Some None
  | Some js => match build (j_rhs js) B with inl m => Some (Some m) | inr _ => None end
  end.

Definition plain_select (q : query) : Prop :=
  is_agg q = false /\ is_update q = false.

End Spec.
