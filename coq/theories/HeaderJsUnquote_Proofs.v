(* HeaderJsUnquote_Proofs.v - unquote_string (rbql-js, as repaired by fix 80cd609, finding D24) is the inverse of the engines' own
   escaping of a column name: js_string_escape_column_name / python_string_escape_column_name (the same five sequential replaces in
   both ports: backslash, LF, CR, TAB, the quote character - ParserVars.escape_column_name). So the name rbql-js puts into the output
   header for a["..."] is the source column's name for EVERY name, line breaks, tabs and backslashes included. *)
From Coq Require Import List NArith Bool Lia.
From RBQL Require Import Base Parser HeaderJs HeaderJs_Proofs ParserVars ParserVars_Proofs.
Import ListNotations.
Open Scope N_scope.

Lemma esc_char_good : forall q, q = QT \/ q = APOS -> good_enc (esc_char q).
Proof.
  intros q Hq c. unfold esc_char.
  destruct (N.eqb_spec c BSL) as [->|H1]; [right; exists BSL; split; reflexivity|].
  destruct (N.eqb_spec c LF) as [->|H2]; [right; exists 110; split; reflexivity|].
  destruct (N.eqb_spec c CR) as [->|H3]; [right; exists 114; split; reflexivity|].
  destruct (N.eqb_spec c TAB) as [->|H4]; [right; exists 116; split; reflexivity|].
  destruct (N.eqb_spec c q) as [->|H5].
  - right. exists q. split; [reflexivity|]. destruct Hq as [->| ->]; reflexivity.
  - left. split; [reflexivity|exact H1].
Qed.

Theorem unquote_escaped : forall q name, q = QT \/ q = APOS ->
  unquote_string (q :: escape_column_name q name ++ [q]) = Some name.
Proof.
  intros q name Hq. rewrite (unquote_wrapped q (escape_column_name q name)) by (destruct Hq; [right|left]; assumption).
  rewrite (escape_flat q name Hq). rewrite (unesc_flat _ (esc_char_good q Hq)). reflexivity.
Qed.

(* the repaired function differs from the old one exactly here: a name with a TAB, spelled with the escape *)
Example unquote_escaped_tab : unquote_string (QT :: escape_column_name QT [120; TAB; 121; BSL; 110] ++ [QT]) = Some [120; TAB; 121; BSL; 110].
Proof. vm_compute. reflexivity. Qed.
