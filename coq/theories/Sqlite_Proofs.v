From RBQL Require Import Base Sqlite.

(* accepted identifiers consist of letters, digits and underscore only *)
Theorem sqlite_accepts_word name : sqlite_accepts name = true <-> Forall (fun c => is_word c = true) name.
Proof. unfold sqlite_accepts. rewrite forallb_forall, Forall_forall. reflexivity. Qed.

(* in particular none of the characters that could end the identifier or start another statement *)
Lemma word_not_special c : is_word c = true ->
  c <> 59%N /\ c <> 32%N /\ c <> 34%N /\ c <> 39%N /\ c <> 45%N /\ c <> 10%N /\ c <> 40%N /\ c <> 96%N /\ c <> 0%N.
Proof.
  unfold is_word. intros H. repeat split; intros ->; cbn in H; discriminate.
Qed.

(* every statement sent is SELECT * FROM <accepted identifier>; *)
Theorem only_select input join s :
  In s (sql_of_query input join) ->
  exists name, s = SELECT_FROM ++ name ++ [SEMI] /\ Forall (fun c => is_word c = true) name
               /\ (name = input \/ join = Some name).
Proof.
  unfold sql_of_query, sql_sent. destruct (sqlite_accepts input) eqn:Ei; [|intros []].
  cbn [app]. intros [<- | H].
  - exists input. split; [reflexivity|]. split; [apply sqlite_accepts_word; assumption | left; reflexivity].
  - destruct join as [j|]; [|contradiction]. destruct (sqlite_accepts j) eqn:Ej; [|contradiction].
    destruct H as [<- | []]. exists j. split; [reflexivity|]. split; [apply sqlite_accepts_word; assumption | right; reflexivity].
Qed.

(* a rejected identifier sends nothing *)
Theorem rejected_sends_nothing name : sqlite_accepts name = false -> sql_sent name = [].
Proof. unfold sql_sent. intros ->. reflexivity. Qed.
