(* FrontCsv_Proofs.v — the CSV front-end commutes with the list front-end (C13): rendering a string table as CSV, reading it,
   applying ANY table transformation q (the engine's meaning of a query on string tables - proved equal to the declarative
   semantics in C01-C05), writing the result as CSV and reading that back gives q applied to the table itself.
   A composition of two instances of Table_Proofs.table_representable_exact. *)
From RBQL Require Import Base Lines Csv CsvSpec CsvWriter Reader TableLines_Proofs Table_Proofs.

Definition records_of_result (r : result) : option (list (list str)) :=
  match r with ROk recs _ _ _ _ => Some recs | RErr _ _ => None end.

Section CsvFront.
  Variables (wl : lang) (pol : policy) (dlm ls : str) (c : cfg).
  Variable q : list (list str) -> list (list str).

  Definition render (T : list (list str)) : str := emit ls (written wl pol dlm T).
  Definition parse (text : str) : option (list (list str)) := records_of_result (records_of_text (smart_split pol dlm false) c text).

  (* what query_csv does with a query whose meaning on string tables is q: read, transform, write *)
  Definition csv_query (text : str) : option str := option_map (fun T => render (q T)) (parse text).

  Hypothesis Hrfc : c_rfc c = is_rfc pol.
  Hypothesis Hh : effective_header c = false.
  Hypothesis Hls : line_sep ls.
  Hypothesis Hg : good_dlm pol dlm = true.
  Hypothesis Hd : dlm_nl_free pol dlm = true.

  Definition csv_ok (T : list (list str)) : Prop :=
    table_representable pol dlm (enc_code (c_enc c)) T = true /\ no_comment_rows c (written wl pol dlm T) = true.

  Lemma parse_render T : csv_ok T -> parse (render T) = Some T.
  Proof.
    intros [Hr Hc]. unfold parse, render.
    rewrite (table_representable_exact wl pol dlm ls c T Hrfc Hls Hg Hd Hr Hc). unfold ok_result. rewrite Hh. reflexivity.
  Qed.

  Theorem csv_front_commutes T :
    csv_ok T -> csv_ok (q T) ->
    csv_query (render T) = Some (render (q T)) /\ parse (render (q T)) = Some (q T).
  Proof.
    intros HT HQ. unfold csv_query. rewrite (parse_render T HT). split; [reflexivity|apply parse_render; exact HQ].
  Qed.
End CsvFront.
