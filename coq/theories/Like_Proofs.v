(* Like_Proofs.v — like = SQL LIKE on single-line texts; metacharacters are literal; cache coherence *)
From RBQL Require Import Base Like.

Lemma strip_prefix_spec s : forall t t', strip_prefix s t = Some t' <-> t = s ++ t'.
Proof.
  induction s as [|c s IH]; intros t t'; cbn.
  - split; intros H; [injection H as ->; reflexivity | subst; reflexivity].
  - destruct t as [|d t]; [split; intros H; discriminate|].
    destruct (N.eqb c d) eqn:E.
    + apply N.eqb_eq in E. subst d. rewrite IH. split; intros H; [subst; reflexivity | injection H as ->; reflexivity].
    + apply N.eqb_neq in E. split; intros H; [discriminate | injection H as H1 _; congruence].
Qed.

Definition lit (c : ch) : Prop := c <> PCT /\ c <> UND.

Lemma like_nil_inv t : SqlLike t [] <-> t = [].
Proof. split; intros H; [inversion H; reflexivity | subst; constructor]. Qed.

Lemma like_lit_inv c t p : lit c -> (SqlLike t (c :: p) <-> exists t', t = c :: t' /\ SqlLike t' p).
Proof.
  intros [H1 H2]. split.
  - intros H. inversion H; subst; try congruence. eexists; split; [reflexivity | assumption].
  - intros [t' [-> H]]. constructor; assumption.
Qed.

Lemma like_und_inv t p : SqlLike t (UND :: p) <-> exists d t', t = d :: t' /\ SqlLike t' p.
Proof.
  split.
  - intros H. inversion H; subst.
    + exfalso. match goal with H : UND <> UND |- _ => apply H; reflexivity end.
    + do 2 eexists; split; [reflexivity | assumption].
  - intros [d [t' [-> H]]]. apply SL_one; assumption.
Qed.

Lemma like_pct_inv t p : SqlLike t (PCT :: p) <-> exists u v, t = u ++ v /\ SqlLike v p.
Proof.
  split.
  - intros H. remember (PCT :: p) as q eqn:Eq. revert p Eq.
    induction H as [| c t q Hc1 Hc2 H IH | c t q H IH | t q H IH | c t q H IH]; intros p0 Eq; inversion Eq; subst.
    + exfalso. apply Hc1. reflexivity.
    + exists [], t. split; [reflexivity | assumption].
    + destruct (IH p0 eq_refl) as [u [v [-> Hv]]]. exists (c :: u), v. split; [reflexivity | assumption].
  - intros [u [v [-> H]]]. induction u as [|c u IH]; cbn; [apply SL_skip; assumption | apply SL_eat; assumption].
Qed.

Lemma like_lits_inv s : Forall lit s -> forall t p, SqlLike t (s ++ p) <-> exists t', t = s ++ t' /\ SqlLike t' p.
Proof.
  induction 1 as [|c s Hc Hs IH]; intros t p; cbn.
  - split; [intros H; exists t; split; [reflexivity | assumption] | intros [t' [-> H]]; assumption].
  - rewrite (like_lit_inv c t (s ++ p) Hc). split.
    + intros [t1 [-> H1]]. apply IH in H1. destruct H1 as [t' [-> H']]. exists t'. split; [reflexivity | assumption].
    + intros [t' [-> H']]. exists (s ++ t'). split; [reflexivity|]. apply IH. exists t'. split; [reflexivity | assumption].
Qed.

Section Flavour.
Variable fl : flavour.

Lemma single_line_app u v : single_line fl (u ++ v) <-> single_line fl u /\ single_line fl v.
Proof.
  unfold single_line. split.
  - intros H; split; intros c Hc; apply H; apply in_or_app; [left | right]; assumption.
  - intros [Hu Hv] c Hc. apply in_app_or in Hc. destruct Hc; [apply Hu | apply Hv]; assumption.
Qed.

Lemma single_line_cons c t : single_line fl (c :: t) <-> dot_ok fl c = true /\ single_line fl t.
Proof.
  unfold single_line. split.
  - intros H; split; [apply H; left; reflexivity | intros d Hd; apply H; right; assumption].
  - intros [Hc Ht] d [<- | Hd]; [assumption | apply Ht; assumption].
Qed.

Lemma at_end_single t : single_line fl t -> (at_end fl t = true <-> t = []).
Proof.
  intros Hs. destruct t as [|c [|d t]].
  - destruct fl; split; reflexivity.
  - apply single_line_cons in Hs. destruct Hs as [Hc _]. revert Hc. unfold at_end, dot_ok.
    destruct fl; split; intros H; try discriminate. rewrite H in Hc. discriminate.
  - destruct fl; split; intros H; discriminate.
Qed.

(* the '.*' loop: some dot-matchable prefix is consumed, the rest matches the continuation *)
Lemma star_spec (k : str -> bool) : forall t,
  (fix star (t : str) : bool := k t || match t with c :: t' => dot_ok fl c && star t' | [] => false end) t = true
  <-> exists u v, t = u ++ v /\ single_line fl u /\ k v = true.
Proof.
  induction t as [|c t IH].
  - split.
    + intros H. rewrite orb_false_r in H. exists [], []. split; [reflexivity|]. split; [intros ? []| assumption].
    + intros [u [v [E [_ Hk]]]]. symmetry in E. apply app_eq_nil in E. destruct E as [-> ->]. rewrite Hk. reflexivity.
  - split.
    + intros H. apply orb_true_iff in H. destruct H as [H | H].
      * exists [], (c :: t). split; [reflexivity|]. split; [intros ? []| assumption].
      * apply andb_true_iff in H. destruct H as [Hc H]. apply IH in H. destruct H as [u [v [-> [Hu Hk]]]].
        exists (c :: u), v. split; [reflexivity|]. split; [apply single_line_cons; split; assumption | assumption].
    + intros [u [v [E [Hu Hk]]]]. apply orb_true_iff. destruct u as [|d u].
      * cbn in E. subst v. left. assumption.
      * cbn in E. injection E as -> ->. right. apply single_line_cons in Hu. destruct Hu as [Hd Hu].
        apply andb_true_iff. split; [assumption|]. apply IH. exists u, v. split; [reflexivity|]. split; assumption.
Qed.

Lemma l2r_correct : forall p run t,
  Forall lit run -> single_line fl t ->
  (rmatch fl (l2r p run) t = true <-> SqlLike t (rev run ++ p)).
Proof.
  induction p as [|c p IH]; intros run t Hrun Ht.
  - cbn [l2r rmatch]. rewrite app_nil_r.
    assert (Hr : Forall lit (rev run)) by (apply Forall_rev; assumption).
    rewrite <- (app_nil_r (rev run)) at 2. rewrite (like_lits_inv _ Hr).
    split.
    + destruct (strip_prefix (rev run) t) as [t'|] eqn:E; [|discriminate].
      apply strip_prefix_spec in E. subst t. intros H. apply single_line_app in Ht. destruct Ht as [_ Ht'].
      apply (at_end_single _ Ht') in H. subst t'. exists []. split; [reflexivity | constructor].
    + intros [t' [-> H]]. apply like_nil_inv in H. subst t'.
      assert (E : strip_prefix (rev run) (rev run ++ []) = Some []) by (apply strip_prefix_spec; reflexivity).
      rewrite E. destruct fl; reflexivity.
  - assert (Hr : Forall lit (rev run)) by (apply Forall_rev; assumption).
    cbn [l2r]. destruct (N.eqb c UND) eqn:EU; [|destruct (N.eqb c PCT) eqn:EP].
    + apply N.eqb_eq in EU. subst c. cbn [rmatch]. rewrite (like_lits_inv _ Hr). split.
      * destruct (strip_prefix (rev run) t) as [t1|] eqn:E; [|discriminate].
        apply strip_prefix_spec in E. subst t. apply single_line_app in Ht. destruct Ht as [_ Ht1].
        destruct t1 as [|d t2]; [discriminate|]. intros H. apply andb_true_iff in H. destruct H as [_ H].
        apply single_line_cons in Ht1. destruct Ht1 as [_ Ht2].
        apply (IH [] t2 (Forall_nil _) Ht2) in H. cbn in H.
        exists (d :: t2). split; [reflexivity|]. apply like_und_inv. do 2 eexists. split; [reflexivity | assumption].
      * intros [t1 [-> H]]. apply like_und_inv in H. destruct H as [d [t2 [-> H]]].
        assert (E : strip_prefix (rev run) (rev run ++ d :: t2) = Some (d :: t2)) by (apply strip_prefix_spec; reflexivity).
        rewrite E. apply single_line_app in Ht. destruct Ht as [_ Ht1]. apply single_line_cons in Ht1. destruct Ht1 as [Hd Ht2].
        apply andb_true_iff. split; [assumption|]. apply (IH [] t2 (Forall_nil _) Ht2). assumption.
    + apply N.eqb_eq in EP. subst c. cbn [rmatch]. rewrite (like_lits_inv _ Hr). split.
      * destruct (strip_prefix (rev run) t) as [t1|] eqn:E; [|discriminate].
        apply strip_prefix_spec in E. subst t. apply single_line_app in Ht. destruct Ht as [_ Ht1].
        intros H. apply (star_spec (rmatch fl (l2r p []))) in H. destruct H as [u [v [-> [Hu Hk]]]].
        apply single_line_app in Ht1. destruct Ht1 as [_ Hv].
        apply (IH [] v (Forall_nil _) Hv) in Hk. cbn in Hk.
        exists (u ++ v). split; [reflexivity|]. apply like_pct_inv. exists u, v. split; [reflexivity | assumption].
      * intros [t1 [-> H]]. apply like_pct_inv in H. destruct H as [u [v [-> H]]].
        assert (E : strip_prefix (rev run) (rev run ++ u ++ v) = Some (u ++ v)) by (apply strip_prefix_spec; reflexivity).
        rewrite E. apply single_line_app in Ht. destruct Ht as [_ Ht1]. apply single_line_app in Ht1. destruct Ht1 as [Hu Hv].
        apply (star_spec (rmatch fl (l2r p []))). exists u, v. split; [reflexivity|]. split; [assumption|].
        apply (IH [] v (Forall_nil _) Hv). assumption.
    + apply N.eqb_neq in EU. apply N.eqb_neq in EP.
      rewrite (IH (c :: run) t); [| constructor; [split; assumption | assumption] | assumption].
      cbn [rev]. rewrite <- app_assoc. reflexivity.
Qed.

Theorem like_correct t p : single_line fl t -> (like fl t p = true <-> SqlLike t p).
Proof. intros Ht. unfold like, like_to_regex. apply (l2r_correct p [] t (Forall_nil _) Ht). Qed.

(* every character other than % and _ stands for itself: a pattern without % and _ matches exactly itself *)
Theorem like_meta_literal t p :
  Forall lit p -> single_line fl t -> (like fl t p = true <-> t = p).
Proof.
  intros Hp Ht. rewrite (like_correct t p Ht). rewrite <- (app_nil_r p) at 1. rewrite (like_lits_inv p Hp).
  split.
  - intros [t' [-> H]]. apply like_nil_inv in H. subst. rewrite app_nil_r. reflexivity.
  - intros ->. exists []. split; [rewrite app_nil_r; reflexivity | constructor].
Qed.

(* cache coherence: under the invariant cache[p] = like_to_regex p, the cached LIKE is LIKE *)
Definition cache_ok (c : cache) : Prop := forall p m, cache_get c p = Some m -> m = like_to_regex p.

Lemma str_eqb_eq a : forall b, str_eqb a b = true <-> a = b.
Proof.
  induction a as [|x a IH]; intros [|y b]; cbn; split; intros H; try reflexivity; try discriminate.
  - apply andb_true_iff in H. destruct H as [H1 H2]. apply N.eqb_eq in H1. apply IH in H2. subst. reflexivity.
  - injection H as -> ->. apply andb_true_iff. split; [apply N.eqb_refl | apply IH; reflexivity].
Qed.

Lemma like_cached_ok c t p :
  cache_ok c -> fst (like_cached fl c t p) = like fl t p /\ cache_ok (snd (like_cached fl c t p)).
Proof.
  intros Hc. unfold like_cached. destruct (cache_get c p) as [m|] eqn:E.
  - cbn. split; [rewrite (Hc _ _ E); reflexivity | assumption].
  - cbn. split; [reflexivity|]. intros q m. cbn. destruct (str_eqb p q) eqn:Eq.
    + apply str_eqb_eq in Eq. subst q. intros H. injection H as <-. reflexivity.
    + apply Hc.
Qed.

Theorem like_seq_coherent : forall calls c,
  cache_ok c -> like_seq fl c calls = map (fun tp => like fl (fst tp) (snd tp)) calls.
Proof.
  induction calls as [|[t p] r IH]; intros c Hc; [reflexivity|].
  cbn [like_seq map fst snd]. destruct (like_cached_ok c t p Hc) as [H1 H2].
  destruct (like_cached fl c t p) as [b c'] eqn:E. cbn in H1, H2. subst b. rewrite (IH c' H2). reflexivity.
Qed.
End Flavour.

Lemma cache_ok_nil : cache_ok [].
Proof. intros p m H. discriminate. Qed.

(* Outside the property's "single-line texts": with LF the Python model leaves SQL LIKE *)
Definition ca : ch := 97%N.
Example like_lf_dot : like Py [ca; LF] [ca; UND] = false /\ SqlLike [ca; LF] [ca; UND].
Proof. split; [vm_compute; reflexivity | apply SL_lit; try discriminate; apply SL_one; constructor]. Qed.
Example like_lf_dollar : like Py [ca; LF] [ca] = true /\ ~ SqlLike [ca; LF] [ca].
Proof.
  split; [vm_compute; reflexivity|]. intros H. inversion H; subst.
  match goal with H : SqlLike [LF] [] |- _ => inversion H end.
Qed.
