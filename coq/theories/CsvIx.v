(* CsvIx.v — the INDEX-style hand model of rbql-py/rbql/csv_utils.py: the same functions as Csv.v, but written with the
   recursion structure and the data representation of the Python source - positions are integer indices into `src`
   (Z), str.find returns -1, `result` is a list that is appended to, the loop of split_quoted_str is the combinator
   while_fuel with the fuel of Csv.split_quoted_tagged (S (length src)), a function with an assert or a while loop
   returns an option (None = AssertionError or out of fuel), the policy is its name as a string.
   Its text is what harness/translate_csv.py prints for the reviewed source (python3 harness/translate_csv.py DIR ix_);
   it was read against csv_utils.py line by line and is committed, so that the per-run obligations
       gen_csv_<name>_eq : forall args, gen_py_<name> args = ix_<name> args
   are closed by reflexivity while the source keeps its shape.  CsvIx_Proofs.v proves (once) that these functions equal
   the suffix-style model Csv.v that the theorems of C10 / C11 / C18 are about.
   Primitives: PyStr.v.  NO proofs in this file. *)
From RBQL Require Import Base Csv PyStr.

Definition ix_extract_next_field (src : str) (dlm : str) (preserve_quotes_and_whitespaces : bool) (allow_external_whitespaces : bool) (cidx : Z) (result : list str) :=
  let rgx := (if allow_external_whitespaces then RxFieldExt else RxField) in
  let match_obj := (re_match rgx src cidx) in
  match match_obj with
  | Some match_obj =>
    let match_end := (m_end match_obj) in
    if ((match_end =? (zlen src))%Z || (py_startswith src dlm match_end)) then
      let result :=
        if preserve_quotes_and_whitespaces then
          (result ++ [(m_group0 match_obj)])
        else
          (result ++ [(py_replace (m_group1 match_obj) [34%N; 34%N] [34%N])]) in
      (result, ((match_end + (zlen dlm))%Z, false))
    else
      let uidx := (py_find src dlm cidx) in
      let uidx :=
        if (uidx =? (-1)%Z)%Z then
          (zlen src)
        else
          uidx in
      let field := (py_slice src (Some cidx) (Some uidx)) in
      let result := (result ++ [field]) in
      (result, ((uidx + (zlen dlm))%Z, true))
  | None =>
    let uidx := (py_find src dlm cidx) in
    let uidx :=
      if (uidx =? (-1)%Z)%Z then
        (zlen src)
      else
        uidx in
    let field := (py_slice src (Some cidx) (Some uidx)) in
    let warning := (py_contains field [34%N]) in
    let result := (result ++ [field]) in
    (result, ((uidx + (zlen dlm))%Z, warning))
  end.

Definition ix_split_quoted_str (src : str) (dlm : str) (preserve_quotes_and_whitespaces : bool) :=
  if (negb (str_eqb dlm [34%N])) then
    if (negb (py_contains src [34%N])) then
      (Some ((py_split src dlm), false))
    else
      let result := [] in
      let cidx := 0%Z in
      let allow_external_whitespaces := (negb (str_eqb dlm [32%N])) in
      match while_fuel (S (length src))
        (fun '(cidx, result, warning) => (cidx <? (zlen src))%Z)
        (fun '(cidx, result, warning) =>
          let '(result, extraction_report) := ix_extract_next_field src dlm preserve_quotes_and_whitespaces allow_external_whitespaces cidx result in
          let cidx := (fst extraction_report) in
          let warning := (warning || (snd extraction_report)) in
          (cidx, result, warning))
        (cidx, result, false) with
      | None => None
      | Some (cidx, result, warning) =>
        let result :=
          if (cidx =? (zlen src))%Z then
            (result ++ [(@nil ch)])
          else
            result in
        (Some (result, warning))
      end
  else None.

Definition ix_split_whitespace_separated_str (src : str) (preserve_whitespaces : bool) :=
  let rgxp := (if preserve_whitespaces then RxWsPreserve else RxWs) in
  let result := [] in
  let result := fold_left (fun result m =>
      (result ++ [m]))
    (re_finditer_g0 rgxp src) result in
  if (preserve_whitespaces && (1%Z <? (zlen result))%Z) then
    let result := fold_left (fun result i =>
        (py_setitem result i (py_slice (py_getitem (@nil ch) result i) None (Some (-1)%Z))))
      (py_range ((zlen result) - 1%Z)%Z) result in
    result
  else
    result.

Definition ix_smart_split (src : str) (dlm : str) (policy : str) (preserve_quotes_and_whitespaces : bool) :=
  if (str_eqb policy [115%N; 105%N; 109%N; 112%N; 108%N; 101%N]) then
    (Some ((py_split src dlm), false))
  else
    if (str_eqb policy [119%N; 104%N; 105%N; 116%N; 101%N; 115%N; 112%N; 97%N; 99%N; 101%N]) then
      (Some ((ix_split_whitespace_separated_str src preserve_quotes_and_whitespaces), false))
    else
      if (str_eqb policy [109%N; 111%N; 110%N; 111%N; 99%N; 111%N; 108%N; 117%N; 109%N; 110%N]) then
        (Some ([src], false))
      else
        match ix_split_quoted_str src dlm preserve_quotes_and_whitespaces with
        | None => None
        | Some ret__ =>
          (Some ret__)
        end.

Definition ix_quote_field (src : str) (delim : str) :=
  if (py_contains src [34%N]) then
    ([34%N] ++ (py_replace src [34%N] [34%N; 34%N]) ++ [34%N])
  else
    if (py_contains src delim) then
      ([34%N] ++ src ++ [34%N])
    else
      src.

Definition ix_rfc_quote_field (src : str) (delim : str) :=
  if (py_contains src [34%N]) then
    ([34%N] ++ (py_replace src [34%N] [34%N; 34%N]) ++ [34%N])
  else
    if (((py_contains src delim) || (py_contains src [10%N])) || (py_contains src [13%N])) then
      ([34%N] ++ src ++ [34%N])
    else
      src.
