(* Sqlite.v — the only SQL RBQL ever sends to a sqlite database (rbql_sqlite.py SqliteRecordIterator.__init__):
   the table identifier must fully match [a-zA-Z0-9_]* (anchored with \Z) and is interpolated into
   'SELECT * FROM {};'.  *)
From RBQL Require Import Base.

Definition is_word (c : ch) : bool :=
  (N.leb 48 c && N.leb c 57) || (N.leb 65 c && N.leb c 90) || (N.leb 97 c && N.leb c 122) || N.eqb c 95.

Definition sqlite_accepts (name : str) : bool := forallb is_word name.

Definition SELECT_FROM : str := [83; 69; 76; 69; 67; 84; 32; 42; 32; 70; 82; 79; 77; 32]%N.   (* "SELECT * FROM " *)
Definition SEMI : ch := 59%N.

(* the statements sent for a table identifier: one SELECT, or nothing (IO-handling error) *)
Definition sql_sent (name : str) : list str :=
  if sqlite_accepts name then [SELECT_FROM ++ name ++ [SEMI]] else [].

(* a query touches the input table and, with JOIN, the join table named in the query text *)
Definition sql_of_query (input_table : str) (join_table : option str) : list str :=
  match sql_sent input_table with
  | [] => []                                  (* constructor of the input iterator fails: nothing else happens *)
  | s => s ++ match join_table with None => [] | Some j => sql_sent j end
  end.
