(* Parser_TokensExamples_Proofs.v — C08_token_spelling, part 7: non-vacuity examples and the necessity of the
   well-formedness conditions (witnesses found with vm_compute and checked against rbql_engine.py). *)
From RBQL Require Import Base Parser Parser_Spelling_Proofs Parser_Tokens_Proofs Parser_TokensLocate_Proofs
  Parser_TokensRender_Proofs Parser_TokensQuery_Proofs Parser_TokensMain_Proofs Parser_TokensSpell_Proofs
  Parser_TokensJoin_Proofs Parser_TokensFrom_Proofs.
From Coq Require String.
Import String.StringSyntax.
Local Open Scope N_scope.

(* case_rel between two closed strings, by computation *)
Fixpoint case_relb (a b : str) : bool :=
  match a, b with
  | [], [] => true
  | x :: a', y :: b' => (N.eqb x y || (is_alpha x && is_alpha y && N.eqb (to_lower x) (to_lower y))) && case_relb a' b'
  | _, _ => false
  end.
Lemma case_relb_sound : forall a b, case_relb a b = true -> case_rel a b.
Proof.
  induction a as [|x a IH]; intros [|y b] H; try discriminate H; [constructor|]. cbn [case_relb] in H.
  apply andb_true_iff in H. destruct H as [H1 H2]. constructor; [|apply IH; exact H2].
  apply orb_true_iff in H1. destruct H1 as [H1|H1]; [left; apply N.eqb_eq; exact H1|]. right.
  apply andb_true_iff in H1. destruct H1 as [H1 H3]. apply andb_true_iff in H1. destruct H1 as [A B]. apply N.eqb_eq in H3. repeat split; assumption.
Qed.
Fixpoint words_relb (a b : list str) : bool :=
  match a, b with [], [] => true | x :: a', y :: b' => case_relb x y && words_relb a' b' | _, _ => false end.
Lemma words_relb_sound : forall a b, words_relb a b = true -> Forall2 case_rel a b.
Proof.
  induction a as [|x a IH]; intros [|y b] H; try discriminate H; [constructor|]. cbn [words_relb] in H.
  apply andb_true_iff in H. destruct H as [H1 H2]. constructor; [apply case_relb_sound; exact H1 | apply IH; exact H2].
Qed.

(* sigma_ok, by computation *)
Fixpoint nodupb (l : list ck) : bool := match l with [] => true | k :: r => negb (mem k r) && nodupb r end.
Definition sigma_okb (s : sigma) (q : aq) : bool :=
  nodupb (s_order s) && forallb (fun k => Bool.eqb (mem k (s_order s)) (present q k)) all_ck &&
  forallb (fun k => words_relb (stmt_words (st_of s q k)) (s_ws s k)) (s_order s) &&
  case_relb (head_word (q_kind q)) (s_hw s) && case_relb K_TOP (s_top s) && case_relb K_DISTINCT (s_dist s) &&
  case_relb K_COUNT (s_count s) && case_relb K_SET (s_set_w s) && case_relb (dir_word q) (s_dir_w s).

Lemma nodupb_sound : forall l, nodupb l = true -> NoDup l.
Proof.
  induction l as [|k r IH]; intro H; [constructor|]. cbn [nodupb] in H. apply andb_true_iff in H. destruct H as [H1 H2].
  constructor; [|apply IH; exact H2]. intro I. apply mem_In in I. rewrite I in H1. discriminate H1.
Qed.

Lemma sigma_okb_sound : forall s q, sigma_okb s q = true -> sigma_ok s q.
Proof.
  intros s q H. unfold sigma_okb in H. repeat (apply andb_true_iff in H; let X := fresh "H" in destruct H as [H X]).
  unfold sigma_ok, head_words_ok. split; [apply nodupb_sound; exact H|]. split.
  - intro k. rewrite forallb_forall in H7. assert (I : In k all_ck) by (destruct k; cbn; tauto).
    specialize (H7 k I). apply Bool.eqb_prop in H7. rewrite <- H7. symmetry. apply mem_In.
  - split; [|repeat split; apply case_relb_sound; assumption].
    intros k I. rewrite forallb_forall in H6. apply words_relb_sound. apply H6. exact I.
Qed.

(* ------------------------------------------------------------------ a query with every clause, two spellings *)
Definition ex_q : aq :=
  mkAq (QSelect (Some $"5") true true $"a1, len(a2)") (Some $"a3 > 5 and a4 != 'x'") (Some ($"int(a2), a1", true))
       (Some $"a1") (Some $"10") (Some $"a7,a8") (Some (JLeft, $"b ON a1 == b1")) None.
(* SELECT TOP 5 DISTINCT COUNT a1, len(a2) WHERE .. ORDER BY .. DESC GROUP BY a1 LIMIT 10 EXCEPT a7,a8 LEFT JOIN b ON .. *)
Definition ex_s1 : sigma :=
  mkSigma [CWhere; COrder; CGroup; CLimit; CExcept; CJoin] (fun k => stmt_words (st_of (mkSigma [] (fun _ => []) (fun _ => O) (fun _ => []) (fun _ => O) false false [] O [] O O [] O [] O false [] O false [] O) ex_q k))
    (fun _ => O) (fun _ => []) (fun _ => O) false false $"SELECT" 0 $"TOP" 1 0 $"DISTINCT" 1 $"COUNT" 0 false $"SET" 0 false $"DESC" 0.
(* select   top5   distinctCount  a1, len(a2)  left   outer join b ON ..   except a7,a8  limit 10 Group  By a1 order by .. desc where .. *)
Definition ex_s2 : sigma :=
  mkSigma [CJoin; CExcept; CLimit; CGroup; COrder; CWhere]
    (fun k => match k with CJoin => [$"left"; $"outer"; $"join"] | CExcept => [$"except"] | CLimit => [$"limit"]
                         | CGroup => [$"Group"; $"By"] | COrder => [$"order"; $"by"] | CWhere => [$"where"] | CFrom => [] end)
    (fun k => match k with CJoin => 1%nat | _ => O end) (fun k => match k with CJoin => [2%nat; 0%nat] | CGroup => [1%nat] | _ => [] end)
    (fun k => match k with CJoin => 0%nat | CLimit => 0%nat | _ => 1%nat end) false true
    $"select" 2 $"top" 0 2 $"distinct" 0 $"Count" 1 false $"set" 0 false $"desc" 3.

Example ex_wf : wf_aq LPy false ex_q = true /\ wf_aq LJs false ex_q = true.
Proof. split; vm_compute; reflexivity. Qed.
Example ex_sigmas : sigma_ok ex_s1 ex_q /\ sigma_ok ex_s2 ex_q /\ render ex_s1 ex_q <> render ex_s2 ex_q.
Proof. split; [apply sigma_okb_sound; vm_compute; reflexivity|]. split; [apply sigma_okb_sound; vm_compute; reflexivity|]. vm_compute. discriminate. Qed.

Example ex_texts :
  render ex_s1 ex_q = $"SELECT TOP 5 DISTINCT COUNT a1, len(a2) WHERE a3 > 5 and a4 != 'x' ORDER BY int(a2), a1 DESC GROUP BY a1 LIMIT 10 EXCEPT a7,a8 LEFT JOIN b ON a1 == b1" /\
  render ex_s2 ex_q = $"select   top5   distinctCount  a1, len(a2)  left   outer join b ON a1 == b1 except  a7,a8 limit 10 Group  By  a1 order by  int(a2), a1    desc where  a3 > 5 and a4 != 'x'".
Proof. split; vm_compute; reflexivity. Qed.

(* by the theorem ... *)
Example ex_same_by_theorem : forall fl,
  norm_res fl (separate_actions fl false (render ex_s1 ex_q)) = Ok (nact fl ex_q) /\
  norm_res fl (separate_actions fl false (render ex_s2 ex_q)) = Ok (nact fl ex_q).
Proof.
  intro fl. split; apply token_spelling_norm; try (apply sigma_okb_sound; vm_compute; reflexivity); destruct fl; vm_compute; reflexivity.
Qed.
(* ... and by running the model on both texts: LEFT JOIN vs LEFT OUTER JOIN is the only difference of the raw records *)
Example ex_same_by_computation :
  separate_actions LPy false (render ex_s1 ex_q) = Ok (actions_of ex_s1 ex_q) /\
  separate_actions LPy false (render ex_s2 ex_q) = Ok (actions_of ex_s2 ex_q) /\
  a_join (actions_of ex_s1 ex_q) = Some (LEFT_JOIN, $"b ON a1 == b1") /\
  a_join (actions_of ex_s2 ex_q) = Some (LEFT_OUTER_JOIN, $"b ON a1 == b1") /\
  n_top (nact LPy ex_q) = Ok (Some 10%Z).
Proof. repeat split; vm_compute; reflexivity. Qed.

(* ------------------------------------------------------------------ the conditions cannot be dropped *)
Definition std_sigma (q : aq) (order : list ck) : sigma :=
  mkSigma order (fun k => stmt_words (st_of (mkSigma [] (fun _ => []) (fun _ => O) (fun _ => []) (fun _ => O) false false [] O [] O O [] O [] O false [] O false [] O) q k))
    (fun _ => O) (fun _ => []) (fun _ => O) false false (head_word (q_kind q)) 0 K_TOP 1 0 K_DISTINCT 1 K_COUNT 0 false K_SET 0 false (dir_word q) 0.

(* 1. a clause text containing a statement keyword as a word: SELECT a1 GROUP BY a2 where a3 *)
Definition bad_q1 : aq := mkAq (QSelect None false false $"a1") None None (Some $"a2 where a3") None None None None.
Example clause_ok_needed :
  sigma_ok (std_sigma bad_q1 [CGroup]) bad_q1 /\ wf_aq LPy false bad_q1 = false /\
  render (std_sigma bad_q1 [CGroup]) bad_q1 = $"SELECT a1 GROUP BY a2 where a3" /\
  separate_actions LPy false (render (std_sigma bad_q1 [CGroup]) bad_q1) <> Ok (actions_of (std_sigma bad_q1 [CGroup]) bad_q1) /\
  (exists a, separate_actions LPy false (render (std_sigma bad_q1 [CGroup]) bad_q1) = Ok a /\ a_where a = Some $"a3" /\ a_group a = Some $"a2").
Proof.
  split; [apply sigma_okb_sound; vm_compute; reflexivity|]. split; [vm_compute; reflexivity|]. split; [vm_compute; reflexivity|].
  split; [vm_compute; discriminate|]. eexists. split; [vm_compute; reflexivity|]. split; vm_compute; reflexivity.
Qed.

(* 2. REFUTED: clause-order invariance for texts without any statement keyword. The word LEFT alone is not a
   statement, but a clause text ENDING in it fuses with a following JOIN keyword ("straddle"):
     SELECT a1 JOIN b ON a1 == b1 WHERE a2 in left     inner join, WHERE a2 in left
     SELECT a1 WHERE a2 in left JOIN b ON a1 == b1     LEFT join,  WHERE a2 in
   (rbql_engine.py behaves the same: checked). [quiet] excludes such endings. *)
Definition bad_q2 : aq := mkAq (QSelect None false false $"a1") (Some $"a2 in left") None None None None (Some (JInner, $"b ON a1 == b1")) None.
Example clause_order_refuted :
  sigma_ok (std_sigma bad_q2 [CJoin; CWhere]) bad_q2 /\ sigma_ok (std_sigma bad_q2 [CWhere; CJoin]) bad_q2 /\
  wf_aq LPy false bad_q2 = false /\
  render (std_sigma bad_q2 [CJoin; CWhere]) bad_q2 = $"SELECT a1 JOIN b ON a1 == b1 WHERE a2 in left" /\
  render (std_sigma bad_q2 [CWhere; CJoin]) bad_q2 = $"SELECT a1 WHERE a2 in left JOIN b ON a1 == b1" /\
  norm_res LPy (separate_actions LPy false (render (std_sigma bad_q2 [CJoin; CWhere]) bad_q2)) = Ok (nact LPy bad_q2) /\
  (exists n, norm_res LPy (separate_actions LPy false (render (std_sigma bad_q2 [CWhere; CJoin]) bad_q2)) = Ok n /\
             n_join n = Some (JLeft, $"b ON a1 == b1") /\ n_where n = Some $"a2 in") /\
  (forall fl st', In st' (all_stmts false) -> find_all (kw_match fl (stmt_words st')) (SP :: $"a2 in left" ++ [SP]) = []).
Proof.
  split; [apply sigma_okb_sound; vm_compute; reflexivity|]. split; [apply sigma_okb_sound; vm_compute; reflexivity|].
  split; [vm_compute; reflexivity|]. split; [vm_compute; reflexivity|]. split; [vm_compute; reflexivity|]. split; [vm_compute; reflexivity|].
  split; [eexists; split; [vm_compute; reflexivity | split; vm_compute; reflexivity]|].
  intros fl st' I. cbn in I. destruct fl; repeat (destruct I as [<-|I]; [vm_compute; reflexivity|]); contradiction.
Qed.

(* 3. a sort key text that itself ends with the word DESC: ORDER BY a1 desc with the flag "ascending" *)
Definition bad_q3 : aq := mkAq (QSelect None false false $"a1") None (Some ($"a2 desc", false)) None None None None None.
Example order_ok_needed :
  sigma_ok (std_sigma bad_q3 [COrder]) bad_q3 /\ wf_aq LPy false bad_q3 = false /\
  exists a, separate_actions LPy false (render (std_sigma bad_q3 [COrder]) bad_q3) = Ok a /\ a_order a = Some ($"a2", true).
Proof.
  split; [apply sigma_okb_sound; vm_compute; reflexivity|]. split; [vm_compute; reflexivity|].
  eexists. split; vm_compute; reflexivity.
Qed.

(* 4. TOP n = LIMIT n needs the select list not to start with TOP digits:
     SELECT TOP 5 top 3 a1  (limit 5, list "top 3 a1")   vs   SELECT top 3 a1 LIMIT 5  (limit 5, list "a1") *)
Definition bad_q4 : aq := mkAq (QSelect (Some $"5") false false $"top 3 a1") None None None None None None None.
Example top_limit_needs_wf :
  wf_aq LPy false bad_q4 = true /\ wf_aq LPy false (top_to_limit bad_q4) = false /\
  sigma_ok (std_sigma bad_q4 []) bad_q4 /\ sigma_ok (std_sigma (top_to_limit bad_q4) [CLimit]) (top_to_limit bad_q4) /\
  norm_res LPy (separate_actions LPy false (render (std_sigma bad_q4 []) bad_q4))
  <> norm_res LPy (separate_actions LPy false (render (std_sigma (top_to_limit bad_q4) [CLimit]) (top_to_limit bad_q4))).
Proof.
  split; [vm_compute; reflexivity|]. split; [vm_compute; reflexivity|].
  split; [apply sigma_okb_sound; vm_compute; reflexivity|]. split; [apply sigma_okb_sound; vm_compute; reflexivity|].
  vm_compute. discriminate.
Qed.

(* ------------------------------------------------------------------ FROM a, UPDATE a SET, ON conditions *)
(* select a1  from  A   where a2 > 1 limit 3 : the hypotheses of from_a_redundant hold, the text is what it says *)
Definition ex_qf : aq := mkAq (QSelect None false false $"a1") (Some $"a2 > 1") None None (Some $"3") None None None.
Definition ex_sf : sigma := std_sigma ex_qf [CWhere; CLimit].
Example ex_from_a :
  render_from ex_sf ex_qf [] [CWhere; CLimit] 1 $"from" 1 65 = $"SELECT a1  from  A WHERE a2 > 1 LIMIT 3" /\
  remove_redundant_input_table_name LPy (render_from ex_sf ex_qf [] [CWhere; CLimit] 1 $"from" 1 65) = $"SELECT a1 WHERE a2 > 1 LIMIT 3" /\
  separate_actions LPy false (remove_redundant_input_table_name LPy (render_from ex_sf ex_qf [] [CWhere; CLimit] 1 $"from" 1 65))
  = separate_actions LPy false (render ex_sf ex_qf) /\
  render_from ex_sf ex_qf [CWhere; CLimit] [] 0 $"FROM" 0 97 = $"SELECT a1 WHERE a2 > 1 LIMIT 3 FROM a".
Proof.
  split; [vm_compute; reflexivity|]. split; [vm_compute; reflexivity|]. split; [|vm_compute; reflexivity].
  apply from_a_redundant; try (vm_compute; reflexivity).
  - apply sigma_okb_sound. vm_compute. reflexivity.
  - do 4 eexists. reflexivity.
  - apply case_relb_sound. vm_compute. reflexivity.
Qed.

Definition ex_qu : aq := mkAq (QUpdate $"a1 = a2 + 1") (Some $"a3 == 5") None None None None None None.
Definition ex_su : sigma := std_sigma ex_qu [CWhere].
Example ex_update_a_set :
  render_upd_a ex_su ex_qu $"a1 = a2 + 1" 0 97 1 = $"UPDATE a  SET a1 = a2 + 1 WHERE a3 == 5" /\
  remove_redundant_input_table_name LPy (render_upd_a ex_su ex_qu $"a1 = a2 + 1" 0 97 1) = $"update a1 = a2 + 1 WHERE a3 == 5" /\
  separate_actions LPy false (remove_redundant_input_table_name LPy (render_upd_a ex_su ex_qu $"a1 = a2 + 1" 0 97 1))
  = separate_actions LPy false (render ex_su ex_qu).
Proof.
  split; [vm_compute; reflexivity|]. split; [vm_compute; reflexivity|].
  apply update_set_redundant; try (vm_compute; reflexivity). apply sigma_okb_sound. vm_compute. reflexivity.
Qed.

(* b.csv  on a1==b2 AND  a3 = b4   and   b.csv ON a1 =  b2 and a3==b4 *)
Definition ex_ps1 : list jpair := [mkJpair $"a1" $"b2" true 0 0 0 $"AND" 1; mkJpair $"a3" $"b4" false 1 1 0 $"AND" 0].
Definition ex_ps2 : list jpair := [mkJpair $"a1" $"b2" false 1 2 0 $"and" 0; mkJpair $"a3" $"b4" true 0 0 0 $"and" 0].
Example ex_join_on :
  render_join $"b.csv" 1 $"on" 0 ex_ps1 = $"b.csv  on a1==b2 AND  a3 = b4" /\
  render_join $"b.csv" 0 $"ON" 0 ex_ps2 = $"b.csv ON a1 =  b2 and a3==b4" /\
  parse_join_expression LPy (render_join $"b.csv" 1 $"on" 0 ex_ps1) = Ok ($"b.csv", [($"a1", $"b2"); ($"a3", $"b4")]) /\
  parse_join_expression LPy (render_join $"b.csv" 0 $"ON" 0 ex_ps2) = Ok ($"b.csv", [($"a1", $"b2"); ($"a3", $"b4")]).
Proof.
  split; [vm_compute; reflexivity|]. split; [vm_compute; reflexivity|].
  assert (A1 : case_rel K_AND $"AND") by (apply case_relb_sound; vm_compute; reflexivity).
  assert (A2 : case_rel K_AND $"and") by (apply case_relb_sound; vm_compute; reflexivity).
  split; (rewrite join_on_equiv; [reflexivity | vm_compute; reflexivity | vm_compute; reflexivity | apply case_relb_sound; vm_compute; reflexivity | discriminate |]);
    repeat (constructor; [unfold jpair_ok; cbn; repeat split; first [reflexivity | left; assumption]|]); constructor.
Qed.
