(* Base.v — characters, strings and the string primitives of Python/JavaScript that the
   RBQL sources use (find, startswith, split, join, count, replace, strip).
   Stdlib only; every function is total and structurally recursive (or recursive on explicit fuel). *)
From Coq Require Export List NArith ZArith Arith Bool Lia.
Export ListNotations.

Definition ch := N.                (* a Unicode code point *)
Definition str := list ch.

Definition LF : ch := 10%N.
Definition CR : ch := 13%N.
Definition TAB : ch := 9%N.
Definition SP : ch := 32%N.
Definition QT : ch := 34%N.        (* double quote *)
Definition APOS : ch := 39%N.      (* single quote *)
Definition HASH : ch := 35%N.
Definition PCT : ch := 37%N.       (* % *)
Definition COMMA : ch := 44%N.
Definition BSL : ch := 92%N.       (* backslash *)
Definition UND : ch := 95%N.       (* _ *)
Definition BOMC : ch := 65279%N.   (* U+FEFF *)

Definition ch_eqb (a b : ch) : bool := N.eqb a b.

Fixpoint str_eqb (a b : str) : bool :=
  match a, b with
  | [], [] => true
  | x :: a', y :: b' => N.eqb x y && str_eqb a' b'
  | _, _ => false
  end.

Definition has (c : ch) (s : str) : bool := existsb (N.eqb c) s.

(* s.startswith(p) *)
Fixpoint starts_with (p s : str) : bool :=
  match p, s with
  | [], _ => true
  | c :: p', d :: s' => N.eqb c d && starts_with p' s'
  | _ :: _, [] => false
  end.

(* remove prefix p from s *)
Fixpoint strip_prefix (p s : str) : option str :=
  match p, s with
  | [], _ => Some s
  | c :: p', d :: s' => if N.eqb c d then strip_prefix p' s' else None
  | _ :: _, [] => None
  end.

(* s.find(p): least index at which p occurs *)
Fixpoint find (p s : str) : option nat :=
  if starts_with p s then Some O
  else match s with
       | [] => None
       | _ :: t => option_map S (find p t)
       end.

Definition contains (p s : str) : bool := match find p s with Some _ => true | None => false end.

(* s.split(d) for non-empty d; fuel-bounded on the number of pieces *)
Fixpoint split_fuel (fuel : nat) (d s : str) : list str :=
  match fuel with
  | O => [s]
  | S f => match find d s with
           | None => [s]
           | Some i => firstn i s :: split_fuel f d (skipn (i + length d) s)
           end
  end.
Definition split (d s : str) : list str := split_fuel (S (length s)) d s.

(* d.join(fs) *)
Fixpoint join (d : str) (fs : list str) : str :=
  match fs with
  | [] => []
  | [f] => f
  | f :: r => f ++ d ++ join d r
  end.

(* s.count(d): leftmost non-overlapping occurrences, non-empty d *)
Fixpoint count_fuel (fuel : nat) (d s : str) : nat :=
  match fuel with
  | O => O
  | S f => match find d s with
           | None => O
           | Some i => S (count_fuel f d (skipn (i + length d) s))
           end
  end.
Definition count (d s : str) : nat := count_fuel (S (length s)) d s.

Definition count_ch (c : ch) (s : str) : nat := length (filter (N.eqb c) s).

(* s.replace(a, b) for non-empty a *)
Definition replace (a b s : str) : str := join b (split a s).

(* Python str.strip() with no argument strips whitespace; the sources call it on query text.
   Whitespace class used here: space, TAB, LF, CR, VT, FF (ASCII whitespace) *)
Definition is_ws (c : ch) : bool :=
  N.eqb c 32 || N.eqb c 9 || N.eqb c 10 || N.eqb c 13 || N.eqb c 11 || N.eqb c 12.
Fixpoint lstrip_by (f : ch -> bool) (s : str) : str :=
  match s with c :: t => if f c then lstrip_by f t else s | [] => [] end.
Definition rstrip_by (f : ch -> bool) (s : str) : str := rev (lstrip_by f (rev s)).
Definition strip_by (f : ch -> bool) (s : str) : str := rstrip_by f (lstrip_by f s).
Definition strip (s : str) : str := strip_by is_ws s.

Fixpoint last_opt {A} (l : list A) : option A :=
  match l with [] => None | [x] => Some x | _ :: t => last_opt t end.

Definition ends_with (p s : str) : bool := starts_with (rev p) (rev s).

Fixpoint all_eqb_nat (a b : list nat) : bool :=
  match a, b with [], [] => true | x :: a', y :: b' => Nat.eqb x y && all_eqb_nat a' b' | _, _ => false end.
