(* EntryStatic2.v — entry 330: the static phase of a query (Static2.static2).
   L [A port(0 py, 1 js); A bound; from; A stmt(0 select, 1 update, 2 select..update, 3 update..select, 4 neither); A vars_ok;
      A names_ok; A hdr; A order; A group; join; A where_assign; A upd_unknown; A limit_bad; except]
     from, except : L [] | L [A b]         join : L [] | L [L [A registry; A found; A vars_ok; A hdr; A keys_ok; A nb; short]]
     short : L [] | L [A k]
   -> L [L [A event ...]; error]     events: 1 lookup a, 2 variables a, 3 lookup b, 4 variables b, 5 one B record pulled, 6 set_header
      error : L [] | L [L [A class(0 parsing, 1 runtime, 2 io); A tag; A nr]] *)
From RBQL Require Import Base Sx Engine Static2.

Definition b_of (n : N) : bool := negb (N.eqb n 0).

Definition optb_of_sx (x : sx) : option (option bool) :=
  match x with L [] => Some None | L [A b] => Some (Some (b_of b)) | _ => None end.

Definition stmt_of (n : N) : stmt :=
  match n with 0%N => SSelect | 1%N => SUpdate | 2%N => SBothSU | 3%N => SBothUS | _ => SNeither end.

Definition jreq_of_sx (x : sx) : option (option jreq) :=
  match x with
  | L [] => Some None
  | L [L [A rg; A fd; A vo; A hd; A ko; A nb; sh]] =>
      match sh with
      | L [] => Some (Some {| j_registry := b_of rg; j_found := b_of fd; j_vars_ok := b_of vo; j_hdr := b_of hd;
                              j_keys_ok := b_of ko; j_nb := N.to_nat nb; j_short := None |})
      | L [A k] => Some (Some {| j_registry := b_of rg; j_found := b_of fd; j_vars_ok := b_of vo; j_hdr := b_of hd;
                                 j_keys_ok := b_of ko; j_nb := N.to_nat nb; j_short := Some (N.to_nat k) |})
      | _ => None
      end
  | _ => None
  end.

Definition sreq_of_sx (x : sx) : option sreq :=
  match x with
  | L [A p; A bd; fr; A st; A vo; A no; A hd; A od; A gp; jn; A wa; A uu; A lb; ex] =>
      match optb_of_sx fr, jreq_of_sx jn, optb_of_sx ex with
      | Some fr', Some jn', Some ex' =>
          Some {| r_port := if N.eqb p 0 then PPy else PJs; r_bound := b_of bd; r_from := fr'; r_stmt := stmt_of st;
                  r_vars_ok := b_of vo; r_names_ok := b_of no; r_hdr := b_of hd; r_order := b_of od; r_group := b_of gp;
                  r_join := jn'; r_where_assign := b_of wa; r_upd_unknown := b_of uu; r_limit_bad := b_of lb;
                  r_except := ex' |}
      | _, _, _ => None
      end
  | _ => None
  end.

Definition sx_of_sev (e : sev) : sx :=
  A (match e with ELookA => 1 | EVarsA => 2 | ELookB => 3 | EVarsB => 4 | EPullB => 5 | ESetHeader => 6 end)%N.

Definition sx_of_class2 (c : eclass) : sx :=
  A (match c with CParsing => 0 | CRuntime => 1 | CIO => 2 | COther => 3 | CUnmodelled => 4 end)%N.

Definition ep_static2 (x : sx) : sx :=
  match sreq_of_sx x with
  | None => ERR
  | Some r =>
      let '(tr, e) := static2 r in
      L [sx_of_list sx_of_sev tr;
         sx_of_option (fun e => L [sx_of_class2 (fst (fst e)); A (snd (fst e)); sx_of_nat (snd e)]) e]
  end.

Definition dispatch_static2 (code : N) (x : sx) : option sx :=
  match code with 330%N => Some (ep_static2 x) | _ => None end.
