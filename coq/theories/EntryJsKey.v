(* EntryJsKey.v - entry points of JsKey.v and Utf16.v (codes 560-561).
   Encoding of a JSON value [jv] as sx:
     JNull   = L [A 0]            JBool b = L [A 1; A 0|1]        JInt z = L [A 2; L [A sign; A magnitude]]   (sx_of_Z)
     JStr s  = L [A 3; L units]   JArr l  = L [A 4; L elements]
     JNaN    = L [A 5]            JUndef  = L [A 6]               JInf   = L [A 7]
   560: js_stringify v                                  arg = the encoded value        result = L code units of the text
   561: arg = L [s; t], two lists of code points        result = L [A (units_ltb (utf16_encode s) (utf16_encode t));
                                                                    A (str_ltb s t); L (utf16_encode s); L (utf16_encode t)] *)
From RBQL Require Import Base Sx Value JsKey Utf16.
Local Open Scope N_scope.

Fixpoint jv_of_sx (x : sx) : option jv :=
  match x with
  | L [A 0] => Some JNull
  | L [A 1; A b] => Some (JBool (negb (N.eqb b 0)))
  | L [A 2; z] => option_map JInt (Z_of_sx z)
  | L [A 3; s] => option_map JStr (str_of_sx s)
  | L [A 4; L l] =>
      option_map JArr ((fix go (l : list sx) : option (list jv) :=
                          match l with
                          | [] => Some []
                          | h :: t => match jv_of_sx h, go t with Some a, Some r => Some (a :: r) | _, _ => None end
                          end) l)
  | L [A 5] => Some JNaN
  | L [A 6] => Some JUndef
  | L [A 7] => Some JInf
  | _ => None
  end.

Definition ep_stringify (x : sx) : sx :=
  match jv_of_sx x with
  | Some v => sx_of_str (js_stringify v)
  | None => ERR
  end.

Definition ep_order (x : sx) : sx :=
  match x with
  | L [s; t] =>
      match str_of_sx s, str_of_sx t with
      | Some a, Some b =>
          L [sx_of_bool (units_ltb (utf16_encode a) (utf16_encode b)); sx_of_bool (str_ltb a b);
             sx_of_str (utf16_encode a); sx_of_str (utf16_encode b)]
      | _, _ => ERR
      end
  | _ => ERR
  end.

Definition dispatch_jskey (code : N) (x : sx) : option sx :=
  match code with
  | 560 => Some (ep_stringify x)
  | 561 => Some (ep_order x)
  | _ => None
  end.
